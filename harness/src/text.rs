//! Independent printer: renders an abstract model as ROOC source text, with random spelling
//! (aliases, implicit multiplication, redundant parentheses, named constants). It never consults rooc's
//! own printers; compound operands are always parenthesised unless the documented grammar makes the
//! grouping unambiguous, so the TEXT denotes exactly the tree it was printed from.
use crate::rng::Rng;
use rooc::model_transformer::{Constraint, Exp, Model};
use rooc::{BinOp, Comparison, OptimizationType, UnOp, VariableType};

/// `minimal_parens`: operands are left unparenthesised where the DOCUMENTED precedence / associativity of the language makes
/// the grouping unambiguous (table `level` below, written from the language reference, not from rooc's parser tables)
pub struct Spelling { pub aliases: bool, pub implicit_mul: bool, pub redundant_parens: bool, pub named_consts: bool, pub minimal_parens: bool }

pub struct Printer<'a> { pub r: &'a mut Rng, pub sp: Spelling, pub consts: Vec<(String, f64)> }

fn lit(v: f64) -> String {
    // non-negative finite literals only (the grammar has no signed literal)
    if v.fract() == 0.0 && v.abs() < 1e15 { format!("{}", v as i64) } else { format!("{}", v) }
}

#[derive(Clone, Copy, PartialEq)]
enum Assoc { Left, Right }
/// (precedence level, associativity, operator id, is-logic) of a binary node, lowest binding first:
/// `implies` (right-associative) and `iff` (left) < `or` < `xor` < `and` < `+ -` < `* /`
fn level(e: &Exp) -> Option<(u8, Assoc, u8, bool)> {
    match e {
        Exp::Implies(..) | Exp::BinOp(BinOp::Implies, ..) => Some((1, Assoc::Right, 0, true)),
        Exp::Iff(..) | Exp::BinOp(BinOp::Iff, ..) => Some((1, Assoc::Left, 1, true)),
        Exp::BinOp(BinOp::Or, ..) => Some((2, Assoc::Left, 2, true)),
        Exp::Xor(..) | Exp::BinOp(BinOp::Xor, ..) => Some((3, Assoc::Left, 3, true)),
        Exp::BinOp(BinOp::And, ..) => Some((4, Assoc::Left, 4, true)),
        Exp::BinOp(BinOp::Add, ..) => Some((6, Assoc::Left, 5, false)),
        Exp::BinOp(BinOp::Sub, ..) => Some((6, Assoc::Left, 6, false)),
        Exp::BinOp(BinOp::Mul, ..) => Some((7, Assoc::Left, 7, false)),
        Exp::BinOp(BinOp::Div, ..) => Some((7, Assoc::Left, 8, false)),
        _ => None,
    }
}

impl<'a> Printer<'a> {
    /// an operand of the binary node `parent`: bare when the documented grammar groups it the same way
    fn operand(&mut self, parent: &Exp, child: &Exp, right: bool, logic: bool) -> String {
        if self.sp.minimal_parens && self.r.chance(2, 3) {
            if let (Some((pp, pa, pid, pl)), Some((cp, _, cid, cl))) = (level(parent), level(child)) {
                let tighter = cp > pp && pl == cl;
                let same_level = cp == pp && (pid == cid || pp != 1) && ((pa == Assoc::Left && !right) || (pa == Assoc::Right && right));
                if tighter || same_level { return self.exp(child); }
            }
        }
        if logic { self.batom(child) } else { self.atom(child) }
    }
    fn number(&mut self, v: f64) -> String {
        if v < 0.0 || v.is_sign_negative() { return format!("(0 - {})", self.number(-v)); }
        if self.sp.named_consts && self.r.chance(1, 4) {
            if let Some((n, _)) = self.consts.iter().find(|(_, c)| *c == v) { return n.clone(); }
            if self.consts.len() < 4 {
                let n = format!("k{}", self.consts.len());
                self.consts.push((n.clone(), v));
                return n;
            }
        }
        lit(v)
    }
    fn atom(&mut self, e: &Exp) -> String {
        // an operand that is safe in any context
        match e {
            Exp::Number(v) => self.number(*v),
            Exp::Variable(n) => n.clone(),
            Exp::Abs(_) | Exp::Min(_) | Exp::Max(_) => self.exp(e),
            _ => format!("({})", self.exp(e)),
        }
    }
    /// operand of a logic operator: 0/1 constants are spelled `false`/`true` (the type checker rejects
    /// a Boolean mixed with an Integer literal under a logic operator)
    fn batom(&mut self, e: &Exp) -> String {
        match e {
            Exp::Number(v) if *v == 1.0 => "true".to_string(),
            Exp::Number(v) if *v == 0.0 => "false".to_string(),
            _ => self.atom(e),
        }
    }
    fn lbin(&mut self, parent: &Exp, op: &str, a: &Exp, b: &Exp) -> String {
        let l = self.operand(parent, a, false, true);
        let r = self.operand(parent, b, true, true);
        let s = format!("{} {} {}", l, op, r);
        self.wrap(s)
    }
    fn wrap(&mut self, s: String) -> String { if self.sp.redundant_parens && self.r.chance(1, 6) { format!("({})", s) } else { s } }
    fn bin(&mut self, parent: &Exp, op: &str, a: &Exp, b: &Exp) -> String {
        let l = self.operand(parent, a, false, false);
        let r = self.operand(parent, b, true, false);
        let s = format!("{} {} {}", l, op, r);
        self.wrap(s)
    }
    fn nary(&mut self, op: &str, unit: &str, es: &[Exp]) -> String {
        if es.is_empty() { return unit.to_string(); }
        if es.len() == 1 { return format!("({} {} {})", self.batom(&es[0]), op, unit_of(op)); }
        // left-nested, every step parenthesised
        let mut s = self.batom(&es[0]);
        for e in &es[1..] { let r = self.batom(e); s = format!("({} {} {})", s, op, r); }
        s
    }
    pub fn exp(&mut self, e: &Exp) -> String {
        let al = self.sp.aliases;
        match e {
            Exp::Number(v) => self.number(*v),
            Exp::Variable(n) => n.clone(),
            Exp::Abs(x) => format!("abs{{ {} }}", self.exp(x)),
            Exp::Min(es) => format!("min{{ {} }}", es.iter().map(|x| self.exp(x)).collect::<Vec<_>>().join(", ")),
            Exp::Max(es) => format!("max{{ {} }}", es.iter().map(|x| self.exp(x)).collect::<Vec<_>>().join(", ")),
            Exp::And(es) => { let op = if al && self.r.chance(1, 2) { "&&" } else { "and" }; self.nary(op, "true", es) }
            Exp::Or(es) => { let op = if al && self.r.chance(1, 2) { "||" } else { "or" }; self.nary(op, "false", es) }
            Exp::Not(x) | Exp::UnOp(UnOp::Not, x) => { let a = self.batom(x); if al && self.r.chance(1, 2) { format!("!{}", a) } else { format!("not {}", a) } }
            Exp::Xor(a, b) | Exp::BinOp(BinOp::Xor, a, b) => self.lbin(e, "xor", a, b),
            Exp::Implies(a, b) | Exp::BinOp(BinOp::Implies, a, b) => { let op = if al && self.r.chance(1, 2) { "->" } else { "implies" }; self.lbin(e, op, a, b) }
            Exp::Iff(a, b) | Exp::BinOp(BinOp::Iff, a, b) => { let op = if al && self.r.chance(1, 2) { "<->" } else { "iff" }; self.lbin(e, op, a, b) }
            Exp::BinOp(BinOp::And, a, b) => { let op = if al && self.r.chance(1, 2) { "&&" } else { "and" }; self.lbin(e, op, a, b) }
            Exp::BinOp(BinOp::Or, a, b) => { let op = if al && self.r.chance(1, 2) { "||" } else { "or" }; self.lbin(e, op, a, b) }
            Exp::BinOp(BinOp::Add, a, b) => self.bin(e, "+", a, b),
            Exp::BinOp(BinOp::Sub, a, b) => self.bin(e, "-", a, b),
            Exp::BinOp(BinOp::Div, a, b) => self.bin(e, "/", a, b),
            Exp::BinOp(BinOp::Mul, a, b) => {
                if self.sp.implicit_mul && self.r.chance(1, 3) {
                    if let Exp::Number(v) = &**a {
                        if *v >= 0.0 && !v.is_sign_negative() {
                            return match &**b {
                                Exp::Variable(n) => format!("{}{}", lit(*v), n),
                                other => format!("{}({})", lit(*v), self.exp(other)),
                            };
                        }
                    }
                }
                self.bin(e, "*", a, b)
            }
            Exp::UnOp(UnOp::Neg, x) => format!("-{}", self.atom(x)),
        }
    }
    pub fn constraint(&mut self, c: &Constraint) -> String {
        let name = if c.name().is_empty() { String::new() } else { format!("{}: ", c.name()) };
        if c.is_logic_assertion() {
            let body = match c.lhs() { Exp::Number(_) => self.batom(c.lhs()), e => self.exp(e) };
            format!("{}{}", name, body)
        } else {
            let cmp = match c.constraint_type() { Comparison::LessOrEqual => "<=", Comparison::GreaterOrEqual => ">=", Comparison::Equal => "=", Comparison::Less => "<", Comparison::Greater => ">" };
            format!("{}{} {} {}", name, self.exp(c.lhs()), cmp, self.exp(c.rhs()))
        }
    }
    pub fn program(&mut self, m: &Model) -> String {
        let obj = match m.objective().objective_type {
            OptimizationType::Min => format!("min {}", self.exp(&m.objective().rhs)),
            OptimizationType::Max => format!("max {}", self.exp(&m.objective().rhs)),
            OptimizationType::Satisfy => "solve".to_string(),
        };
        let cons: Vec<String> = m.constraints().iter().map(|c| format!("    {}", self.constraint(c))).collect();
        let mut s = format!("{}\ns.t.\n{}", obj, cons.join("\n"));
        if !self.consts.is_empty() {
            s.push_str("\nwhere");
            for (n, v) in &self.consts { s.push_str(&format!("\n    let {} = {}", n, lit(*v))); }
        }
        if !m.domain().is_empty() {
            s.push_str("\ndefine");
            for (n, d) in m.domain() {
                let t = match d.get_type() {
                    VariableType::Boolean => "Boolean".to_string(),
                    VariableType::IntegerRange(a, b) => format!("IntegerRange({}, {})", sgn(*a as f64), sgn(*b as f64)),
                    VariableType::Real(a, b) => format!("Real({}, {})", sgn(*a), sgn(*b)),
                    VariableType::NonNegativeReal(a, b) => format!("NonNegativeReal({}, {})", sgn(*a), sgn(*b)),
                };
                s.push_str(&format!("\n    {} as {}", n, t));
            }
        }
        s
    }
}
fn unit_of(op: &str) -> &'static str { if op == "and" || op == "&&" { "true" } else { "false" } }
fn sgn(v: f64) -> String { if v < 0.0 { format!("0 - {}", lit(-v)) } else { lit(v) } }
