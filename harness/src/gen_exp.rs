//! Generators for `rooc::Exp` trees.
use crate::rng::Rng;
use rooc::model_transformer::Exp;
use rooc::{BinOp, UnOp};

pub const BINOPS: [BinOp; 9] = [BinOp::Add, BinOp::Sub, BinOp::Mul, BinOp::Div, BinOp::And, BinOp::Or, BinOp::Xor, BinOp::Implies, BinOp::Iff];
pub const ARITH: [BinOp; 4] = [BinOp::Add, BinOp::Sub, BinOp::Mul, BinOp::Div];

#[derive(Clone)]
pub struct ExpCfg {
    pub vars: Vec<String>,
    pub logic: bool,
    pub minmax: bool,
    pub special: bool, // -0.0, inf, nan, huge
}

pub fn small_number(r: &mut Rng, special: bool) -> f64 {
    match r.below(if special { 12 } else { 9 }) {
        0 | 1 => 0.0,
        2 | 3 => 1.0,
        4 => 2.0,
        5 => -1.0,
        6 => r.range(-5, 5) as f64,
        7 => r.range(-8, 8) as f64 / 4.0,        // dyadic
        8 => r.range(-30, 30) as f64 / 10.0,     // decimal (inexact)
        9 => -0.0,
        10 => *r.pick(&[f64::INFINITY, f64::NEG_INFINITY, 1e300, -1e300, 5e-324]),
        _ => *r.pick(&[1e-9, 1e-5, 2e-5, 1.0 + 1e-9, 1e9, -1e9]),
    }
}

pub fn leaf(r: &mut Rng, c: &ExpCfg) -> Exp {
    if !c.vars.is_empty() && r.chance(1, 2) { Exp::Variable(r.pick(&c.vars).clone()) } else { Exp::Number(small_number(r, c.special)) }
}

pub fn exp(r: &mut Rng, c: &ExpCfg, depth: u32) -> Exp {
    if depth == 0 || r.chance(1, 5) { return leaf(r, c); }
    let d = depth - 1;
    let k = r.below(20);
    match k {
        0..=7 => {
            let op = if c.logic && r.chance(1, 3) { *r.pick(&BINOPS) } else { *r.pick(&ARITH) };
            Exp::BinOp(op, Box::new(exp(r, c, d)), Box::new(exp(r, c, d)))
        }
        8 | 9 => Exp::UnOp(if c.logic && r.chance(1, 3) { UnOp::Not } else { UnOp::Neg }, Box::new(exp(r, c, d))),
        10 => Exp::Abs(Box::new(exp(r, c, d))),
        11 | 12 if c.minmax => {
            let n = r.below(4);
            let es = (0..n).map(|_| exp(r, c, d)).collect();
            if r.chance(1, 2) { Exp::Min(es) } else { Exp::Max(es) }
        }
        13 | 14 if c.logic => {
            let n = r.below(4);
            let es = (0..n).map(|_| exp(r, c, d)).collect();
            if r.chance(1, 2) { Exp::And(es) } else { Exp::Or(es) }
        }
        15 if c.logic => Exp::Not(Box::new(exp(r, c, d))),
        16 if c.logic => Exp::Xor(Box::new(exp(r, c, d)), Box::new(exp(r, c, d))),
        17 if c.logic => Exp::Implies(Box::new(exp(r, c, d)), Box::new(exp(r, c, d))),
        18 if c.logic => Exp::Iff(Box::new(exp(r, c, d)), Box::new(exp(r, c, d))),
        _ => Exp::BinOp(*r.pick(&ARITH), Box::new(exp(r, c, d)), Box::new(exp(r, c, d))),
    }
}

/// every tree with at most `size` nodes over the given leaves and all operators (n-ary nodes with 0..=2 children)
pub fn enumerate(size: usize, leaves: &[Exp]) -> Vec<Exp> {
    let mut by: Vec<Vec<Exp>> = vec![vec![]; size + 1];
    if size >= 1 { by[1] = leaves.to_vec(); }
    for s in 2..=size {
        let mut out = vec![];
        // unary
        for e in by[s - 1].clone() {
            out.push(Exp::UnOp(UnOp::Neg, Box::new(e.clone())));
            out.push(Exp::UnOp(UnOp::Not, Box::new(e.clone())));
            out.push(Exp::Abs(Box::new(e.clone())));
            out.push(Exp::Not(Box::new(e.clone())));
            out.push(Exp::Min(vec![e.clone()]));
            out.push(Exp::Max(vec![e.clone()]));
            out.push(Exp::And(vec![e.clone()]));
            out.push(Exp::Or(vec![e.clone()]));
        }
        if s == 2 { /* nullary n-ary nodes have size 1 but are not leaves */ }
        for ls in 1..s - 1 {
            let rs = s - 1 - ls;
            for a in &by[ls] { for b in &by[rs] {
                for op in BINOPS { out.push(Exp::BinOp(op, Box::new(a.clone()), Box::new(b.clone()))); }
                out.push(Exp::Xor(Box::new(a.clone()), Box::new(b.clone())));
                out.push(Exp::Implies(Box::new(a.clone()), Box::new(b.clone())));
                out.push(Exp::Iff(Box::new(a.clone()), Box::new(b.clone())));
                out.push(Exp::Min(vec![a.clone(), b.clone()]));
                out.push(Exp::Max(vec![a.clone(), b.clone()]));
                out.push(Exp::And(vec![a.clone(), b.clone()]));
                out.push(Exp::Or(vec![a.clone(), b.clone()]));
            } }
        }
        by[s] = out;
    }
    let mut all = vec![Exp::Min(vec![]), Exp::Max(vec![]), Exp::And(vec![]), Exp::Or(vec![])];
    for v in by { all.extend(v); }
    all
}
