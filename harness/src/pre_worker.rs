//! Watchdog + worker for whole-pipeline runs (C18).
//!
//! `roocverif pre-worker` (hidden subcommand) reads one JSON request per line
//! (`{"src": "...", "solve": true}`), runs every public stage of the compiler on the source under
//! `catch_unwind` — parse → format → type_check → token_map → transform → display → linearize →
//! standardise → solve — renders every reported error against the source, and answers one JSON line.
//! Before each stage it prints `@<stage>` so that the parent knows where a hang / abort happened.
//!
//! The parent (`Pool`) runs the worker under `ulimit -v` (address-space cap: an allocation beyond it
//! aborts the CHILD, never the harness) and a wall-clock limit per input; a worker that is killed or
//! dies is restarted for the next input.
use indexmap::IndexMap;
use rooc::{Linearizer, RoocParser};
use serde::{Deserialize, Serialize};
use std::io::{BufRead, BufReader, Write};
use std::panic::{catch_unwind, AssertUnwindSafe};
use std::process::{Child, ChildStdin, Command, Stdio};
use std::sync::mpsc::{channel, Receiver, RecvTimeoutError};
use std::sync::{Arc, Mutex};
use std::time::{Duration, Instant};

pub fn panic_text(p: &Box<dyn std::any::Any + Send>) -> String {
    if let Some(s) = p.downcast_ref::<&str>() { s.to_string() } else if let Some(s) = p.downcast_ref::<String>() { s.clone() } else { "<non-string panic>".into() }
}

#[derive(Serialize, Deserialize, Clone, Debug, Default)]
pub struct StageRes {
    pub stage: String,
    /// "ok" | "err:<Variant>" | "panic" | "render-failed" | "skipped"
    pub outcome: String,
    pub detail: String,
    pub ms: u64,
}
#[derive(Serialize, Deserialize, Clone, Debug, Default)]
pub struct WorkerAnswer { pub stages: Vec<StageRes>, pub vars: usize, pub rows: usize }
#[derive(Serialize, Deserialize, Clone, Debug)]
pub struct WorkerReq { pub src: String, pub solve: bool }

// ------------------------------------------------------------------------------------ worker side
static LAST_PANIC: Mutex<Option<(String, String)>> = Mutex::new(None);

fn frame_names(bt: &str) -> Vec<String> {
    // lines look like `   3: <rooc::… as rooc::…::ApplyOp>::apply_unary_op` / `  4: rooc::parser::…::as_primitive`
    let mut out: Vec<String> = vec![];
    for l in bt.lines() {
        let l = l.trim();
        let Some(pos) = l.find(": ") else { continue };
        if !l[..pos].chars().all(|c| c.is_ascii_digit()) { continue; }
        let f = &l[pos + 2..];
        if !(f.contains("rooc::")) || f.contains("roocverif") { continue; }
        let mut name = f.rsplit("::").next().unwrap_or(f).to_string();
        if name.starts_with('h') && name.len() == 17 && name[1..].chars().all(|c| c.is_ascii_hexdigit()) {
            name = f.rsplit("::").nth(1).unwrap_or(f).to_string();
        }
        if name.contains("{{closure}}") { continue; }
        if out.last() != Some(&name) { out.push(name); }
        if out.len() >= 2 { break; }
    }
    out
}

fn install_hook() {
    std::panic::set_hook(Box::new(|info| {
        let msg = if let Some(s) = info.payload().downcast_ref::<&str>() { s.to_string() } else if let Some(s) = info.payload().downcast_ref::<String>() { s.clone() } else { "<non-string panic>".into() };
        let loc = info.location().map(|l| { let f = l.file(); let f = f.rsplit('/').take(2).collect::<Vec<_>>().into_iter().rev().collect::<Vec<_>>().join("/"); format!("{}:{}", f, l.line()) }).unwrap_or_default();
        let bt = std::backtrace::Backtrace::force_capture().to_string();
        let frames = frame_names(&bt).join("<");
        *LAST_PANIC.lock().unwrap() = Some((msg, format!("{}@{}", loc, frames)));
    }));
}

fn variant_of(dbg: &str) -> String { dbg.split(|c: char| !c.is_alphanumeric()).find(|s| !s.is_empty()).unwrap_or("").to_string() }

struct Run { out: Vec<StageRes>, stdout: std::io::Stdout }
impl Run {
    /// runs `f` as stage `name`; `f` returns Ok(detail) / Err((outcome, detail))
    fn stage<T>(&mut self, name: &str, f: impl FnOnce() -> Result<(T, String), (String, String)>) -> Option<T> {
        { let mut o = self.stdout.lock(); let _ = writeln!(o, "@{}", name); let _ = o.flush(); }
        let t0 = Instant::now();
        *LAST_PANIC.lock().unwrap() = None;
        let r = catch_unwind(AssertUnwindSafe(f));
        let ms = t0.elapsed().as_millis() as u64;
        match r {
            Ok(Ok((v, d))) => { self.out.push(StageRes { stage: name.into(), outcome: "ok".into(), detail: d, ms }); Some(v) }
            Ok(Err((o, d))) => { self.out.push(StageRes { stage: name.into(), outcome: o, detail: d, ms }); None }
            Err(p) => {
                let (msg, at) = LAST_PANIC.lock().unwrap().take().unwrap_or((panic_text(&p), String::new()));
                self.out.push(StageRes { stage: name.into(), outcome: "panic".into(), detail: format!("{} || {}", msg, at), ms });
                None
            }
        }
    }
}

fn cut(s: &str) -> String { s.chars().take(400).collect() }

pub fn run_pipeline(src: &str, solve: bool) -> WorkerAnswer {
    let mut run = Run { out: vec![], stdout: std::io::stdout() };
    let mut ans = WorkerAnswer::default();
    let parser = RoocParser::new(src.to_string());
    let t0 = Instant::now();
    // ---- parse (+ rendering of the parse error)
    let pre = run.stage("parse", || match parser.parse() {
        Ok(p) => Ok((p, String::new())),
        Err(e) => {
            let a = e.to_string_from_source(src);
            let b = e.to_error_string();
            let c = format!("{:?} {}", e, e);
            Err((format!("err:{}", variant_of(&b.trim_start_matches('['))), cut(&format!("{} | {} | {}", a, b, c.len()))))
        }
    });
    // the String-returning wrappers (which re-parse the text) are skipped for inputs whose PARSE is expensive; decided
    // from the text alone (nesting depth), never from a clock, so that the reported stages do not depend on machine load
    let (pd, bd, _) = crate::props::c18::depths(src);
    let slow_parse = pd >= 8 || bd >= 12;
    let _ = t0;
    let Some(pre) = pre else { ans.stages = run.out; return ans };
    // ---- format
    run.stage("format", || {
        let s = if slow_parse { pre.to_string() } else { match parser.format() { Ok(s) => s, Err(e) => return Err(("err:format-reparse".into(), cut(&e.to_string_from_source(src)))) } };
        Ok(((), format!("{} bytes", s.len())))
    });
    // ---- type check (error object rendered against the source) + the String-returning wrapper
    run.stage("type_check", || match pre.create_type_checker(&vec![], &IndexMap::new()) {
        Ok(()) => { if !slow_parse { let _ = parser.type_check(&vec![], &IndexMap::new()); } Ok(((), String::new())) }
        Err(e) => {
            let v = variant_of(&format!("{:?}", e.base_error()));
            let traced = e.traced_error();
            let _ = (e.to_string(), e.origin_span());
            if !slow_parse { let _ = parser.type_check(&vec![], &IndexMap::new()); }
            match e.trace_from_source(src) {
                Ok(s) => Err((format!("err:{}", v), cut(&s))),
                Err(why) => Err(("render-failed".into(), cut(&format!("{} ({}) {}", why, v, traced)))),
            }
        }
    });
    run.stage("token_map", || { let m = pre.create_token_type_map(&vec![], &IndexMap::new()); Ok(((), format!("{} tokens", m.len()))) });
    // ---- transform
    let model = run.stage("transform", || match pre.clone().transform(vec![], &IndexMap::new()) {
        Ok(m) => { if !slow_parse { let _ = parser.parse_and_transform(vec![], &IndexMap::new()); } Ok((m, String::new())) }
        Err(e) => {
            let v = variant_of(&format!("{:?}", e.base_error()));
            let traced = e.traced_error();
            let _ = (e.to_string(), e.origin_span());
            if !slow_parse { let _ = parser.parse_and_transform(vec![], &IndexMap::new()); }
            match e.trace_from_source(src) {
                Ok(s) => Err((format!("err:{}", v), cut(&s))),
                Err(why) => Err(("render-failed".into(), cut(&format!("{} ({}) {}", why, v, traced)))),
            }
        }
    });
    let Some(model) = model else { ans.stages = run.out; return ans };
    run.stage("display", || { let s = model.to_string(); Ok(((), format!("{} bytes", s.len()))) });
    // ---- linearize
    let lin = run.stage("linearize", || match Linearizer::linearize(model.clone()) {
        Ok(l) => Ok((l, String::new())),
        Err(e) => { let s = e.to_string(); Err((format!("err:{}", variant_of(&format!("{:?}", e))), cut(&s))) }
    });
    let Some(lin) = lin else { ans.stages = run.out; return ans };
    ans.vars = lin.variables().len();
    ans.rows = lin.constraints().len();
    run.stage("display_linear", || { let s = format!("{}\n{}", lin, lin.to_lp_format()); Ok(((), format!("{} bytes", s.len()))) });
    // ---- standardise
    run.stage("standardise", || match lin.clone().into_standard_form() {
        Ok(_) => Ok(((), String::new())),
        Err(e) => { let s = e.to_string(); Err((format!("err:{}", variant_of(&format!("{:?}", e))), cut(&s))) }
    });
    // ---- solve (tiny models only)
    if solve && ans.vars <= 8 && ans.rows <= 12 {
        run.stage("solve", || match rooc::auto_solver(&lin) {
            Ok(s) => { let t = s.to_string(); Ok(((), format!("{} bytes", t.len()))) }
            Err(e) => { let s = e.to_string(); Err((format!("err:{}", variant_of(&format!("{:?}", e))), cut(&s))) }
        });
        let all_real = lin.domain().values().all(|d| matches!(d.get_type(), rooc::VariableType::Real(..) | rooc::VariableType::NonNegativeReal(..)));
        if all_real {
            run.stage("solve_simplex", || match rooc::solve_real_lp_problem_slow_simplex(&lin, 1000) {
                Ok(s) => { let t = s.to_string(); Ok(((), format!("{} bytes", t.len()))) }
                Err(e) => { let s = e.to_string(); Err((format!("err:{}", variant_of(&format!("{:?}", e))), cut(&s))) }
            });
        }
    } else {
        run.out.push(StageRes { stage: "solve".into(), outcome: "skipped".into(), detail: String::new(), ms: 0 });
    }
    ans.stages = run.out;
    ans
}

fn worker_main() {
    install_hook();
    let stdin = std::io::stdin();
    for line in stdin.lock().lines() {
        let Ok(line) = line else { break };
        if line.trim().is_empty() { continue; }
        let req: WorkerReq = match serde_json::from_str(&line) { Ok(r) => r, Err(_) => { println!("{{\"stages\":[],\"vars\":0,\"rows\":0}}"); continue; } };
        let ans = run_pipeline(&req.src, req.solve);
        let mut o = std::io::stdout().lock();
        let _ = writeln!(o, "{}", serde_json::to_string(&ans).unwrap());
        let _ = o.flush();
    }
}

pub fn dispatch(args: &[String]) -> bool {
    if args.len() >= 2 && args[1] == "pre-worker" { worker_main(); return true; }
    if args.len() >= 3 && args[1] == "pre-run" {
        // `roocverif pre-run file.rooc [timeout_ms]`: one input through the watchdog, printed
        let src = std::fs::read_to_string(&args[2]).expect("read");
        let ms = args.get(3).and_then(|s| s.parse().ok()).unwrap_or(5000);
        let mut pool = Pool::new(Duration::from_millis(ms), 4 << 20);
        let r = pool.run(&src, true);
        println!("{}", serde_json::to_string_pretty(&r).unwrap());
        return true;
    }
    if args.len() >= 2 && args[1] == "reflect-ops" { crate::pre_reflect::dump(); return true; }
    false
}

// ------------------------------------------------------------------------------------ parent side
/// user + system CPU time of a process (Linux /proc/<pid>/stat fields 14, 15; clock ticks of 1/100 s);
/// unknown → "infinitely much", i.e. the plain wall-clock rule applies
fn cpu_time(pid: u32) -> Duration {
    let stat = match std::fs::read_to_string(format!("/proc/{}/stat", pid)) { Ok(s) => s, Err(_) => return Duration::MAX };
    let rest = match stat.rfind(')') { Some(i) => &stat[i + 1..], None => return Duration::MAX };
    let f: Vec<&str> = rest.split_whitespace().collect();
    match (f.get(11).and_then(|x| x.parse::<u64>().ok()), f.get(12).and_then(|x| x.parse::<u64>().ok())) {
        (Some(u), Some(s)) => Duration::from_millis((u + s) * 10),
        _ => Duration::MAX,
    }
}

#[derive(Serialize, Clone, Debug, Default)]
pub struct RunResult {
    pub stages: Vec<StageRes>,
    /// Some(("hang"|"died", stage, detail))
    pub fatal: Option<(String, String, String)>,
    pub vars: usize,
    pub rows: usize,
    pub wall_ms: u64,
}

pub struct Pool {
    child: Option<(Child, ChildStdin, Receiver<String>, Arc<Mutex<String>>)>,
    timeout: Duration,
    mem_kb: u64,
    pub restarts: usize,
}

impl Pool {
    pub fn new(timeout: Duration, mem_kb: u64) -> Self { Pool { child: None, timeout, mem_kb, restarts: 0 } }

    fn spawn(&mut self) {
        let exe = std::env::current_exe().expect("current_exe");
        let mut cmd = Command::new("sh");
        cmd.arg("-c").arg(format!("ulimit -v {}; exec \"$0\" pre-worker", self.mem_kb)).arg(exe)
            .env("RUST_BACKTRACE", "0")
            .stdin(Stdio::piped()).stdout(Stdio::piped()).stderr(Stdio::piped());
        let mut child = cmd.spawn().expect("spawn worker");
        let stdin = child.stdin.take().unwrap();
        let stdout = child.stdout.take().unwrap();
        let stderr = child.stderr.take().unwrap();
        let (tx, rx) = channel();
        std::thread::spawn(move || { for l in BufReader::new(stdout).lines() { match l { Ok(l) => { if tx.send(l).is_err() { break; } } Err(_) => break } } });
        let errbuf = Arc::new(Mutex::new(String::new()));
        let eb = errbuf.clone();
        std::thread::spawn(move || { for l in BufReader::new(stderr).lines() { if let Ok(l) = l { let mut b = eb.lock().unwrap(); if b.len() < 4000 { b.push_str(&l); b.push('\n'); } } } });
        self.child = Some((child, stdin, rx, errbuf));
        self.restarts += 1;
    }

    fn kill(&mut self) {
        if let Some((mut c, stdin, _rx, _e)) = self.child.take() { drop(stdin); let _ = c.kill(); let _ = c.wait(); }
    }

    pub fn run(&mut self, src: &str, solve: bool) -> RunResult {
        if self.child.is_none() { self.spawn(); }
        let t0 = Instant::now();
        let req = serde_json::to_string(&WorkerReq { src: src.to_string(), solve }).unwrap();
        let mut res = RunResult::default();
        let mut stage = String::from("startup");
        {
            let (_, stdin, _, _) = self.child.as_mut().unwrap();
            if writeln!(stdin, "{}", req).and_then(|_| stdin.flush()).is_err() {
                // worker already dead (previous input killed it after answering?) – restart once
                self.kill(); self.spawn();
                let (_, stdin, _, _) = self.child.as_mut().unwrap();
                let _ = writeln!(stdin, "{}", req); let _ = stdin.flush();
            }
        }
        let mut deadline = t0 + self.timeout;
        // the worker is started through `sh -c "ulimit …; exec …"`: the pid is the worker's after the exec
        let pid = self.child.as_ref().map(|c| c.0.id()).unwrap_or(0);
        let cpu0 = cpu_time(pid);
        let mut extensions = 0;
        loop {
            let now = Instant::now();
            let left = if deadline > now { deadline - now } else { Duration::from_millis(0) };
            let got = { let (_, _, rx, _) = self.child.as_ref().unwrap(); rx.recv_timeout(left) };
            match got {
                Ok(line) => {
                    if let Some(s) = line.strip_prefix('@') { stage = s.to_string(); continue; }
                    if line.starts_with('{') {
                        if let Ok(a) = serde_json::from_str::<WorkerAnswer>(&line) { res.stages = a.stages; res.vars = a.vars; res.rows = a.rows; break; }
                    }
                }
                Err(RecvTimeoutError::Timeout) => {
                    // a hang is a worker that BURNED the limit: on a loaded machine the wall clock runs out first, so the
                    // wait is extended while the consumed CPU time stays below 80 % of the limit (at most 20 times)
                    let now_cpu = cpu_time(pid);
                    let used = if cpu0 == Duration::MAX || now_cpu == Duration::MAX { Duration::MAX } else { now_cpu.checked_sub(cpu0).unwrap_or(Duration::MAX) };
                    if used < self.timeout.mul_f64(0.8) && extensions < 20 {
                        extensions += 1;
                        deadline = Instant::now() + (self.timeout - used).max(Duration::from_millis(200));
                        continue;
                    }
                    res.fatal = Some(("hang".into(), stage.clone(), format!("no answer within {} ms of CPU time", self.timeout.as_millis())));
                    self.kill();
                    break;
                }
                Err(RecvTimeoutError::Disconnected) => {
                    let (status, err) = {
                        let (c, _, _, e) = self.child.as_mut().unwrap();
                        let st = c.wait().ok();
                        std::thread::sleep(Duration::from_millis(20));
                        (st, e.lock().unwrap().clone())
                    };
                    let how = match status {
                        Some(st) => { use std::os::unix::process::ExitStatusExt; match st.signal() { Some(sig) => format!("signal {}", sig), None => format!("exit {}", st.code().unwrap_or(-1)) } }
                        None => "unknown".into(),
                    };
                    res.fatal = Some(("died".into(), stage.clone(), format!("{}; stderr: {}", how, err.chars().take(300).collect::<String>())));
                    self.kill();
                    break;
                }
            }
        }
        res.wall_ms = t0.elapsed().as_millis() as u64;
        res
    }
}
impl Drop for Pool { fn drop(&mut self) { self.kill(); } }
