//! Watchdog + worker for whole-pipeline runs (C18).
pub fn panic_text(p: &Box<dyn std::any::Any + Send>) -> String {
    if let Some(s) = p.downcast_ref::<&str>() { s.to_string() } else if let Some(s) = p.downcast_ref::<String>() { s.clone() } else { "<non-string panic>".into() }
}
pub fn dispatch(_args: &[String]) -> bool { false }
