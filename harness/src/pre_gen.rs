//! Source-level program AST, printer and generators for the front half of the compiler
//! (C06 expansion, C18 totality, C19 type soundness).  The AST is the harness's own: programs are
//! generated as trees, printed to rooc source text, perturbed position by position (C19), mutated
//! token-wise (C18) and unrolled by the independent reference unroller (`pre_unroll.rs`, C06).
use crate::rng::Rng;

/// `Rng::new(s)` and `Rng::new(s + 1)` are the same splitmix stream shifted by ONE draw (the state is
/// `(s + k)·γ + c`): seeds are spread first so that different VERIF_SEEDs give unrelated streams.
pub fn spread_seed(seed: u64) -> u64 {
    let mut z = seed.wrapping_add(0x632BE59BD9B4E019).wrapping_mul(0xD6E8FEB86659FD93);
    z ^= z >> 32;
    z.wrapping_mul(0xD6E8FEB86659FD93) ^ (z >> 29)
}

// ---------------------------------------------------------------------------------------------
// values
// ---------------------------------------------------------------------------------------------
#[derive(Clone, Debug, PartialEq)]
pub struct GEdge { pub from: String, pub to: String, pub w: Option<f64> }
#[derive(Clone, Debug, PartialEq)]
pub struct GNode { pub name: String, pub edges: Vec<GEdge> }

/// compile-time values of the reference semantics
#[derive(Clone, Debug, PartialEq)]
pub enum V {
    Int(i64),
    Num(f64),
    Bool(bool),
    Str(String),
    Arr(Vec<V>),
    Tup(Vec<V>),
    Graph(Vec<GNode>),
    Node(GNode),
    Edge(GEdge),
    Undefined,
}

// ---------------------------------------------------------------------------------------------
// expressions / programs
// ---------------------------------------------------------------------------------------------
#[derive(Clone, Copy, Debug, PartialEq, Eq)]
pub enum Op { Add, Sub, Mul, Div, And, Or, Xor, Implies, Iff }
impl Op {
    pub fn text(self) -> &'static str {
        match self { Op::Add => "+", Op::Sub => "-", Op::Mul => "*", Op::Div => "/", Op::And => "and", Op::Or => "or",
            Op::Xor => "xor", Op::Implies => "implies", Op::Iff => "iff" }
    }
    /// binding power of the Pratt table (higher binds tighter)
    pub fn prec(self) -> u8 {
        match self { Op::Implies | Op::Iff => 1, Op::Or => 2, Op::Xor => 3, Op::And => 4, Op::Add | Op::Sub => 5, Op::Mul | Op::Div => 6 }
    }
    pub fn is_logic(self) -> bool { matches!(self, Op::And | Op::Or | Op::Xor | Op::Implies | Op::Iff) }
    pub const ALL: [Op; 9] = [Op::Add, Op::Sub, Op::Mul, Op::Div, Op::And, Op::Or, Op::Xor, Op::Implies, Op::Iff];
}
#[derive(Clone, Copy, Debug, PartialEq, Eq)]
pub enum UOp { Neg, Not }

/// one index of a compound variable `x_3`, `x_i`, `x_{i + 1}`
#[derive(Clone, Debug, PartialEq)]
pub enum Ix { Lit(i64), Id(String), Ex(E) }

#[derive(Clone, Debug, PartialEq)]
pub struct It { pub vars: Vec<String>, pub tuple: bool, pub over: E }

#[derive(Clone, Debug, PartialEq)]
pub enum E {
    Lit(V),
    Id(String),
    Cv(String, Vec<Ix>),
    Acc(String, Vec<E>),
    Call(String, Vec<E>),
    /// `a..b` / `a..=b` — only valid as an iterator
    Range(Box<E>, Box<E>, bool),
    Bin(Op, Box<E>, Box<E>),
    Un(UOp, Box<E>),
    /// `min{a, b}` …
    Blk(String, Vec<E>),
    /// `sum(i in A, j in B){ body }`
    Scp(String, Vec<It>, Box<E>),
    /// verbatim text (perturbations)
    Raw(String),
}

#[derive(Clone, Debug, PartialEq)]
pub enum VarName { Simple(String), Cv(String, Vec<Ix>) }

#[derive(Clone, Debug, PartialEq)]
pub struct Cons {
    pub name: Option<VarName>,
    pub lhs: E,
    /// `None` = bare logic assertion
    pub rel: Option<(String, E)>,
    pub iters: Vec<It>,
}
#[derive(Clone, Debug, PartialEq)]
pub enum DomT { Boolean, Real(Option<(E, E)>), NonNegativeReal(Option<(E, E)>), IntegerRange(E, E) }
#[derive(Clone, Debug, PartialEq)]
pub struct Decl { pub vars: Vec<VarName>, pub ty: DomT, pub iters: Vec<It> }
#[derive(Clone, Debug, PartialEq)]
pub struct Prog {
    /// "min" | "max" | "solve"
    pub sense: String,
    pub obj: E,
    pub cons: Vec<Cons>,
    pub consts: Vec<(String, E)>,
    pub decls: Vec<Decl>,
}

// ---------------------------------------------------------------------------------------------
// printer
// ---------------------------------------------------------------------------------------------
pub fn fmt_f64(x: f64) -> String {
    // rooc floats are digits "." digits; integral values are written with ".0" so that they stay floats
    if x.is_finite() && x.fract() == 0.0 && x.abs() < 1e15 { format!("{:.1}", x) } else { format!("{}", x) }
}
fn is_ident(s: &str) -> bool {
    let mut cs = s.chars();
    match cs.next() { Some(c) if c.is_alphabetic() => {} _ => return false }
    cs.all(|c| c.is_alphanumeric())
}
pub fn print_v(v: &V) -> String {
    match v {
        V::Int(i) => i.to_string(),
        V::Num(x) => if *x < 0.0 { format!("-{}", fmt_f64(-*x)) } else { fmt_f64(*x) },
        V::Bool(b) => b.to_string(),
        V::Str(s) => format!("\"{}\"", s),
        V::Arr(vs) => format!("[{}]", vs.iter().map(print_v).collect::<Vec<_>>().join(", ")),
        V::Graph(ns) => {
            let mut s = String::from("Graph { ");
            for (i, n) in ns.iter().enumerate() {
                if i > 0 { s.push_str(", "); }
                s.push_str(&n.name);
                if !n.edges.is_empty() {
                    s.push_str(" -> [");
                    s.push_str(&n.edges.iter().map(|e| match e.w {
                        Some(w) => format!("{}: {}", e.to, if w < 0.0 { format!("-{}", fmt_f64(-w)) } else { fmt_f64(w) }),
                        None => e.to.clone(),
                    }).collect::<Vec<_>>().join(", "));
                    s.push(']');
                }
            }
            s.push_str(" }");
            s
        }
        // no literal syntax: printed only in diagnostics
        V::Tup(vs) => format!("<tuple {}>", vs.iter().map(print_v).collect::<Vec<_>>().join(", ")),
        V::Node(n) => format!("<node {}>", n.name),
        V::Edge(e) => format!("<edge {}->{}>", e.from, e.to),
        V::Undefined => "<undefined>".into(),
    }
}
pub fn print_ix(ix: &Ix) -> String {
    match ix {
        Ix::Lit(i) if *i >= 0 => format!("_{}", i),
        Ix::Lit(i) => format!("_{{{}}}", i),
        Ix::Id(s) => format!("_{}", s),
        Ix::Ex(e) => format!("_{{{}}}", print_e(e)),
    }
}
pub fn print_it(it: &It) -> String {
    let v = if it.tuple { format!("({})", it.vars.join(", ")) } else { it.vars[0].clone() };
    format!("{} in {}", v, print_e(&it.over))
}
fn paren_if(cond: bool, s: String) -> String { if cond { format!("({})", s) } else { s } }
pub fn print_e(e: &E) -> String {
    match e {
        E::Lit(v) => print_v(v),
        E::Id(s) => if s.contains('_') && !s.starts_with('_') && !s.starts_with('$') { format!("\\{}", s) } else { s.clone() },
        E::Cv(n, ixs) => format!("{}{}", n, ixs.iter().map(print_ix).collect::<String>()),
        E::Acc(n, ixs) => format!("{}{}", n, ixs.iter().map(|i| format!("[{}]", print_e(i))).collect::<String>()),
        E::Call(f, args) => format!("{}({})", f, args.iter().map(print_e).collect::<Vec<_>>().join(", ")),
        E::Range(a, b, inc) => {
            let side = |x: &E| paren_if(matches!(x, E::Bin(..) | E::Un(..)), print_e(x));
            format!("{}{}{}", side(a), if *inc { "..=" } else { ".." }, side(b))
        }
        E::Bin(op, a, b) => {
            let l = paren_if(matches!(&**a, E::Bin(o, ..) if o.prec() < op.prec()) || matches!(&**a, E::Range(..)), print_e(a));
            let r = paren_if(matches!(&**b, E::Bin(o, ..) if o.prec() <= op.prec()) || matches!(&**b, E::Range(..)), print_e(b));
            format!("{} {} {}", l, op.text(), r)
        }
        E::Un(op, a) => {
            let inner = paren_if(matches!(&**a, E::Bin(..) | E::Un(..) | E::Range(..)) || matches!(&**a, E::Lit(V::Int(i)) if *i < 0)
                || matches!(&**a, E::Lit(V::Num(x)) if *x < 0.0), print_e(a));
            match op { UOp::Neg => format!("-{}", inner), UOp::Not => format!("!{}", inner) }
        }
        E::Blk(k, es) => format!("{}{{ {} }}", k, es.iter().map(print_e).collect::<Vec<_>>().join(", ")),
        E::Scp(k, its, body) => format!("{}({}) {{ {} }}", k, its.iter().map(print_it).collect::<Vec<_>>().join(", "), print_e(body)),
        E::Raw(s) => s.clone(),
    }
}
pub fn print_varname(v: &VarName) -> String {
    match v {
        VarName::Simple(s) => if s.contains('_') && !s.starts_with('_') && !s.starts_with('$') { format!("\\{}", s) } else { s.clone() },
        VarName::Cv(n, ixs) => format!("{}{}", n, ixs.iter().map(print_ix).collect::<String>()),
    }
}
pub fn print_domt(t: &DomT) -> String {
    match t {
        DomT::Boolean => "Boolean".into(),
        DomT::Real(None) => "Real".into(),
        DomT::Real(Some((a, b))) => format!("Real({}, {})", print_e(a), print_e(b)),
        DomT::NonNegativeReal(None) => "NonNegativeReal".into(),
        DomT::NonNegativeReal(Some((a, b))) => format!("NonNegativeReal({}, {})", print_e(a), print_e(b)),
        DomT::IntegerRange(a, b) => format!("IntegerRange({}, {})", print_e(a), print_e(b)),
    }
}
pub fn print_cons(c: &Cons) -> String {
    let mut s = String::new();
    if let Some(n) = &c.name { s.push_str(&print_varname(n)); s.push_str(": "); }
    s.push_str(&print_e(&c.lhs));
    if let Some((rel, rhs)) = &c.rel { s.push_str(&format!(" {} {}", rel, print_e(rhs))); }
    if !c.iters.is_empty() { s.push_str(" for "); s.push_str(&c.iters.iter().map(print_it).collect::<Vec<_>>().join(", ")); }
    s
}
pub fn print_prog(p: &Prog) -> String {
    let mut s = String::new();
    if p.sense == "solve" { s.push_str("solve\n"); } else { s.push_str(&format!("{} {}\n", p.sense, print_e(&p.obj))); }
    s.push_str("s.t.\n");
    for c in &p.cons { s.push_str("    "); s.push_str(&print_cons(c)); s.push('\n'); }
    if !p.consts.is_empty() {
        s.push_str("where\n");
        for (n, e) in &p.consts { s.push_str(&format!("    let {} = {}\n", n, print_e(e))); }
    }
    if !p.decls.is_empty() {
        s.push_str("define\n");
        for d in &p.decls {
            s.push_str("    ");
            s.push_str(&d.vars.iter().map(print_varname).collect::<Vec<_>>().join(", "));
            s.push_str(" as ");
            s.push_str(&print_domt(&d.ty));
            if !d.iters.is_empty() { s.push_str(" for "); s.push_str(&d.iters.iter().map(print_it).collect::<Vec<_>>().join(", ")); }
            s.push('\n');
        }
    }
    // the grammar wants no trailing newline issues: `nl* ~ EOI` accepts them
    s
}

// ---------------------------------------------------------------------------------------------
// shorthand constructors
// ---------------------------------------------------------------------------------------------
pub fn int(i: i64) -> E { if i < 0 { E::Un(UOp::Neg, Box::new(E::Lit(V::Int(-i)))) } else { E::Lit(V::Int(i)) } }
pub fn num(x: f64) -> E { if x < 0.0 { E::Un(UOp::Neg, Box::new(E::Lit(V::Num(-x)))) } else { E::Lit(V::Num(x)) } }
pub fn id(s: &str) -> E { E::Id(s.to_string()) }
pub fn bin(op: Op, a: E, b: E) -> E { E::Bin(op, Box::new(a), Box::new(b)) }
pub fn call(f: &str, args: Vec<E>) -> E { E::Call(f.to_string(), args) }
pub fn cv(n: &str, ixs: Vec<Ix>) -> E { E::Cv(n.to_string(), ixs) }
pub fn range(a: E, b: E, inc: bool) -> E { E::Range(Box::new(a), Box::new(b), inc) }
pub fn it1(v: &str, over: E) -> It { It { vars: vec![v.to_string()], tuple: false, over } }
pub fn itn(vs: &[&str], over: E) -> It { It { vars: vs.iter().map(|s| s.to_string()).collect(), tuple: true, over } }

// ---------------------------------------------------------------------------------------------
// generator of valid data-driven programs
// ---------------------------------------------------------------------------------------------
/// what the generator knows about one `let` constant
#[derive(Clone, Debug)]
pub struct Data { pub name: String, pub val: V }

/// an iterator source together with the names it binds and what the bound names are good for
#[derive(Clone, Debug)]
pub struct Loop {
    pub it: It,
    /// names usable as compound-variable index, with the index-set id they range over
    pub idx: Vec<(String, String)>,
    /// names bound to numbers (usable as coefficients)
    pub nums: Vec<String>,
    /// names bound to a nested row (iterable) – usable as source of an inner loop
    pub rows: Vec<String>,
    /// names bound to graph nodes
    pub nodes: Vec<String>,
}

pub struct GenCfg {
    pub graphs: bool,
    pub logic: bool,
    pub errors: bool,
}

pub struct ProgGen<'a> {
    pub r: &'a mut Rng,
    pub cfg: GenCfg,
    pub data: Vec<Data>,
    pub tags: Vec<String>,
    fresh: usize,
    /// declared families: (base name, index-set ids, boolean?)
    pub fams: Vec<(String, Vec<String>, bool)>,
    pub decls: Vec<Decl>,
}

fn small_int_arr(r: &mut Rng, lo: i64, hi: i64, minlen: usize, maxlen: usize) -> Vec<V> {
    let n = minlen + r.below(maxlen - minlen + 1);
    (0..n).map(|_| V::Int(r.range(lo, hi))).collect()
}

impl<'a> ProgGen<'a> {
    pub fn new(r: &'a mut Rng, cfg: GenCfg) -> Self {
        ProgGen { r, cfg, data: vec![], tags: vec![], fresh: 0, fams: vec![], decls: vec![] }
    }
    fn tag(&mut self, t: &str) { if !self.tags.iter().any(|x| x == t) { self.tags.push(t.to_string()); } }
    fn fresh(&mut self, p: &str) -> String { self.fresh += 1; format!("{}{}", p, self.fresh) }
    fn get(&self, n: &str) -> &V { &self.data.iter().find(|d| d.name == n).unwrap().val }

    /// the data section: always the same names so that templates can refer to them
    pub fn gen_data(&mut self) {
        let r = &mut *self.r;
        let a = small_int_arr(r, 0, 9, 1, 4);
        let c = small_int_arr(r, 1, 6, a.len(), a.len());
        let f: Vec<V> = (0..1 + r.below(3)).map(|_| V::Num(r.range(1, 40) as f64 / 4.0)).collect();
        let rows = 1 + r.below(3);
        let m: Vec<V> = (0..rows).map(|_| V::Arr(small_int_arr(r, 0, 5, 1, 3))).collect();
        let s: Vec<V> = { let pool = ["a", "b", "c1", "dd", "e"]; let n = 1 + r.below(3); let st = r.below(3); (0..n).map(|i| V::Str(pool[st + i].to_string())).collect() };
        let b: Vec<V> = (0..1 + r.below(3)).map(|_| V::Bool(r.chance(1, 2))).collect();
        self.data.push(Data { name: "A".into(), val: V::Arr(a) });
        self.data.push(Data { name: "C".into(), val: V::Arr(c) });
        self.data.push(Data { name: "F".into(), val: V::Arr(f) });
        self.data.push(Data { name: "M".into(), val: V::Arr(m) });
        self.data.push(Data { name: "S".into(), val: V::Arr(s) });
        self.data.push(Data { name: "B".into(), val: V::Arr(b) });
        self.data.push(Data { name: "n".into(), val: V::Int(r.range(0, 4)) });
        self.data.push(Data { name: "k".into(), val: V::Num(r.range(1, 12) as f64 / 2.0) });
        self.data.push(Data { name: "flag".into(), val: V::Bool(r.chance(1, 2)) });
        if self.cfg.graphs {
            // names whose declaration order, numeric order and byte order all differ ("B" < "S" < "n10" < "n2"), and
            // adjacency lists written in random order: the order of edges(G) / neigh_edges(n) is the literal's
            let names = ["S", "n2", "B", "n10"];
            let nn = 2 + r.below(3);
            let weighted = r.chance(1, 2);
            let mut nodes = vec![];
            for i in 0..nn {
                let mut edges = vec![];
                for j in 0..nn {
                    if i != j && r.chance(1, 2) {
                        let w = if weighted && r.chance(3, 4) { Some(r.range(-3, 9) as f64 / 2.0) } else { None };
                        edges.push(GEdge { from: names[i].into(), to: names[j].into(), w });
                    }
                }
                for k in (1..edges.len()).rev() { let j = r.below(k + 1); edges.swap(k, j); }
                nodes.push(GNode { name: names[i].into(), edges });
            }
            // `Graph { P, Q }` (no edge list at all) is read as a block function named Graph: keep one edge
            if nodes.iter().all(|n| n.edges.is_empty()) { nodes[0].edges.push(GEdge { from: names[0].into(), to: names[1].into(), w: None }); }
            self.data.push(Data { name: "G".into(), val: V::Graph(nodes) });
        }
    }

    fn arr_len(&self, n: &str) -> usize { match self.get(n) { V::Arr(v) => v.len(), _ => 0 } }

    /// a random loop; `depth` = how many loops are already open (names must be fresh)
    pub fn gen_loop(&mut self, outer: &[Loop]) -> Loop {
        let v = self.fresh("i");
        let w = self.fresh("v");
        let mut kinds = vec!["range-len", "range-lit", "range-inc", "arr", "enum", "zip", "rows", "strs", "range-neg", "range-empty", "setfn", "range-n"];
        if self.cfg.graphs { kinds.extend(["nodes", "edges", "edges3", "neigh", "enum-nodes"]); }
        // loops over a value bound by an outer loop are only possible in that context: weight them up
        if outer.iter().any(|l| !l.rows.is_empty()) { kinds.extend(["inner-row", "inner-row-enum", "inner-row", "inner-row-enum", "inner-row", "inner-row-enum"]); }
        if outer.iter().any(|l| !l.nodes.is_empty()) { kinds.extend(["inner-neigh", "inner-neigh", "inner-neigh", "inner-neigh"]); }
        let k = *self.r.pick(&kinds);
        self.tag(&format!("loop:{}", k));
        let none = Loop { it: it1(&v, int(0)), idx: vec![], nums: vec![], rows: vec![], nodes: vec![] };
        match k {
            "range-len" => Loop { it: it1(&v, range(int(0), call("len", vec![id("A")]), false)), idx: vec![(v.clone(), "lenA".into())], nums: vec![v], ..none },
            "range-lit" => { let hi = self.r.range(1, 3); Loop { it: it1(&v, range(int(0), int(hi), false)), idx: vec![(v.clone(), format!("r{}", hi))], nums: vec![v], ..none } }
            "range-inc" => { let lo = self.r.range(0, 2); let hi = lo + self.r.range(0, 2); Loop { it: it1(&v, range(int(lo), int(hi), true)), idx: vec![(v.clone(), "r3i".into())], nums: vec![v], ..none } }
            "range-neg" => { let lo = self.r.range(-3, -1); let hi = self.r.range(-1, 2); let inc = self.r.chance(1, 2); Loop { it: it1(&v, range(int(lo), int(hi), inc)), idx: vec![(v.clone(), "neg".into())], nums: vec![v], ..none } }
            "range-empty" => { let lo = self.r.range(0, 3); let hi = lo - self.r.range(0, 2); Loop { it: it1(&v, range(int(lo), int(hi), false)), idx: vec![(v.clone(), "r3i".into())], nums: vec![v], ..none } }
            "range-n" => Loop { it: it1(&v, range(int(0), bin(Op::Add, id("n"), int(1)), false)), idx: vec![(v.clone(), "r5".into())], nums: vec![v], ..none },
            "arr" => { let a = *self.r.pick(&["A", "C", "F"]); Loop { it: it1(&v, id(a)), idx: if a == "F" { vec![] } else { vec![(v.clone(), "val10".into())] }, nums: vec![v], ..none } }
            "enum" => { let a = *self.r.pick(&["A", "C", "F", "B"]); let f = *self.r.pick(&["enumerate", "enum"]);
                Loop { it: itn(&[&w, &v], call(f, vec![id(a)])), idx: vec![(v.clone(), format!("len{}", a))], nums: if a == "B" { vec![v] } else { vec![w, v] }, ..none } }
            "zip" => { let three = self.r.chance(1, 3);
                if three { let u = self.fresh("u"); Loop { it: itn(&[&w, &v, &u], call("zip", vec![id("A"), id("C"), id("F")])), idx: vec![(w.clone(), "val10".into())], nums: vec![w, v, u], ..none } }
                else { Loop { it: itn(&[&w, &v], call("zip", vec![id("A"), id("C")])), idx: vec![(w.clone(), "val10".into()), (v.clone(), "val10".into())], nums: vec![w, v], ..none } } }
            "rows" => { if self.r.chance(1, 2) { Loop { it: it1(&v, id("M")), rows: vec![v], ..none } }
                else { Loop { it: itn(&[&w, &v], call("enumerate", vec![id("M")])), idx: vec![(v.clone(), "lenM".into())], nums: vec![v], rows: vec![w], ..none } } }
            "strs" => Loop { it: it1(&v, id("S")), idx: vec![(v.clone(), "strs".into())], ..none },
            "setfn" => { let f = *self.r.pick(&["union", "intersection", "difference"]);
                // operands of different lengths whose common elements come in a different relative order (and repeated
                // in the longer one): the result follows the FIRST operand's order and multiplicity
                let a_vals: Vec<V> = match self.get("A") { V::Arr(v) => v.clone(), _ => vec![] };
                let other = match self.r.below(4) {
                    0 => id("C"),
                    1 => { let mut sel: Vec<V> = a_vals.iter().rev().cloned().collect(); if sel.len() > 1 { sel.truncate(sel.len() - 1); } E::Lit(V::Arr(sel)) }
                    2 => { let mut sel = vec![a_vals[a_vals.len() - 1].clone()]; if self.r.chance(1, 2) { sel.push(a_vals[0].clone()); } if self.r.chance(1, 3) { sel.insert(0, V::Int(7)); } E::Lit(V::Arr(sel)) }
                    _ => { let mut sel: Vec<V> = a_vals.iter().rev().cloned().collect(); sel.extend(a_vals.iter().cloned()); E::Lit(V::Arr(sel)) }
                };
                let args = if self.r.chance(1, 3) { vec![other, id("A")] } else { vec![id("A"), other] };
                Loop { it: it1(&v, call(f, args)), idx: vec![(v.clone(), "val10".into())], nums: vec![v], ..none } }
            "nodes" => { let f = *self.r.pick(&["nodes", "V"]); Loop { it: it1(&v, call(f, vec![id("G")])), idx: vec![(v.clone(), "nodes".into())], nodes: vec![v], ..none } }
            "enum-nodes" => Loop { it: itn(&[&w, &v], call("enumerate", vec![call("nodes", vec![id("G")])])), idx: vec![(w.clone(), "nodes".into()), (v.clone(), "r5".into())], nums: vec![v], nodes: vec![w], ..none },
            "edges" => { let f = *self.r.pick(&["edges", "E"]); let u = self.fresh("u");
                if self.r.chance(1, 3) { Loop { it: itn(&["_", &u], call(f, vec![id("G")])), idx: vec![(u, "nodes".into())], ..none } }
                else { Loop { it: itn(&[&w, &u], call(f, vec![id("G")])), idx: vec![(w, "nodes".into()), (u, "nodes".into())], ..none } } }
            "edges3" => { let u = self.fresh("u"); let c = self.fresh("c");
                Loop { it: itn(&[&w, &u, &c], call("edges", vec![id("G")])), idx: vec![(w, "nodes".into()), (u, "nodes".into())], nums: vec![c], ..none } }
            "neigh" => { let names: Vec<String> = match self.get("G") { V::Graph(ns) => ns.iter().map(|n| n.name.clone()).collect(), _ => vec!["S".into()] }; let nm = self.r.pick(&names).clone(); let u = self.fresh("u");
                let f = *self.r.pick(&["neigh_edges_of", "N_of"]);
                Loop { it: itn(&["_", &u], call(f, vec![E::Lit(V::Str(nm)), id("G")])), idx: vec![(u, "nodes".into())], ..none } }
            "inner-row" => { let rows: Vec<String> = outer.iter().flat_map(|l| l.rows.clone()).collect(); let row = self.r.pick(&rows).clone();
                Loop { it: it1(&v, id(&row)), idx: vec![(v.clone(), "val10".into())], nums: vec![v], ..none } }
            "inner-row-enum" => { let rows: Vec<String> = outer.iter().flat_map(|l| l.rows.clone()).collect(); let row = self.r.pick(&rows).clone();
                Loop { it: itn(&[&w, &v], call("enumerate", vec![id(&row)])), idx: vec![(v.clone(), "r3".into()), (w.clone(), "val10".into())], nums: vec![w, v], ..none } }
            "inner-neigh" => { let ns: Vec<String> = outer.iter().flat_map(|l| l.nodes.clone()).collect(); let nd = self.r.pick(&ns).clone(); let u = self.fresh("u");
                let f = *self.r.pick(&["neigh_edges", "N"]);
                if self.r.chance(1, 2) { let c = self.fresh("c"); Loop { it: itn(&["_", &u, &c], call(f, vec![id(&nd)])), idx: vec![(u, "nodes".into())], nums: vec![c], ..none } }
                else { Loop { it: itn(&["_", &u], call(f, vec![id(&nd)])), idx: vec![(u, "nodes".into())], ..none } } }
            _ => unreachable!(),
        }
    }

    /// declaration iterators that cover an index-set id
    fn cover(&mut self, set: &str, var: &str) -> It {
        match set {
            "lenA" => it1(var, range(int(0), call("len", vec![id("A")]), false)),
            "lenC" => it1(var, range(int(0), call("len", vec![id("C")]), false)),
            "lenF" => it1(var, range(int(0), call("len", vec![id("F")]), false)),
            "lenB" => it1(var, range(int(0), call("len", vec![id("B")]), false)),
            "lenM" => it1(var, range(int(0), call("len", vec![id("M")]), false)),
            "r1" | "r2" | "r3" => it1(var, range(int(0), int(3), false)),
            "r3i" => it1(var, range(int(0), int(4), true)),
            "r5" => it1(var, range(int(0), int(5), true)),
            "neg" => it1(var, range(int(-3), int(2), true)),
            "val10" => it1(var, range(int(0), int(9), true)),
            "strs" => it1(var, id("S")),
            "nodes" => it1(var, call("nodes", vec![id("G")])),
            _ => it1(var, range(int(0), int(3), false)),
        }
    }

    /// a domain-variable reference over the given loop variables; declares the family on first use
    pub fn var_ref(&mut self, loops: &[Loop], boolean: bool) -> E {
        let idx: Vec<(String, String)> = loops.iter().flat_map(|l| l.idx.clone()).collect();
        if idx.is_empty() || self.r.chance(1, 8) {
            // a plain variable
            let n = if boolean { "bz" } else { "z" };
            if !self.fams.iter().any(|f| f.0 == n) {
                self.fams.push((n.into(), vec![], boolean));
                let ty = if boolean { DomT::Boolean } else { self.dom_type() };
                self.decls.push(Decl { vars: vec![VarName::Simple(n.into())], ty, iters: vec![] });
            }
            return id(n);
        }
        let two = idx.len() >= 2 && self.r.chance(1, 3);
        let a = idx[self.r.below(idx.len())].clone();
        let picks = if two { let b = idx[self.r.below(idx.len())].clone(); vec![a, b] } else { vec![a] };
        let sets: Vec<String> = picks.iter().map(|p| p.1.clone()).collect();
        let base = format!("{}{}", if boolean { "b" } else { "x" }, sets.iter().map(|s| s.chars().filter(|c| c.is_alphanumeric()).collect::<String>()).collect::<Vec<_>>().join(""));
        if !self.fams.iter().any(|f| f.0 == base) {
            self.fams.push((base.clone(), sets.clone(), boolean));
            let vars: Vec<String> = (0..sets.len()).map(|i| format!("d{}", i)).collect();
            let iters: Vec<It> = sets.iter().zip(&vars).map(|(s, v)| self.cover(s, v)).collect();
            let ty = if boolean { DomT::Boolean } else { self.dom_type() };
            self.decls.push(Decl { vars: vec![VarName::Cv(base.clone(), vars.iter().map(|v| Ix::Id(v.clone())).collect())], ty, iters });
            if sets.len() == 2 { self.tag("multi-index"); }
        }
        // index forms: plain `_i`, or `_{i}`; (arithmetic indexes only on plain integer ranges)
        let ixs = picks.iter().map(|p| if self.r.chance(1, 6) { Ix::Ex(id(&p.0)) } else { Ix::Id(p.0.clone()) }).collect();
        cv(&base, ixs)
    }

    fn dom_type(&mut self) -> DomT {
        match self.r.below(6) {
            0 => DomT::Real(None),
            1 => DomT::NonNegativeReal(None),
            2 => DomT::Boolean,
            3 => DomT::IntegerRange(int(self.r.range(-3, 0)), int(self.r.range(1, 10))),
            4 => DomT::Real(Some((int(self.r.range(-5, 0)), bin(Op::Add, id("n"), int(5))))),
            _ => DomT::NonNegativeReal(Some((int(0), id("k")))),
        }
    }

    /// a numeric compile-time coefficient over the loop variables
    pub fn coef(&mut self, loops: &[Loop]) -> E {
        let nums: Vec<String> = loops.iter().flat_map(|l| l.nums.clone()).collect();
        let lenidx: Vec<String> = loops.iter().flat_map(|l| l.idx.iter().filter(|p| p.1 == "lenA").map(|p| p.0.clone()).collect::<Vec<_>>()).collect();
        match self.r.below(9) {
            0 | 1 if !nums.is_empty() => id(&self.r.pick(&nums).clone()),
            2 if !lenidx.is_empty() => { self.tag("array-access"); E::Acc(if self.r.chance(1, 2) { "A".into() } else { "C".into() }, vec![id(&self.r.pick(&lenidx).clone())]) }
            3 if !nums.is_empty() => bin(*self.r.pick(&[Op::Add, Op::Mul, Op::Sub]), id(&self.r.pick(&nums).clone()), int(self.r.range(1, 3))),
            4 => id(*self.r.pick(&["n", "k"])),
            5 => { self.tag("len"); call("len", vec![id(*self.r.pick(&["A", "M", "S", "F"]))]) }
            6 => { self.tag("array-access"); let i = self.r.below(self.arr_len("M")); let j = match self.get("M") { V::Arr(v) => match &v[i] { V::Arr(r) => r.len(), _ => 1 }, _ => 1 };
                E::Acc("M".into(), vec![int(i as i64), int(self.r.below(j) as i64)]) }
            7 => num(self.r.range(1, 20) as f64 / 4.0),
            _ => int(self.r.range(1, 5)),
        }
    }

    /// linear term(s) over the open loops
    pub fn lin_term(&mut self, loops: &[Loop], depth: u32) -> E {
        let v = self.var_ref(loops, false);
        match self.r.below(6) {
            0 => v,
            1 | 2 => { let c = self.coef(loops); bin(Op::Mul, c, v) }
            3 if depth > 0 => { let t = self.lin_term(loops, depth - 1); bin(*self.r.pick(&[Op::Add, Op::Sub]), v, t) }
            4 if depth > 0 => { let s = self.scoped(loops, depth - 1); bin(Op::Add, v, s) }
            _ => { let c = self.coef(loops); bin(Op::Add, bin(Op::Mul, c, v), int(self.r.range(0, 3))) }
        }
    }

    /// a scoped aggregate
    pub fn scoped(&mut self, outer: &[Loop], depth: u32) -> E {
        let nloops = 1 + self.r.below(2);
        let mut loops = outer.to_vec();
        let mut its = vec![];
        for _ in 0..nloops { let l = self.gen_loop(&loops); its.push(l.it.clone()); loops.push(l); }
        if nloops == 2 { self.tag("nested-iteration"); }
        if its.iter().any(|i| i.tuple) { self.tag("tuple-destructuring"); }
        let kind = *self.r.pick(&["sum", "sum", "sum", "prod", "avg", "min", "max"]);
        self.tag(&format!("scoped:{}", kind));
        let body = match kind {
            "prod" => self.coef(&loops),
            _ => self.lin_term(&loops, depth),
        };
        E::Scp(kind.into(), its, Box::new(body))
    }

    pub fn logic_scoped(&mut self, outer: &[Loop]) -> E {
        let mut loops = outer.to_vec();
        let l = self.gen_loop(&loops);
        let its = vec![l.it.clone()];
        loops.push(l);
        let kind = *self.r.pick(&["all", "any", "xor"]);
        self.tag(&format!("scoped:{}", kind));
        let a = self.var_ref(&loops, true);
        let body = if self.r.chance(1, 3) { let b = self.var_ref(&loops, true); bin(*self.r.pick(&[Op::And, Op::Or, Op::Implies]), a, b) } else { a };
        E::Scp(kind.into(), its, Box::new(body))
    }

    pub fn block(&mut self, loops: &[Loop]) -> E {
        let kind = *self.r.pick(&["min", "max", "avg", "abs"]);
        self.tag(&format!("block:{}", kind));
        let n = if kind == "abs" { 1 } else { 1 + self.r.below(3) };
        let es = (0..n).map(|_| self.lin_term(loops, 0)).collect();
        E::Blk(kind.into(), es)
    }

    pub fn constraint(&mut self) -> Cons {
        let quant = self.r.below(3);
        let mut loops: Vec<Loop> = vec![];
        for _ in 0..quant { let l = self.gen_loop(&loops); loops.push(l); }
        if quant > 0 { self.tag("for-constraint"); }
        if quant == 2 { self.tag("nested-iteration"); }
        if loops.iter().any(|l| l.it.tuple) { self.tag("tuple-destructuring"); }
        let iters: Vec<It> = loops.iter().map(|l| l.it.clone()).collect();
        let shape = self.r.below(if self.cfg.logic { 10 } else { 6 });
        let (lhs, rel) = match shape {
            0 | 1 => { let s = self.scoped(&loops, 1); let c = self.coef(&loops); (s, Some((self.rel(), c))) }
            2 => { let t = self.lin_term(&loops, 1); let c = self.coef(&loops); (t, Some((self.rel(), c))) }
            3 => { let s = self.scoped(&loops, 0); let t = self.lin_term(&loops, 0); (bin(Op::Add, t, s), Some((self.rel(), int(self.r.range(0, 9))))) }
            4 => { let b = self.block(&loops); (b, Some((self.rel(), int(self.r.range(1, 9))))) }
            5 => { let s = self.scoped(&loops, 0); let s2 = self.scoped(&loops, 0); (s, Some((self.rel(), s2))) }
            6 | 8 | 9 => { let l = self.logic_scoped(&loops); (l, None) }
            _ => { let a = self.var_ref(&loops, true); let b = self.var_ref(&loops, true); (bin(*self.r.pick(&[Op::Or, Op::And, Op::Xor, Op::Iff]), a, b), None) }
        };
        // names
        let idx: Vec<(String, String)> = loops.iter().flat_map(|l| l.idx.clone()).collect();
        let name = if self.r.chance(1, 2) {
            let base = self.fresh("c");
            if !idx.is_empty() && loops.iter().all(|l| !l.idx.is_empty()) {
                self.tag("named-indexed-constraint");
                Some(VarName::Cv(base, loops.iter().map(|l| Ix::Id(l.idx[0].0.clone())).collect()))
            } else if quant == 0 { Some(VarName::Simple(base)) } else { None }
        } else { None };
        Cons { name, lhs, rel, iters }
    }
    fn rel(&mut self) -> String { self.r.pick(&["<=", ">=", "="]).to_string() }

    pub fn program(&mut self) -> Prog {
        self.gen_data();
        let ncons = 1 + self.r.below(3);
        // one plain constraint first: a program whose constraint list is empty cannot be followed by a section
        let z = self.var_ref(&[], false);
        let mut cons: Vec<Cons> = vec![Cons { name: None, lhs: z, rel: Some((">=".into(), int(0))), iters: vec![] }];
        cons.extend((0..ncons).map(|_| self.constraint()));
        let (sense, obj) = match self.r.below(4) {
            0 => ("solve".to_string(), E::Lit(V::Bool(true))),
            1 => ("min".to_string(), self.scoped(&[], 0)),
            2 => ("max".to_string(), self.lin_term(&[], 1)),
            _ => ("min".to_string(), int(1)),
        };
        let consts = self.data.iter().map(|d| (d.name.clone(), E::Lit(d.val.clone()))).collect();
        Prog { sense, obj, cons, consts, decls: self.decls.clone() }
    }
}

// ---------------------------------------------------------------------------------------------
// expression positions (for perturbation)
// ---------------------------------------------------------------------------------------------
/// Calls `f` on every expression node in evaluation order with a description of the syntactic
/// position; `f` may replace the node (return Some) — the first replacement wins when `stop` is set.
pub fn positions(p: &Prog) -> Vec<String> {
    let mut out = vec![];
    let mut q = p.clone();
    walk_prog(&mut q, &mut |pos, _e| { out.push(pos.to_string()); None });
    out
}
pub fn replace_at(p: &Prog, k: usize, with: &E) -> Option<(Prog, String)> {
    let mut q = p.clone();
    let mut n = 0usize;
    let mut hit = None;
    walk_prog(&mut q, &mut |pos, _e| { let r = if n == k { hit = Some(pos.to_string()); Some(with.clone()) } else { None }; n += 1; r });
    hit.map(|h| (q, h))
}
type Visit<'a> = dyn FnMut(&str, &E) -> Option<E> + 'a;
fn walk_it(its: &mut [It], ctx: &str, f: &mut Visit) {
    for it in its.iter_mut() { walk_e(&mut it.over, &format!("{}/iterator", ctx), f); }
}
fn walk_ixs(ixs: &mut [Ix], ctx: &str, f: &mut Visit) {
    for ix in ixs.iter_mut() {
        match ix {
            Ix::Ex(e) => walk_e(e, &format!("{}/index", ctx), f),
            Ix::Id(s) => { let e = E::Id(s.clone()); if let Some(n) = f(&format!("{}/index", ctx), &e) { *ix = Ix::Ex(n); } }
            Ix::Lit(_) => {}
        }
    }
}
pub fn walk_e(e: &mut E, ctx: &str, f: &mut Visit) {
    if let Some(n) = f(ctx, e) { *e = n; return; }
    match e {
        E::Lit(_) | E::Id(_) | E::Raw(_) => {}
        E::Cv(_, ixs) => walk_ixs(ixs, ctx, f),
        E::Acc(_, ixs) => for i in ixs.iter_mut() { walk_e(i, &format!("{}/access", ctx), f) },
        E::Call(name, args) => { let c = format!("{}/arg:{}", ctx, name); for a in args.iter_mut() { walk_e(a, &c, f) } }
        E::Range(a, b, _) => { walk_e(a, &format!("{}/range-from", ctx), f); walk_e(b, &format!("{}/range-to", ctx), f) }
        E::Bin(op, a, b) => { let c = format!("{}/operand:{}", ctx, op.text()); walk_e(a, &c, f); walk_e(b, &c, f) }
        E::Un(op, a) => walk_e(a, &format!("{}/operand:{}", ctx, if *op == UOp::Neg { "neg" } else { "not" }), f),
        E::Blk(k, es) => { let c = format!("{}/block:{}", ctx, k); for x in es.iter_mut() { walk_e(x, &c, f) } }
        E::Scp(k, its, body) => { let c = format!("{}/scoped:{}", ctx, k); walk_it(its, &c, f); walk_e(body, &format!("{}/body", c), f) }
    }
}
pub fn walk_prog(p: &mut Prog, f: &mut Visit) {
    if p.sense != "solve" { walk_e(&mut p.obj, "objective", f); }
    for c in p.cons.iter_mut() {
        if let Some(VarName::Cv(_, ixs)) = &mut c.name { walk_ixs(ixs, "constraint-name", f); }
        walk_e(&mut c.lhs, "constraint", f);
        if let Some((_, rhs)) = &mut c.rel { walk_e(rhs, "constraint", f); }
        walk_it(&mut c.iters, "constraint-for", f);
    }
    for (_, e) in p.consts.iter_mut() { walk_e(e, "const", f); }
    for d in p.decls.iter_mut() {
        for v in d.vars.iter_mut() { if let VarName::Cv(_, ixs) = v { walk_ixs(ixs, "decl-var", f); } }
        match &mut d.ty {
            DomT::Real(Some((a, b))) | DomT::NonNegativeReal(Some((a, b))) | DomT::IntegerRange(a, b) => { walk_e(a, "decl-bound", f); walk_e(b, "decl-bound", f); }
            _ => {}
        }
        walk_it(&mut d.iters, "decl-for", f);
    }
}

/// true iff `s` is usable as a bare `_frag` index fragment
pub fn ident_like(s: &str) -> bool { is_ident(s) }

// ---------------------------------------------------------------------------------------------
// destructuring shapes (C18: must not panic; C19: static arity rule vs. runtime destructuring)
// ---------------------------------------------------------------------------------------------
pub struct Destructure {
    pub src: String,
    pub source: &'static str,
    /// protocol spelling of the static kind of the iterator expression
    pub static_kind: &'static str,
    /// per runtime element: number of components it spreads into, `None` = not spreadable (a scalar)
    pub comps: Vec<Option<usize>>,
    pub tuple: bool,
    pub vars: Vec<String>,
    pub position: &'static str,
    /// the element arity is statically known (tuple / edge): an over-long pattern is a TYPE error
    pub static_arity: bool,
}

pub const DESTRUCTURE_CONSTS: &str = "    let G = Graph { A -> [B: 2, C], B -> [C], C }\n    let A = [4, 5, 6]\n    let S = [\"a\", \"b\"]\n    let M = [[1, 2], [3, 4]]\n    let J = [[1, 2, 3], [4, 5]]\n    let K = [[1], [2, 3]]\n    let X = [1, \"a\"]\n    let n = 3\n";

pub fn destructure_programs(all_masks: bool) -> Vec<Destructure> {
    // (name, iterator text, static kind, runtime components, static arity)
    let sources: Vec<(&'static str, &'static str, &'static str, Vec<Option<usize>>, bool)> = vec![
        ("edges", "edges(G)", "(iter edge)", vec![Some(3); 3], true),
        ("neigh-edges-of", "neigh_edges_of(\"A\", G)", "(iter edge)", vec![Some(3); 2], true),
        ("enumerate", "enumerate(A)", "(iter (tuple integer pint))", vec![Some(2); 3], true),
        ("enumerate-rows", "enumerate(M)", "(iter (tuple (iter integer) pint))", vec![Some(2); 2], true),
        ("zip2", "zip(A, S)", "(iter (tuple integer string))", vec![Some(2); 2], true),
        ("zip3", "zip(A, S, A)", "(iter (tuple integer string integer))", vec![Some(3); 2], true),
        ("rows", "M", "(iter (iter integer))", vec![Some(2), Some(2)], false),
        ("jagged", "J", "(iter (iter integer))", vec![Some(3), Some(2)], false),
        ("jagged-short-first", "K", "(iter (iter integer))", vec![Some(1), Some(2)], false),
        ("scalars", "A", "(iter integer)", vec![None; 3], false),
        ("strings", "S", "(iter string)", vec![None; 2], false),
        ("nodes", "nodes(G)", "(iter node)", vec![None; 3], false),
        ("mixed", "X", "(iter any)", vec![None; 2], false),
        ("empty", "[]", "(iter any)", vec![], false),
        ("not-iterable", "n", "integer", vec![], false),
    ];
    let names = ["a", "b", "c", "d", "e"];
    let mut out = vec![];
    for (sname, text, kind, comps, sa) in &sources {
        let mut patterns: Vec<(bool, Vec<String>)> = vec![(false, vec!["a".into()])];
        for len in 1..=5usize {
            let plain: Vec<String> = names[..len].iter().map(|s| s.to_string()).collect();
            patterns.push((true, plain.clone()));
            // surplus / trailing slots as `_`
            for k in 1..=len.min(2) { let mut v = plain.clone(); for i in len - k..len { v[i] = "_".into(); } patterns.push((true, v)); }
            if all_masks {
                let mut v = plain.clone(); v[0] = "_".into(); patterns.push((true, v));
                patterns.push((true, vec!["_".to_string(); len]));
            }
        }
        patterns.dedup();
        for (tuple, vars) in patterns {
            let pat = if tuple { format!("({})", vars.join(", ")) } else { vars[0].clone() };
            for position in ["sum", "for", "define"] {
                let body = match position {
                    "sum" => format!("    z >= 0\n    sum({} in {}) {{ 1 }} <= 9\nwhere\n{}define\n    z as Real\n", pat, text, DESTRUCTURE_CONSTS),
                    "for" => format!("    z >= 0 for {} in {}\nwhere\n{}define\n    z as Real\n", pat, text, DESTRUCTURE_CONSTS),
                    _ => format!("    z >= 0\nwhere\n{}define\n    z as Real\n    w as Boolean for {} in {}\n", DESTRUCTURE_CONSTS, pat, text),
                };
                out.push(Destructure { src: format!("min 1\ns.t.\n{}", body), source: sname, static_kind: kind, comps: comps.clone(), tuple, vars: vars.clone(), position, static_arity: *sa });
            }
        }
    }
    out
}

/// inclusive / exclusive ranges whose ends are numeric extremes, in sum / for / define position
pub fn range_extreme_programs() -> Vec<(String, String)> {
    // (name, source text, value when it is a valid i64 literal expression)
    let ends: [(&str, &str, Option<i128>); 13] = [("0", "0", Some(0)), ("1", "1", Some(1)), ("m1", "(0 - 1)", Some(-1)), ("max", "9223372036854775807", Some(i64::MAX as i128)),
        ("max-1", "9223372036854775806", Some(i64::MAX as i128 - 1)), ("min+1", "(0 - 9223372036854775807)", Some(i64::MIN as i128 + 1)),
        ("min", "(0 - 9223372036854775807 - 1)", Some(i64::MIN as i128)), ("2^32", "4294967296", Some(1 << 32)), ("cap", "10000000", Some(10_000_000)), ("cap+1", "10000001", Some(10_000_001)),
        ("2^63", "9223372036854775808", None), ("u64max", "18446744073709551615", None), ("maxf", "9223372036854775807.0", None)];
    let mut out = vec![];
    for (ln, lo, lv) in ends.iter() {
        for (hn, hi, hv) in ends.iter() {
            for (inc, extra) in [("..", 0i128), ("..=", 1)] {
                // sizes between 5 000 and the 10 000 000 cap are the known slow / memory-hungry ranges: not enumerated here
                if let (Some(l), Some(h)) = (lv, hv) { let size = h - l + extra; if (5000..=10_000_000).contains(&size) { continue; } }
                for position in ["sum", "for", "define"] {
                    let r = format!("{}{}{}", lo, inc, hi);
                    let src = match position {
                        "sum" => format!("min 1\ns.t.\n    sum(i in {}) {{ x }} >= 1\ndefine\n    x as Real\n", r),
                        "for" => format!("min 1\ns.t.\n    x >= 1 for i in {}\ndefine\n    x as Real\n", r),
                        _ => format!("min 1\ns.t.\n    x >= 1\ndefine\n    x as Real\n    y_i as Boolean for i in {}\n", r),
                    };
                    out.push((format!("range-extreme:{}{}{}:{}", ln, inc, hn, position), src));
                }
            }
        }
    }
    out
}
