//! Killable child process for solver calls.
//!
//! `solve_real_lp_problem_micro_lp` can spin forever (microlp cycles on objective-flat free directions) and a
//! thread cannot be cancelled, so EVERY solver entry point is called in a worker process: the harness re-executes
//! itself (`std::env::current_exe()`) with the hidden sub-command `solve-worker`; the worker reads one request per
//! line on stdin and answers one line on stdout (JSON, floats as 64-bit patterns).  The parent waits with a wall
//! clock limit; on expiry the worker is killed, the call is reported as `Outcome::Hang`, and the next call starts a
//! fresh worker.
//!
//! API (also used by C03 / C16):
//! ```ignore
//! let out = child::solve(SolverKind::Milp, &lm, &Opts::default(), Duration::from_secs(3));
//! match out { Outcome::Solution(s) => …, Outcome::Err { variant, .. } => …, Outcome::Panic(m) => …, Outcome::Hang => … }
//! ```
//! Besides the five public entry points there are three "raw" kinds which call the external solver directly
//! through the same problem construction as the rooc wrapper (a mirror kept next to the worker); they return the
//! solver's untouched output (status, objective, values, duals) which is the *input* of the Lean wrapper model.
use indexmap::IndexMap;
use rooc::model_transformer::DomainVariable;
use rooc::{Comparison, LinearConstraint, LinearModel, OptimizationType, VariableType};
use serde::{Deserialize, Serialize};
use std::io::{BufRead, BufReader, Write};
use std::process::{Child, ChildStdin, Command, Stdio};
use std::sync::mpsc::{Receiver, channel};
use std::sync::Mutex;
use std::time::Duration;

// ------------------------------------------------------------------------------------------- public types

#[derive(Clone, Copy, Debug, PartialEq, Eq, Serialize, Deserialize)]
pub enum SolverKind {
    /// `solve_milp_lp_problem_with` (default options = `solve_milp_lp_problem`)
    Milp,
    /// `auto_solver`
    Auto,
    /// `solve_real_lp_problem_micro_lp`
    MicroLp,
    /// `solve_real_lp_problem_clarabel`
    Clarabel,
    /// `solve_real_lp_problem_slow_simplex`
    Simplex,
    /// `Microlp::new().with_mip_gap(..).with_time_limit(..)` through the builder's `Solver::solve` (options via the
    /// builder methods instead of the `MilpOptions` struct)
    BuilderMicrolp,
    /// `Auto` through the builder's `Solver::solve`
    BuilderAuto,
    /// `Clarabel` through the builder's `Solver::solve`
    BuilderClarabel,
    /// the whole builder door: a `ModelBuilder` rebuilt from the model, `solve_with(Microlp::new()…)`; reports the
    /// accessors of the `BuilderSolution` next to those of its inner `LpSolution`
    BuilderDoorMicrolp,
    /// `ModelBuilder … solve_with(Clarabel)`
    BuilderDoorClarabel,
    /// like `BuilderDoorMicrolp`, with a redundant `max(x0, x1) <= 1e6` row: the compiled model carries `$` helper variables
    BuilderDoorMicrolpAux,
    /// microlp called directly like `milp_solver.rs` does: raw status / objective / `var_value`s
    RawMilp,
    /// microlp called directly like `simplex_solver.rs::solve_real_lp_problem_micro_lp` does
    RawMicroLp,
    /// good_lp + clarabel called directly like `good_lp.rs::solve_with_good_lp` does: clarabel status, x, duals of every row
    RawClarabel,
}
impl SolverKind {
    pub fn name(self) -> &'static str {
        match self {
            SolverKind::Milp => "milp", SolverKind::Auto => "auto", SolverKind::MicroLp => "microlp",
            SolverKind::Clarabel => "clarabel", SolverKind::Simplex => "simplex", SolverKind::RawMilp => "raw-milp",
            SolverKind::BuilderDoorMicrolp => "builder-door-microlp", SolverKind::BuilderDoorClarabel => "builder-door-clarabel",
            SolverKind::BuilderDoorMicrolpAux => "builder-door-microlp-aux",
            SolverKind::BuilderMicrolp => "builder-microlp", SolverKind::BuilderAuto => "builder-auto", SolverKind::BuilderClarabel => "builder-clarabel",
            SolverKind::RawMicroLp => "raw-microlp", SolverKind::RawClarabel => "raw-clarabel",
        }
    }
    pub const ENTRY_POINTS: [SolverKind; 5] =
        [SolverKind::Milp, SolverKind::Auto, SolverKind::MicroLp, SolverKind::Clarabel, SolverKind::Simplex];
}

#[derive(Clone, Debug, Default, Serialize, Deserialize)]
pub struct Opts {
    /// `MilpOptions::time_limit` in nanoseconds
    pub time_limit_ns: Option<u64>,
    /// `MilpOptions::mip_gap` (bit pattern, so NaN / inf survive the pipe)
    pub mip_gap_bits: Option<u64>,
    /// iteration limit of the tableau simplex (0 = the default 10000)
    pub simplex_limit: i64,
    /// builder object only: `with_mip_gap` is called with THIS value first, then with `mip_gap_bits` (same object)
    #[serde(default)]
    pub first_gap_bits: Option<u64>,
    /// builder object only: `with_time_limit` is called with THIS value first, then with `time_limit_ns`
    #[serde(default)]
    pub first_limit_ns: Option<u64>,
}
impl Opts {
    pub fn gap(mut self, g: f64) -> Self { self.mip_gap_bits = Some(g.to_bits()); self }
    pub fn limit_ns(mut self, ns: u64) -> Self { self.time_limit_ns = Some(ns); self }
}

#[derive(Clone, Copy, Debug, PartialEq, Serialize, Deserialize)]
pub enum Val { Bool(bool), Int(i32), Real(#[serde(with = "fbits")] f64) }
impl Val {
    pub fn as_f64(self) -> f64 { match self { Val::Bool(b) => if b { 1.0 } else { 0.0 }, Val::Int(i) => i as f64, Val::Real(r) => r } }
}

#[derive(Clone, Debug, Serialize, Deserialize)]
pub struct Sol {
    /// rooc `SolutionStatus` (`optimal` / `feasible` / `infeasible` / `unbounded`); for raw kinds the external solver's own status
    pub status: String,
    #[serde(with = "fbits")]
    pub value: f64,
    /// `LpSolution::assignment()` in order
    pub assignment: Vec<(String, Val)>,
    /// `LpSolution::value_of(name)` for every name in `LinearModel::variables()` (in that order)
    pub by_name: Vec<(String, Option<Val>)>,
    /// `LpSolution::constraints()` in map order
    pub constraints: Vec<(String, F)>,
    /// `LpSolution::shadow_prices()` in map order (raw-clarabel: one entry per row, unnamed included)
    pub duals: Vec<(String, F)>,
    /// the same facts read through EVERY other public accessor (`key -> rendering`): `status.trait` (`SolveStatus::status`),
    /// `status.builder` (`BuilderSolution::status`), `value.trait`, `price.trait:<name>` / `price.builder:<name>`
    /// (`DualValues::shadow_price`, `BuilderSolution::shadow_price`) and `price.inherent:<name>` (`shadow_prices().get`),
    /// `activity.trait:<name>` / `activity.inherent:<name>`, for every row name, the empty name and an unknown name
    #[serde(default)]
    pub accessors: Vec<(String, String)>,
}

#[derive(Clone, Debug, Serialize, Deserialize)]
pub enum Outcome {
    Solution(Sol),
    /// `SolverError` variant name (or the external solver's error variant for raw kinds) + its Display text
    Err { variant: String, msg: String },
    Panic(String),
    Hang,
}

/// f64 that crosses the pipe as its bit pattern
#[derive(Clone, Copy, Debug, PartialEq, Serialize, Deserialize)]
pub struct F(#[serde(with = "fbits")] pub f64);

mod fbits {
    use serde::{Deserialize, Deserializer, Serializer};
    pub fn serialize<S: Serializer>(v: &f64, s: S) -> Result<S::Ok, S::Error> { s.serialize_u64(v.to_bits()) }
    pub fn deserialize<'de, D: Deserializer<'de>>(d: D) -> Result<f64, D::Error> { Ok(f64::from_bits(u64::deserialize(d)?)) }
}

// ------------------------------------------------------------------------------------------- wire model

#[derive(Serialize, Deserialize)]
enum WTy { Bool, Int(i32, i32), Real(u64, u64), NonNeg(u64, u64) }
#[derive(Serialize, Deserialize)]
struct WRow { name: String, cmp: u8, coeffs: Vec<u64>, rhs: u64 }
#[derive(Serialize, Deserialize)]
struct WModel { opt: u8, obj: Vec<u64>, off: u64, vars: Vec<String>, dom: Vec<(String, WTy)>, rows: Vec<WRow> }
#[derive(Serialize, Deserialize)]
struct WReq { kind: SolverKind, model: WModel, opts: Opts, #[serde(default)] pin_unused_free: bool }

/// Do the mirror kinds pin an unused free column to 0 like the repaired wrappers do
/// (`fixes/C05-microlp-unused-free-column.diff`)?  Set once per run by `gen_lp::detect_variants`.
pub static MIRROR_PINS_UNUSED_FREE: std::sync::atomic::AtomicBool = std::sync::atomic::AtomicBool::new(false);

fn bits(v: &[f64]) -> Vec<u64> { v.iter().map(|x| x.to_bits()).collect() }
fn unbits(v: &[u64]) -> Vec<f64> { v.iter().map(|x| f64::from_bits(*x)).collect() }

fn to_wire(lm: &LinearModel) -> WModel {
    WModel {
        opt: match lm.optimization_type() { OptimizationType::Min => 0, OptimizationType::Max => 1, OptimizationType::Satisfy => 2 },
        obj: bits(lm.objective()),
        off: lm.objective_offset().to_bits(),
        vars: lm.variables().clone(),
        dom: lm.domain().iter().map(|(n, d)| (n.clone(), match d.get_type() {
            VariableType::Boolean => WTy::Bool,
            VariableType::IntegerRange(a, b) => WTy::Int(*a, *b),
            VariableType::Real(a, b) => WTy::Real(a.to_bits(), b.to_bits()),
            VariableType::NonNegativeReal(a, b) => WTy::NonNeg(a.to_bits(), b.to_bits()),
        })).collect(),
        rows: lm.constraints().iter().map(|r| WRow {
            name: r.name(),
            cmp: match r.constraint_type() {
                Comparison::LessOrEqual => 0, Comparison::GreaterOrEqual => 1, Comparison::Equal => 2,
                Comparison::Less => 3, Comparison::Greater => 4,
            },
            coeffs: bits(r.coefficients()),
            rhs: r.rhs().to_bits(),
        }).collect(),
    }
}

fn from_wire(w: &WModel) -> LinearModel {
    let mut domain = IndexMap::new();
    for (n, t) in &w.dom {
        let ty = match t {
            WTy::Bool => VariableType::Boolean,
            WTy::Int(a, b) => VariableType::IntegerRange(*a, *b),
            WTy::Real(a, b) => VariableType::Real(f64::from_bits(*a), f64::from_bits(*b)),
            WTy::NonNeg(a, b) => VariableType::NonNegativeReal(f64::from_bits(*a), f64::from_bits(*b)),
        };
        domain.insert(n.clone(), DomainVariable::new(ty, Default::default()));
    }
    let rows = w.rows.iter().map(|r| LinearConstraint::new_with_name(
        unbits(&r.coeffs),
        match r.cmp { 0 => Comparison::LessOrEqual, 1 => Comparison::GreaterOrEqual, 2 => Comparison::Equal, 3 => Comparison::Less, _ => Comparison::Greater },
        f64::from_bits(r.rhs),
        r.name.clone(),
    )).collect();
    let opt = match w.opt { 0 => OptimizationType::Min, 1 => OptimizationType::Max, _ => OptimizationType::Satisfy };
    LinearModel::new_from_parts(unbits(&w.obj), opt, f64::from_bits(w.off), rows, w.vars.clone(), domain)
}

// ------------------------------------------------------------------------------------------- parent side

struct Worker { child: Child, stdin: ChildStdin, rx: Receiver<String> }

static WORKER: Mutex<Option<Worker>> = Mutex::new(None);

fn spawn() -> Worker {
    let exe = std::env::current_exe().expect("current_exe");
    let mut child = Command::new(exe)
        .arg("solve-worker")
        .stdin(Stdio::piped()).stdout(Stdio::piped()).stderr(Stdio::null())
        .spawn().expect("spawn solve-worker");
    let stdin = child.stdin.take().unwrap();
    let stdout = child.stdout.take().unwrap();
    let (tx, rx) = channel();
    std::thread::spawn(move || {
        let r = BufReader::new(stdout);
        for line in r.lines() {
            match line { Ok(l) => { if tx.send(l).is_err() { break; } } Err(_) => break }
        }
    });
    Worker { child, stdin, rx }
}

/// Runs one solver call in the worker process with a wall-clock limit.
pub fn solve(kind: SolverKind, lm: &LinearModel, opts: &Opts, timeout: Duration) -> Outcome {
    let req = serde_json::to_string(&WReq { kind, model: to_wire(lm), opts: opts.clone(), pin_unused_free: MIRROR_PINS_UNUSED_FREE.load(std::sync::atomic::Ordering::Relaxed) }).unwrap();
    let mut guard = WORKER.lock().unwrap();
    for attempt in 0..2 {
        if guard.is_none() { *guard = Some(spawn()); }
        let w = guard.as_mut().unwrap();
        let sent = w.stdin.write_all(req.as_bytes()).and_then(|_| w.stdin.write_all(b"\n")).and_then(|_| w.stdin.flush());
        if sent.is_err() {
            kill(&mut guard);
            continue;
        }
        // a hang is a call that BURNS its time limit: when the machine is loaded the worker may simply not have
        // been scheduled, so the wall-clock wait is extended while the worker's own CPU time stays below the limit
        let cpu0 = cpu_time(w.child.id());
        let mut got = w.rx.recv_timeout(timeout);
        let mut extensions = 0;
        while matches!(got, Err(std::sync::mpsc::RecvTimeoutError::Timeout)) && extensions < 20
            && cpu_time(w.child.id()).saturating_sub(cpu0) < timeout.mul_f64(0.8) {
            extensions += 1;
            got = w.rx.recv_timeout(timeout);
        }
        match got {
            Ok(line) => match serde_json::from_str::<Outcome>(&line) {
                Ok(o) => return o,
                Err(e) => { kill(&mut guard); return Outcome::Panic(format!("worker answered garbage: {} ({})", line, e)); }
            },
            Err(std::sync::mpsc::RecvTimeoutError::Timeout) => { kill(&mut guard); return Outcome::Hang; }
            Err(std::sync::mpsc::RecvTimeoutError::Disconnected) => {
                // the worker died (abort, stack overflow, …): report it as a panic of this call
                kill(&mut guard);
                if attempt == 1 { return Outcome::Panic("worker process died".into()); }
                return Outcome::Panic("worker process died (abort / stack overflow?)".into());
            }
        }
    }
    Outcome::Panic("could not talk to the worker".into())
}

/// user + system CPU time the process has consumed so far (Linux: /proc/<pid>/stat fields 14 and 15, in clock ticks
/// of 1/100 s); unknown -> "infinitely much", i.e. the plain wall-clock rule applies
fn cpu_time(pid: u32) -> Duration {
    let stat = match std::fs::read_to_string(format!("/proc/{}/stat", pid)) { Ok(s) => s, Err(_) => return Duration::MAX };
    // the command name (field 2) may contain spaces: fields are counted after the closing parenthesis
    let rest = match stat.rfind(')') { Some(i) => &stat[i + 1..], None => return Duration::MAX };
    let f: Vec<&str> = rest.split_whitespace().collect();
    match (f.get(11).and_then(|x| x.parse::<u64>().ok()), f.get(12).and_then(|x| x.parse::<u64>().ok())) {
        (Some(u), Some(s)) => Duration::from_millis((u + s) * 10),
        _ => Duration::MAX,
    }
}

fn kill(g: &mut Option<Worker>) {
    if let Some(mut w) = g.take() {
        let _ = w.child.kill();
        let _ = w.child.wait();
    }
}

/// Stops the worker (call at the end of a run; otherwise it exits when its stdin closes).
pub fn shutdown() { kill(&mut WORKER.lock().unwrap()); }

// ------------------------------------------------------------------------------------------- worker side

pub fn worker_main() {
    std::panic::set_hook(Box::new(|_| {}));
    let stdin = std::io::stdin();
    let stdout = std::io::stdout();
    for line in stdin.lock().lines() {
        let line = match line { Ok(l) => l, Err(_) => break };
        if line.trim().is_empty() { continue; }
        let out = match serde_json::from_str::<WReq>(&line) {
            Ok(req) => {
                let lm = from_wire(&req.model);
                match std::panic::catch_unwind(std::panic::AssertUnwindSafe(|| run(req.kind, &lm, &req.opts, req.pin_unused_free))) {
                    Ok(o) => o,
                    Err(p) => Outcome::Panic(
                        p.downcast_ref::<&str>().map(|s| s.to_string())
                            .or_else(|| p.downcast_ref::<String>().cloned())
                            .unwrap_or_else(|| "panic".into()),
                    ),
                }
            }
            Err(e) => Outcome::Panic(format!("bad request: {}", e)),
        };
        let mut o = stdout.lock();
        let _ = o.write_all(serde_json::to_string(&out).unwrap().as_bytes());
        let _ = o.write_all(b"\n");
        let _ = o.flush();
    }
}

pub fn err_variant(e: &rooc::SolverError) -> &'static str {
    use rooc::SolverError::*;
    match e {
        InvalidDomain { .. } => "InvalidDomain", TooLarge { .. } => "TooLarge", DidNotSolve => "DidNotSolve",
        Unbounded => "Unbounded", Infeasible => "Infeasible", Other(_) => "Other", LimitReached => "LimitReached",
        UnimplementedOptimizationType { .. } => "UnimplementedOptimizationType",
        UnavailableComparison { .. } => "UnavailableComparison",
    }
}
fn status_name(s: rooc::SolutionStatus) -> &'static str {
    match s {
        rooc::SolutionStatus::Optimal => "optimal", rooc::SolutionStatus::Feasible => "feasible",
        rooc::SolutionStatus::Infeasible => "infeasible", rooc::SolutionStatus::Unbounded => "unbounded",
    }
}
fn fmap(m: &IndexMap<String, f64>) -> Vec<(String, F)> { m.iter().map(|(k, v)| (k.clone(), F(*v))).collect() }

pub fn pack_milp(lm: &LinearModel, r: Result<rooc::LpSolution<rooc::MILPValue>, rooc::SolverError>) -> Outcome {
    let conv = |v: rooc::MILPValue| match v { rooc::MILPValue::Bool(b) => Val::Bool(b), rooc::MILPValue::Int(i) => Val::Int(i), rooc::MILPValue::Real(r) => Val::Real(r) };
    match r {
        Ok(s) => Outcome::Solution(Sol {
            status: status_name(s.status()).into(),
            value: s.value(),
            assignment: s.assignment().iter().map(|a| (a.name.clone(), conv(a.value))).collect(),
            by_name: lm.variables().iter().map(|n| (n.clone(), s.value_of(n).map(conv))).collect(),
            constraints: fmap(s.constraints()),
            duals: fmap(s.shadow_prices()),
            accessors: accessors(lm, &s),
        }),
        Err(e) => Outcome::Err { variant: err_variant(&e).into(), msg: e.to_string() },
    }
}
fn pack_real(lm: &LinearModel, r: Result<rooc::LpSolution<f64>, rooc::SolverError>) -> Outcome {
    match r {
        Ok(s) => Outcome::Solution(Sol {
            status: status_name(s.status()).into(),
            value: s.value(),
            assignment: s.assignment().iter().map(|a| (a.name.clone(), Val::Real(a.value))).collect(),
            by_name: lm.variables().iter().map(|n| (n.clone(), s.value_of(n).map(Val::Real))).collect(),
            constraints: fmap(s.constraints()),
            duals: fmap(s.shadow_prices()),
            accessors: accessors(lm, &s),
        }),
        Err(e) => Outcome::Err { variant: err_variant(&e).into(), msg: e.to_string() },
    }
}

fn opt_f(v: Option<f64>) -> String { match v { Some(x) => format!("some:{:016x}", if x.is_nan() { f64::NAN.to_bits() } else { x.to_bits() }), None => "none".into() } }

/// names every accessor is queried with: the row names, the empty name, a name no row has
fn query_names(lm: &LinearModel) -> Vec<String> {
    let mut v: Vec<String> = vec![];
    for r in lm.constraints() { if !v.contains(&r.name()) { v.push(r.name()); } }
    if !v.contains(&String::new()) { v.push(String::new()); }
    v.push("no-such-row".into());
    v
}

/// the solution read through the capability traits (what `BuilderSolution` dispatches through) next to the inherent accessors
fn accessors<T>(lm: &LinearModel, s: &rooc::LpSolution<T>) -> Vec<(String, String)>
where T: Clone + serde::Serialize + serde::de::DeserializeOwned + Copy + std::fmt::Display + Into<f64> {
    use rooc::{ConstraintValues, DualValues, SolveStatus};
    let mut a = vec![
        ("status.inherent".to_string(), status_name(s.status()).to_string()),
        ("status.trait".to_string(), status_name(SolveStatus::status(s)).to_string()),
        ("value.inherent".to_string(), opt_f(Some(s.value()))),
        ("value.trait".to_string(), opt_f(Some(rooc::Solution::objective_value(s)))),
    ];
    for n in query_names(lm) {
        a.push((format!("price.inherent:{}", n), opt_f(s.shadow_prices().get(&n).copied())));
        a.push((format!("price.trait:{}", n), opt_f(DualValues::shadow_price(s, &n))));
        a.push((format!("activity.inherent:{}", n), opt_f(s.constraints().get(&n).copied())));
        a.push((format!("activity.trait:{}", n), opt_f(ConstraintValues::constraint_value(s, &n))));
    }
    a
}

/// the model rebuilt as a `ModelBuilder` and solved through `solve_with`: the `BuilderSolution` accessors against those of
/// the `LpSolution` it wraps (the compiled model may differ from `lm` — derived bounds, column order — so only the
/// AGREEMENT of the accessors is reported here, never values against `lm`)
fn builder_door<S, T>(lm: &LinearModel, solver: S, aux: bool, conv: impl Fn(T) -> Val) -> Outcome
where
    S: rooc::Solver<Solution = rooc::LpSolution<T>>,
    T: Clone + serde::Serialize + serde::de::DeserializeOwned + Copy + std::fmt::Display + Into<f64>,
{
    use rooc::{BuilderConstraint, Expr, ModelBuilder};
    let mut b = ModelBuilder::new();
    let mut vars = vec![];
    for n in lm.variables() {
        let t = match lm.domain().get(n) { Some(d) => d.get_type().clone(), None => return Outcome::Err { variant: "pre:missing-domain".into(), msg: String::new() } };
        vars.push(b.add_var(n.clone(), t));
    }
    let lin = |cs: &[f64]| -> Expr { rooc::builder::sum(cs.iter().zip(vars.iter()).filter(|(c, _)| **c != 0.0).map(|(c, v)| Expr::from(*v) * *c)) };
    for r in lm.constraints() {
        b = b.with(BuilderConstraint::new(lin(r.coefficients()), *r.constraint_type(), Expr::Number(r.rhs()), r.name()));
    }
    if aux && vars.len() >= 2 {
        // never binding, but lowered through a `$` helper variable
        b = b.with(BuilderConstraint::new(rooc::builder::max([Expr::from(vars[0]), Expr::from(vars[1])]), Comparison::LessOrEqual, Expr::Number(1.0e6), "aux_never_binds".into()));
    }
    b = match lm.optimization_type() {
        OptimizationType::Min => b.minimize(lin(lm.objective()) + lm.objective_offset()),
        OptimizationType::Max => b.maximize(lin(lm.objective()) + lm.objective_offset()),
        OptimizationType::Satisfy => b.satisfy(),
    };
    match b.solve_with(solver) {
        Ok(bs) => {
            let s = bs.solution();
            let mut acc = accessors(lm, s);
            acc.push(("status.builder".into(), status_name(bs.status()).to_string()));
            acc.push(("value.builder".into(), opt_f(Some(bs.value()))));
            for n in query_names(lm) {
                acc.push((format!("price.builder:{}", n), opt_f(bs.shadow_price(&n))));
                acc.push((format!("activity.builder:{}", n), opt_f(bs.constraint_value(&n))));
            }
            Outcome::Solution(Sol {
                status: status_name(s.status()).into(),
                value: s.value(),
                assignment: s.assignment().iter().map(|a| (a.name.clone(), conv(a.value))).collect(),
                by_name: lm.variables().iter().map(|n| (n.clone(), s.value_of(n).map(&conv))).collect(),
                constraints: fmap(s.constraints()),
                duals: fmap(s.shadow_prices()),
                accessors: acc,
            })
        }
        Err(rooc::BuilderError::Solver(e)) => Outcome::Err { variant: err_variant(&e).into(), msg: e.to_string() },
        Err(e) => Outcome::Err { variant: "Linearization".into(), msg: format!("{:?}", e).chars().take(60).collect() },
    }
}

fn milp_options(o: &Opts) -> rooc::MilpOptions {
    rooc::MilpOptions { mip_gap: o.mip_gap_bits.map(f64::from_bits), time_limit: o.time_limit_ns.map(Duration::from_nanos) }
}

fn run(kind: SolverKind, lm: &LinearModel, o: &Opts, pin: bool) -> Outcome {
    match kind {
        SolverKind::Milp => {
            if o.mip_gap_bits.is_none() && o.time_limit_ns.is_none() { pack_milp(lm, rooc::solve_milp_lp_problem(lm)) }
            else { pack_milp(lm, rooc::solve_milp_lp_problem_with(lm, &milp_options(o))) }
        }
        SolverKind::Auto => pack_milp(lm, rooc::auto_solver(lm)),
        SolverKind::MicroLp => pack_real(lm, rooc::solve_real_lp_problem_micro_lp(lm)),
        SolverKind::Clarabel => pack_real(lm, rooc::solve_real_lp_problem_clarabel(lm)),
        SolverKind::Simplex => pack_real(lm, rooc::solve_real_lp_problem_slow_simplex(lm, if o.simplex_limit == 0 { 10000 } else { o.simplex_limit })),
        SolverKind::BuilderMicrolp => {
            use rooc::Solver;
            let mut m = rooc::Microlp::new();
            if let Some(g) = o.first_gap_bits { m = m.with_mip_gap(f64::from_bits(g)); }
            if let Some(ns) = o.first_limit_ns { m = m.with_time_limit(Duration::from_nanos(ns)); }
            if let Some(g) = o.mip_gap_bits { m = m.with_mip_gap(f64::from_bits(g)); }
            if let Some(ns) = o.time_limit_ns { m = m.with_time_limit(Duration::from_nanos(ns)); }
            pack_milp(lm, m.solve(lm))
        }
        SolverKind::BuilderAuto => { use rooc::Solver; pack_milp(lm, rooc::Auto.solve(lm)) }
        SolverKind::BuilderClarabel => { use rooc::Solver; pack_real(lm, rooc::Clarabel.solve(lm)) }
        SolverKind::BuilderDoorMicrolp | SolverKind::BuilderDoorMicrolpAux => {
            let mut m = rooc::Microlp::new();
            if let Some(g) = o.mip_gap_bits { m = m.with_mip_gap(f64::from_bits(g)); }
            if let Some(ns) = o.time_limit_ns { m = m.with_time_limit(Duration::from_nanos(ns)); }
            builder_door(lm, m, kind == SolverKind::BuilderDoorMicrolpAux, |v| match v { rooc::MILPValue::Bool(b) => Val::Bool(b), rooc::MILPValue::Int(i) => Val::Int(i), rooc::MILPValue::Real(r) => Val::Real(r) })
        }
        SolverKind::BuilderDoorClarabel => builder_door(lm, rooc::Clarabel, false, Val::Real),
        SolverKind::RawMilp => raw_milp(lm, o, pin),
        SolverKind::RawMicroLp => raw_microlp(lm, pin),
        SolverKind::RawClarabel => raw_clarabel(lm),
    }
}

// ---- mirrors: the external solver called directly, with the problem built exactly like the rooc wrapper builds it

fn mlp_err(e: microlp::Error) -> Outcome {
    let (variant, msg) = match e {
        microlp::Error::Infeasible => ("Infeasible", String::new()),
        microlp::Error::Unbounded => ("Unbounded", String::new()),
        microlp::Error::InternalError(s) => ("InternalError", s),
        microlp::Error::InvalidOptions(s) => ("InvalidOptions", s),
        microlp::Error::InvalidOperation(s) => ("InvalidOperation", s),
    };
    Outcome::Err { variant: variant.into(), msg }
}
fn mlp_status(s: microlp::Status) -> &'static str {
    match s { microlp::Status::Optimal => "optimal", microlp::Status::Feasible => "feasible", microlp::Status::Interrupted => "interrupted" }
}
fn mlp_cmp(c: &Comparison) -> Option<microlp::ComparisonOp> {
    match c {
        Comparison::LessOrEqual => Some(microlp::ComparisonOp::Le), Comparison::GreaterOrEqual => Some(microlp::ComparisonOp::Ge),
        Comparison::Equal => Some(microlp::ComparisonOp::Eq), _ => None,
    }
}

/// mirror of `milp_solver.rs::solve_milp_lp_problem_with` up to `problem.solve_with(..)`
/// mirror of `common.rs::is_unused_column`
fn unused_free(lm: &LinearModel, i: usize, t: &VariableType) -> bool {
    matches!(t, VariableType::Real(a, b) if *a == f64::NEG_INFINITY && *b == f64::INFINITY)
        && lm.objective().get(i).map_or(true, |c| *c == 0.0)
        && lm.constraints().iter().all(|r| r.coefficients().get(i).map_or(true, |c| *c == 0.0))
}

fn raw_milp(lm: &LinearModel, o: &Opts, pin: bool) -> Outcome {
    let vars = lm.variables();
    if lm.objective().len() != vars.len() { return Outcome::Err { variant: "pre:objective-length".into(), msg: String::new() }; }
    let dir = match lm.optimization_type() { OptimizationType::Max => microlp::OptimizationDirection::Maximize, _ => microlp::OptimizationDirection::Minimize };
    let mut p = microlp::Problem::new(dir);
    let mut mv = vec![];
    for (i, v) in vars.iter().enumerate() {
        let d = match lm.domain().get(v) { Some(d) => d, None => return Outcome::Panic("pre:unwrap on missing domain".into()) };
        let c = lm.objective()[i];
        mv.push(match d.get_type() {
            t if pin && unused_free(lm, i, t) => p.add_var(c, (0.0, 0.0)),
            VariableType::Real(a, b) | VariableType::NonNegativeReal(a, b) => p.add_var(c, (*a, *b)),
            VariableType::Boolean => p.add_binary_var(c),
            VariableType::IntegerRange(a, b) => p.add_integer_var(c, (*a, *b)),
        });
    }
    for r in lm.constraints() {
        let op = match mlp_cmp(r.constraint_type()) { Some(op) => op, None => return Outcome::Err { variant: "pre:UnavailableComparison".into(), msg: String::new() } };
        let coeffs: Vec<_> = mv.iter().zip(r.coefficients().iter()).map(|(v, c)| (*v, *c)).collect();
        p.add_constraint(coeffs, op, r.rhs());
    }
    let mut so = microlp::SolveOptions::default();
    if let Some(g) = o.mip_gap_bits { so.mip_gap = f64::from_bits(g); }
    if let Some(ns) = o.time_limit_ns { so.time_limit = Some(Duration::from_nanos(ns)); }
    match p.solve_with(so) {
        Ok(s) => Outcome::Solution(Sol {
            status: mlp_status(s.status()).into(),
            value: s.objective(),
            assignment: vars.iter().zip(mv.iter()).map(|(n, v)| (n.clone(), Val::Real(s.var_value(*v)))).collect(),
            by_name: vec![], constraints: vec![], duals: vec![], accessors: vec![],
        }),
        Err(e) => mlp_err(e),
    }
}

/// mirror of `simplex_solver.rs::solve_real_lp_problem_micro_lp` up to `problem.solve()`
fn raw_microlp(lm: &LinearModel, pin: bool) -> Outcome {
    for (_, d) in lm.domain() {
        if !matches!(d.get_type(), VariableType::Real(_, _) | VariableType::NonNegativeReal(_, _)) {
            return Outcome::Err { variant: "pre:InvalidDomain".into(), msg: String::new() };
        }
    }
    let dir = match lm.optimization_type() {
        OptimizationType::Min => microlp::OptimizationDirection::Minimize,
        OptimizationType::Max => microlp::OptimizationDirection::Maximize,
        OptimizationType::Satisfy => return Outcome::Err { variant: "pre:UnimplementedOptimizationType".into(), msg: String::new() },
    };
    let mut p = microlp::Problem::new(dir);
    let mut mv = vec![];
    for (i, v) in lm.variables().iter().enumerate() {
        let d = match lm.domain().get(v) { Some(d) => d, None => return Outcome::Err { variant: "pre:Other".into(), msg: String::new() } };
        match d.get_type() {
            t if pin && unused_free(lm, i, t) => mv.push(p.add_var(lm.objective()[i], (0.0, 0.0))),
            VariableType::Real(a, b) | VariableType::NonNegativeReal(a, b) => mv.push(p.add_var(lm.objective()[i], (*a, *b))),
            _ => return Outcome::Err { variant: "pre:InvalidDomain".into(), msg: String::new() },
        }
    }
    for r in lm.constraints() {
        let coeffs: Vec<_> = r.coefficients().iter().zip(mv.iter()).map(|(c, v)| (*v, *c)).collect();
        let op = match mlp_cmp(r.constraint_type()) { Some(op) => op, None => return Outcome::Err { variant: "pre:UnavailableComparison".into(), msg: String::new() } };
        p.add_constraint(&coeffs, op, r.rhs());
    }
    match p.solve() {
        Ok(s) => Outcome::Solution(Sol {
            status: mlp_status(s.status()).into(),
            value: s.objective(),
            assignment: lm.variables().iter().zip(mv.iter()).map(|(n, v)| (n.clone(), Val::Real(s[*v]))).collect(),
            by_name: vec![], constraints: vec![], duals: vec![], accessors: vec![],
        }),
        Err(e) => mlp_err(e),
    }
}

/// mirror of `good_lp.rs::solve_with_good_lp` (as instantiated by `clarabel.rs`) up to `model.solve()`
fn raw_clarabel(lm: &LinearModel) -> Outcome {
    use good_lp::{Expression, ProblemVariables, Solution, SolutionWithDual, DualValues, SolverModel, VariableDefinition};
    for (_, d) in lm.domain() {
        if !matches!(d.get_type(), VariableType::Real(_, _) | VariableType::NonNegativeReal(_, _)) {
            return Outcome::Err { variant: "pre:InvalidDomain".into(), msg: String::new() };
        }
    }
    let vars = lm.variables();
    if lm.objective().len() != vars.len() { return Outcome::Err { variant: "pre:Other".into(), msg: String::new() }; }
    let mut pv = ProblemVariables::new();
    let mut created = vec![];
    for n in vars {
        let d = match lm.domain().get(n) { Some(d) => d, None => return Outcome::Err { variant: "pre:Other".into(), msg: String::new() } };
        let def = match d.get_type() {
            VariableType::Boolean => VariableDefinition::new().name(n).binary(),
            VariableType::IntegerRange(a, b) => VariableDefinition::new().name(n).integer().min(*a as f64).max(*b as f64),
            VariableType::Real(a, b) | VariableType::NonNegativeReal(a, b) => VariableDefinition::new().name(n).min(*a).max(*b),
        };
        created.push(pv.add(def));
    }
    let dir = match lm.optimization_type() {
        OptimizationType::Max => good_lp::solvers::ObjectiveDirection::Maximisation,
        _ => good_lp::solvers::ObjectiveDirection::Minimisation,
    };
    let objective = match lm.optimization_type() {
        OptimizationType::Satisfy => Expression::from(0.0),
        _ => created.iter().zip(lm.objective()).fold(Expression::from(lm.objective_offset()), |e, (v, c)| e + *c * *v),
    };
    let mut model = pv.optimise(dir, objective).using(good_lp::clarabel);
    let mut refs = vec![];
    for r in lm.constraints() {
        if r.coefficients().len() != vars.len() { return Outcome::Err { variant: "pre:Other".into(), msg: String::new() }; }
        let e = r.coefficients().iter().enumerate().fold(Expression::with_capacity(vars.len()), |e, (i, c)| e + *c * created[i]);
        let c = match r.constraint_type() {
            Comparison::LessOrEqual => e.leq(r.rhs()), Comparison::GreaterOrEqual => e.geq(r.rhs()), Comparison::Equal => e.eq(r.rhs()),
            _ => return Outcome::Err { variant: "pre:UnavailableComparison".into(), msg: String::new() },
        };
        refs.push((r.name(), model.add_constraint(c)));
    }
    match model.solve() {
        Ok(mut s) => {
            let status = format!("{:?}", s.inner().status);
            let values: Vec<f64> = created.iter().map(|v| s.value(*v)).collect();
            let dual = s.compute_dual();
            let duals = refs.iter().map(|(n, r)| (n.clone(), F(dual.dual(r.clone())))).collect();
            Outcome::Solution(Sol {
                status, value: 0.0,
                assignment: vars.iter().zip(values.iter()).map(|(n, v)| (n.clone(), Val::Real(*v))).collect(),
                by_name: vec![], constraints: vec![], duals, accessors: vec![],
            })
        }
        Err(e) => {
            let (variant, msg) = match e {
                good_lp::ResolutionError::Unbounded => ("Unbounded", String::new()),
                good_lp::ResolutionError::Infeasible => ("Infeasible", String::new()),
                good_lp::ResolutionError::Other(m) => ("Other", m.to_string()),
                good_lp::ResolutionError::Str(m) => ("Str", m),
            };
            Outcome::Err { variant: variant.into(), msg }
        }
    }
}
