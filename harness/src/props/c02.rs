//! C02 — objective preservation; shares the generator and correspondence of C01, different oracle question.
use crate::case::Case;
pub fn generate(seed: u64, n: usize, thorough: bool, corpus: Option<&str>) -> Vec<Case> {
    crate::props::c01::generate_for("c02", seed.wrapping_add(1000), n, thorough, corpus)
}
