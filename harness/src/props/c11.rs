//! C11 — formatting preserves meaning and is idempotent.
//! Every case is a program text `s`.  The real `RoocParser::format()` output is compared byte-for-byte with the
//! Lean port of the printers applied to the `PreModel` the real parser produced for `s`; and — on the
//! implementation alone — `format(s)` must parse, format to itself again, and compile to the same `Model` as `s`
//! (when `s` does not compile: re-parse to the same `PreModel`).  The Lean oracle classifies any deviation by its
//! root cause (the (parent operator, child operator, side) triple of the first dropped parenthesis, …).
use crate::case::Case;
use crate::props::c09::{BLOCKS, GenCfg, gen_exp};
use crate::rng::Rng;
use crate::sx;
use crate::syntax::{self, T};
use indexmap::IndexMap;
use rooc::RoocParser;
use std::collections::HashSet;

fn compile(src: &str) -> Result<String, String> {
    let s = src.to_string();
    match std::panic::catch_unwind(move || RoocParser::new(s).parse_and_transform(vec![], &IndexMap::new())) {
        Ok(Ok(m)) => Ok(sx::model(&m)),
        Ok(Err(e)) => Err(e.lines().next().unwrap_or("").chars().take(80).collect()),
        Err(_) => Err("panic".into()),
    }
}

fn one(src: &str, stream: &str) -> Option<Case> {
    let s = src.to_string();
    let parsed = std::panic::catch_unwind(move || RoocParser::new(s).parse());
    let pm = match parsed {
        Ok(Ok(pm)) => pm,
        _ => return None, // not a parseable source text: outside the property's quantifier
    };
    let s = src.to_string();
    let f1 = match std::panic::catch_unwind(move || RoocParser::new(s).format()) {
        Ok(Ok(f)) => f,
        Ok(Err(_)) => return None,
        Err(_) => {
            let mut c = Case::default();
            c.show = src.to_string();
            c.tags = vec![stream.into(), "format-panics".into()];
            c.impl_violation = Some("RoocParser::format panics".into());
            c.sig = Some("format-panics".into());
            return Some(c);
        }
    };
    let before = syntax::pre_model(&pm);
    let mut c = Case::default();
    // contract of `Display for Primitive::Number` (NumTokenOk): the printed text is Rust's f64 Display and reads back
    // as the very same f64
    let mut nums: Vec<f64> = vec![];
    number_literals(&pm, &mut nums);
    for v in &nums {
        if !v.is_finite() { continue; }
        let shown = rooc::Primitive::Number(*v).to_string();
        let is_lit = {
            let mut parts = shown.splitn(2, '.');
            let a = parts.next().unwrap_or("");
            let b = parts.next();
            !a.is_empty() && a.chars().all(|c| c.is_ascii_digit()) && b.map(|b| !b.is_empty() && b.chars().all(|c| c.is_ascii_digit())).unwrap_or(true)
        };
        // how the grammar reads the text back: `integer` through i64, `float` through f64
        let back: Option<f64> = if !is_lit { None } else if shown.contains('.') { shown.parse::<f64>().ok() } else { shown.parse::<i64>().ok().map(|i| i as f64) };
        if back.map(|b| b.to_bits()) != Some(v.to_bits()) && *v >= 0.0 {
            let overflow = is_lit && !shown.contains('.') && shown.parse::<i64>().is_err();
            c.impl_violation = Some(format!("Display for Primitive::Number does not read back as the same number: {:?} is printed `{}` (read back: {:?})", v, shown, back));
            c.sig = Some(if overflow { "integral-float-beyond-i64-printed-as-integer".into() } else { "number-display-changes-value".into() });
            break;
        }
    }
    if nums.iter().any(|v| { let t = v.to_string(); t.len() >= 12 }) { c.tags.push("long-number-literal".into()); }
    if nums.iter().any(|v| *v != 0.0 && v.abs() < 1e-8) { c.tags.push("tiny-number-literal".into()); }
    if nums.iter().any(|v| v.abs() >= 1e9) { c.tags.push("large-number-literal".into()); }
    c.tags.push(if syntax::in_fragment(&pm, false) { "format-fragment:in".into() } else { "format-fragment:out".into() });
    c.req = format!("format {}", before);
    c.imp = format!("(ok {})", sx::q(&f1));
    c.show = src.to_string();
    c.tags.insert(0, stream.into());
    // --- implementation-side facts handed to the oracle
    let f1c = f1.clone();
    let re = std::panic::catch_unwind(move || RoocParser::new(f1c).parse());
    let values_before = opaque_values(&pm);
    let (after, idem, graphs) = match re {
        Ok(Ok(pm2)) => {
            let f2 = pm2.to_string();
            // the VALUE of every graph / array literal (not its display) before and after
            let g = if values_before.is_empty() { "graphs-none" } else if opaque_values(&pm2) == values_before { "graphs-same" } else { "graphs-differ" };
            (syntax::pre_model(&pm2), f2 == f1, g)
        }
        Ok(Err(_)) => ("reject".to_string(), false, "graphs-none"),
        Err(_) => ("panic".to_string(), false, "graphs-none"),
    };
    if graphs != "graphs-none" { c.tags.push(format!("literal-values:{}", graphs)); }
    let models = match (compile(src), if after == "reject" || after == "panic" { Err("unparsed".into()) } else { compile(&f1) }) {
        (Ok(a), Ok(b)) => { c.tags.push("compiles".into()); if a == b { "same" } else { "differ" } }
        (Ok(_), Err(_)) => { c.tags.push("compiles".into()); "broke" }
        (Err(_), Ok(_)) => { c.tags.push("not-compiling".into()); "repaired" }
        (Err(_), Err(_)) => { c.tags.push("not-compiling".into()); "na" }
    };
    c.oracle = format!("check-format {} {} {} {} {}", before, after, idem, models, graphs);
    // features of the tree, for the distribution
    for (k, t) in [("(bin ", "binary"), ("(un ", "unary"), ("(cvar ", "compound-var"), ("(access ", "array-access"), ("(call ", "call"),
                   ("(block ", "block-fn"), ("(scoped ", "scoped-fn"), ("(let ", "constants"), ("(dom ", "domains"), ("(it ", "iteration"),
                   ("(prim ", "array-or-graph"), ("(str ", "string"), ("(num ", "float"), ("(bool ", "bool"), ("(cv ", "compound-decl"), ("(tuple ", "tuple-iteration")] {
        if before.contains(k) { c.tags.push(t.into()); }
    }
    if before.contains("true (its") { c.tags.push("logic-assertion".into()); }
    if before.contains("(c (") { c.tags.push("named-constraint".into()); }
    c.tags.push(if f1.trim_end() == src.trim_end() { "already-formatted".into() } else { "reformatted".into() });
    // feature coverage: an operand of equal precedence on the side associativity does not favour (the shapes of the
    // parenthesisation defect repaired in 6b01e1a; kept in the streams as regression inputs)
    let mut slots: Vec<&rooc::PreExp> = vec![&pm.objective().rhs];
    for k in pm.constraints() { slots.push(&k.lhs); slots.push(&k.rhs); }
    c.tags.push(if slots.iter().all(|e| round_trips(e)) { "no-equal-prec-regroup-operand".into() } else { "equal-prec-regroup-operand".into() });
    c.nontrivial = before.contains("(bin ") || before.contains("(un ");
    Some(c)
}

/// tagging only: no operand of equal precedence that the parser would regroup without parentheses
fn round_trips(e: &rooc::PreExp) -> bool {
    use rooc::PreExp::*;
    match e {
        BinaryOperation(p, l, r) => {
            let lbad = matches!(&**l, BinaryOperation(c, _, _) if c.precedence() == p.precedence() && !c.is_left_associative());
            let rbad = matches!(&**r, BinaryOperation(c, _, _) if c.precedence() == p.precedence() && p.is_left_associative());
            !lbad && !rbad && round_trips(l) && round_trips(r)
        }
        UnaryOperation(_, x) => round_trips(x),
        FunctionCall(_, f) => f.args.iter().all(round_trips),
        BlockFunction(b) => b.exps.iter().all(round_trips),
        BlockScopedFunction(b) => round_trips(&b.exp),
        _ => true,
    }
}

fn numbers_of(e: &rooc::PreExp, out: &mut Vec<f64>) {
    use rooc::PreExp::*;
    match e {
        Primitive(p) => { if let rooc::Primitive::Number(v) = p.value() { out.push(*v) } }
        BinaryOperation(_, l, r) => { numbers_of(l, out); numbers_of(r, out) }
        UnaryOperation(_, x) => numbers_of(x, out),
        FunctionCall(_, f) => f.args.iter().for_each(|a| numbers_of(a, out)),
        BlockFunction(b) => b.exps.iter().for_each(|a| numbers_of(a, out)),
        BlockScopedFunction(b) => { b.iters.iter().for_each(|i| numbers_of(i.iterator.value(), out)); numbers_of(&b.exp, out) }
        CompoundVariable(c) => c.indexes.iter().for_each(|a| numbers_of(a, out)),
        ArrayAccess(a) => a.accesses.iter().for_each(|a| numbers_of(a, out)),
        Variable(_) => {}
    }
}
/// Debug form (= structural value: nodes, edges, costs bit for bit as Rust writes an f64) of every graph / array
/// primitive of an expression, in order
fn opaque_of(e: &rooc::PreExp, out: &mut Vec<String>) {
    use rooc::PreExp::*;
    match e {
        Primitive(p) => match p.value() {
            rooc::Primitive::Graph(_) | rooc::Primitive::Iterable(_) | rooc::Primitive::Tuple(_) | rooc::Primitive::GraphEdge(_) | rooc::Primitive::GraphNode(_) => out.push(format!("{:?}", p.value())),
            _ => {}
        },
        BinaryOperation(_, l, r) => { opaque_of(l, out); opaque_of(r, out) }
        UnaryOperation(_, x) => opaque_of(x, out),
        FunctionCall(_, f) => f.args.iter().for_each(|a| opaque_of(a, out)),
        BlockFunction(b) => b.exps.iter().for_each(|a| opaque_of(a, out)),
        BlockScopedFunction(b) => { b.iters.iter().for_each(|i| opaque_of(i.iterator.value(), out)); opaque_of(&b.exp, out) }
        CompoundVariable(c) => c.indexes.iter().for_each(|a| opaque_of(a, out)),
        ArrayAccess(a) => a.accesses.iter().for_each(|a| opaque_of(a, out)),
        Variable(_) => {}
    }
}
fn opaque_values(pm: &rooc::pre_model::PreModel) -> Vec<String> {
    use rooc::math_enums::PreVariableType as V;
    let mut out = vec![];
    opaque_of(&pm.objective().rhs, &mut out);
    for k in pm.constraints() { opaque_of(&k.lhs, &mut out); opaque_of(&k.rhs, &mut out); k.iteration.iter().for_each(|i| opaque_of(i.iterator.value(), &mut out)); }
    for k in pm.constants() { opaque_of(&k.value, &mut out); }
    for d in pm.domains() {
        match d.get_type() {
            V::Boolean => {}
            V::NonNegativeReal(a, b) | V::Real(a, b) => { if let Some(a) = a { opaque_of(a, &mut out) } if let Some(b) = b { opaque_of(b, &mut out) } }
            V::IntegerRange(a, b) => { opaque_of(a, &mut out); opaque_of(b, &mut out) }
        }
        d.iteration().iter().for_each(|i| opaque_of(i.iterator.value(), &mut out));
    }
    out
}

/// every `Primitive::Number` literal of a parsed program (objective, constraints, constants, domain bounds, iterators)
fn number_literals(pm: &rooc::pre_model::PreModel, out: &mut Vec<f64>) {
    use rooc::math_enums::PreVariableType as V;
    numbers_of(&pm.objective().rhs, out);
    for k in pm.constraints() { numbers_of(&k.lhs, out); numbers_of(&k.rhs, out); k.iteration.iter().for_each(|i| numbers_of(i.iterator.value(), out)); }
    for k in pm.constants() { numbers_of(&k.value, out); }
    for d in pm.domains() {
        match d.get_type() {
            V::Boolean => {}
            V::NonNegativeReal(a, b) | V::Real(a, b) => { if let Some(a) = a { numbers_of(a, out) } if let Some(b) = b { numbers_of(b, out) } }
            V::IntegerRange(a, b) => { numbers_of(a, out); numbers_of(b, out) }
        }
        d.iteration().iter().for_each(|i| numbers_of(i.iterator.value(), out));
    }
}

/// does the `(ok (premodel …))` answer carry a primitive the model does not display (`(other …)`, an array other than
/// an integer / empty one)?
fn model_declines_tree(imp: &str) -> bool {
    if imp.contains("(other ") { return true; }
    let mut rest = imp;
    while let Some(k) = rest.find("(prim \"") {
        let body = &rest[k + 7..];
        let end = body.find('"').unwrap_or(body.len());
        let d = &body[..end];
        if d.starts_with("Graph {") { rest = &body[end..]; continue; }      // a graph literal: modelled
        let inner = d.trim_start_matches('[').trim_end_matches(']');
        let ok = d.starts_with('[') && d.ends_with(']') && !inner.contains('[')
            && (inner.is_empty() || inner.split(", ").all(|x| !x.is_empty() && x.chars().all(|c| c.is_ascii_digit()))
                || inner.split(", ").all(|x| x == "true" || x == "false"));
        if !ok { return true; }
        rest = &body[end..];
    }
    false
}

/// the same program through the program-level parser model: tree (with its fragment verdict) or the class of the rejection
fn parse_case(src: &str, stream: &str) -> Option<Case> {
    if !syntax::lex_supported(src) || syntax::has_glued_keyword(src) { return None; }
    let s = src.to_string();
    let mut c = Case::default();
    let imp = match std::panic::catch_unwind(move || RoocParser::new(s).parse()) {
        Ok(Ok(pm)) => {
            let inside = syntax::in_fragment(&pm, true);
            c.tags.push(if inside { "fragment:in".into() } else { "fragment:out".into() });
            format!("(ok {} {})", syntax::pre_model_lex(&pm, src), if inside { "in-fragment" } else { "out-of-fragment" })
        }
        Ok(Err(e)) => { let k = syntax::error_class(&e); c.tags.push(format!("program-rejected:{}", k)); format!("(err reject {})", k) }
        Err(_) => "(err panic)".to_string(),
    };
    if imp.starts_with("(ok") && model_declines_tree(&imp) { return None; }
    c.req = format!("parse-program {}", sx::q(src));
    // classification of a known defect when the two parses differ (ranges nested in the lower bound of a range)
    if imp.starts_with("(ok") && src.matches("..").count() >= 2 { c.oracle = format!("check-parse {} {}", sx::q(src), imp); }
    c.tags.extend(["parse-program".to_string(), format!("parse-program:{}", stream), if imp.starts_with("(ok") { "program-accepted".into() } else { "program-rejected".into() }]);
    for (k, t) in [("(cvar ", "pp:compound-var"), ("(access ", "pp:array-access"), ("(block ", "pp:block-fn"), ("(scoped ", "pp:scoped-fn"), ("(it ", "pp:iteration"),
                   ("(prim ", "pp:array"), ("(str ", "pp:string"), ("(cv ", "pp:compound-decl"), ("(tuple ", "pp:tuple-iteration"), ("(intrange ", "pp:integer-range"),
                   ("(nnreal ", "pp:nonneg-real-bounds"), ("(real ", "pp:real-bounds"), ("(c (", "pp:named-constraint"), ("(let ", "pp:constants")] {
        if imp.contains(k) { c.tags.push(t.into()); }
    }
    c.nontrivial = imp.contains("(bin ") || imp.contains("(un ") || imp.contains("(scoped ") || imp.contains("(block ");
    c.imp = imp;
    c.show = format!("parse-program\n{}", src);
    Some(c)
}

/// drop / duplicate / swap a token or a line of a program
fn mutate_program(src: &str, r: &mut Rng) -> String {
    let mut lines: Vec<String> = src.lines().map(|l| l.to_string()).collect();
    if lines.is_empty() { return src.to_string(); }
    match r.below(5) {
        0 => { let i = r.below(lines.len()); lines.remove(i); }
        1 => { let i = r.below(lines.len()); let l = lines[i].clone(); lines.insert(i, l); }
        2 => { if lines.len() >= 2 { let i = r.below(lines.len() - 1); lines.swap(i, i + 1); } }
        _ => {
            let i = r.below(lines.len());
            let mut ws: Vec<String> = lines[i].split(' ').map(|w| w.to_string()).collect();
            if !ws.is_empty() {
                let j = r.below(ws.len());
                match r.below(3) {
                    0 => { ws.remove(j); }
                    1 => { let extra = r.pick(&[":", ",", "=", "<=", "as", "let", "(", ")", "min", "x", "1", "and"]).to_string(); ws.insert(j, extra); }
                    _ => { if ws.len() >= 2 { let k = r.below(ws.len() - 1); ws.swap(k, k + 1); } }
                }
            }
            lines[i] = ws.join(" ");
        }
    }
    lines.join("\n") + "\n"
}

const OPS: [&str; 9] = ["+", "-", "*", "/", "and", "or", "xor", "implies", "iff"];

fn program(objective: &str, constraints: &[String], vars: &[&str], ty: &str) -> String {
    let mut s = format!("{}\ns.t.\n", objective);
    for c in constraints { s.push_str(&format!("    {}\n", c)); }
    if !vars.is_empty() { s.push_str(&format!("define\n    {} as {}\n", vars.join(", "), ty)); }
    s
}

/// declare whatever variables the parsed program mentions (so that it compiles)
fn with_declarations(body: &str, r: &mut Rng) -> String {
    let s = body.to_string();
    let vars = match std::panic::catch_unwind(move || RoocParser::new(s).parse()) {
        Ok(Ok(pm)) => {
            let mut v = vec![];
            syntax::variables(&pm.objective().rhs, &mut v);
            for c in pm.constraints() { syntax::variables(&c.lhs, &mut v); syntax::variables(&c.rhs, &mut v); }
            v
        }
        _ => vec![],
    };
    if vars.is_empty() { return body.to_string(); }
    let ty = *r.pick(&["Real", "Real", "Boolean", "NonNegativeReal", "IntegerRange(0, 5)", "Real(0 - 2, 3 * 2)", "NonNegativeReal(1, 10)"]);
    format!("{}define\n    {} as {}\n", body, vars.join(", "), ty)
}

fn render_exp(r: &mut Rng, g: &GenCfg, depth: u32, mode: u8) -> String {
    loop {
        let mut t: Vec<T> = vec![];
        gen_exp(r, g, depth, &mut t);
        if t.len() <= 25 && syntax::in_domain(&t) { return syntax::render(&t, mode, r); }
    }
}

pub fn generate(seed: u64, n: usize, thorough: bool, corpus: Option<&str>) -> Vec<Case> {
    let mut r = Rng::new(seed);
    let mut cases: Vec<Case> = vec![];
    let mut seen: HashSet<String> = HashSet::new();
    let mut rp = Rng::new(seed ^ 0x5151);
    let mut push = |src: String, stream: &str, cases: &mut Vec<Case>| {
        if !seen.insert(src.clone()) { return; }
        // the program-level parser model: the source, its formatted text, and a mutation of either
        {
            if let Some(c) = parse_case(&src, stream) { cases.push(c) }
            let s2 = src.clone();
            if let Ok(Ok(f1)) = std::panic::catch_unwind(move || RoocParser::new(s2).format()) {
                if f1 != src { if let Some(c) = parse_case(&f1, stream) { cases.push(c) } }
                if rp.chance(1, 3) { let m = mutate_program(&f1, &mut rp); if let Some(c) = parse_case(&m, "mutated") { cases.push(c) } }
            }
            if rp.chance(1, 4) { let m = mutate_program(&src, &mut rp); if let Some(c) = parse_case(&m, "mutated") { cases.push(c) } }
        }
        if let Some(c) = one(&src, stream) { cases.push(c) }
    };

    // --- corpus: seeded defects / past failures (corpus/C11/*.rooc) and the programs of rooc's own tests, docs and
    //     examples (corpus/C11/programs/*.rooc) — the suite never formats them
    if let Some(dir) = corpus {
        for (sub, tag) in [("", "corpus"), ("programs", "repo-programs")] {
            let d = if sub.is_empty() { dir.to_string() } else { format!("{}/{}", dir, sub) };
            if let Ok(rd) = std::fs::read_dir(&d) {
                let mut files: Vec<_> = rd.filter_map(|e| e.ok()).map(|e| e.path()).filter(|p| p.extension().map(|x| x == "rooc").unwrap_or(false)).collect();
                files.sort();
                for f in files {
                    if let Ok(txt) = std::fs::read_to_string(&f) { push(txt, tag, &mut cases); }
                }
            }
        }
    }

    // --- every (parent operator, child operator, side): `a p (b c d)` and `(a c b) p d`, in the objective and on both
    //     sides of a constraint, bare and below another operator
    let vars = ["a", "b", "d", "e", "x"];
    for p in OPS { for c in OPS {
        for (side, e) in [("right", format!("a {} (b {} d)", p, c)), ("left", format!("(a {} b) {} d", c, p))] {
            let _ = side;
            push(program(&format!("min {}", e), &["x >= 0".into()], &vars, "Real"), "operator-triples", &mut cases);
            push(program("max x", &[format!("{} <= e", e), format!("x >= {}", e)], &vars, "Real"), "operator-triples", &mut cases);
            push(program(&format!("min e + ({})", e), &[format!("k: not ({}) = 1", e)], &vars, "Real"), "operator-triples", &mut cases);
            if thorough {
                push(program(&format!("min -({}) * 2", e), &[format!("({}) / 2 >= 1", e), format!("{}", e)], &vars, "Boolean"), "operator-triples", &mut cases);
            }
        }
    } }
    // unary operators under / above everything, negative constants, implicit multiplication
    let mut un = vec![];
    for u in ["-", "not ", "!"] {
        for o in OPS {
            un.push(format!("{}(a {} b)", u, o));
            un.push(format!("({}a) {} b", u, o));
            un.push(format!("a {} {}b", o, u));
            un.push(format!("a {} ({}b)", o, u));
            un.push(format!("{}a {} b", u, o));
        }
        for u2 in ["-", "not ", "!"] { un.push(format!("{}({}a)", u, u2)); un.push(format!("{}({}2)", u, u2)); }
        un.push(format!("{}2", u));
        un.push(format!("{}(2)", u));
        un.push(format!("a - {}2", u));
        un.push(format!("{}2x", u));
        un.push(format!("{}2(a + b)", u));
    }
    for e in ["a / 2x", "a / 2(b + 1)", "a / (2 * b)", "a * 2x", "2x / 3b", "(a)(b)d", "a - (b + d)", "a - (b - d)", "a / (b / d)", "2 3 a", "a / (b)(d)",
              "2.50 a + 0.10", "1.0 a", "a + 007", "(((a)))", "((a + b)) * (d)", "a / 2 x", "x / 2(a)(b)"] {
        un.push(e.to_string());
    }
    for e in un {
        push(program(&format!("min {}", e), &[format!("{} >= 0", e)], &vars, "Real"), "unary-implicit", &mut cases);
    }

    // --- number literals with more precision than a "pretty" printer keeps: long mantissas, tiny and large values written in
    //     full decimals, as coefficients (explicit and implicit), right-hand sides, `where` constants, array entries and
    //     domain bounds; the compiled models of s and format(s) are compared bit for bit
    let lits = ["3.141592653589793", "2.718281828459045", "0.1234567890123456", "0.30000000000000004", "1.0000000000000002",
                "0.0000000000004", "0.000000000123", "0.00000000000001", "0.000000001", "123456789012.3456", "98765432109876.5",
                "4503599627370497.5", "0.1", "2.50", "1.0", "100000000000000000000.0", "0.000001", "12.000000000001",
                // the boundaries of the integer / decimal printing: 2^63 (= i64::MAX as f64) exactly, one ulp below and above,
                // 2^53 and 2^53 + 1, written as decimals
                "9223372036854775807.0", "9223372036854775808.0", "9223372036854775809.0", "9223372036854774784.0", "9223372036854777856.0",
                "9007199254740992.0", "9007199254740993.0", "9007199254740991.0", "18446744073709551616.0", "4611686018427387904.0"];
    // the same boundaries as INTEGER literals (read through i64) and negated
    let int_lits = ["9223372036854775807", "9223372036854775806", "9007199254740992", "9007199254740993", "4611686018427387904", "1000000000000000000"];
    for (i, l) in int_lits.iter().enumerate() {
        let f = lits[lits.len() - 1 - (i % 10)];
        push(program(&format!("min {}x - {} * y + -{}", l, f, l), &[format!("{} x + y >= -{}", l, f), format!("x - {} <= y * {}", f, l)], &["x", "y"], "Real"), "number-literals", &mut cases);
        push(format!("max p * x + a[0] * y + b[1]\ns.t.\n    x + q * y <= a[1]\nwhere\n    let p = {}\n    let q = -{}\n    let a = [{}, {}]\n    let b = [{}, 1]\n    let c = [{}, {}]\ndefine\n    x as Real(-{}, {})\n    y as IntegerRange(-{}, {})\n",
            l, f, f, "9223372036854775808.0", l, l, f, f, f, l, l), "number-literals", &mut cases);
    }
    for (i, l) in lits.iter().enumerate() {
        let l2 = lits[(i + 5) % lits.len()];
        push(program(&format!("min {}x + {} * y - y / {}", l, l2, l), &[format!("{}x + y >= {}", l2, l), format!("x - {} <= y * {}", l, l2)], &["x", "y"], "Real"), "number-literals", &mut cases);
        push(format!("max p * x + a[0] * y + a[1]\ns.t.\n    x + q * y <= a[1]\nwhere\n    let p = {}\n    let q = {} * 2\n    let a = [{}, {}]\ndefine\n    x as Real({}, {})\n    y as NonNegativeReal(0, {})\n",
            l, l2, l, l2, l, "123456789012.3456", l2), "number-literals", &mut cases);
        push(format!("min sum(i in 0..2) {{ {} * x_i }}\ns.t.\n    x_0 >= {}\n    x_1 >= -{}\ndefine\n    x_i as Real(-{}, {}) for i in 0..2\n", l, l2, l, l2, "98765432109876.5"), "number-literals", &mut cases);
    }

    // --- objectives, comparisons, names, assertions
    for obj in ["min x", "max x", "solve", "MIN x", "Max x", "min 0"] {
        for cmp in ["<=", ">=", "=", "<", ">"] {
            push(program(obj, &[format!("x + a {} 2", cmp), format!("c1: a {} x", cmp)], &["a", "x"], "Real"), "objective-comparison", &mut cases);
        }
    }
    for names in [["_u", "$v", "w1"], ["__a", "$_b", "c_1"], ["\\x_1", "x_2", "y_a_b"], ["and_x", "min_1", "x__2"], ["A", "Bc", "d9"]] {
        push(program(&format!("min {} + {}", names[0], names[1]), &[format!("{} - {} >= {}", names[0], names[1], names[2]), format!("{}", names[2])], &names, "Boolean"), "names", &mut cases);
        for nm in names { push(program(&format!("min {}", nm), &[format!("{} >= 1", nm)], &[nm], "Real"), "names", &mut cases); }
    }

    // --- printer edges: `range(a, b, <bool>)` calls outside an iterator, arrays that mix integer and decimal entries,
    //     decimal / string indexes of compound variables, nested ranges in the lower bound of a range
    for (i, e) in ["len(range(0, 3, false))", "len(range(1, n, true)) + 1", "sum(i in union(range(0, 2, false), range(5, 7, true))) { i }",
                   "len(zip(range(0, 2, false), range(0, 2, false)))", "sum(i in range(0, 3, false)) { i }", "sum(i in range(0, n, true), j in 0..i) { j }",
                   "x_{1.5}", "x_{0.5}_i + x_{2.0}", "x_{\"a\"} + 1", "x_{1}_{2} + x_{n + 1}", "sum(i in sum(j in 0..2) { j }..5) { i }",
                   "sum(i in min { sum(j in 0..n) { j }, 1 }..=n) { i }"].iter().enumerate() {
        push(format!("min {}\ns.t.\n    y >= 1\nwhere\n    let n = 2\n    let i = 0\ndefine\n    y as Real\n", e), "printer-edges", &mut cases);
        push(format!("min y\ns.t.\n    c{}: y >= {}\nwhere\n    let n = 2\n    let i = 0\ndefine\n    y as Real\n", i, e), "printer-edges", &mut cases);
    }
    for a in ["[1, 2.5, 3]", "[1.0, 2]", "[1, true]", "[\"a\", 1]", "[1, 2.0]", "[0.5, 1, 2]", "[[1, 2.5], [3, 4]]", "[true, 1.5]", "[1, [2]]"] {
        push(format!("min y\ns.t.\n    y >= len(c)\nwhere\n    let c = {}\ndefine\n    y as Real\n", a), "printer-edges", &mut cases);
        push(format!("min y + len({})\ns.t.\n    y >= 1\ndefine\n    y as Real\n", a), "printer-edges", &mut cases);
    }
    // constants that are not named (`let _ = e`, 67931d1) and the lone `_` elsewhere
    for d in ["let _ = 1 + 2", "let _ = y[0]\n    let y = [1, 2]", "let _ = 5\n    let _ = 6", "let k = 2\n    let _ = k * (k + 1)", "let _ = sum(i in 0..2) { i }",
              "let _ = _", "let _x = 1", "let x_ = 1"] {
        push(format!("min y\ns.t.\n    y >= 1\nwhere\n    {}\ndefine\n    y as Real\n", d), "unnamed-constants", &mut cases);
    }
    for c in ["_ >= 1", "y >= _", "_: y >= 1", "y >= sum(_ in 0..2) { 1 }", "y >= sum((_, v) in edges(G)) { v }", "y >= _[0]", "y >= 2_", "y >= _(1)"] {
        push(format!("min y\ns.t.\n    {}\ndefine\n    y as Real\n", c), "unnamed-constants", &mut cases);
    }
    for d in ["let r = range(0, 3, false)", "let r = range(0, 3, true)", "let r = union(range(0, 2, false), [5, 6])"] {
        push(format!("min y\ns.t.\n    y >= len(r)\n    y >= sum(i in r) {{ i }}\nwhere\n    {}\ndefine\n    y as Real\n", d), "printer-edges", &mut cases);
    }

    // --- one-sided domain bounds: a declaration with exactly ONE bound (`Real(lo)`, `NonNegativeReal(lo)`) is printed with the
    //     default of the missing one (`Real(lo, Infinity)`); the given bound must survive (PreModel up to `canon`, compiled model)
    for lo in ["2", "0 - 3", "1.5", "n", "2 * (n + 1)", "len(v)", "0", "9223372036854775807", "0.000001", "-4", "min { n, 3 }", "sum(i in 0..n) { i }"] {
        for ty in ["Real", "NonNegativeReal"] {
            push(format!("min x + y\ns.t.\n    x + y >= 1\nwhere\n    let n = 2\n    let v = [1, 2, 3]\ndefine\n    x as {}({})\n    y as {}\n", ty, lo, ty), "one-sided-bounds", &mut cases);
            push(format!("max x_0 - x_1\ns.t.\n    x_i <= 10 for i in 0..2\nwhere\n    let n = 2\n    let v = [1, 2, 3]\ndefine\n    x_i as {}({}) for i in 0..2\n", ty, lo), "one-sided-bounds", &mut cases);
            push(format!("min x + y + z\ns.t.\n    x + y + z >= 1\nwhere\n    let n = 2\n    let v = [1, 2, 3]\ndefine\n    x, y as {}({})\n    z as {}({}, 100)\n", ty, lo, ty, lo), "one-sided-bounds", &mut cases);
        }
    }
    // --- graph literals: edge lists with costs 0, negative, fractional, large, and missing (default cost 1); the cost is
    //     USED by the program, and the graph VALUE of parse(format(s)) is compared with that of parse(s)
    for body in ["A -> [B: 0], B", "A -> [B: 0, C: -2, D: 1.5, E], B -> [A], C, D, E", "A -> [B], B -> [A: 0]", "A -> [B: -0.5, C: 0.0], B, C",
                 "A -> [B: 1, C: 1.0], B -> [C: 100000000000000000000], C", "A -> [B: 0.000001], B -> [A: -0], C", "A, B, C", "A -> [A: 0]",
                 "A -> [B: 2, C], B -> [C: 0, A: 3], C -> [A: -1]", "A -> [], B", "A -> [B: 9007199254740993], B", "",
                 // a graph of isolated nodes can only be written with a leading comma (`Graph { A, B }` is read as a block function)
                 ", A, B", ", A", ", A -> [B,], B", "A -> [B,], B", ", A, B -> [A]",
                 // parallel edges (an error of the AST builder), and shapes the PEG refuses
                 "A -> [B, B]", "A -> [B: 1, C, B: 2], B, C", "A -> [B], B -> [A, C, A]", "A -> [B:], B", "A -> B", "A_1 -> [B]", "A -> [,]",
                 "A -> [\n B]", "A ->\n [B]", "A -> [B], B,", "_ -> [A]", "A -> [_]", "\\x_1 -> [A]", "A -> [B: 1 2]", "A -> [B: x]", "A -> [B: -1.5, C: - 2]",
                 "$a -> [_b: 3, $_c], _b, $_c", "min -> [in: 1], in", "A -> [B:1,C:2,], B, C", "A -> [B: 1.50, C: 007, D: 0.0, E: -0.0], B, C, D, E", "A, A, A -> [A]"] {
        for g in [format!("Graph {{ {} }}", body), format!("Graph {{\n        {}\n    }}", body.replace(", ", ",\n        "))] {
            push(format!("min sum((u, v, c) in edges(G)) {{ c * x_u_v }}\ns.t.\n    x_u_v >= 1 for (u, v) in edges(G)\nwhere\n    let G = {}\ndefine\n    x_u_v as Real for (u, v) in edges(G)\n", g), "graph-literals", &mut cases);
            push(format!("max y\ns.t.\n    y <= sum((u, v, c) in edges(G)) {{ c }} + len(nodes(G))\n    y <= sum(e in neigh_edges_of(\"A\", G)) {{ 1 }}\nwhere\n    let G = {}\ndefine\n    y as Real\n", g), "graph-literals", &mut cases);
        }
    }
    // --- a compound variable whose index is a variable that starts with an underscore (`x_{_i}`): printed bare it would be
    //     read as the literal name fragment `_i`
    for (obj, con, dom) in [("sum(_i in 0..3) { x_{_i} }", "x_{_i} >= 1 for _i in 0..3", "x_{_i} as Real for _i in 0..3"),
                            ("sum(_i in 0..2, j in 0..2) { x_{_i}_j }", "x_{_i}_j >= _i + j for _i in 0..2, j in 0..2", "x_{_i}_j as Real for _i in 0..2, j in 0..2"),
                            ("sum(__k in 0..2) { 2 x_1_{__k} }", "c_{__k}: x_1_{__k} >= 1 for __k in 0..2", "x_1_{__k} as NonNegativeReal for __k in 0..2"),
                            ("x__1 + x_i", "x__1 >= 1", "x__1, x_i as Real")] {
        push(format!("min {}\ns.t.\n    {}\nwhere\n    let i = 0\ndefine\n    {}\n", obj, con, dom), "printer-edges", &mut cases);
    }

    // --- escaped names (`\\x_1`: the variable whose NAME has inner underscores) in every position a variable can take
    for (obj, cons, dom) in [
        ("\\x_1 + 2 \\y_a_2", "\\cap_1: \\x_1 + \\y_a_2 >= 1\n    \\x_1 <= 3", "\\x_1, \\y_a_2 as Real"),
        ("3\\x_1 - (\\x_1 + z) * 2", "z >= -\\x_1\n    not \\b_1 or \\b_2", "\\x_1, z as NonNegativeReal(0, 10)\n    \\b_1, \\b_2 as Boolean"),
        ("min { \\x_1, 2 } + sum(i in 0..2) { i * \\x_1 }", "\\x_1 >= abs { z } for i in 0..2", "\\x_1 as IntegerRange(0, 5)\n    z as Real"),
        ("z_{\\k_1} + z_{\\k_1}_2 + a[\\k_1]", "c_{\\k_1}: z_1 >= 1", "z_1, \\k_1 as Real"),
        ("\\total_a_12 / 2", "\\for_1 >= 1\n    \\Total_A_b <= \\total_a_12", "\\total_a_12, \\for_1, \\Total_A_b as Real"),
        ("\\x_1", "\\x_1 >= 1", "\\x_1 as Real(\\lo_1, 4)\n    \\lo_1 as Real"),
        ("2(\\x_1)(\\y_2)", "\\x_1 \\y_2 >= 1", "\\x_1, \\y_2 as Real"),
        ("\\x_1[0]", "\\x_1 >= 1", "\\x_1 as Real"), ("\\x_1.5", "\\x_1 >= 1", "\\x_1 as Real"), ("\\x_{i}", "z >= 1", "z as Real"),
        ("\\_x_1", "z >= 1", "z as Real"), ("\\x__1", "z >= 1", "z as Real"), ("\\x_1_", "z >= 1", "z as Real"), ("\\ x_1", "z >= 1", "z as Real"),
        ("\\x_1 (2)", "z >= 1", "z as Real"), ("\\x_1 { 2 }", "z >= 1", "z as Real"), ("\\é_1 + \\x_é2", "z >= 1", "z as Real")] {
        push(format!("min {}\ns.t.\n    {}\ndefine\n    {}\n", obj, cons, dom), "escaped-names", &mut cases);
    }

    // --- explicit `range(from, to, flag)` calls in ITERATOR position whose flag is no literal (a `where` constant, an
    //     expression over constants) and evaluates to true: the `a..b` sugar is only for a literal flag, the call must be
    //     kept, otherwise every iteration loses its last element.  Own Rng, fixed-size block (32 programs).
    {
        let mut rr = Rng::new(seed ^ 0x7a9e_12c3);
        for k in 0..32 {
            let flags_true = ["closed", "not open", "closed and not open", "closed or open", "not (open or open)", "closed iff closed",
                              "open implies closed", "closed xor open", "closed and closed", "not (not closed)", "not open and closed", "closed and true"];
            let flags_false = ["open", "not closed", "closed and open", "open xor open"];
            let f1 = *rr.pick(&flags_true);
            let f2 = *rr.pick(&flags_true);
            let f3 = if rr.chance(1, 4) { *rr.pick(&flags_false) } else { *rr.pick(&flags_true) };
            let hi = *rr.pick(&["n", "2", "len(v)", "n + 1", "(n - 1) * 2"]);
            let lo = *rr.pick(&["0", "1", "n - 2", "0 + 1"]);
            let t = match k % 4 {
                0 => format!("min sum(i in range({}, {}, {})) {{ x_i }}\ns.t.\n    x_i >= i for i in range({}, {}, {})\nwhere\n    let n = 3\n    let v = [4, 5, 6]\n    let closed = true\n    let open = false\ndefine\n    x_i as Real for i in range(0, 9, {})\n",
                             lo, hi, f1, lo, hi, f2, f3),
                1 => format!("max y\ns.t.\n    y <= sum(i in range({}, {}, {}), j in 0..2) {{ i + j }}\n    c_i: y <= 10 + i for i in range(0, n, {})\nwhere\n    let n = 3\n    let v = [4, 5, 6]\n    let closed = true\n    let open = false\ndefine\n    y as Real\n",
                             lo, hi, f1, f2),
                2 => format!("min sum(i in 0..2) {{ sum(j in range(i, {}, {})) {{ z_i_j }} }}\ns.t.\n    z_i_j >= 1 for i in 0..2, j in range(i, {}, {})\nwhere\n    let n = 3\n    let v = [4, 5, 6]\n    let closed = true\n    let open = false\ndefine\n    z_i_j as NonNegativeReal for i in 0..2, j in range(i, {}, {})\n",
                             hi, f1, hi, f1, hi, f1),
                _ => format!("min y + len(range({}, {}, {}))\ns.t.\n    y >= prod(i in range(1, {}, {})) {{ i }}\n    y >= max {{ sum(i in range(0, 2, {})) {{ i }}, 0 }}\nwhere\n    let n = 3\n    let v = [4, 5, 6]\n    let closed = true\n    let open = false\ndefine\n    y as Real\n",
                             lo, hi, f3, hi, f1, f2),
            };
            push(t, "range-flag-expression", &mut cases);
        }
    }

    // --- MALFORMED programs, by class: every error of the AST builders at every position of a program, pairs of errors
    //     (which one is reported first), and texts the grammar refuses; parsed by the implementation and by the parser
    //     model, the CLASS of the rejection is compared (tags `program-rejected:<class>`)
    let big = "99999999999999999999";
    let frame = |obj: &str, cons: &str, decl: &str| format!("{}\ns.t.\n    {}\n{}", obj, cons, decl);
    let malformed: Vec<String> = vec![
        // objective kind in the wrong letter case (pest matches ^"min", the builder only knows "min")
        frame("MIN x", "x >= 1", ""), frame("Max x", "x >= 1", ""), frame("SOLVE", "x >= 1", ""), frame("Solve", "x >= 1", ""), frame("mIn x", "x >= 1", ""),
        // integer beyond i64 at every position of a program
        frame(&format!("min {}", big), "x >= 1", ""), frame("min x", &format!("x >= {}", big), ""), frame("min x", &format!("{} >= x", big), ""),
        frame("min x", &format!("c_{}: x >= 1", big), ""), frame("min x", &format!("c_{{{}}}: x >= 1", big), ""),
        frame("min x", &format!("x >= 1 for i in 0..{}", big), ""), frame("min x", &format!("x >= 1 for i in {}..3", big), ""),
        frame("min x", &format!("x_i >= 1 for i in 0..3, j in 0..{}", big), ""),
        frame("min x", "x >= k", &format!("where\n    let k = {}\n", big)), frame("min x", "x >= k", &format!("where\n    let k = [1, {}]\n", big)),
        frame("min x", "x >= 1", &format!("define\n    x as Real({}, 1)\n", big)), frame("min x", "x >= 1", &format!("define\n    x as Real(0, {})\n", big)),
        frame("min x", "x >= 1", &format!("define\n    x as Real(0, 1, {})\n", big)), frame("min x", "x >= 1", &format!("define\n    x as IntegerRange(0, {})\n", big)),
        frame("min x", "x >= 1", &format!("define\n    x_{} as Real\n", big)), frame("min x", "x >= 1", &format!("define\n    x_i as Real for i in 0..{}\n", big)),
        frame("min x", "x >= 1", &format!("define\n    x_{{{}}}, y as Boolean\n", big)),
        // unknown variable type, IntegerRange without both bounds
        frame("min x", "x >= 1", "define\n    x as Foo\n"), frame("min x", "x >= 1", "define\n    x as Integer\n"), frame("min x", "x >= 1", "define\n    x as real\n"),
        frame("min x", "x >= 1", "define\n    x as Foo(1, 2)\n"), frame("min x", "x >= 1", "define\n    x as Boolean(0, 1)\n"), frame("min x", "x >= 1", "define\n    x as IntegerRange\n"),
        frame("min x", "x >= 1", "define\n    x as IntegerRange(1)\n"), frame("min x", "x >= 1", "define\n    x as IntegerRange(1, 2, 3)\n"), frame("min x", "x >= 1", "define\n    x as Real(1)\n"),
        frame("min x", "x >= 1", "define\n    x as NonNegativeReal(1, 2, 3)\n"),
        frame("min x", "x >= 1", "define\n    x as boolean\n"), frame("min x", "x >= 1", "define\n    x as Int\n"), frame("min x", "x >= 1", "define\n    x, y as Binary\n"),
        frame("min x", "x >= 1", "define\n    x as PositiveReal\n"), frame("min x", "x >= 1", "define\n    x as Real\n    y as integerrange(0, 1)\n"),
        frame("min x", "x >= 1", "define\n    x as IntegerRange(1) for i in 0..2\n"), frame("min x", "x >= 1", "define\n    x_i as IntegerRange for i in 0..2\n"),
        frame("min x", "x >= 1", "define\n    x as IntegerRange(0 + 1)\n"), frame("min x", "x >= 1", "define\n    y as Real\n    x as IntegerRange(2)\n"),
        frame("min x", "x >= 1", "define\n    x as IntegerRange(len(v))\n"), frame("min x", "x >= 1", "define\n    x, y, z as IntegerRange\n"), frame("min x", "x >= 1", "define\n    x as IntegerRange\n    y as Real\n"),
        frame("min bar { x } + 1", "x >= 1", ""), frame("min x", "sum { x, y } >= 1", ""), frame("min x", "x >= 1 for i in 0..prod { 1 }", ""), frame("min x", "x >= len { v }", ""),
        frame("min x", "x_{foo { 1 }} >= 1", ""), frame("min x", "x >= 1", "where\n    let k = foo { 1, 2 }\n"), frame("min x", "x >= 1", "define\n    x as Real(foo { 1 }, 2)\n"),
        frame("min len(i in v) { i }", "x >= 1", ""), frame("min x", "x >= range(i in 0..2) { i }", ""), frame("min x", "x >= 1 for i in 0..summ(j in v) { j }", ""),
        frame("min x", "total(i in S) { x_i } <= 3", ""), frame("min x", "x >= 1", "where\n    let k = bar(i in 0..2) { i }\n"), frame("min x", "x >= 1", "define\n    x as Real(0, product(i in v) { i })\n"),
        frame("min x", "c_{f(i in v) { i }}: x >= 1", ""), frame("min x", "x >= 1", "define\n    x_{g(i in v) { i }} as Real\n"), frame("min SUM(i in v) { i }", "x >= 1", ""),
        // unknown / wrong-arity blocks inside a program
        frame("min foo { x }", "x >= 1", ""), frame("min x", "foo(i in 0..2) { x } >= 1", ""), frame("min x", "x >= abs { 1, 2 }", ""),
        frame("min x", "x >= 1 for i in foo { 1 }..2", ""), frame("min x", "x >= 1", "define\n    x as Real(abs { 1, 2 }, 3)\n"),
        // two errors: the first in the order of the builders (objective, constraints (name, iteration, sides), constants, domains
        // (variables, type, iteration))
        frame("MIN x", &format!("x >= {}", big), ""), frame(&format!("min {}", big), "foo { 1 } >= 1", ""), frame("min x", &format!("foo {{ 1 }} >= {}", big), ""),
        frame("min x", &format!("{} >= 1 for i in 0..foo {{ 1 }}", big), ""), frame("min x", &format!("c_{}: foo {{ 1 }} >= 1", big), ""),
        frame("min x", &format!("x >= {}", big), "define\n    x as Foo\n"), frame("min x", "x >= k", &format!("where\n    let k = {}\ndefine\n    x as Foo\n", big)),
        frame("min x", "x >= 1", &format!("define\n    x as Foo({})\n", big)), frame("min x", "x >= 1", &format!("define\n    x as Foo for i in 0..{}\n", big)),
        frame("min x", "x >= 1", &format!("define\n    x_{} as Foo\n", big)), frame("min x", "x >= 1", &format!("define\n    x as IntegerRange({})\n", big)),
        frame("min x", "x >= 1", &format!("define\n    x as Real\n    y as Foo\n    z as Real({}, 1)\n", big)),
        // refused by the grammar
        frame("min", "x >= 1", ""), frame("minimize x", "x >= 1", ""), frame("min x", "", ""), "min x\n".to_string(), "min x\ns.t.".to_string(), "s.t.\n    x >= 1\n".to_string(),
        frame("min x", "x >= 1 >= 0", ""), frame("min x", "x >= ", ""), frame("min x", ">= 1", ""), frame("min x", "c: ", ""), frame("min x", ": x >= 1", ""),
        frame("min x", "x >= 1 for", ""), frame("min x", "x >= 1 for i", ""), frame("min x", "x >= 1 for i in", ""), frame("min x", "x >= 1 for i in 0..", ""),
        frame("min x", "x >= 1 for i in 0..3,", ""), frame("min x", "x >= 1 for (i, j) 0..3", ""), frame("min x", "x >= 1 for i in 0..3 for j in 0..2", ""),
        frame("min x", "x >= 1", "where\n"), frame("min x", "x >= 1", "where\n    let k\n"), frame("min x", "x >= 1", "where\n    let k =\n"), frame("min x", "x >= 1", "where\n    k = 2\n"),
        frame("min x", "x >= 1", "where\n    let 2 = k\n"), frame("min x", "x >= 1", "define\n    x\n"), frame("min x", "x >= 1", "define\n    x as\n"), frame("min x", "x >= 1", "define\n    x Real\n"),
        frame("min x", "x >= 1", "define\n    x, as Real\n"), frame("min x", "x >= 1", "define\n    x as Real(\n"), frame("min x", "x >= 1", "define\n    x as Real(1,)\n"),
        frame("min x", "x >= 1", "define\n    x as Real()\n"), frame("min x", "x >= 1", "define\n    x as Real for\n"), frame("min x", "x >= 1", "define\n    x as min\n"),
        frame("min x", "x >= 1", "define\n    x as Real\nwhere\n    let k = 1\n"), frame("min x", "x >= 1", "where\n    let k = 1\nwhere\n    let j = 1\n"),
        frame("min x", "", "where\n    let k = 1\n"), frame("min x", "", "define\n    x as Real\n"), frame("min x max y", "x >= 1", ""), frame("min x", "x >= 1\n    max y", ""),
    ];
    let mut extra: Vec<Case> = vec![];
    for t in malformed { if let Some(c) = parse_case(&t, "malformed-by-class") { extra.push(c) } }

    // --- random programs over the expression sub-language (random spelling, parentheses, spacing)
    let core = GenCfg { calls: false, odd_words: false, bools: true, blocks: false };
    let mut made = 0;
    while made < n {
        made += 1;
        let depth = 1 + r.below(3) as u32;
        let mode = r.below(3) as u8;
        let kind = *r.pick(&["min", "max", "min", "max", "min", "max", "min", "max", "min", "solve"]);
        let obj = if kind == "solve" { "solve".to_string() } else { format!("{} {}", kind, render_exp(&mut r, &core, depth, mode)) };
        let k = 1 + r.below(3);
        let mut body = format!("{}\ns.t.\n", obj);
        for i in 0..k {
            let lhs = render_exp(&mut r, &core, depth, mode);
            let name = if r.chance(1, 4) { format!("c{}: ", i) } else { String::new() };
            if r.chance(1, 5) { body.push_str(&format!("    {}{}\n", name, lhs)); }
            else { body.push_str(&format!("    {}{} {} {}\n", name, lhs, r.pick(&["<=", ">=", "=", "<", ">"]), render_exp(&mut r, &core, depth.saturating_sub(1), mode))); }
        }
        let full = with_declarations(&body, &mut r);
        push(full, "random-core", &mut cases);
    }

    // --- random programs over the WHOLE expression language (compound variables, accesses, block functions, scoped blocks
    //     over ranges / sets / tuples, arrays, strings) with random `for` iterations behind constraints and declarations,
    //     compound constraint / domain names and every variable type
    let iter_clause = |r: &mut Rng| -> String {
        let mut parts: Vec<String> = vec![];
        for k in 0..(1 + r.below(2)) {
            let v = ["i", "j", "k"][k % 3];
            parts.push(match r.below(5) {
                0 => format!("{} in S", v),
                1 => format!("(u{}, v{}) in edges(G)", k, k),
                2 => format!("{} in 0..=len(v)", v),
                3 => format!("{} in (n - 1)..n * 2", v),
                _ => format!("{} in 0..{}", v, r.pick(&["3", "n", "len(S)"])),
            });
        }
        format!(" for {}", parts.join(", "))
    };
    let nb = if thorough { n } else { n / 3 };
    for _ in 0..nb {
        let depth = 1 + r.below(3) as u32;
        let kind = *r.pick(&["min", "max", "min", "max", "solve"]);
        let mut gen_text = |r: &mut Rng, d: u32| -> String { loop { let mut t: Vec<T> = vec![]; gen_exp(r, &BLOCKS, d, &mut t); if t.len() <= 30 { return syntax::render(&t, 0, r); } } };
        let obj = if kind == "solve" { "solve".to_string() } else { format!("{} {}", kind, gen_text(&mut r, depth)) };
        let mut body = format!("{}\ns.t.\n", obj);
        for i in 0..(1 + r.below(3)) {
            let name = match r.below(5) { 0 => format!("c{}: ", i), 1 => format!("c_i_{}: ", i), 2 => "cap_{i + 1}: ".to_string(), _ => String::new() };
            let lhs = gen_text(&mut r, depth);
            let it = if r.chance(1, 2) { iter_clause(&mut r) } else { String::new() };
            if r.chance(1, 5) { body.push_str(&format!("    {}{}{}\n", name, lhs, it)); }
            else { body.push_str(&format!("    {}{} {} {}{}\n", name, lhs, r.pick(&["<=", ">=", "=", "<", ">"]), gen_text(&mut r, depth.saturating_sub(1)), it)); }
        }
        if r.chance(2, 3) {
            body.push_str("where\n");
            for (k, v) in [("n", "3"), ("S", "[1, 2, 3]"), ("s", "\"a b\""), ("_", "n + 1"), ("q", "len(S) * 2")] { if r.chance(1, 2) { body.push_str(&format!("    let {} = {}\n", k, v)); } }
            if body.ends_with("where\n") { body.push_str("    let n = 3\n"); }
        }
        if r.chance(2, 3) {
            body.push_str("define\n");
            for d in ["x, y as Real", "z_i as Boolean for i in 0..3", "w_i_j, a as IntegerRange(0, n) for i in S, (j, k) in edges(G)", "b as NonNegativeReal(0, 10)",
                      "c_{i + 1} as Real(0 - n, n) for i in 0..=n", "d, e, f as NonNegativeReal", "g_1 as IntegerRange(1, 2 * (n + 1))"] {
                if r.chance(1, 3) { body.push_str(&format!("    {}\n", d)); }
            }
            if body.ends_with("define\n") { body.push_str("    x as Real\n"); }
        }
        push(body, "random-blocks", &mut cases);
    }

    // --- declarations, blocks, iterations: templates with random expressions in their slots
    let slot = GenCfg { calls: false, odd_words: false, bools: false, blocks: false };
    let subst = |e: &str| e.replace('x', "x_i").replace('y', "v[i]").replace('z', "n").replace('w', "x_{i + 1}").replace('a', "q").replace('b', "len(v)").replace('c', "x_0").replace('d', "m[i][0]");
    let m = if thorough { n / 2 } else { n / 6 };
    for _ in 0..m {
        let e1 = subst(&render_exp(&mut r, &slot, 2, 0));
        let e2 = subst(&render_exp(&mut r, &slot, 2, 0));
        let e3 = subst(&render_exp(&mut r, &slot, 1, 0));
        let blockk = *r.pick(&["sum", "prod", "min", "max", "avg"]);
        let block2 = *r.pick(&["min", "max", "avg", "abs"]);
        let range = *r.pick(&["0..n", "0..=2", "0..len(v)", "1..(n - 1)", "(0 + 0)..=n"]);
        let t = format!(
            "{} {}(i in {}) {{ {} }} + {} {{ {}, q }}\ns.t.\n    c_i: {} <= {} for i in {}\n    {} {{ x_0, x_1 }} >= q\nwhere\n    let n = {}\n    let v = [1, 2, 3, 4]\n    let m = [[1, 2], [3, 4], [5, 6], [7, 8]]\n    let q = {}\n    let s = \"a b\"\ndefine\n    x_i as {} for i in 0..=(n + 1)\n",
            r.pick(&["min", "max"]), blockk, range, e1, block2, e3, e2, e3, range, block2,
            r.pick(&["2", "3", "1 + 1"]), r.pick(&["2", "2.5", "1 - 3", "2 * (1 + 1)", "10 / (2 * 5)"]),
            r.pick(&["Real", "Boolean", "IntegerRange(0 - 5, 5)", "Real(0 - q, q)", "NonNegativeReal(0, 2 * (q + 1))"]));
        push(t, "templates", &mut cases);
        // graphs, tuple iteration, several iterators, nested scoped functions, escaped and indexed names
        let e4 = render_exp(&mut r, &slot, 1, 0).replace('x', "y_u_v").replace('y', "c").replace('z', "x_u").replace('w', "k").replace('a', "c").replace('b', "k").replace('d', "2");
        let t2 = format!(
            "{} sum((u, v, c) in edges(G)) {{ {} }} + sum(i in 0..k, j in 0..=i) {{ sum(l in j..k) {{ z_i_j * l }} }}\ns.t.\n    flow_u: sum((_, v, c) in edges(G), w in 0..k) {{ y_u_v }} <= {} for u in nodes(G)\n    \\total_1: {} {{ t, \\w_1 }} {} 1\n    y_A_B {} t\nwhere\n    let G = Graph {{ A -> [B: 2, C: -1.5], B -> [C], C }}\n    let k = {}\n    let names = [\"a\", \"b c\"]\ndefine\n    y_u_v as {} for (u, v) in edges(G)\n    x_u as Boolean for u in nodes(G)\n    z_i_j as IntegerRange(0, k) for i in 0..k, j in 0..=i\n    t, \\w_1 as {}\n",
            r.pick(&["min", "max"]), e4, r.pick(&["1", "k", "len(names)", "2 k"]), r.pick(&["min", "max", "avg"]), r.pick(&["<=", ">=", "="]),
            r.pick(&["<=", ">=", "=", "<", ">"]), r.pick(&["2", "3"]), r.pick(&["Boolean", "NonNegativeReal", "Real(0, 1)"]), r.pick(&["Real", "NonNegativeReal(0, 10)"]));
        push(t2, "templates-graph", &mut cases);
    }
    cases.extend(extra);
    cases
}
