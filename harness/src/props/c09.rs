//! C09 — expressions parse with the documented precedence and associativity.
//! Every case is a token sequence of the expression sub-language rendered to text and parsed by the real parser
//! as the objective of `min <text>␤s.t.␤1 >= 0`; the `PreExp` (spans dropped) or the rejection is compared with
//! the Lean model of the PEG fragment + pest's Pratt loop; the oracle evaluates the compiled objective (or the
//! `PreExp` when the program does not compile) against an independent precedence-climbing reading of the text.
use crate::case::Case;
use crate::rng::Rng;
use crate::sx;
use crate::syntax::{self, T, bin_tok, int, w};
use indexmap::IndexMap;
use rooc::RoocParser;
use std::collections::HashSet;

fn source_of(text: &str, vars: &[String], consts: &[(String, String)]) -> String {
    let mut s = format!("min {}\ns.t.\n1 >= 0\n", text);
    if !consts.is_empty() {
        s.push_str("where\n");
        for (k, v) in consts { s.push_str(&format!("let {} = {}\n", k, v)); }
    }
    let vars: Vec<&String> = vars.iter().filter(|v| !consts.iter().any(|(k, _)| k == *v)).collect();
    if !vars.is_empty() {
        s.push_str("define\n");
        s.push_str(&format!("{} as Real\n", vars.iter().map(|v| v.as_str()).collect::<Vec<_>>().join(", ")));
    }
    s
}

/// (canonical answer, variables of the tree)
fn parse_objective(text: &str) -> (String, Vec<String>, bool) {
    let src = source_of(text, &[], &[]);
    let res = std::panic::catch_unwind(|| RoocParser::new(src.clone()).parse());
    match res {
        Err(_) => ("(err panic)".into(), vec![], false),
        Ok(Err(e)) => (format!("(err reject {})", syntax::error_class(&e)), vec![], false),
        Ok(Ok(pm)) => {
            let e = &pm.objective().rhs;
            let mut vars = vec![];
            syntax::variables(e, &mut vars);
            let tree = syntax::pre_exp(e, &src);
            // marker for `one_ctx`: leaves beyond numbers / names / calls are not compiled for the oracle
            if syntax::has_block_leaf(e) { vars.insert(0, "\u{0}blocks".into()); }
            (format!("(ok {})", tree), vars, true)
        }
    }
}

fn compiled_objective(text: &str, vars: &[String], consts: &[(String, String)]) -> Option<String> {
    let src = source_of(text, vars, consts);
    let res = std::panic::catch_unwind(|| RoocParser::new(src).parse_and_transform(vec![], &IndexMap::new()));
    match res {
        Ok(Ok(m)) => Some(sx::exp(&m.objective().rhs)),
        _ => None,
    }
}

fn features(toks: &[T], tags: &mut Vec<String>) {
    let mut f: Vec<&str> = vec![];
    for (i, t) in toks.iter().enumerate() {
        match t {
            T::AmpAmp | T::BarBar | T::Bang | T::Arrow | T::DArrow => f.push("alias"),
            T::Word(s) if ["and", "or", "xor", "implies", "iff", "not"].contains(&s.as_str()) => f.push("keyword-op"),
            T::Word(s) if s == "true" || s == "false" => f.push("bool"),
            T::Word(s) if s.starts_with('$') || s.starts_with('_') => f.push("prefixed-ident"),
            T::LPar if i > 0 && matches!(toks[i - 1], T::Word(_)) => f.push("call-shape"),
            T::LPar if i > 0 && matches!(toks[i - 1], T::Int(_) | T::Float(_) | T::RPar) => f.push("imul-paren"),
            T::Word(_) if i > 0 && matches!(toks[i - 1], T::Int(_) | T::Float(_) | T::RPar) => f.push("imul-var"),
            T::Int(_) | T::Float(_) if i > 0 && matches!(toks[i - 1], T::Int(_) | T::Float(_) | T::RPar) => f.push("imul-num"),
            T::Float(_) => f.push("float"),
            T::LPar => f.push("paren"),
            T::Comma => f.push("comma"),
            _ => {}
        }
    }
    f.sort();
    f.dedup();
    tags.extend(f.into_iter().map(String::from));
}

fn one(toks: &[T], mode: u8, r: &mut Rng, stream: &str) -> Case {
    let text = syntax::render(toks, mode, r);
    one_text(&text, toks, stream)
}

fn one_text(text: &str, toks: &[T], stream: &str) -> Case { one_ctx(text, toks, stream, &[]) }

/// `consts`: named `where` constants (name, integer / decimal literal) the expression may mention
fn one_ctx(text: &str, toks: &[T], stream: &str, consts: &[(String, String)]) -> Case {
    let (imp, mut vars, accepted) = parse_objective(text);
    let blocks = vars.first().map(|v| v == "\u{0}blocks").unwrap_or(false);
    if blocks { vars.remove(0); }
    let mut c = Case::default();
    c.req = format!("parse {}", sx::q(text));
    c.imp = imp.clone();
    c.show = text.to_string();
    c.tags = vec![stream.to_string(), if accepted { "accept".into() } else { format!("reject:{}", imp.trim_end_matches(')').rsplit(' ').next().unwrap_or("?")) }];
    // texts the lexer model declines (escaped names, `$`/`_`-prefixed compounds, graphs, …) and trees with an array
    // whose display the model does not compute are not compared with the model; the oracle still judges them
    if !syntax::lex_supported(text) || imp.contains("(other ") || opaque_array(&imp) {
        c.req = String::new();
        c.tags.push("model-declines".into());
    }
    features(toks, &mut c.tags);
    let nops = imp.matches("(bin ").count() + imp.matches("(un ").count();
    c.tags.push(format!("ops-{}", nops.min(6)));
    c.nontrivial = accepted && nops >= 1;
    let impl_part = if !accepted {
        "reject".to_string()
    } else if blocks {
        c.tags.push("pre-only".into());
        format!("(pre {})", &imp[4..imp.len() - 1])
    } else {
        match compiled_objective(text, &vars, consts) {
            Some(e) => { c.tags.push("compiled".into()); format!("(compiled {})", e) }
            None => { c.tags.push("pre-only".into()); format!("(pre {})", &imp[4..imp.len() - 1]) }
        }
    };
    c.oracle = format!("check {} {}", sx::q(text), impl_part);
    if !consts.is_empty() {
        c.oracle.push_str(" (consts");
        for (k, v) in consts { c.oracle.push_str(&format!(" ({} {})", sx::q(k), sx::q(v))); }
        c.oracle.push(')');
        c.tags.push("where-constants".into());
    }
    // words that begin with `true`/`false`: the same text with those words renamed to plain identifiers, so that the
    // oracle can tell the known `boolean`-rule defect from any other deviation in the same case
    if let Some(twin) = dequirk(text) {
        let (imp2, _, ok2) = parse_objective(&twin);
        let part2 = if ok2 { format!("(pre {})", &imp2[4..imp2.len() - 1]) } else { "reject".to_string() };
        c.oracle.push_str(&format!(" (twin {} {})", sx::q(&twin), part2));
        c.tags.push("bool-prefixed-word".into());
    }
    // alias spellings mean the same as the keywords: checked on the implementation directly
    if let (true, Some(swapped)) = (accepted, syntax::alias_twin(toks)) {
        let mut r0 = Rng::new(0);
        let t2 = syntax::render(&swapped, 0, &mut r0);
        let (imp2, _, _) = parse_objective(&t2);
        // float lexemes and everything else are spelled identically, so the canonical trees must be equal
        if imp2 != imp {
            c.impl_violation = Some(format!("alias spelling changes the parse: `{}` -> {} but `{}` -> {}", text, imp, t2, imp2));
            c.sig = Some("alias-differs".into());
        }
        c.tags.push("alias-twin".into());
    }
    c
}

/// does the tree carry an array literal other than an integer / boolean / empty one (`(prim "[1, 2]")`)?
fn opaque_array(imp: &str) -> bool {
    let mut rest = imp;
    while let Some(k) = rest.find("(prim \"") {
        let body = &rest[k + 7..];
        let end = body.find('"').unwrap_or(body.len());
        let d = &body[..end];
        if d.starts_with("Graph {") { rest = &body[end..]; continue; }      // a graph literal: modelled
        let inner = d.trim_start_matches('[').trim_end_matches(']');
        let ok = d.starts_with('[') && d.ends_with(']') && !inner.contains('[')
            && (inner.is_empty() || inner.split(", ").all(|x| !x.is_empty() && x.chars().all(|c| c.is_ascii_digit()))
                || inner.split(", ").all(|x| x == "true" || x == "false"));
        if !ok { return true; }
        rest = &body[end..];
    }
    false
}

/// rename every word that starts (any letter case) with `true` / `false`, is not exactly that literal and is not
/// a function name in call position, to a fresh plain identifier
fn dequirk(text: &str) -> Option<String> {
    let cs: Vec<char> = text.chars().collect();
    let mut out = String::new();
    let mut i = 0;
    let mut k = 0;
    let mut changed = false;
    let wc = |c: char| c.is_alphanumeric() || c == '_';
    while i < cs.len() {
        if cs[i] == '$' || wc(cs[i]) {
            let st = i;
            i += 1;
            while i < cs.len() && wc(cs[i]) { i += 1; }
            let word: String = cs[st..i].iter().collect();
            let low = word.to_ascii_lowercase();
            let boolish = (low.starts_with("true") || low.starts_with("false")) && word != "true" && word != "false";
            let mut j = i;
            while j < cs.len() && (cs[j] == ' ' || cs[j] == '\t') { j += 1; }
            let call = j < cs.len() && cs[j] == '(' && word.chars().all(|c| c.is_alphabetic());
            if boolish && !call && !cs[st].is_ascii_digit() {
                out.push_str(&format!("qz{}", ["a", "b", "c", "d", "e", "f", "g", "h"][k % 8]));
                k += 1;
                changed = true;
            } else {
                out.push_str(&word);
            }
        } else {
            out.push(cs[i]);
            i += 1;
        }
    }
    if changed { Some(out) } else { None }
}

const CLASSES: [&str; 14] = ["2", "x", "(", ")", "-", "*", "+", "and", "or", "xor", "->", "<->", "not", ","];
fn class_tok(s: &str) -> T {
    match s {
        "2" => int("2"), "(" => T::LPar, ")" => T::RPar, "," => T::Comma,
        "x" => w("x"),
        o => bin_tok(o),
    }
}

fn exhaustive(len: usize, out: &mut Vec<Vec<T>>) {
    let mut idx = vec![0usize; len];
    loop {
        out.push(idx.iter().map(|&i| class_tok(CLASSES[i])).collect());
        let mut k = len;
        loop {
            if k == 0 { return; }
            k -= 1;
            idx[k] += 1;
            if idx[k] < CLASSES.len() { break; }
            idx[k] = 0;
        }
    }
}

const LEAVES: [&str; 4] = ["a", "b", "c", "d"];

/// random well-formed token sequence (expression grammar with random redundant/needed parentheses)
pub struct GenCfg { pub calls: bool, pub odd_words: bool, pub bools: bool, pub blocks: bool }
pub const FULL: GenCfg = GenCfg { calls: true, odd_words: true, bools: true, blocks: false };
pub const BLOCKS: GenCfg = GenCfg { calls: true, odd_words: false, bools: true, blocks: true };

/// leaves beyond numbers, names and calls: compound variables, array accesses, block functions, scoped blocks over
/// ranges / sets / tuples, array literals, strings, function names with underscores
fn gen_block_leaf(r: &mut Rng, g: &GenCfg, depth: u32, out: &mut Vec<T>) {
    let d = depth.saturating_sub(1);
    match r.below(14) {
        0 | 1 => {
            // x_i, x_2, x_{e}, x_i_{e}_3
            out.push(w(*r.pick(&["x", "y", "cost", "min", "in", "not", "true"])));
            for _ in 0..(1 + r.below(3)) {
                out.push(T::Us);
                match r.below(4) {
                    0 => out.push(int(*r.pick(&["0", "1", "12"]))),
                    1 if depth > 0 => { out.push(T::LBrace); gen_exp(r, g, d, out); out.push(T::RBrace); }
                    _ => out.push(w(*r.pick(&["i", "j", "u", "in", "k2"]))),
                }
            }
        }
        2 | 3 => {
            out.push(w(*r.pick(&["v", "m", "c", "min"])));
            for _ in 0..(1 + r.below(2)) { out.push(T::LBrack); gen_exp(r, g, d, out); out.push(T::RBrack); }
        }
        4 | 5 | 6 => {
            let k = *r.pick(&["min", "max", "avg", "abs", "all", "any", "xor", "conjunction", "disjunction", "exclusive_disjunction"]);
            out.push(w(k));
            out.push(T::LBrace);
            let n = if k == "abs" { 1 } else { 1 + r.below(3) };
            for i in 0..n { if i > 0 { out.push(T::Comma); } gen_exp(r, g, d, out); }
            out.push(T::RBrace);
        }
        7 | 8 | 9 => {
            out.push(w(*r.pick(&["sum", "prod", "min", "max", "avg", "all", "any", "xor", "conjunction"])));
            out.push(T::LPar);
            for i in 0..(1 + r.below(2)) {
                if i > 0 { out.push(T::Comma); }
                if r.chance(1, 4) {
                    out.extend([T::LPar, w("u"), T::Comma, w("v"), T::RPar, w(*r.pick(&["in", "in", "IN"])), w("edges"), T::LPar, w("G"), T::RPar]);
                } else {
                    out.push(w(*r.pick(&["i", "j", "k"])));
                    out.push(w(*r.pick(&["in", "in", "in", "In"])));
                    match r.below(4) {
                        0 => out.push(w(*r.pick(&["S", "v"]))),
                        1 => { out.extend([w("len"), T::LPar, w("v"), T::RPar, T::DotDot]); gen_exp(r, g, 0, out); }
                        _ => { gen_exp(r, g, d.min(1), out); out.push(if r.chance(1, 3) { T::DotDotEq } else { T::DotDot }); gen_exp(r, g, d.min(1), out); }
                    }
                }
            }
            out.push(T::RPar);
            out.push(T::LBrace);
            gen_exp(r, g, d, out);
            out.push(T::RBrace);
        }
        10 => {
            out.push(T::LBrack);
            let n = r.below(4);
            for i in 0..n { if i > 0 { out.push(T::Comma); } out.push(int(*r.pick(&["1", "2", "30", "007"]))); }
            out.push(T::RBrack);
        }
        11 => out.push(T::Str(r.pick(&["a", "a b", "", "x_1"]).to_string())),
        12 => {
            out.extend([w("neigh"), T::Us, w("edges"), T::LPar, w("G"), T::Comma]);
            gen_exp(r, g, d, out);
            out.push(T::RPar);
        }
        _ => { out.extend([w("len"), T::LPar, w("v"), T::RPar]); }
    }
}

pub fn gen_exp(r: &mut Rng, g: &GenCfg, depth: u32, out: &mut Vec<T>) {
    if depth == 0 || r.chance(1, 4) { return gen_leaf(r, g, depth, out); }
    match r.below(10) {
        0..=6 => {
            gen_operand(r, g, depth - 1, out);
            let n = 1 + r.below(3);
            for _ in 0..n {
                out.push(bin_tok(syntax::BIN_SPELLINGS[r.below(13)].0));
                gen_operand(r, g, depth - 1, out);
            }
        }
        7 | 8 => gen_operand(r, g, depth, out),
        _ => gen_leaf(r, g, depth, out),
    }
}
fn gen_operand(r: &mut Rng, g: &GenCfg, depth: u32, out: &mut Vec<T>) {
    if r.chance(1, 5) { out.push(bin_tok(*r.pick(&["-", "not", "!"]))); }
    if depth > 0 && r.chance(1, 3) {
        out.push(T::LPar);
        gen_exp(r, g, depth - 1, out);
        out.push(T::RPar);
    } else {
        gen_leaf(r, g, depth, out);
    }
}
fn gen_leaf(r: &mut Rng, g: &GenCfg, depth: u32, out: &mut Vec<T>) {
    if g.blocks && r.chance(2, 5) { return gen_block_leaf(r, g, depth, out); }
    match r.below(16) {
        0..=5 => out.push(w(*r.pick(&["x", "y", "z", "w"]))),
        6 | 7 => out.push(int(*r.pick(&["0", "1", "2", "3", "10"]))),
        8 => out.push(T::Float(r.pick(&["2.5", "0.25", "1.0", "3.75", "0.1", "2.50"]).to_string())),
        9 if g.bools => out.push(w(*r.pick(&["true", "false"]))),
        10 if g.odd_words => out.push(w(*r.pick(&["android", "order", "nothing", "iffy", "xor1", "implies2", "mins", "format", "$x", "_u", "inx", "ast", "lets", "And", "NOT", "not1", "true2", "and3x", "e1", "e5", "\\x_1", "\\cap_a_2", "\\not_1", "\\T_x9", "xor2", "in1", "or0", "iff9", "E2", "forêt", "orée", "notée", "inès", "asín", "maxı", "trueé", "λ", "дa"]))),
        11 | 12 => {
            // implicit multiplication: (number | parenthesis)+ variable?
            let n = 1 + r.below(3);
            for _ in 0..n {
                if depth > 0 && r.chance(1, 2) {
                    out.push(T::LPar);
                    gen_exp(r, g, depth - 1, out);
                    out.push(T::RPar);
                } else if r.chance(1, 4) {
                    out.push(T::Float(r.pick(&["2.5", "0.5"]).to_string()));
                } else {
                    out.push(int(*r.pick(&["2", "3", "4"])));
                }
            }
            if n == 1 || r.chance(1, 2) { out.push(w(*r.pick(if g.odd_words { &["x", "y", "z", "$x", "truex", "android"][..] } else { &["x", "y", "z"][..] }))); }
        }
        13 if depth > 0 && g.calls => {
            out.push(w(*r.pick(&["f", "g", "and", "min", "len", "truex"])));
            out.push(T::LPar);
            let n = r.below(3);
            for i in 0..n {
                if i > 0 { out.push(T::Comma); }
                gen_exp(r, g, depth - 1, out);
            }
            out.push(T::RPar);
        }
        _ => out.push(w(*r.pick(&LEAVES))),
    }
}

fn mutate(r: &mut Rng, toks: &mut Vec<T>) {
    let pool: Vec<T> = CLASSES.iter().map(|c| class_tok(c)).chain([T::Bang, T::Slash, T::AmpAmp, T::BarBar, w("true"), w("implies"), w("iff"), T::Float("1.5".into()), w("truex"), w("y")]).collect();
    if toks.is_empty() { toks.push(r.pick(&pool).clone()); return; }
    match r.below(4) {
        0 => { let i = r.below(toks.len()); toks.remove(i); }
        1 => { let i = r.below(toks.len() + 1); toks.insert(i, r.pick(&pool).clone()); }
        2 => { let i = r.below(toks.len()); toks[i] = r.pick(&pool).clone(); }
        _ => { if toks.len() >= 2 { let i = r.below(toks.len() - 1); toks.swap(i, i + 1); } }
    }
}

pub fn generate(seed: u64, n: usize, thorough: bool, corpus: Option<&str>) -> Vec<Case> {
    let mut r = Rng::new(seed);
    let mut cases = vec![];
    let mut seen: HashSet<String> = HashSet::new();
    let mut push = |c: Case, cases: &mut Vec<Case>| { if seen.insert(c.show.clone()) { cases.push(c) } };

    // --- corpus: one expression text per line (seeded findings and past failures), replayed first
    if let Some(dir) = corpus {
        if let Ok(rd) = std::fs::read_dir(dir) {
            let mut files: Vec<_> = rd.filter_map(|e| e.ok()).map(|e| e.path()).collect();
            files.sort();
            for f in files {
                if let Ok(txt) = std::fs::read_to_string(&f) {
                    for line in txt.lines() {
                        let line = line.trim_end();
                        if line.is_empty() || line.starts_with('#') { continue; }
                        push(one_text(line, &[], "corpus"), &mut cases);
                    }
                }
            }
        }
    }

    // --- all token sequences over 14 token classes up to a length bound
    let max_len = if thorough { 5 } else { 4 };
    for len in 1..=max_len {
        let mut seqs = vec![];
        exhaustive(len, &mut seqs);
        for s in seqs { push(one(&s, 0, &mut r, "exhaustive-tokens"), &mut cases); }
    }

    // --- uniformly random sequences over the same classes, beyond the exhaustive bound
    let nrand = if thorough { 10 * n } else { 5 * n };
    for _ in 0..nrand {
        let len = max_len + 1 + r.below(5);
        let t: Vec<T> = (0..len).map(|_| class_tok(CLASSES[r.below(CLASSES.len())])).collect();
        push(one(&t, 0, &mut r, "random-tokens"), &mut cases);
    }

    // --- every pair (and triple) of binary operators, every spelling, with and without prefix operators
    let sp = syntax::BIN_SPELLINGS;
    for (s1, _) in sp.iter() {
        for (s2, _) in sp.iter() {
            for mask in 0..8u32 {
                let mut t = vec![];
                for (i, leaf) in ["a", "b", "c"].iter().enumerate() {
                    if mask & (1 << i) != 0 { t.push(if (mask + i as u32) % 2 == 0 { T::Minus } else { w("not") }); }
                    t.push(w(leaf));
                    if i == 0 { t.push(bin_tok(s1)); }
                    if i == 1 { t.push(bin_tok(s2)); }
                }
                push(one(&t, 0, &mut r, "operator-pairs"), &mut cases);
            }
        }
    }
    let canon9 = ["+", "-", "*", "/", "and", "or", "xor", "->", "<->"];
    for s1 in canon9 { for s2 in canon9 { for s3 in canon9 {
        if !thorough && r.below(3) != 0 { continue; }
        let t = vec![w("a"), bin_tok(s1), w("b"), bin_tok(s2), w("c"), bin_tok(s3), w("d")];
        push(one(&t, 1, &mut r, "operator-triples"), &mut cases);
    } } }

    // --- neutral / absorbing literals next to every operator, on either side and nested (a "shortcut" for `x + 0`,
    // `1 * x`, `x / 1`, `x and true` … must not fire for `0 - x`, `1 / x`, `0 -> x` …) (seeded change C09-15)
    let mut rn = Rng::new(seed ^ 0x9e07);
    for op in canon9 {
        for lit in ["0", "1", "0.0", "1.0", "true", "false"] {
            let l = || if lit.contains('.') { T::Float(lit.to_string()) } else if lit.len() > 1 { w(lit) } else { int(lit) };
            let pats: Vec<Vec<T>> = vec![
                vec![l(), bin_tok(op), w("a")],
                vec![w("a"), bin_tok(op), l()],
                vec![w("b"), bin_tok("*"), T::LPar, l(), bin_tok(op), w("a"), T::RPar],
                vec![T::LPar, w("a"), bin_tok(op), l(), T::RPar, bin_tok("-"), w("b")],
                vec![l(), bin_tok(op), w("a"), bin_tok(op), w("b")],
                vec![w("a"), bin_tok(op), w("b"), bin_tok(op), l()],
                vec![w("b"), bin_tok("-"), l(), bin_tok(op), w("a")],
                vec![w("not"), T::LPar, l(), bin_tok(op), w("a"), T::RPar],
            ];
            for t in pats { push(one(&t, 0, &mut rn, "neutral-literals"), &mut cases); }
        }
    }

    // --- left-associative chains `v op c1 op c2 [op c3 [op c4]]` whose trailing operands are compile-time constants
    //     (literals and named `where` constants), every arithmetic operator and every same-level mixture: the compiled
    //     objective (after `into_exp`) must group them to the left
    let consts: Vec<(String, String)> = vec![("k".into(), "2".into()), ("m".into(), "4".into()), ("h".into(), "0.5".into()), ("n".into(), "3".into())];
    let lits = ["2", "3", "4", "5", "0.5", "10"];
    let names = ["k", "m", "h", "n"];
    let mut chain_ops: Vec<Vec<&str>> = vec![];
    for o in ["+", "-", "*", "/"] { for len in 2..=4 { chain_ops.push(vec![o; len]); } }
    for (a, b) in [("-", "+"), ("+", "-"), ("/", "*"), ("*", "/")] {
        chain_ops.push(vec![a, b]); chain_ops.push(vec![a, b, a]); chain_ops.push(vec![a, a, b]); chain_ops.push(vec![b, a, a, b]);
    }
    for ops in &chain_ops {
        for variant in 0..(if thorough { 12 } else { 5 }) {
            let head: Vec<T> = match variant % 4 { 0 => vec![w("x")], 1 => vec![int("2"), w("x")], 2 => vec![T::LPar, w("x"), T::Plus, w("y"), T::RPar], _ => vec![w("y")] };
            let mut t = head;
            for (i, o) in ops.iter().enumerate() {
                t.push(bin_tok(o));
                // literal, named constant, or a mixture; the last two operands are always constants
                let named = match variant { 0 => false, 1 => true, _ => r.chance(1, 2) };
                if named { t.push(w(names[(i + variant) % names.len()])); }
                else {
                    let l = lits[(i + variant + r.below(3)) % lits.len()];
                    t.push(if l.contains('.') { T::Float(l.to_string()) } else { int(l) });
                }
            }
            // as the whole objective, below a looser operator, and as a parenthesised operand
            let text = syntax::render(&t, (variant % 2) as u8, &mut r);
            push(one_ctx(&text, &t, "constant-chains", &consts), &mut cases);
            let mut t2 = vec![w("z"), T::Plus]; t2.extend(t.clone());
            let text2 = syntax::render(&t2, 0, &mut r);
            push(one_ctx(&text2, &t2, "constant-chains", &consts), &mut cases);
            let mut t3 = vec![T::LPar]; t3.extend(t.clone()); t3.extend([T::RPar, T::Star, w("z")]);
            let text3 = syntax::render(&t3, 0, &mut r);
            push(one_ctx(&text3, &t3, "constant-chains", &consts), &mut cases);
        }
    }

    // --- implicit multiplication: every arrangement of up to 4 atoms {2, (a), (a+b), x} in the contexts a/_ , -_ , _*c
    let atoms: [Vec<T>; 6] = [vec![int("2")], vec![T::LPar, w("a"), T::RPar], vec![T::LPar, w("a"), T::Plus, w("b"), T::RPar], vec![w("x")], vec![T::Float("2.5".into())],
        vec![w("e1")]];
    let mut arrangements: Vec<Vec<usize>> = vec![];
    for len in 1..=(if thorough { 4 } else { 3 }) {
        let mut idx = vec![0usize; len];
        'outer: loop {
            arrangements.push(idx.clone());
            let mut k = len;
            loop {
                if k == 0 { break 'outer; }
                k -= 1;
                idx[k] += 1;
                if idx[k] < atoms.len() { break; }
                idx[k] = 0;
            }
        }
    }
    for arr in &arrangements {
        let body: Vec<T> = arr.iter().flat_map(|&i| atoms[i].clone()).collect();
        if !syntax::in_domain(&body) { continue; }
        for ctx in 0..5 {
            let mut t = match ctx { 1 => vec![w("c"), T::Slash], 2 => vec![T::Minus], 3 => vec![w("not")], _ => vec![] };
            t.extend(body.clone());
            if ctx == 4 { t.extend([T::Star, w("c")]); }
            let mode = if ctx == 0 { 1 } else { 0 };
            push(one(&t, mode, &mut r, "implicit-mul"), &mut cases);
        }
    }

    // --- identifiers around keywords: prefix / suffix / case / `$` `_` decorations, in leaf, operator,
    //     implicit-multiplication and call position
    let kws = ["for", "min", "max", "where", "true", "false", "in", "as", "define", "let", "solve", "and", "or", "not", "implies", "iff", "xor"];
    for k in kws {
        let cap = format!("{}{}", k[..1].to_uppercase(), &k[1..]);
        let variants = [k.to_string(), format!("{}x", k), format!("{}1", k), format!("x{}", k), cap, k.to_uppercase(), format!("${}", k), format!("_{}", k), format!("{}{}", k, k),
            format!("{}é", k), format!("{}êt", k), format!("{}ıñ", k), format!("é{}", k), format!("{}ée1", k)];
        for v in variants.iter() {
            let forms: Vec<Vec<T>> = vec![
                vec![w(v)],
                vec![w(v), T::Plus, int("1")],
                vec![w("a"), w(v), w("b")],
                vec![int("2"), w(v)],
                vec![w(v), T::LPar, w("a"), T::RPar],
                vec![T::Minus, w(v)],
                vec![w("not"), w(v)],
                vec![w("a"), T::Plus, w(v), w("b")],
            ];
            for f in forms {
                if !syntax::in_domain(&f) { continue; }
                push(one(&f, 0, &mut r, "keyword-identifiers"), &mut cases);
            }
        }
    }

    // --- numbers: i64 boundary, leading zeros, floats
    for t in [vec![int("9223372036854775807")], vec![int("9223372036854775808")], vec![int("007"), w("x")], vec![int("0")],
              vec![T::Float("0.1".into()), T::Plus, T::Float("2.50".into())], vec![T::Minus, int("9223372036854775808")],
              vec![int("99999999999999999999"), T::Star, w("x")], vec![T::Float("00.5".into())],
              vec![w("f"), T::LPar, int("99999999999999999999"), T::RPar], vec![int("2"), T::LPar, int("99999999999999999999"), T::RPar]] {
        push(one(&t, 1, &mut r, "numbers"), &mut cases);
    }

    // --- random well-formed sequences (with all spellings, redundant parentheses, calls, implicit products),
    //     each also rendered tightly / with random spacing and comments, and one mutation of it
    let mut made = 0;
    let mut guard = 0;
    while made < n && guard < 20 * n + 100 {
        guard += 1;
        let mut t = vec![];
        let depth = 1 + r.below(4) as u32;
        gen_exp(&mut r, &FULL, depth, &mut t);
        if t.len() > 25 || !syntax::in_domain(&t) { continue; }
        let before = cases.len();
        push(one(&t, 0, &mut r, "random-wellformed"), &mut cases);
        if r.chance(1, 2) { push(one(&t, 1, &mut r, "random-tight"), &mut cases); }
        if r.chance(1, 2) { push(one(&t, 2, &mut r, "random-spacing"), &mut cases); }
        let mut m = t.clone();
        for _ in 0..(1 + r.below(2)) { mutate(&mut r, &mut m); }
        if syntax::in_domain(&m) && m.len() <= 26 { push(one(&m, 0, &mut r, "random-mutated"), &mut cases); }
        if cases.len() > before { made += 1; }
    }

    // --- the same with the block leaves: compound variables, array accesses, block functions, scoped blocks over ranges,
    //     sets and tuples, arrays, strings; tight / random spacing (incl. newlines where the grammar skips them) / mutated
    let pool2: Vec<T> = vec![T::LBrace, T::RBrace, T::LBrack, T::RBrack, T::DotDot, T::DotDotEq, T::Us, T::Comma, T::LPar, T::RPar,
        w("in"), w("i"), w("sum"), w("min"), w("abs"), w("x"), int("1"), T::Plus, T::Minus, w("and"), w("not"), T::Nl];
    let mut made = 0;
    let mut guard = 0;
    while made < n && guard < 20 * n + 100 {
        guard += 1;
        let mut t = vec![];
        let depth = 1 + r.below(3) as u32;
        gen_exp(&mut r, &BLOCKS, depth, &mut t);
        if t.len() > 40 || !t.iter().any(|x| matches!(x, T::LBrace | T::LBrack | T::Us | T::Str(_))) { continue; }
        let before = cases.len();
        push(one(&t, 0, &mut r, "blocks-wellformed"), &mut cases);
        if r.chance(1, 2) { push(one(&t, 1, &mut r, "blocks-tight"), &mut cases); }
        if r.chance(1, 2) { push(one(&t, 2, &mut r, "blocks-spacing"), &mut cases); }
        // MALFORMED stream: one or two token edits of a well-formed text (the class of each rejection is compared)
        let mut m = t.clone();
        for _ in 0..(1 + r.below(2)) {
            if m.is_empty() { break; }
            match r.below(4) {
                0 => { let i = r.below(m.len()); m.remove(i); }
                1 => { let i = r.below(m.len() + 1); m.insert(i, r.pick(&pool2).clone()); }
                2 => { let i = r.below(m.len()); m[i] = r.pick(&pool2).clone(); }
                _ => { if m.len() >= 2 { let i = r.below(m.len() - 1); m.swap(i, i + 1); } }
            }
        }
        if m.len() <= 42 { push(one(&m, 0, &mut r, "malformed-edits"), &mut cases); }
        if cases.len() > before { made += 1; }
    }

    // --- MALFORMED stream, by class: every error of the AST builders at every position it can occur in, pairs of errors
    //     (which one is reported first), and texts the grammar itself refuses
    let big = "99999999999999999999";
    let by_class: Vec<String> = vec![
        // integer literal beyond i64
        format!("{}", big), format!("x + {}", big), format!("f({})", big), format!("f(1, {})", big), format!("min {{ 1, {} }}", big),
        format!("sum(i in 0..{}) {{ i }}", big), format!("sum(i in {}..3) {{ i }}", big), format!("sum(i in 0..3) {{ {} }}", big),
        format!("sum(i in S, j in 0..{}) {{ i }}", big), format!("x_{}", big), format!("x_{{{}}}", big), format!("x_i_{{1 + {}}}", big),
        format!("v[{}]", big), format!("v[0][{}]", big), format!("[1, {}]", big), format!("[{}]", big), format!("2({})", big),
        format!("({})x", big), format!("-{}", big), format!("not {}", big), format!("2 * ({} + 1)", big), format!("len([{}])", big),
        "9223372036854775807".into(), "9223372036854775808".into(), "x_9223372036854775808".into(), "[9223372036854775807]".into(),
        // unknown block function / scoped block, wrong number of members
        "foo { 1 }".into(), "sum { 1, 2 }".into(), "prod { x }".into(), "len { v }".into(), "Min { 1, 2 }".into(), "MAX { 1 }".into(),
        "f(i in 0..3) { i }".into(), "abs(i in 0..3) { i }".into(), "len(i in v) { i }".into(), "Sum(i in 0..3) { i }".into(),
        "abs { 1, 2 }".into(), "abs { 1, 2, 3 }".into(), "abs { x } + abs { x, y }".into(), "min { abs { 1, 2 } }".into(),
        "bar(i in 0..3, j in S) { i }".into(), "range(i in 0..3) { i }".into(), "product(i in S) { i }".into(), "SUM((u, v) in edges(G)) { u }".into(),
        "summ(i in S) { 1 }".into(), "total(i in 0..=2) { x_i } + 1".into(), "2 * avgs(i in S) { i }".into(),
        "abs { }".into(), "abs { 1, 2, 3, 4 }".into(), "2 * abs { x, y }".into(), "abs { abs { 1, 2 } }".into(), "f(abs { 1, 2 })".into(), "x_{abs { 1, 2 }}".into(),
        "sum(i in 0..abs { 1, 2 }) { i }".into(),
        "conjunction { a, b }".into(), "exclusive_disjunction(i in 0..2) { a }".into(), "disjunction { a }".into(),
        // two errors: the first one in the order of the builders is the one reported
        format!("foo {{ {} }}", big), format!("abs {{ {}, 1 }}", big), format!("abs {{ 1, {} }}", big),
        format!("f(i in 0..{}) {{ i }}", big), format!("f(i in 0..3) {{ {} }}", big), format!("abs {{ 1, 2 }} + {}", big),
        format!("{} + abs {{ 1, 2 }}", big), format!("foo {{ 1 }} * bar {{ {} }}", big), format!("bar(i in S) {{ foo {{ {} }} }}", big),
        format!("min {{ foo {{ 1 }}, {} }}", big), format!("sum(i in foo {{ 1 }}..{}) {{ i }}", big), "abs { foo { 1 }, 2 }".into(),
        format!("x_{{foo {{ 1 }}}} + {}", big), format!("v[abs {{ 1, 2 }}][{}]", big),
        // refused by the grammar
        "min { }".into(), "min { , }".into(), "min { 1, }".into(), "min { 1 2 }".into(), "min { 1".into(), "min 1 }".into(), "min { 1 } }".into(),
        "sum() { x }".into(), "sum(i) { x }".into(), "sum(i in) { x }".into(), "sum(i in 0..) { i }".into(), "sum(i in ..3) { i }".into(),
        "sum(i in 0..3 { i }".into(), "sum(i in 0..3) i".into(), "sum(i in 0..3) { }".into(), "sum(i in 0..3,) { i }".into(),
        "sum(i in 0...3) { i }".into(), "sum(i in 0..=) { i }".into(), "sum(i, j in S) { i }".into(), "sum((i, j) S) { i }".into(),
        "sum((i, ) in S) { i }".into(), "sum(() in S) { i }".into(), "sum((i j) in S) { i }".into(), "sum(2 in S) { 1 }".into(),
        "sum(i in 0..3) { i } { j }".into(), "sum(i in 0..3)".into(), "sum(i in 0..3) + 1".into(), "0..3".into(), "x + 0..3".into(),
        "len(0..3)".into(), "x_".into(), "x_ + 1".into(), "x_{".into(), "x_{}".into(), "x_{1".into(), "x_{1} }".into(), "x_{1 2}".into(),
        "v[".into(), "v[]".into(), "v[1".into(), "v[1]]".into(), "v[1 2]".into(), "v[1][".into(), "v [1]".into(), "2[1]".into(), "(v)[1]".into(),
        "[1,]".into(), "[,]".into(), "[1 2]".into(), "[1".into(), "1]".into(), "[x]".into(), "[1 + 1]".into(), "[-1]".into(), "[[1], 2]".into(),
        "\"abc".into(), "\"a\" \"b\"".into(), "\"a\"x".into(), "2\"a\"".into(), "{ 1 }".into(), "{ }".into(), "} {".into(),
        "f(1,, 2)".into(), "f(1, )".into(), "f(, 1)".into(), "min(1, 2) { 3 }".into(), "min(i in S)".into(), "x y".into(), "x_i y".into(),
        "a and_x".into(), "a not_x".into(), "not_x".into(), "and_x + or_1".into(), "true_1 + false_x".into(), "a xor_x b".into(),
    ];
    for t in by_class { push(one_text(&t, &[], "malformed-by-class"), &mut cases); }
    cases
}
