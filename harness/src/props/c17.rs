//! C17 — LP export denotes the same model: `LinearModel::to_lp_format()`.
//!
//! Correspondence: the text of the real writer vs. the Lean port `Lp.writeLP`, byte for byte.
//! Oracle: the independent Lean LP reader is run on the IMPLEMENTATION's text and what it reads is
//! compared with the model (sense, objective, constant, rows, names, bounds, markings, unique names).
use crate::case::Case;
use crate::rng::Rng;
use crate::sx;
use rooc::{Comparison, LinearConstraint, LinearModel, OptimizationType, VariableType};
use std::collections::BTreeMap;

/// table `bits -> string Rust prints`, for every number the writer may print (value and magnitude)
pub fn tok_table(m: &LinearModel) -> String {
    let mut t: BTreeMap<u64, String> = BTreeMap::new();
    let mut add = |v: f64| {
        t.insert(v.to_bits(), format!("{}", v));
        t.insert(v.abs().to_bits(), format!("{}", v.abs()));
    };
    for c in m.objective() { add(*c); }
    add(m.objective_offset());
    for r in m.constraints() {
        for c in r.coefficients() { add(*c); }
        add(r.rhs());
    }
    for (_, d) in m.domain() {
        match d.get_type() {
            VariableType::NonNegativeReal(a, b) | VariableType::Real(a, b) => { add(*a); add(*b); }
            _ => {}
        }
    }
    let mut s = String::from("(toks");
    for (b, st) in &t { s.push_str(&format!(" (#x{:016x} {})", b, sx::q(st))); }
    s.push(')');
    s
}

/// the facts the theorems assume about number tokens, checked against Rust's own printer/parser
fn num_tokens_ok(m: &LinearModel) -> bool {
    let mut ok = true;
    let mut chk = |v: f64| {
        if !v.is_finite() { return; }
        let s = format!("{}", v);
        let a = format!("{}", v.abs());
        let unsigned_ok = !a.is_empty() && a.as_bytes()[0].is_ascii_digit() && a.bytes().all(|b| b.is_ascii_digit() || b == b'.');
        let sign_ok = if v.is_sign_negative() { s == format!("-{}", a) } else { s == a };
        let back = a.parse::<f64>().map(|x| x.to_bits() == v.abs().to_bits()).unwrap_or(false);
        if !(unsigned_ok && sign_ok && back) { ok = false; }
    };
    for c in m.objective() { chk(*c); }
    chk(m.objective_offset());
    for r in m.constraints() { for c in r.coefficients() { chk(*c); } chk(r.rhs()); }
    for (_, d) in m.domain() {
        if let VariableType::NonNegativeReal(a, b) | VariableType::Real(a, b) = d.get_type() { chk(*a); chk(*b); }
    }
    ok
}

const LP_RESERVED: [&str; 22] = ["minimize", "minimum", "min", "maximize", "maximum", "max", "st", "s.t.", "st.", "subject",
    "such", "bounds", "bound", "binary", "binaries", "bin", "general", "generals", "gen", "end", "free", "inf"];

fn one(m: &LinearModel, mut tags: Vec<String>) -> Case {
    let lin = sx::lin_model(m);
    let text = std::panic::catch_unwind(std::panic::AssertUnwindSafe(|| m.to_lp_format()));
    let mut c = Case::default();
    c.req = format!("lp {} {}", lin, tok_table(m));
    c.show = format!("{:?}", m.to_string());
    match text {
        Ok(text) => {
            c.imp = format!("(ok {})", sx::q(&text));
            c.oracle = format!("check-lp {} {}", lin, sx::q(&text));
            c.show = format!("LinearModel {{ {} }}  ->  {}", m.to_string().replace('\n', " | "), text.replace('\n', " | "));
        }
        Err(_) => {
            c.imp = "(err panic)".into();
            c.impl_violation = Some("to_lp_format panicked".into());
        }
    }
    // feature tags
    let all_nums: Vec<f64> = m.objective().iter().cloned()
        .chain(m.constraints().iter().flat_map(|r| r.coefficients().iter().cloned().chain(std::iter::once(r.rhs()))))
        .chain(std::iter::once(m.objective_offset())).collect();
    if all_nums.iter().any(|v| !v.is_finite()) { tags.push("nonfinite-number".into()); }
    if all_nums.iter().any(|v| *v < 0.0) { tags.push("negative".into()); }
    if all_nums.iter().any(|v| v.fract() != 0.0 && v.is_finite()) { tags.push("fractional".into()); }
    if all_nums.iter().any(|v| *v != 0.0 && v.abs() < 1e-5) { tags.push("tiny".into()); }
    if all_nums.iter().any(|v| v.abs() >= 1e9 && v.is_finite()) { tags.push("large".into()); }
    if all_nums.iter().any(|v| v.abs() == 1.0) { tags.push("unit-coefficient".into()); }
    if all_nums.iter().any(|v| *v == 0.0 && v.is_sign_negative()) { tags.push("negative-zero".into()); }
    if m.constraints().iter().any(|r| r.coefficients().iter().all(|c| *c == 0.0)) { tags.push("zero-row".into()); }
    if m.objective().iter().all(|c| *c == 0.0) { tags.push("zero-objective".into()); }
    if m.objective_offset() != 0.0 { tags.push("offset".into()); }
    if m.constraints().iter().any(|r| r.name().is_empty()) { tags.push("unnamed-row".into()); }
    if m.constraints().iter().any(|r| !r.name().is_empty()) { tags.push("named-row".into()); }
    for r in m.constraints() { tags.push(format!("cmp-{}", sx::cmp(*r.constraint_type()))); }
    tags.push(format!("sense-{}", sx::opt_type(m.optimization_type())));
    for (_, d) in m.domain() {
        tags.push(match d.get_type() {
            VariableType::Boolean => "dom-boolean".into(),
            VariableType::IntegerRange(a, _) => if *a < 0 { "dom-int-negative".into() } else { "dom-int".to_string() },
            VariableType::NonNegativeReal(a, b) => if *a == 0.0 && *b == f64::INFINITY { "dom-nnreal-default".into() } else { "dom-nnreal-tight".to_string() },
            VariableType::Real(a, b) => if *a == f64::NEG_INFINITY && *b == f64::INFINITY { "dom-free".into() }
                else if a.is_infinite() || b.is_infinite() { "dom-real-halfinf".into() } else if *a < 0.0 { "dom-real-negative".into() } else { "dom-real".to_string() },
        });
    }
    let gen_like = |n: &str| n.len() > 1 && n.starts_with('c') && n[1..].bytes().all(|b| b.is_ascii_digit());
    if m.constraints().iter().any(|r| gen_like(&r.name())) { tags.push("user-name-looks-generated".into()); }
    if m.variables().iter().chain(m.constraints().iter().map(|r| r.name()).collect::<Vec<_>>().iter())
        .any(|n| LP_RESERVED.contains(&n.to_lowercase().as_str()) || n.to_lowercase() == "infinity") { tags.push("lp-keyword-name".into()); }
    tags.push(if num_tokens_ok(m) { "numtoken-ok".into() } else { "numtoken-hyp-fails".to_string() });
    // the decidable part of `WellFormed` (hypotheses of the theorem `read_write`), re-evaluated here
    let sym = |c: char| "!\"#$%&(),;?@_'`{}~[]/|".contains(c);
    let name_ok = |n: &str| {
        let mut cs = n.chars();
        match cs.next() {
            None => false,
            Some(c) => (c.is_ascii_alphabetic() || sym(c)) && cs.all(|c| c.is_ascii_alphanumeric() || sym(c) || c == '.')
                && !LP_RESERVED.contains(&n.to_lowercase().as_str()) && n.to_lowercase() != "infinity",
        }
    };
    let names_ok = m.variables().iter().all(|v| name_ok(v)) && m.domain().keys().all(|v| name_ok(v))
        && m.constraints().iter().all(|r| r.name().is_empty() || name_ok(&r.name()));
    let finite_ok = all_nums.iter().all(|v| v.is_finite());
    let bounds_ok = m.domain().values().all(|d| match d.get_type() {
        VariableType::NonNegativeReal(a, b) | VariableType::Real(a, b) => !a.is_nan() && !b.is_nan(), _ => true });
    tags.push(if names_ok && finite_ok && bounds_ok && num_tokens_ok(m) { "read-write-hypotheses-hold".into() } else { "outside-read-write-hypotheses".to_string() });
    tags.sort();
    tags.dedup();
    c.tags = tags;
    c.nontrivial = !m.constraints().is_empty() || !m.domain().is_empty();
    c
}

fn number(r: &mut Rng, stream: usize) -> f64 {
    match stream {
        // small integers, units and zeros
        0 => *r.pick(&[0.0, 0.0, 1.0, -1.0, 2.0, -2.0, 3.0, 5.0, -7.0, 10.0, -0.0]),
        // fractions (dyadic and decimal)
        1 => match r.below(3) { 0 => r.range(-16, 16) as f64 / 8.0, 1 => r.range(-50, 50) as f64 / 10.0, _ => r.range(-999, 999) as f64 / 1000.0 },
        // tiny / tolerance boundary
        2 => { let k = *r.pick(&[1e-9, 2e-9, 1e-7, 1e-6, 9.99e-6, 1e-5, 1.0001e-5, 2e-5, 1e-10, 5e-324, 1e-300]); if r.chance(1, 2) { -k } else { k } }
        // large
        3 => { let k = *r.pick(&[1e9, 123456789.125, 1e15, 9007199254740993.0, 1e21, 1e22, 1.5e300, 999999999.9]); if r.chance(1, 2) { -k } else { k } }
        // near one (unit-coefficient omission must be exact)
        4 => *r.pick(&[1.0 + 1e-9, 1.0 - 1e-9, -1.0 - 1e-12, 1.0000000000000002, 0.9999999999999999, -1.0]),
        _ => *r.pick(&[f64::INFINITY, f64::NEG_INFINITY, f64::NAN, 1.0, 0.0]),
    }
}

fn var_type(r: &mut Rng) -> VariableType {
    match r.below(12) {
        0 | 1 => VariableType::Boolean,
        2 => VariableType::IntegerRange(r.range(0, 3) as i32, r.range(3, 20) as i32),
        3 => VariableType::IntegerRange(r.range(-20, -1) as i32, r.range(-1, 20) as i32),
        4 => *r.pick(&[VariableType::IntegerRange(i32::MIN, i32::MAX), VariableType::IntegerRange(0, 0), VariableType::IntegerRange(-1, 1)]),
        5 => VariableType::Real(f64::NEG_INFINITY, f64::INFINITY),
        6 => VariableType::Real(number(r, 1), number(r, 1).abs() + 5.0),
        7 => if r.chance(1, 2) { VariableType::Real(f64::NEG_INFINITY, number(r, 1)) } else { VariableType::Real(number(r, 1), f64::INFINITY) },
        8 | 9 => VariableType::NonNegativeReal(0.0, f64::INFINITY),
        10 => VariableType::NonNegativeReal(number(r, 1).abs(), number(r, 3).abs()),
        _ => *r.pick(&[VariableType::NonNegativeReal(0.0, 4.0), VariableType::Real(0.0, f64::INFINITY), VariableType::Real(-1e-9, 1e9),
                       VariableType::NonNegativeReal(-0.0, f64::INFINITY), VariableType::Real(-0.0, 0.0), VariableType::NonNegativeReal(0.000000000499997, 10.0)]),
    }
}

const VAR_NAMES: [&str; 14] = ["x", "y", "z", "x_1", "x_a_b", "$abs_0", "$logic_witness_0", "$max_1_select_0", "c1", "c2", "X", "w2", "e1", "_u"];
const ROW_NAMES: [&str; 9] = ["a", "row_1", "c1", "c2", "c3", "c4", "__aux", "$r", "cap"];

fn random_model(r: &mut Rng, stream: usize, names: &[&str]) -> LinearModel {
    let nv = 1 + r.below(4);
    let mut m = LinearModel::new();
    let mut pool: Vec<&str> = names.to_vec();
    for _ in 0..nv {
        let i = r.below(pool.len());
        let n = pool.remove(i);
        m.add_variable(n, var_type(r));
    }
    let num = |r: &mut Rng| { let s = if r.chance(1, 3) { 0 } else { stream }; number(r, s) };
    let nr = r.below(5);
    let mut rows = ROW_NAMES.to_vec();
    for _ in 0..nr {
        let k = r.below(nv + 1);
        let coeffs: Vec<f64> = if r.chance(1, 8) { vec![0.0; k] } else { (0..k).map(|_| num(r)).collect() };
        let cmp = *r.pick(&[Comparison::LessOrEqual, Comparison::GreaterOrEqual, Comparison::Equal, Comparison::LessOrEqual, Comparison::Less, Comparison::Greater]);
        let rhs = num(r);
        if r.chance(1, 2) { m.add_constraint(coeffs, cmp, rhs); }
        else { let i = r.below(rows.len()); let n = rows.remove(i); m.add_named_constraint(coeffs, cmp, rhs, n); }
    }
    let k = r.below(nv + 1);
    let obj: Vec<f64> = (0..k).map(|_| num(r)).collect();
    let ot = match r.below(5) { 0 | 1 => OptimizationType::Min, 2 | 3 => OptimizationType::Max, _ => OptimizationType::Satisfy };
    m.set_objective(obj, ot);
    if r.chance(1, 2) {
        let (o, t, _, c, v, d) = m.into_parts();
        let off = if r.chance(1, 6) { -0.0 } else { num(r) };
        m = LinearModel::new_from_parts(o, t, off, c, v, d);
    }
    m
}

fn seeded() -> Vec<(LinearModel, &'static str)> {
    let mut out = vec![];
    // the confirmed defect: unnamed row 2 is exported as `c2`, the user's row 1 is called `c2`
    let mut m = LinearModel::new();
    m.add_variable("x", VariableType::Real(-5.0, 10.0));
    m.add_variable("y", VariableType::Real(-5.0, 10.0));
    m.add_named_constraint(vec![1.0, 1.0], Comparison::GreaterOrEqual, 1.0, "c2");
    m.add_constraint(vec![1.0, -2.0], Comparison::LessOrEqual, 3.0);
    m.set_objective(vec![1.0, 1.0], OptimizationType::Min);
    out.push((m, "seed-rowname-collision"));
    // the repo's own test
    let mut m = LinearModel::new();
    m.add_variable("x", VariableType::non_negative_real());
    m.add_variable("y", VariableType::IntegerRange(0, 10));
    m.add_variable("b", VariableType::Boolean);
    m.set_objective(vec![3.0, 2.0, 1.0], OptimizationType::Max);
    m.add_constraint(vec![1.0, 1.0, 0.0], Comparison::LessOrEqual, 4.0);
    m.add_constraint(vec![1.0, 0.0, -5.0], Comparison::GreaterOrEqual, 0.0);
    out.push((m, "seed-repo-test"));
    // empty model
    out.push((LinearModel::new(), "seed-empty"));
    // user names in the generated style that do NOT collide (c1 on row 1 is its own generated name)
    let mut m = LinearModel::new();
    m.add_variable("x", VariableType::non_negative_real());
    m.add_named_constraint(vec![1.0], Comparison::LessOrEqual, 1.0, "c1");
    m.add_constraint(vec![2.0], Comparison::LessOrEqual, 3.0);
    m.add_named_constraint(vec![3.0], Comparison::LessOrEqual, 4.0, "c7");
    m.set_objective(vec![1.0], OptimizationType::Satisfy);
    out.push((m, "seed-generated-style-no-collision"));
    // zero objective with an offset, zero row, -0 rhs
    let mut m = LinearModel::new();
    m.add_variable("x", VariableType::Real(f64::NEG_INFINITY, f64::INFINITY));
    m.add_constraint(vec![0.0], Comparison::Equal, -0.0);
    let (o, _, _, c, v, d) = m.into_parts();
    out.push((LinearModel::new_from_parts(o, OptimizationType::Satisfy, 1.0, c, v, d), "seed-solve-offset"));
    out
}

pub fn generate(seed: u64, n: usize, _thorough: bool, _corpus: Option<&str>) -> Vec<Case> {
    let mut r = Rng::new(seed);
    let mut cases = vec![];
    for (m, tag) in seeded() { cases.push(one(&m, vec![tag.to_string(), "seeded".into()])); }
    // corpus: source programs, compiled by the real front end, then exported
    if let Some(dir) = _corpus {
        if let Ok(rd) = std::fs::read_dir(dir) {
            let mut files: Vec<_> = rd.filter_map(|e| e.ok()).map(|e| e.path()).filter(|p| p.extension().map(|x| x == "rooc").unwrap_or(false)).collect();
            files.sort();
            for f in files {
                if let Ok(src) = std::fs::read_to_string(&f) {
                    let lm = std::panic::catch_unwind(move || {
                        rooc::RoocParser::new(src).parse_and_transform(vec![], &indexmap::IndexMap::new()).ok()
                            .and_then(|m| rooc::Linearizer::linearize(m).ok())
                    }).ok().flatten();
                    if let Some(lm) = lm { cases.push(one(&lm, vec!["corpus".into(), "compiled-linear-model".into()])); }
                }
            }
        }
    }
    // single-coefficient sweep: every interesting number as coefficient, rhs, offset and bound
    let sweep: Vec<f64> = vec![0.0, -0.0, 1.0, -1.0, 0.5, -0.5, 0.1, -0.1, 1e-9, -1e-9, 1e-6, -1e-6, 1e-5, -1e-5, 1e9, -1e9, 123456.789,
        1.0000000000000002, 0.3333333333333333, 2.5e-7, 1e21, 1e22, 5e-324, 1.7976931348623157e308, 4503599627370497.5];
    for v in &sweep {
        let mut m = LinearModel::new();
        m.add_variable("x", VariableType::Real(*v, f64::INFINITY));
        m.add_variable("y", VariableType::NonNegativeReal(0.0, v.abs()));
        m.add_named_constraint(vec![*v, 1.0], Comparison::LessOrEqual, *v, "r");
        m.add_constraint(vec![2.0, *v], Comparison::GreaterOrEqual, -*v);
        m.set_objective(vec![*v, *v], OptimizationType::Min);
        let (o, t, _, c, vs, d) = m.into_parts();
        cases.push(one(&LinearModel::new_from_parts(o, t, *v, c, vs, d), vec!["sweep".into()]));
    }
    let streams = ["ints", "fractions", "tiny", "large", "near-one", "nonfinite"];
    for i in 0..n {
        // the non-finite stream is 1 in 12 (outside the property's quantifier: correspondence only)
        let stream = if i % 12 == 11 { 5 } else { i % 5 };
        let m = random_model(&mut r, stream, &VAR_NAMES);
        cases.push(one(&m, vec![format!("random-{}", streams[stream])]));
    }
    // row names shaped like an exponent / the start of a number (`e1`, `E`, `E12`, `e`) together with their
    // underscore-prefixed twins (`_e1`, `_E`): every row keeps the name the user gave, names stay pairwise distinct
    // (own generator state, fixed-size block)
    {
        let mut re = r.fork();
        let pool = ["e1", "E", "E12", "e", "_e1", "_E", "_E12", "_e", "e2", "cap"];
        for _ in 0..30 {
            let nv = 1 + re.below(3);
            let mut m = LinearModel::new();
            for v in ["x", "y", "z"].iter().take(nv) { m.add_variable(v, VariableType::Real(-5.0, 10.0)); }
            let mut rows = pool.to_vec();
            for _ in 0..2 + re.below(5) {
                let coeffs: Vec<f64> = (0..nv).map(|_| *re.pick(&[1.0, -1.0, 2.0, 0.5, 3.0])).collect();
                let cmp = *re.pick(&[Comparison::LessOrEqual, Comparison::GreaterOrEqual, Comparison::Equal]);
                let i = re.below(rows.len());
                let n = rows.remove(i);
                m.add_named_constraint(coeffs, cmp, *re.pick(&[1.0, 4.0, -2.0, 0.0]), n);
            }
            m.set_objective((0..nv).map(|_| *re.pick(&[1.0, -1.0, 2.0])).collect(), if re.chance(1, 2) { OptimizationType::Min } else { OptimizationType::Max });
            cases.push(one(&m, vec!["exponent-like-row-names".into()]));
        }
        // the collision itself: `e1` next to `_e1`, `E` next to `_E`
        let mut m = LinearModel::new();
        m.add_variable("x", VariableType::Real(-5.0, 10.0));
        m.add_named_constraint(vec![1.0], Comparison::LessOrEqual, 4.0, "e1");
        m.add_named_constraint(vec![2.0], Comparison::GreaterOrEqual, -1.0, "_e1");
        m.add_named_constraint(vec![1.0], Comparison::LessOrEqual, 5.0, "E");
        m.add_named_constraint(vec![3.0], Comparison::LessOrEqual, 9.0, "_E");
        m.set_objective(vec![1.0], OptimizationType::Max);
        cases.push(one(&m, vec!["exponent-like-row-names".into(), "seed-e1-next-to-underscore-e1".into()]));
    }
    // names that are words of the LP format itself
    let kw = ["free", "inf", "End", "st", "Bounds", "x", "y"];
    for _ in 0..(n / 25).max(4) {
        let m = random_model(&mut r, 0, &kw);
        cases.push(one(&m, vec!["random-lp-keyword-names".into()]));
    }
    cases
}
