//! C19 — type checking is sound: `type_check` accepts ⇒ `transform` does not fail with a type-class error.
//!
//! (1) property check on the implementation: grammar-generated programs and hand-written templates
//!     (all builtin functions, nested scopes, destructuring) with a deliberately ill-typed expression
//!     substituted at every operand / index / bound / argument position; violation = accepted by
//!     `create_type_checker` ∧ `transform` fails with a type-class `TransformError` variant;
//! (2) correspondence with the Lean model `Rooc/Pre/Types.lean`: the static operator tables over ALL kind
//!     pairs, the builtin signatures over all kind tuples, and `type_check / get_type / as_primitive` of
//!     random operator expressions over boundary values.
use crate::case::Case;
use crate::pre_gen::*;
use crate::pre_reflect::{self, kind_sx, prim_sx};
use crate::rng::Rng;
use crate::sx;
use indexmap::IndexMap;
use rooc::model_transformer::{TransformError, TransformerContext};
use rooc::type_checker::type_checker_context::{FunctionContext, TypeCheckable, TypeCheckerContext, WithType};
use rooc::{BinOp, InputSpan, PreExp, Primitive, PrimitiveKind, RoocFunction, RoocParser, Spanned, UnOp};
use std::panic::{catch_unwind, AssertUnwindSafe};

pub const TYPE_CLASS: [&str; 10] = ["WrongArgument", "WrongExpectedArgument", "BinOpError", "UnOpError", "Unspreadable", "SpreadError",
    "NonExistentFunction", "WrongNumberOfArguments", "WrongFunctionSignature", "UndeclaredVariable"];

fn base(e: &TransformError) -> &TransformError { e.base_error() }
fn variant(e: &TransformError) -> String {
    let d = format!("{:?}", base(e));
    d.split(|c: char| !c.is_alphanumeric()).next().unwrap_or("").to_string()
}
/// a `BinOpError` / `UnOpError` whose operand kinds DO support the operator is a data-dependent failure
/// (division by zero, overflow) reported under the wrong variant
fn operator_applicable(e: &TransformError) -> Option<bool> {
    match base(e) {
        TransformError::BinOpError { operator, lhs, rhs } => Some(lhs.can_apply_binary_op(*operator, rhs.clone())),
        TransformError::UnOpError { operator, exp } => Some(exp.can_apply_unary_op(*operator)),
        _ => None,
    }
}

pub struct Verdict { pub tc: String, pub tr: String, pub applicable: Option<bool>, pub detail: String, pub numeric_conversion: bool }
/// `WrongArgument { expected: Integer | PositiveInteger, got: <numeric> }` is the failure of `as_integer_cast` /
/// `as_usize_cast` on a fractional or negative NUMBER: it depends on the value, not on the type
fn numeric_conversion(e: &TransformError) -> bool {
    match base(e) {
        TransformError::WrongArgument { got, expected } => matches!(expected, PrimitiveKind::Integer | PrimitiveKind::PositiveInteger) && got.is_numeric(),
        _ => false,
    }
}

pub fn run_program(src: &str) -> Verdict {
    let r = catch_unwind(AssertUnwindSafe(|| {
        let p = RoocParser::new(src.to_string());
        let pre = match p.parse() { Ok(x) => x, Err(e) => return Verdict { tc: "parse-error".into(), tr: "parse-error".into(), applicable: None, detail: e.to_string_from_source(src), numeric_conversion: false } };
        let tc = match pre.create_type_checker(&vec![], &IndexMap::new()) { Ok(()) => "ok".to_string(), Err(e) => format!("err:{}", variant(&e)) };
        match pre.transform(vec![], &IndexMap::new()) {
            Ok(_) => Verdict { tc, tr: "ok".into(), applicable: None, detail: String::new(), numeric_conversion: false },
            Err(e) => Verdict { tc, tr: format!("err:{}", variant(&e)), applicable: operator_applicable(&e), numeric_conversion: numeric_conversion(&e), detail: e.trace_from_source(src).unwrap_or_else(|_| e.traced_error()) },
        }
    }));
    r.unwrap_or_else(|p| Verdict { tc: "panic".into(), tr: "panic".into(), applicable: None, detail: crate::pre_worker::panic_text(&p), numeric_conversion: false })
}

fn pos_class(pos: &str) -> String {
    let last = pos.rsplit('/').next().unwrap_or(pos);
    let outer = pos.split('/').next().unwrap_or(pos);
    let c = if last.starts_with("operand:") { let op = &last[8..]; if ["and", "or", "xor", "implies", "iff", "not"].contains(&op) { "logic-operand" } else { "arith-operand" } }
        else if last.starts_with("arg:") { last } else if last.starts_with("block:") { "block-member" } else if last.starts_with("scoped:") { "scoped" } else { last };
    // compile-time contexts (evaluated by as_primitive) vs model-expression contexts (into_exp)
    let ctx = if outer == "const" || outer == "decl-bound" || outer == "decl-var" || outer == "decl-for" || outer == "constraint-for" || outer == "constraint-name" { "static" }
        else if pos.contains("/index") || pos.contains("/access") || pos.contains("/iterator") || pos.contains("/arg:") || pos.contains("/range-") { "static" } else { "model" };
    format!("{}@{}", c, ctx)
}

/// signature = error variant + the construct, grouped by root cause
fn root_cause(variant: &str, pert: &str, pos: &str) -> String {
    let pc = pos_class(pos);
    let stat = pc.ends_with("@static");
    if pert == "mixed-array" { return format!("{}:any-typed-value,any-typed-value", variant); }
    if ["setfn-scalar", "setfn-string", "setfn-mixed"].contains(&pert) { return format!("{}:set-function-of-non-iterable", variant); }
    if ["block-as-value", "scoped-as-value", "avg-as-value", "abs-as-value", "logic-block-as-value"].contains(&pert) && stat { return format!("{}:aggregate-in-compile-time-position", variant); }
    if UNDECLARED_FAMILY.contains(&pert) { return format!("{}:reference-to-undeclared-family", variant); }
    if ["domain-var", "compound-domain-var"].contains(&pert) && stat { return format!("{}:domain-variable-in-compile-time-position", variant); }
    if pos.starts_with("objective") && !pos.contains('/') { return format!("{}:non-numeric-objective", variant); }
    format!("{}:{}@{}", variant, pert, pc)
}

/// references to a compound family that no declaration introduces: statically knowable, so an
/// `UndeclaredVariableDomain` at transform time is a type-class failure for these
pub const UNDECLARED_FAMILY: [&str; 6] = ["undeclared-family-var", "undeclared-family-expr", "undeclared-family-mixed", "wrong-arity-family-more", "wrong-arity-family-less", "wrong-arity-family-expr"];

pub fn judge(src: &str, tags: Vec<String>, pert: &str, pos: &str) -> Case {
    let v = run_program(src);
    let undeclared_family = UNDECLARED_FAMILY.contains(&pert) && v.tr == "err:UndeclaredVariableDomain";
    let mut c = Case::default();
    c.tags = tags;
    c.show = src.to_string();
    c.imp = format!("(tc {} transform {})", v.tc, v.tr);
    let trv = v.tr.strip_prefix("err:").unwrap_or("");
    let class = if v.tr == "ok" { "none" } else if v.numeric_conversion { "data" } else if TYPE_CLASS.contains(&trv) || undeclared_family { "type-class" } else { "data" };
    c.tags.push(format!("typecheck:{}", if v.tc == "ok" { "accepts" } else if v.tc.starts_with("err") { "rejects" } else { &v.tc }));
    c.tags.push(format!("transform:{}", if v.tr == "ok" { "ok".to_string() } else { format!("{}:{}", class, trv) }));
    c.tags.push(format!("perturbation:{}", pert));
    c.tags.push(format!("position:{}", pos_class(pos)));
    c.oracle = format!("sound {} {} {}", v.tc.replace("err:", "err-"), if v.tr == "ok" { "ok".to_string() } else if trv.is_empty() { v.tr.clone() } else { trv.to_string() },
        if undeclared_family { "undeclared-family" } else if v.numeric_conversion { "numeric-conversion" } else { match v.applicable { Some(true) => "applicable", Some(false) => "inapplicable", None => "na" } });
    c.nontrivial = v.tc == "ok" || v.tr != "ok";
    if v.tc == "ok" && class == "type-class" {
        if v.applicable == Some(true) {
            c.sig = Some(format!("{}:operator-applicable", trv));
            c.impl_violation = Some(format!("accepted program fails with {} although the operand kinds support the operator (a data-dependent failure reported as a type error): {}", trv, v.detail));
        } else {
            c.sig = Some(root_cause(trv, pert, pos));
            c.impl_violation = Some(format!("type checker accepts, transform fails with {} (perturbation {} at {}): {}", trv, pert, pos, v.detail));
        }
    }
    if v.tc == "panic" { c.tags.push("panic".into()); }
    c
}

// ------------------------------------------------------------------------------------ perturbations
/// (class, text, needs the iteration variables pt / pn / pe in scope)
pub fn pool() -> Vec<(&'static str, &'static str, bool)> {
    vec![
        ("string", "\"s\"", false), ("boolean", "true", false), ("array", "[1, 2]", false), ("matrix", "[[1], [2, 3]]", false),
        ("graph", "Graph { A -> [B], B }", false), ("empty-array", "[]", false), ("mixed-array", "[1, \"a\"]", false), ("float", "2.5", false), ("neg-int", "(-3)", false),
        ("const-string", "pS", false), ("const-bool", "pB", false), ("const-array", "pArr", false), ("const-matrix", "pMat", false), ("const-graph", "pG", false),
        ("const-float", "pF", false), ("const-strings", "pSs", false),
        ("tuple-var", "pt", true), ("node-var", "pn", true), ("edge-var", "pe", true),
        ("call-len", "len(pArr)", false), ("call-enumerate", "enumerate(pArr)", false), ("call-nodes", "nodes(pG)", false), ("call-edges", "edges(pG)", false),
        ("call-zip", "zip(pArr, pSs)", false), ("call-range", "range(0, 2, true)", false),
        ("setfn-scalar", "union(3, 3)", false), ("setfn-string", "difference(pS, pS)", false), ("setfn-mixed", "intersection(pArr, pSs)", false), ("setfn-ok", "union(pArr, pArr)", false),
        ("call-unknown", "foo(1)", false), ("call-arity0", "len()", false), ("call-arity2", "len(pArr, pArr)", false), ("zip-empty", "zip()", false),
        ("range-arity", "range(1, 2)", false), ("enumerate-arity", "enumerate()", false), ("nodes-arity", "nodes()", false), ("nof-arity", "N_of(\"A\")", false),
        ("nof-swapped", "N_of(pG, \"A\")", false), ("neigh-string", "neigh_edges(\"A\")", false), ("nodes-array", "nodes(pArr)", false),
        ("block-as-value", "max{ 1, 2 }", false), ("scoped-as-value", "sum(q9 in 0..2) { q9 }", false), ("avg-as-value", "avg{ 1, 2 }", false), ("abs-as-value", "abs{ 1 }", false),
        ("logic-block-as-value", "all{ true, pB }", false),
        ("domain-var", "z", false), ("compound-domain-var", "pw_1", false), ("undeclared", "nope", false), ("undeclared-compound", "nope_1", false),
        ("access", "pArr[0]", false), ("access-string-index", "pArr[pS]", false), ("access-row", "pMat[0]", false), ("access-too-deep", "pArr[0][0]", false), ("access-scalar", "pF[0]", false),
        ("access-bool-index", "pArr[pB]", false), ("access-float-index", "pArr[pF]", false),
        ("string-plus-int", "pS + 1", false), ("int-plus-string", "1 + pS", false), ("bool-plus-int", "pB + 1", false), ("bool-and-int", "(pB and 1)", false), ("not-int", "!1", false),
        ("neg-string", "-pS", false), ("array-plus-int", "pArr + 1", false), ("string-concat", "pS + pS", false), ("div-zero", "1 / 0", false), ("bool-times-bool", "pB * pB", false),
        ("overflow", "9223372036854775807 + 1", false), ("not-bool", "!pB", false), ("neg-bool", "-pB", false), ("tuple-plus", "pt + 1", true), ("node-plus", "pn + 1", true),
        ("infinity", "Infinity", false), ("underscore", "_", false),
        // a matrix whose rows have different element kinds (well-typed row first): every element is `Any`, a numeric use of
        // an element of a later row must be rejected; set functions over iterables of DIFFERENT element kinds likewise
        ("mixed-rows-element", "pMix[1][0]", false), ("mixed-rows-first", "pMix[0][0]", false), ("mixed-rows-sum", "sum(q8 in pMix, q7 in q8) { q7 }", false),
        ("mixed-rows-literal-sum", "sum(q8 in [[1, 2], [\"a\", \"b\"]], q7 in q8) { q7 }", false), ("mixed-depth-sum", "sum(q8 in [[1, 2], [[3], [4]]], q7 in q8) { q7 }", false),
        ("union-mixed-sum", "sum(q8 in union(pArr, pSs)) { q8 }", false), ("union-mixed-sum-literal", "sum(q8 in union([1, 2], [\"a\"])) { q8 }", false),
        ("union-mixed-len", "len(union(pArr, pSs))", false), ("difference-mixed-sum", "sum(q8 in difference(pArr, pSs)) { q8 }", false),
        ("union-edges-destructure", "sum((q6, q7, q8) in union(edges(pG), pArr)) { q8 }", false),
        // compound variables of a family that is declared nowhere (wrong base name / wrong number of indexes), NON-literal index
        ("undeclared-family-var", "nofam_pi0", true), ("undeclared-family-expr", "nofam_{pi0 + 1}", true), ("undeclared-family-mixed", "nofam_1_pi0", true),
        ("wrong-arity-family-more", "pw_pi0_pi0", true), ("wrong-arity-family-less", "pu_pn", true), ("wrong-arity-family-expr", "pb_{pi0 + 1}_1", true),
    ]
}

const EXTRA_CONSTS: [(&str, &str); 9] = [("pMix", "[[1, 2], [\"a\", \"b\"]]"), ("pS", "\"s\""), ("pB", "true"), ("pArr", "[4, 5, 6]"), ("pMat", "[[1, 2], [3]]"), ("pG", "Graph { A -> [B: 2, C], B -> [C], C }"),
    ("pF", "1.5"), ("pSs", "[\"a\", \"b\"]"), ("pN", "3")];

/// hand-written templates: every builtin in every argument position, nested scopes, destructuring.
/// `@` marks nothing — positions are found by the generic walker over the parsed template AST below.
fn templates() -> Vec<(&'static str, Prog)> {
    let scope = vec![itn(&["pt0", "pi0"], call("enumerate", vec![id("pArr")])), it1("pt", call("enumerate", vec![id("pArr")])), it1("pn", call("nodes", vec![id("pG")])), it1("pe", call("edges", vec![id("pG")]))];
    let consts: Vec<(String, E)> = EXTRA_CONSTS.iter().map(|(n, t)| (n.to_string(), E::Raw(t.to_string()))).collect();
    let decls = vec![
        Decl { vars: vec![VarName::Simple("z".into())], ty: DomT::Real(Some((int(0), id("pN")))), iters: vec![] },
        Decl { vars: vec![VarName::Simple("bz".into())], ty: DomT::Boolean, iters: vec![] },
        Decl { vars: vec![VarName::Cv("pw".into(), vec![Ix::Id("d".into())])], ty: DomT::IntegerRange(int(0), bin(Op::Add, id("pN"), int(2))), iters: vec![it1("d", range(int(0), int(9), true))] },
        Decl { vars: vec![VarName::Cv("pb".into(), vec![Ix::Id("d".into())])], ty: DomT::Boolean, iters: vec![it1("d", range(int(0), int(9), true))] },
        Decl { vars: vec![VarName::Cv("pu".into(), vec![Ix::Id("d".into()), Ix::Id("e".into())])], ty: DomT::NonNegativeReal(None), iters: vec![it1("d", call("nodes", vec![id("pG")])), it1("e", range(int(0), int(3), false))] },
    ];
    let mk = |name: &'static str, lhs: E, rel: Option<(&str, E)>, extra: Vec<It>| -> (&'static str, Prog) {
        let mut iters = scope.clone(); iters.extend(extra);
        (name, Prog { sense: "min".into(), obj: bin(Op::Add, id("z"), int(1)),
            cons: vec![Cons { name: None, lhs: id("z"), rel: Some((">=".into(), int(0))), iters: vec![] },
                       Cons { name: Some(VarName::Cv("cn".into(), vec![Ix::Id("pi0".into())])), lhs, rel: rel.map(|(r, e)| (r.to_string(), e)), iters }],
            consts: consts.clone(), decls: decls.clone() })
    };
    let pw = |e: E| cv("pw", vec![Ix::Ex(e)]);
    vec![
        mk("arith", bin(Op::Add, bin(Op::Mul, E::Acc("pArr".into(), vec![id("pi0")]), pw(id("pi0"))), bin(Op::Sub, bin(Op::Div, id("z"), int(2)), E::Un(UOp::Neg, Box::new(pw(bin(Op::Add, id("pi0"), int(1))))))), Some(("<=", bin(Op::Mul, id("pN"), id("pF")))), vec![]),
        mk("logic", bin(Op::Or, bin(Op::And, cv("pb", vec![Ix::Id("pi0".into())]), E::Un(UOp::Not, Box::new(id("bz")))), bin(Op::Implies, id("bz"), bin(Op::Iff, cv("pb", vec![Ix::Lit(1)]), bin(Op::Xor, id("bz"), id("pB"))))), None, vec![]),
        mk("len-enumerate", bin(Op::Mul, call("len", vec![id("pArr")]), id("z")), Some(("<=", E::Scp("sum".into(), vec![itn(&["a", "b"], call("enumerate", vec![id("pArr")]))], Box::new(bin(Op::Mul, id("a"), pw(id("b"))))))), vec![]),
        mk("zip", E::Scp("sum".into(), vec![itn(&["a", "b"], call("zip", vec![id("pArr"), E::Acc("pMat".into(), vec![int(0)])]))], Box::new(bin(Op::Mul, id("a"), pw(id("b"))))), Some(("<=", int(3))), vec![]),
        mk("range", E::Scp("sum".into(), vec![it1("a", range(int(0), call("len", vec![id("pArr")]), false)), it1("b", range(id("a"), bin(Op::Add, id("pN"), int(1)), true))], Box::new(bin(Op::Mul, id("b"), pw(id("a"))))), Some(("<=", int(3))), vec![]),
        mk("range-call", E::Scp("prod".into(), vec![it1("a", call("range", vec![int(1), id("pN"), E::Lit(V::Bool(true))]))], Box::new(id("a"))), Some(("<=", bin(Op::Mul, int(9), id("z")))), vec![]),
        mk("setfns", E::Scp("sum".into(), vec![it1("a", call("union", vec![id("pArr"), E::Acc("pMat".into(), vec![int(0)])])), it1("b", call("difference", vec![id("pArr"), id("pArr")])), it1("c", call("intersection", vec![id("pArr"), id("pArr")]))], Box::new(pw(id("a")))), Some(("<=", int(3))), vec![]),
        mk("graph-fns", E::Scp("sum".into(), vec![it1("a", call("nodes", vec![id("pG")])), itn(&["u", "v", "w"], call("neigh_edges", vec![id("a")])), itn(&["u2", "v2"], call("neigh_edges_of", vec![id("u"), id("pG")])), itn(&["u3", "v3"], call("edges", vec![id("pG")]))],
            Box::new(bin(Op::Mul, id("w"), cv("pu", vec![Ix::Id("a".into()), Ix::Lit(0)])))), Some(("<=", int(3))), vec![]),
        mk("graph-short", E::Scp("sum".into(), vec![it1("a", call("V", vec![id("pG")])), itn(&["_", "v"], call("N", vec![id("a")])), itn(&["v2"], call("N_of", vec![id("v"), id("pG")])), it1("ed", call("E", vec![id("pG")]))],
            Box::new(cv("pu", vec![Ix::Id("a".into()), Ix::Lit(1)]))), Some(("<=", int(3))), vec![]),
        mk("blocks", bin(Op::Add, E::Blk("min".into(), vec![pw(int(0)), pw(int(1)), id("pN")]), bin(Op::Add, E::Blk("max".into(), vec![id("z"), int(2)]), bin(Op::Add, E::Blk("avg".into(), vec![id("z"), pw(int(2))]), E::Blk("abs".into(), vec![bin(Op::Sub, id("z"), int(1))])))), Some(("<=", int(9))), vec![]),
        mk("logic-blocks", bin(Op::And, E::Blk("all".into(), vec![id("bz"), cv("pb", vec![Ix::Lit(0)])]), bin(Op::Or, E::Blk("any".into(), vec![id("bz"), id("pB")]), E::Blk("xor".into(), vec![id("bz"), cv("pb", vec![Ix::Lit(2)])]))), None, vec![]),
        mk("scoped-kinds", bin(Op::Add, E::Scp("prod".into(), vec![it1("a", id("pArr"))], Box::new(id("a"))), bin(Op::Add, E::Scp("min".into(), vec![it1("a", id("pArr"))], Box::new(bin(Op::Mul, id("a"), id("z")))),
            bin(Op::Add, E::Scp("max".into(), vec![it1("a", E::Acc("pMat".into(), vec![int(1)]))], Box::new(pw(id("a")))), E::Scp("avg".into(), vec![it1("r", id("pMat")), it1("a", id("r"))], Box::new(pw(id("a"))))))), Some(("<=", int(50))), vec![]),
        mk("scoped-logic", bin(Op::And, E::Scp("all".into(), vec![it1("a", range(int(0), int(3), false))], Box::new(cv("pb", vec![Ix::Id("a".into())]))), bin(Op::Or, E::Scp("any".into(), vec![it1("a", id("pArr"))], Box::new(cv("pb", vec![Ix::Id("a".into())]))), E::Scp("xor".into(), vec![itn(&["a", "b"], call("enum", vec![id("pSs")]))], Box::new(cv("pb", vec![Ix::Id("b".into())]))))), None, vec![]),
        mk("nested-destructuring", E::Scp("sum".into(), vec![itn(&["row", "ri"], call("enumerate", vec![id("pMat")])), itn(&["el", "ci"], call("enumerate", vec![id("row")])), itn(&["f1"], id("pMat"))],
            Box::new(bin(Op::Mul, bin(Op::Add, id("el"), id("f1")), pw(bin(Op::Add, id("ri"), id("ci")))))), Some(("<=", E::Acc("pMat".into(), vec![int(0), int(1)]))), vec![]),
        mk("string-index", bin(Op::Add, cv("pu", vec![Ix::Id("pn".into()), Ix::Lit(0)]), cv("pu", vec![Ix::Id("A".into()), Ix::Ex(bin(Op::Sub, id("pN"), int(1)))])), Some((">=", int(0))), vec![]),
    ]
}

fn add_extras(p: &mut Prog) {
    for (n, t) in EXTRA_CONSTS.iter() { p.consts.push((n.to_string(), E::Raw(t.to_string()))); }
    p.decls.push(Decl { vars: vec![VarName::Cv("pw".into(), vec![Ix::Id("d".into())])], ty: DomT::Real(None), iters: vec![it1("d", range(int(0), int(3), false))] });
    // the tuple / node / edge variables are in scope of the first quantified constraint (or of the plain first one)
    let k = p.cons.iter().position(|c| !c.iters.is_empty()).unwrap_or(0);
    p.cons[k].iters.push(it1("pt", call("enumerate", vec![id("pArr")])));
    p.cons[k].iters.push(it1("pn", call("nodes", vec![id("pG")])));
    p.cons[k].iters.push(it1("pe", call("edges", vec![id("pG")])));
}

// ------------------------------------------------------------------------------------ model correspondence
fn pexp_sx(e: &PreExp) -> String {
    match e {
        PreExp::Primitive(p) => format!("(lit {})", prim_sx(p.value())),
        PreExp::UnaryOperation(op, a) => format!("(un {} {})", sx::unop(**op), pexp_sx(a)),
        PreExp::BinaryOperation(op, a, b) => format!("(bin {} {} {})", sx::binop(**op), pexp_sx(a), pexp_sx(b)),
        _ => "(unsupported)".into(),
    }
}
fn rand_pexp(r: &mut Rng, vals: &[Primitive], d: u32) -> PreExp {
    let sp = InputSpan::default();
    if d == 0 || r.chance(1, 4) { return PreExp::Primitive(Spanned::new(r.pick(vals).clone(), sp)); }
    if r.chance(1, 4) { return PreExp::UnaryOperation(Spanned::new(*r.pick(&pre_reflect::UNOPS), sp), Box::new(rand_pexp(r, vals, d - 1))); }
    PreExp::BinaryOperation(Spanned::new(*r.pick(&pre_reflect::BINOPS), sp), Box::new(rand_pexp(r, vals, d - 1)), Box::new(rand_pexp(r, vals, d - 1)))
}
fn expr_cases(r: &mut Rng, n: usize) -> Vec<Case> {
    let vals = pre_reflect::boundary_values();
    // mostly well-typed material: small scalars dominate so that deep expressions survive
    let mut small: Vec<Primitive> = vec![Primitive::Integer(2), Primitive::Integer(-3), Primitive::Integer(0), Primitive::PositiveInteger(4), Primitive::PositiveInteger(0), Primitive::Number(1.5), Primitive::Number(0.0),
        Primitive::Boolean(true), Primitive::Boolean(false), Primitive::String("a".into()), Primitive::Integer(i64::MAX), Primitive::Integer(i64::MIN), Primitive::PositiveInteger(1 << 63)];
    let (f1, f2): (IndexMap<String, Box<dyn RoocFunction>>, IndexMap<String, Box<dyn RoocFunction>>) = (IndexMap::new(), IndexMap::new());
    let fnc = FunctionContext::new(&f1, &f2);
    let mut out = vec![];
    for i in 0..n {
        if i % 5 == 0 { small.push(r.pick(&vals).clone()); }
        let depth = 1 + r.below(3) as u32; let e = rand_pexp(r, &small, depth);
        let s = pexp_sx(&e);
        let mut ctx = TypeCheckerContext::default();
        let tc = e.type_check(&mut ctx, &fnc).is_ok();
        let ty = e.get_type(&ctx, &fnc);
        let mut applicable = None;
        let ev = match catch_unwind(AssertUnwindSafe(|| e.as_primitive(&TransformerContext::default(), &fnc))) {
            Ok(Ok(v)) => format!("(ok {})", prim_sx(&v)),
            Ok(Err(err)) => { applicable = operator_applicable(&err); format!("(err {})", variant(&err)) }
            Err(_) => "(panic)".into(),
        };
        let mut c = Case::default();
        c.req = format!("expr {}", s);
        c.imp = format!("(tc {} type {} eval {})", tc, kind_sx(&ty), ev);
        c.oracle = format!("expr-sound {} {}", s, c.imp);
        c.tags = vec!["stream:expression-core".into(), format!("expr-typecheck:{}", tc), format!("expr-eval:{}", if ev.starts_with("(ok") { "value" } else { &ev })];
        c.nontrivial = tc;
        c.show = format!("{} => {}", c.req, c.imp);
        // since /repo ab600c7 a data failure (division by zero, overflow) is reported as `Other`
        if tc && ev.starts_with("(err") && TYPE_CLASS.contains(&&ev[5..ev.len() - 1]) {
            c.sig = Some(if applicable == Some(true) { format!("{}:operator-applicable", &ev[5..ev.len() - 1]) } else { format!("{}:expression-core", &ev[5..ev.len() - 1]) });
            c.impl_violation = Some(format!("accepted operator expression fails with a type-class error: {}", c.show));
        }
        if tc && ev == "(panic)" { c.sig = Some("panic:operator-core:unop:neg".into()); c.impl_violation = Some(format!("accepted operator expression panics: {}", c.show)); }
        out.push(c);
    }
    out
}

/// tuple destructuring: every kind of element × pattern length × `_` placement × position.  Judged like every
/// program (accepted ⇒ no type-class failure; for elements of statically known arity an over-long pattern is a
/// type-class failure even though the Rust reports it as `Other`), and diffed against the model's static rule
/// (`IterableSet::variable_types`) and runtime rule (`to_primitive_set` + `apply_tuple`).
fn destructure_cases() -> Vec<Case> {
    let mut out = vec![];
    for d in destructure_programs(true) {
        let v = run_program(&d.src);
        let mut c = Case::default();
        let tc = if v.tc == "ok" { "(ok)".to_string() } else { format!("(err {})", v.tc.trim_start_matches("err:")) };
        let dynv = if v.tr == "ok" { "none".to_string() } else { v.tr.trim_start_matches("err:").to_string() };
        let comps = if d.source == "not-iterable" { "noniter".to_string() } else { format!("({})", d.comps.iter().map(|c| match c { Some(n) => n.to_string(), None => "scalar".into() }).collect::<Vec<_>>().join(" ")) };
        c.req = format!("pattern {} {} {} {}", d.static_kind, if d.tuple { "tuple" } else { "single" }, d.vars.len(), comps);
        c.imp = format!("(check {} dyn {})", tc, dynv);
        c.show = format!("{}\n=> {}", d.src, c.imp);
        c.tags = vec!["stream:destructuring".into(), format!("destructure-source:{}", d.source), format!("destructure-position:{}", d.position),
            format!("destructure-vars:{}{}", d.vars.len(), if d.vars.iter().any(|x| x == "_") { "+underscore" } else { "" }),
            format!("typecheck:{}", if v.tc == "ok" { "accepts" } else { "rejects" }), format!("transform:{}", dynv)];
        c.nontrivial = v.tc == "ok";
        let over_long_static = d.static_arity && v.tr == "err:Other" && v.detail.contains("Cannot destructure");
        let flag = if over_long_static { "static-arity-destructure" } else { "na" };
        c.oracle = format!("sound {} {} {}", v.tc.replace("err:", "err-"), if v.tr == "ok" { "ok".to_string() } else { dynv.clone() }, flag);
        if v.tc == "ok" && (over_long_static || (TYPE_CLASS.contains(&dynv.as_str()) && !v.numeric_conversion)) {
            c.sig = Some(format!("{}:destructuring-pattern-longer-than-element", dynv));
            c.impl_violation = Some(format!("type checker accepts a destructuring pattern of {} names over {} (static kind {}), transform fails: {}", d.vars.len(), d.source, d.static_kind, v.detail));
        }
        if v.tc == "panic" { c.tags.push("panic".into()); }
        out.push(c);
    }
    out
}

/// static declaredness of compound variables (`CompoundVariable` arm of `type_check`): declared families
/// x_i (1 index), u_i_j (2), the literal name y_1 and z; references with literal / non-literal indexes
fn compound_cases() -> Vec<Case> {
    let mut out = vec![];
    // (source text of one index, Some(fragment) when it is a literal)
    let idx_forms: [(&str, Option<&str>); 5] = [("_1", Some("1")), ("_i", None), ("_{i + 1}", None), ("_{\"1\"}", Some("1")), ("_2", Some("2"))];
    let mut lists: Vec<Vec<usize>> = vec![];
    for a in 0..idx_forms.len() { lists.push(vec![a]); for b in 0..idx_forms.len() { lists.push(vec![a, b]); } }
    lists.push(vec![0, 1, 4]); lists.push(vec![1, 1, 1]); lists.push(vec![0, 4, 0]);
    for base in ["x", "u", "y", "q", "z"] {
        for l in &lists {
            let reference = format!("{}{}", base, l.iter().map(|k| idx_forms[*k].0).collect::<String>());
            let src = format!("min sum(i in 0..2) {{ {} }}\ns.t.\n    z >= 0\ndefine\n    z as Real\n    x_i as Real for i in 0..4\n    u_i_j as Real for i in 0..4, j in 0..4\n    \\y_1 as Real\n", reference);
            let v = run_program(&src);
            let tc = if v.tc == "ok" { "(ok)".to_string() } else { format!("(err {})", v.tc.trim_start_matches("err:")) };
            let mut c = Case::default();
            c.req = format!("cvcheck (fams (\"x\" 1) (\"u\" 2)) (statics \"z\" \"y_1\") {} ({})", sx::q(base),
                l.iter().map(|k| match idx_forms[*k].1 { Some(f) => format!("(lit {})", sx::q(f)), None => "dyn".into() }).collect::<Vec<_>>().join(" "));
            c.imp = tc.clone();
            c.show = format!("{}  [{}] => tc {} transform {}", reference, src.replace('\n', " | "), tc, v.tr);
            let dynv = v.tr.trim_start_matches("err:").to_string();
            c.tags = vec!["stream:compound-declaredness".into(), format!("cv-typecheck:{}", if v.tc == "ok" { "accepts" } else { "rejects" }), format!("cv-transform:{}", if v.tr == "ok" { "ok" } else { &dynv })];
            c.nontrivial = v.tc == "ok";
            // accepted reference that the expanded domain does not contain although its family is declared nowhere
            let family_declared = (base == "x" && l.len() == 1) || (base == "u" && l.len() == 2);
            if v.tc == "ok" && v.tr == "err:UndeclaredVariableDomain" && !family_declared {
                c.sig = Some("UndeclaredVariableDomain:reference-to-undeclared-family".into());
                c.impl_violation = Some(format!("type checker accepts `{}` although no declaration introduces the family; transform: {}", reference, v.detail));
            }
            c.oracle = format!("sound {} {} {}", v.tc.replace("err:", "err-"), if v.tr == "ok" { "ok".to_string() } else { dynv.clone() }, if !family_declared && v.tr == "err:UndeclaredVariableDomain" { "undeclared-family" } else { "na" });
            out.push(c);
        }
    }
    out
}

// ------------------------------------------------------------------------------------ the `where` section
#[derive(Clone)]
enum LV { I(i64), F(f64), B(bool), S(String), Arr(Vec<LV>) }
#[derive(Clone)]
enum LE { Lit(LV), Var(String), Un(&'static str, Box<LE>), Bin(&'static str, Box<LE>, Box<LE>), Acc(String, Vec<LE>), Call(String, Vec<LE>) }
fn lv_txt(v: &LV) -> String { match v { LV::I(i) => i.to_string(), LV::F(x) => crate::pre_gen::fmt_f64(*x), LV::B(b) => b.to_string(), LV::S(s) => format!("\"{}\"", s), LV::Arr(vs) => format!("[{}]", vs.iter().map(lv_txt).collect::<Vec<_>>().join(", ")) } }
fn lv_sx(v: &LV) -> String { match v { LV::I(i) => format!("(int {})", i), LV::F(x) => format!("(num {})", sx::num(*x)), LV::B(b) => format!("(bool {})", b), LV::S(s) => format!("(str {})", sx::q(s)), LV::Arr(vs) => format!("(arr{})", vs.iter().map(|x| format!(" {}", lv_sx(x))).collect::<String>()) } }
fn le_txt(e: &LE) -> String {
    match e {
        LE::Lit(v) => lv_txt(v), LE::Var(n) => n.clone(),
        LE::Un(op, a) => format!("{}({})", if *op == "neg" { "-" } else { "!" }, le_txt(a)),
        LE::Bin(op, a, b) => format!("({}) {} ({})", le_txt(a), match *op { "add" => "+", "sub" => "-", "mul" => "*", "div" => "/", "and" => "and", "or" => "or", "xor" => "xor", "implies" => "implies", _ => "iff" }, le_txt(b)),
        LE::Acc(n, ix) => format!("{}{}", n, ix.iter().map(|i| format!("[{}]", le_txt(i))).collect::<String>()),
        LE::Call(f, args) => format!("{}({})", f, args.iter().map(le_txt).collect::<Vec<_>>().join(", ")),
    }
}
fn le_sx(e: &LE) -> String {
    match e {
        LE::Lit(v) => format!("(lit {})", lv_sx(v)), LE::Var(n) => format!("(var {})", sx::q(n)),
        LE::Un(op, a) => format!("(un {} {})", op, le_sx(a)), LE::Bin(op, a, b) => format!("(bin {} {} {})", op, le_sx(a), le_sx(b)),
        LE::Acc(n, ix) => format!("(acc {}{})", sx::q(n), ix.iter().map(|i| format!(" {}", le_sx(i))).collect::<String>()),
        LE::Call(f, args) => format!("(call {}{})", sx::q(f), args.iter().map(|i| format!(" {}", le_sx(i))).collect::<String>()),
    }
}
/// what the generator believes a name holds (only used to bias towards well-typed programs)
#[derive(Clone, PartialEq)]
enum LK { Num, Bool, Str, ArrNum, ArrStr, Mat, EnumNum, EnumStr, EnumRows, ZipNS, Other }

fn gen_lit(r: &mut Rng, k: &LK) -> LV {
    match k {
        LK::Num => if r.chance(1, 3) { LV::F(r.range(0, 9) as f64 / 2.0) } else { LV::I(r.range(0, 6)) },
        LK::Bool => LV::B(r.chance(1, 2)), LK::Str => LV::S(r.pick(&["a", "b", "cd"]).to_string()),
        LK::ArrNum => { let fl = r.chance(1, 4); LV::Arr((0..r.below(4)).map(|_| if fl { LV::F(r.range(0, 9) as f64 / 2.0) } else { LV::I(r.range(0, 6)) }).collect()) }
        LK::ArrStr => LV::Arr((0..1 + r.below(3)).map(|_| LV::S(r.pick(&["a", "b"]).to_string())).collect()),
        // now and then rows of different element kinds, the well-typed row first (`Any[]`: every numeric use must be rejected)
        LK::Mat => if r.chance(1, 9) { LV::Arr(vec![LV::Arr(vec![LV::I(r.range(0, 6)), LV::I(r.range(0, 6))]), if r.chance(1, 2) { LV::Arr(vec![LV::S("a".into()), LV::S("b".into())]) } else { LV::Arr(vec![LV::Arr(vec![LV::I(3)]), LV::Arr(vec![LV::I(4)])]) }]) }
            else { LV::Arr((0..1 + r.below(3)).map(|_| LV::Arr((0..1 + r.below(3)).map(|_| LV::I(r.range(0, 6))).collect())).collect()) },
        LK::EnumNum | LK::EnumStr | LK::EnumRows | LK::ZipNS => LV::Arr(vec![]),
        LK::Other => match r.below(3) { 0 => LV::Arr(vec![LV::I(1), LV::S("a".into())]), 1 => LV::Arr(vec![]), _ => LV::Arr(vec![LV::Arr(vec![LV::I(1)]), LV::Arr(vec![LV::S("a".into())])]) },
    }
}
/// one node in `FAULT_DEN` gets a deliberately ill-typed / undeclared replacement
static FAULT_DEN: std::sync::atomic::AtomicU64 = std::sync::atomic::AtomicU64::new(14);
fn gen_le(r: &mut Rng, env: &[(String, LK)], want: &LK, d: u32) -> (LE, LK) {
    let pick_var = |r: &mut Rng, k: &LK| -> Option<String> { let c: Vec<&String> = env.iter().filter(|p| &p.1 == k).map(|p| &p.0).collect(); if c.is_empty() { None } else { Some((*r.pick(&c)).clone()) } };
    // a deliberate type error / unknown name now and then
    if r.chance(1, FAULT_DEN.load(std::sync::atomic::Ordering::Relaxed) as u32) {
        let wrong = r.pick(&[LK::Num, LK::Bool, LK::Str, LK::ArrNum, LK::Mat, LK::Other]).clone();
        if r.chance(1, 4) { return (LE::Var("nope".into()), LK::Other); }
        let (e, _) = gen_le(r, env, &wrong, 0);
        return (e, want.clone());
    }
    if (d == 0 || r.chance(1, 3)) && !matches!(want, LK::EnumNum | LK::EnumStr | LK::EnumRows | LK::ZipNS) {
        if r.chance(1, 2) { if let Some(n) = pick_var(r, want) { return (LE::Var(n), want.clone()); } }
        return (LE::Lit(gen_lit(r, want)), want.clone());
    }
    match want {
        LK::Num => match r.below(7) {
            0 => { let (a, _) = gen_le(r, env, &LK::Num, d - 1); (LE::Un("neg", Box::new(a)), LK::Num) }
            1 => { let arr = if r.chance(1, 5) { LK::Mat } else { LK::ArrNum }; let (a, _) = gen_le(r, env, &arr, 0); (LE::Call(if r.chance(1, 10) { "lenn".into() } else { "len".into() }, if r.chance(1, 10) { vec![a.clone(), a] } else { vec![a] }), LK::Num) }
            2 => { if let Some(n) = pick_var(r, &LK::ArrNum) { let (i, _) = gen_le(r, env, &LK::Num, d - 1); (LE::Acc(n, vec![i]), LK::Num) } else { (LE::Lit(gen_lit(r, &LK::Num)), LK::Num) } }
            3 => { if let Some(n) = pick_var(r, &LK::Mat) { let (i, _) = gen_le(r, env, &LK::Num, 0); let (j, _) = gen_le(r, env, &LK::Num, 0); (LE::Acc(n, vec![i, j]), LK::Num) } else { (LE::Lit(gen_lit(r, &LK::Num)), LK::Num) } }
            _ => { let op = *r.pick(&["add", "sub", "mul", "div", "add", "mul"]); let lk = if r.chance(1, 8) { LK::Bool } else { LK::Num }; let (a, _) = gen_le(r, env, &lk, d - 1); let (b, _) = gen_le(r, env, &LK::Num, d - 1); (LE::Bin(op, Box::new(a), Box::new(b)), LK::Num) }
        },
        LK::Bool => match r.below(4) {
            0 => { let (a, _) = gen_le(r, env, &LK::Bool, d - 1); (LE::Un("not", Box::new(a)), LK::Bool) }
            _ => { let op = *r.pick(&["and", "or", "xor", "implies", "iff"]); let (a, _) = gen_le(r, env, &LK::Bool, d - 1); let (b, _) = gen_le(r, env, &LK::Bool, d - 1); (LE::Bin(op, Box::new(a), Box::new(b)), LK::Bool) }
        },
        LK::Str => { let (a, _) = gen_le(r, env, &LK::Str, d - 1); let (b, _) = gen_le(r, env, &LK::Str, d - 1); (LE::Bin("add", Box::new(a), Box::new(b)), LK::Str) }
        LK::ArrNum => match r.below(3) {
            0 => { let (a, _) = gen_le(r, env, &LK::Num, d - 1); let (b, _) = gen_le(r, env, &LK::Num, d - 1); (LE::Call("range".into(), if r.chance(1, 10) { vec![a, b] } else { vec![a, b, LE::Lit(LV::B(r.chance(1, 2)))] }), LK::ArrNum) }
            1 => { if let Some(n) = pick_var(r, &LK::Mat) { let (i, _) = gen_le(r, env, &LK::Num, 0); (LE::Acc(n, vec![i]), LK::ArrNum) } else { (LE::Lit(gen_lit(r, &LK::ArrNum)), LK::ArrNum) } }
            _ => (LE::Lit(gen_lit(r, &LK::ArrNum)), LK::ArrNum),
        },
        LK::EnumNum | LK::EnumStr | LK::EnumRows => {
            let inner = match want { LK::EnumNum => LK::ArrNum, LK::EnumStr => LK::ArrStr, _ => LK::Mat };
            let (a, _) = gen_le(r, env, &inner, d.saturating_sub(1));
            let f = if r.chance(1, 4) { "enum" } else { "enumerate" };
            (LE::Call(f.into(), if r.chance(1, 12) { vec![a.clone(), a] } else { vec![a] }), want.clone())
        }
        LK::ZipNS => {
            // zip(numbers, strings [, rows]) - now and then one operand, none, or a non-iterable
            let (a, _) = gen_le(r, env, &LK::ArrNum, d.saturating_sub(1));
            let (b, _) = gen_le(r, env, &LK::ArrStr, d.saturating_sub(1));
            let mut args = vec![a, b];
            match r.below(10) { 0 => { args.truncate(1); } 1 => { let (m, _) = gen_le(r, env, &LK::Mat, 0); args.push(m); } 2 => { args.clear(); } 3 => { args.push(LE::Lit(LV::I(3))); } _ => {} }
            (LE::Call("zip".into(), args), want.clone())
        }
        k => (LE::Lit(gen_lit(r, k)), k.clone()),
    }
}

fn le_features(e: &LE, out: &mut Vec<&'static str>) {
    match e {
        LE::Lit(LV::Arr(vs)) => { out.push(if vs.is_empty() { "lit:empty-array" } else if vs.iter().any(|v| matches!(v, LV::Arr(_))) { "lit:nested-array" } else { "lit:array" }); }
        LE::Lit(_) => {}
        LE::Var(n) => { if ["PI", "Infinity", "MinusInfinity"].contains(&n.as_str()) { out.push("var:std-constant"); } else if n == "nope" { out.push("var:undeclared"); } else { out.push("var"); } }
        LE::Un(op, a) => { out.push(if *op == "neg" { "un:neg" } else { "un:not" }); le_features(a, out); }
        LE::Bin(op, a, b) => { out.push(match *op { "add" | "sub" | "mul" => "bin:arith", "div" => "bin:div", _ => "bin:logic" }); le_features(a, out); le_features(b, out); }
        LE::Acc(_, ix) => { out.push(if ix.len() == 1 { "access:1" } else { "access:2" }); for i in ix { le_features(i, out); } }
        LE::Call(f, args) => { out.push(match (f.as_str(), args.len()) { ("len", 1) => "call:len", ("len", _) => "call:len-arity", ("range", 3) => "call:range", ("range", _) => "call:range-arity", _ => "call:unknown" }); for a in args { le_features(a, out); } }
    }
}

fn class_of(e: &TransformError) -> String {
    let v = variant(e);
    if numeric_conversion(e) { return "Other".into(); }
    match v.as_str() { "TooLarge" | "AlreadyDeclaredVariable" | "AlreadyDefined" | "AlreadyDeclaredDomainVariable" => "Other".into(), _ => v }
}

/// the class of a STATIC verdict: a `WrongArgument { expected: Integer, got: Number }` of the checker is a kind
/// rule (IntegerRange bounds), not a numeric conversion
fn class_of_static(e: &TransformError) -> String {
    let v = variant(e);
    match v.as_str() { "TooLarge" | "AlreadyDeclaredVariable" | "AlreadyDefined" | "AlreadyDeclaredDomainVariable" => "Other".into(), _ => v }
}

/// the `where` section as a program of its own: verdict of the type checker, the static kind it assigns to every
/// constant (token type map), the outcome of `transform` and the numeric value of every constant
fn gen_lets(r: &mut Rng, max: usize) -> (Vec<(String, LK)>, Vec<(String, LE)>) {
    let mut env: Vec<(String, LK)> = if r.chance(1, 4) { vec![("PI".to_string(), LK::Num), ("Infinity".to_string(), LK::Num), ("MinusInfinity".to_string(), LK::Num)] } else { vec![] };
    let mut lets: Vec<(String, LE)> = vec![];
    for k in 0..2 + r.below(max) {
        let want = r.pick(&[LK::Num, LK::Num, LK::Num, LK::Bool, LK::Str, LK::ArrNum, LK::ArrNum, LK::Mat, LK::ArrStr, LK::Other, LK::EnumNum, LK::ZipNS]).clone();
        let (e, kind) = gen_le(r, &env, &want, 2);
        let name = if r.chance(1, 20) && !env.is_empty() { env[0].0.clone() } else if r.chance(1, 25) { "_".to_string() } else { format!("q{}", k) };
        if name != "_" && !env.iter().any(|p| p.0 == name) { env.push((name.clone(), kind)); }
        lets.push((name, e));
    }
    (env, lets)
}

/// one `vars in iterator`
struct LIt { vars: Vec<String>, tuple: bool, over: LE }
struct LFor { its: Vec<LIt>, idx: Vec<LE> }

/// canonical form of one fragment of a compiled constraint name
fn frag_sx(f: &str) -> String {
    if let Ok(n) = f.parse::<i64>() { return format!("(i {})", n); }   // "-0" (the float -0.0) is 0
    if let Ok(n) = f.parse::<u64>() { return format!("(i {})", n); }
    if let Ok(x) = f.parse::<f64>() { if f.chars().any(|c| c.is_ascii_digit()) || ["inf", "-inf", "NaN"].contains(&f) { return format!("(f {})", pre_reflect::numc(x)); } }
    format!("(s {})", sx::q(f))
}

/// iteration scopes at program level: quantified, named constraints over the constants of a `where` section;
/// the checker's verdict, the outcome of transform and the index values of every generated constraint
/// (read back from its name) against `Rooc/Pre/Scopes.lean`
enum LTy { Bool, Real(Option<(LE, LE)>), NNReal(Option<(LE, LE)>), Int(LE, LE) }
struct LDecl { its: Vec<LIt>, vars: Vec<(String, Option<Vec<LE>>)>, ty: LTy }

/// 0-2 iterations over the constants (and the outer iteration variables); returns the scope they open
fn gen_its(r: &mut Rng, cenv: &[(String, LK)], low: bool, fresh: &mut usize, min: usize) -> (Vec<LIt>, Vec<(String, LK)>) {
    let mut env = cenv.to_vec();
    let mut its = vec![];
    for _ in 0..min + r.below(3 - min) {
        let shape = r.below(if low { 14 } else { 16 });
        let want = match shape { 0..=3 => LK::ArrNum, 4..=6 => LK::Mat, 7 => LK::ArrStr, 8 | 9 => LK::EnumNum, 10 => LK::EnumStr, 11 => LK::EnumRows, 12 | 13 => LK::ZipNS, 14 => LK::Num, _ => LK::Other };
        let (over, _) = gen_le(r, &env, &want, 1);
        let is_enum = matches!(want, LK::EnumNum | LK::EnumStr | LK::EnumRows | LK::ZipNS);
        let tuple = match want { LK::Mat => r.chance(2, 3), LK::ArrNum | LK::ArrStr => !low && r.chance(1, 8), LK::EnumNum | LK::EnumStr | LK::EnumRows | LK::ZipNS => low || r.chance(5, 6), _ => r.chance(1, 3) };
        let nv = if tuple { if is_enum { if low { 1 + r.below(2) } else { 1 + r.below(3) } } else { 1 + r.below(if low { 2 } else { 3 }) } } else { 1 };
        let mut vars = vec![];
        for _ in 0..nv {
            *fresh += 1;
            let name = if tuple && r.chance(1, 10) { "_".to_string() } else if !low && r.chance(1, 20) && !env.is_empty() { env[r.below(env.len())].0.clone() } else if !low && r.chance(1, 40) { "len".to_string() } else { format!("i{}", fresh) };
            vars.push(name);
        }
        let elem = match (&want, tuple) { (LK::ArrNum, false) => LK::Num, (LK::ArrStr, false) => LK::Str, (LK::Mat, false) => LK::ArrNum, (LK::Mat, true) => LK::Num, _ => LK::Other };
        for (pos, v) in vars.iter().enumerate() {
            // components of an enumerate element: (element, index)
            let k = if is_enum && tuple { match (pos, &want) { (0, LK::ZipNS) => LK::Num, (1, LK::ZipNS) => LK::Str, (1, _) => LK::Num, (0, LK::EnumNum) => LK::Num, (0, LK::EnumStr) => LK::Str, (0, LK::EnumRows) => LK::ArrNum, _ => LK::Other } } else { elem.clone() };
            if v != "_" && !env.iter().any(|p| &p.0 == v) { env.push((v.clone(), k)); }
        }
        its.push(LIt { vars, tuple, over });
    }
    (its, env)
}
fn gen_idx(r: &mut Rng, env: &[(String, LK)], low: bool) -> Vec<LE> {
    let mut idx = vec![];
    for _ in 0..1 + r.below(2) {
        let e = match r.below(if low { 4 } else { 8 }) {
            0 => LE::Var("free".into()),
            1 | 2 => { let c: Vec<&(String, LK)> = env.iter().filter(|p| p.0.starts_with('i')).collect(); if c.is_empty() { LE::Lit(LV::I(1)) } else { LE::Var(r.pick(&c).0.clone()) } }
            3 => if r.chance(1, 2) { gen_le(r, env, &LK::Str, 1).0 } else { gen_le(r, env, &LK::Num, 2).0 },
            4 => { let w = r.pick(&[LK::Bool, LK::ArrNum, LK::Other]).clone(); gen_le(r, env, &w, 1).0 }
            _ => gen_le(r, env, &LK::Num, 2).0,
        };
        idx.push(e);
    }
    idx
}
/// an integer-valued bound most of the time (IntegerRange wants an integer KIND)
fn gen_int_bound(r: &mut Rng, env: &[(String, LK)], low: bool) -> LE {
    match r.below(if low { 4 } else { 6 }) {
        0 => LE::Lit(LV::I(r.range(-3, 9))),
        1 => { let c: Vec<&(String, LK)> = env.iter().filter(|p| p.1 == LK::Num && p.0.starts_with('i')).collect(); if c.is_empty() { LE::Lit(LV::I(r.range(0, 9))) } else { LE::Var(r.pick(&c).0.clone()) } }
        2 => LE::Bin(*r.pick(&["add", "sub", "mul"]), Box::new(LE::Lit(LV::I(r.range(0, 5)))), Box::new(LE::Lit(LV::I(r.range(0, 5))))),
        3 => { let c: Vec<&(String, LK)> = env.iter().filter(|p| p.1 == LK::ArrNum).collect(); if c.is_empty() { LE::Lit(LV::I(2)) } else { LE::Call("len".into(), vec![LE::Var(r.pick(&c).0.clone())]) } }
        4 => LE::Lit(LV::I(*r.pick(&[2147483647i64, 2147483648, -2147483648, -2147483649]))),
        _ => gen_le(r, env, &LK::Num, 1).0,
    }
}
fn lty_txt(t: &LTy) -> String {
    let b = |o: &Option<(LE, LE)>| match o { Some((a, b)) => format!("({}, {})", le_txt(a), le_txt(b)), None => String::new() };
    match t { LTy::Bool => "Boolean".into(), LTy::Real(o) => format!("Real{}", b(o)), LTy::NNReal(o) => format!("NonNegativeReal{}", b(o)), LTy::Int(a, c) => format!("IntegerRange({}, {})", le_txt(a), le_txt(c)) }
}
fn lty_sx(t: &LTy) -> String {
    let b = |o: &Option<(LE, LE)>| match o { Some((a, b)) => format!("{} {}", le_sx(a), le_sx(b)), None => "none none".into() };
    match t { LTy::Bool => "(bool)".into(), LTy::Real(o) => format!("(real {})", b(o)), LTy::NNReal(o) => format!("(nnreal {})", b(o)), LTy::Int(a, c) => format!("(int {} {})", le_sx(a), le_sx(c)) }
}

/// iteration scopes at program level: declarations and quantified, named constraints over the constants of a
/// `where` section; the checker's verdict, the outcome of transform, the declared domain (names as index values,
/// types with their bounds) and the index values of every generated constraint (read back from its name)
/// against `Rooc/Pre/Scopes.lean`
fn scopes_cases(r: &mut Rng, n: usize) -> Vec<Case> {
    let mut out = vec![];
    for k in 0..n {
        // two thirds of the programs with few faults (so that most of them reach the leaves), one third as usual
        FAULT_DEN.store(if k % 3 == 0 { 14 } else { 60 }, std::sync::atomic::Ordering::Relaxed);
        let low = k % 3 != 0;
        let (cenv, lets) = gen_lets(r, 3);
        let mut fresh = 0usize;
        let mut decls: Vec<LDecl> = vec![];
        for dk in 0..r.below(3) {
            let (its, env) = gen_its(r, &cenv, low, &mut fresh, 0);
            let mut vars = vec![];
            for vk in 0..1 + r.below(2) {
                if r.chance(1, 4) {
                    // (one clash with a constant per program at most: the checker compares the static types of equal plain names first)
                    let name = if !low && dk == 0 && vk == 0 && r.chance(1, 4) && !cenv.is_empty() { cenv[r.below(cenv.len())].0.clone() } else { format!("d{}p{}", dk, vk) };
                    vars.push((name, None));
                } else { vars.push((format!("d{}x{}", dk, vk), Some(gen_idx(r, &env, low)))); }
            }
            let bounds = |r: &mut Rng| -> Option<(LE, LE)> { if r.chance(1, 3) { None } else { let a = gen_le(r, &env, &LK::Num, 1).0; let b = if r.chance(1, 2) { LE::Bin("add", Box::new(a.clone()), Box::new(LE::Lit(LV::I(r.range(0, 4))))) } else { gen_le(r, &env, &LK::Num, 1).0 }; Some((a, b)) } };
            let ty = match r.below(6) {
                0 => LTy::Bool,
                1 | 2 => LTy::Real(bounds(r)),
                3 => LTy::NNReal(bounds(r)),
                _ => { let a = gen_int_bound(r, &env, low); let b = if r.chance(1, 2) { LE::Bin("add", Box::new(a.clone()), Box::new(LE::Lit(LV::I(r.range(0, 4))))) } else { gen_int_bound(r, &env, low) }; LTy::Int(a, b) }
            };
            decls.push(LDecl { its, vars, ty });
        }
        let nfor = if decls.is_empty() { 1 + r.below(2) } else { r.below(3) };
        let mut fors: Vec<LFor> = vec![];
        for _ in 0..nfor {
            let (its, env) = gen_its(r, &cenv, low, &mut fresh, 1);
            let idx = gen_idx(r, &env, low);
            fors.push(LFor { its, idx });
        }
        out.push(scopes_case(&lets, &decls, &fors));
    }
    // enumerate over entries that are themselves tuples (zip results, enumerate results): the element is `(entry, position)` - deterministic
    {
        let arr = |xs: &[i64]| LE::Lit(LV::Arr(xs.iter().map(|x| LV::I(*x)).collect()));
        let strs = LE::Lit(LV::Arr(vec![LV::S("a".into()), LV::S("b".into()), LV::S("cd".into())]));
        let lets: Vec<(String, LE)> = vec![("W".into(), arr(&[5, 6, 7])), ("K".into(), arr(&[8, 4, 3])), ("S".into(), strs)];
        let call = |f: &str, a: Vec<LE>| LE::Call(f.into(), a);
        let var = |n: &str| LE::Var(n.into());
        let srcs = vec![call("zip", vec![var("W"), var("K")]), call("zip", vec![var("K"), var("S"), var("W")]), call("enumerate", vec![var("S")]), call("zip", vec![var("S"), var("K")])];
        for src in srcs {
            for (vars, idx) in [(vec!["_", "i"], vec![var("i")]), (vec!["e", "i"], vec![var("i"), LE::Bin("add", Box::new(var("i")), Box::new(LE::Lit(LV::I(1))))]), (vec!["a", "i", "j"], vec![var("i")]), (vec!["p"], vec![LE::Lit(LV::I(0))])] {
                let it = LIt { vars: vars.iter().map(|v| v.to_string()).collect(), tuple: true, over: call("enumerate", vec![src.clone()]) };
                let inner = LIt { vars: vec!["x".into(), "y".into()], tuple: true, over: src.clone() };
                let mut c = scopes_case(&lets, &[], &[LFor { its: vec![it], idx: idx.clone() }, LFor { its: vec![inner], idx: vec![var("y")] }]);
                c.tags.push("scopes:enumerate-of-tuples".into());
                out.push(c);
            }
        }
    }
    // the boundaries of the declared types, deterministically
    let lit = |i: i64| LE::Lit(LV::I(i));
    let num = |x: f64| LE::Lit(LV::F(x));
    let one = |ty: LTy| vec![LDecl { its: vec![], vars: vec![("d0p0".to_string(), None)], ty }];
    for ty in [
        LTy::Int(lit(2147483647), lit(2147483647)), LTy::Int(lit(2147483647), lit(2147483648)), LTy::Int(lit(2147483648), lit(2147483648)),
        LTy::Int(LE::Un("neg", Box::new(lit(2147483648))), lit(0)), LTy::Int(LE::Un("neg", Box::new(lit(2147483649))), lit(0)), LTy::Int(lit(0), LE::Un("neg", Box::new(lit(1)))), LTy::Int(lit(3), lit(3)),
        LTy::Int(lit(9223372036854775807), lit(9223372036854775807)),
        // both bounds near OPPOSITE ends of the i64 range (their difference does not fit i64)
        LTy::Int(LE::Un("neg", Box::new(lit(9223372036854775807))), lit(9223372036854775807)), LTy::Int(lit(9223372036854775807), LE::Un("neg", Box::new(lit(9223372036854775807)))),
        LTy::Int(LE::Un("neg", Box::new(lit(9223372036854775807))), lit(1)), LTy::Int(LE::Un("neg", Box::new(lit(2))), lit(9223372036854775807)),
        LTy::Int(LE::Bin("sub", Box::new(LE::Un("neg", Box::new(lit(9223372036854775807)))), Box::new(lit(1))), lit(9223372036854775807)),
        LTy::Int(LE::Un("neg", Box::new(lit(4611686018427387905))), lit(4611686018427387905)), LTy::Int(LE::Un("neg", Box::new(lit(2147483649))), lit(2147483648)), LTy::Int(LE::Lit(LV::B(true)), lit(3)), LTy::Int(num(1.0), lit(3)),
        LTy::NNReal(Some((LE::Un("neg", Box::new(num(0.5))), lit(1)))), LTy::NNReal(Some((lit(2), lit(1)))), LTy::NNReal(Some((lit(0), lit(0)))), LTy::NNReal(Some((LE::Lit(LV::B(true)), num(1.5)))),
        LTy::Real(Some((lit(2), lit(1)))), LTy::Real(Some((lit(1), lit(1)))), LTy::Real(Some((LE::Var("MinusInfinity".into()), LE::Var("Infinity".into())))), LTy::Real(Some((LE::Var("Infinity".into()), LE::Var("MinusInfinity".into())))),
        LTy::Real(Some((LE::Lit(LV::S("a".into())), lit(1)))), LTy::Real(None), LTy::NNReal(None), LTy::Bool,
    ] {
        let mut c = scopes_case(&[], &one(ty), &[]);
        c.tags.push("scopes:declared-type-boundaries".into());
        out.push(c);
    }
    out
}

/// the source text of a program of the scopes stream
fn scopes_source(lets: &[(String, LE)], decls: &[LDecl], fors: &[LFor]) -> String {
    let it_txt = |it: &LIt| format!("{} in {}", if it.tuple { format!("({})", it.vars.join(", ")) } else { it.vars[0].clone() }, le_txt(&it.over));
    let idx_txt = |idx: &Vec<LE>| idx.iter().map(|e| format!("_{{{}}}", le_txt(e))).collect::<String>();
    let cons: String = fors.iter().enumerate().map(|(k, f)| format!("    c{}{}: z >= 0 for {}\n", k, idx_txt(&f.idx), f.its.iter().map(it_txt).collect::<Vec<_>>().join(", "))).collect();
    let dtxt: String = decls.iter().map(|d| format!("    {} as {}{}\n",
        d.vars.iter().map(|(n, ix)| match ix { None => n.clone(), Some(ix) => format!("{}{}", n, idx_txt(ix)) }).collect::<Vec<_>>().join(", "), lty_txt(&d.ty),
        if d.its.is_empty() { String::new() } else { format!(" for {}", d.its.iter().map(it_txt).collect::<Vec<_>>().join(", ")) })).collect();
    let ltxt = lets.iter().map(|(n, e)| format!("    let {} = {}\n", n, le_txt(e))).collect::<String>();
    format!("min 1\ns.t.\n    z >= 0\n{}where\n{}define\n    z as Real\n{}", cons, ltxt, dtxt)
}

/// random programs of the typed streams (constants, declarations, quantified constraints), as source text: the
/// totality check (C18) runs them through every stage in its watched worker
pub fn typed_program_sources(r: &mut Rng, n: usize) -> Vec<String> {
    let mut out = vec![];
    for k in 0..n {
        FAULT_DEN.store(if k % 3 == 0 { 14 } else { 60 }, std::sync::atomic::Ordering::Relaxed);
        let low = k % 3 != 0;
        let (cenv, lets) = gen_lets(r, 4);
        let mut fresh = 0usize;
        let mut decls = vec![];
        for dk in 0..r.below(3) {
            let (its, env) = gen_its(r, &cenv, low, &mut fresh, 0);
            let vars = vec![(format!("d{}x", dk), Some(gen_idx(r, &env, low)))];
            let a = gen_int_bound(r, &env, low);
            let ty = if r.chance(1, 2) { LTy::Int(a.clone(), LE::Bin("add", Box::new(a), Box::new(LE::Lit(LV::I(r.range(0, 4)))))) } else { LTy::Real(None) };
            decls.push(LDecl { its, vars, ty });
        }
        let mut fors = vec![];
        for _ in 0..1 + r.below(2) { let (its, env) = gen_its(r, &cenv, low, &mut fresh, 1); let idx = gen_idx(r, &env, low); fors.push(LFor { its, idx }); }
        out.push(scopes_source(&lets, &decls, &fors));
    }
    FAULT_DEN.store(14, std::sync::atomic::Ordering::Relaxed);
    out
}

fn scopes_case(lets: &[(String, LE)], decls: &[LDecl], fors: &[LFor]) -> Case {
    let src = scopes_source(lets, decls, fors);
    let res = catch_unwind(AssertUnwindSafe(|| {
        let pre = RoocParser::new(src.clone()).parse().map_err(|e| e.to_string_from_source(&src))?;
        let names: Vec<String> = pre.constants().iter().map(|c| c.name.value().clone()).collect();
        let tc = match pre.create_type_checker(&vec![], &IndexMap::new()) { Ok(()) => "(ok)".to_string(), Err(e) => format!("(err {})", class_of_static(&e)) };
        let tr = match pre.clone().transform(vec![], &IndexMap::new()) {
            Ok(m) => {
                let all: Vec<String> = m.constraints().iter().map(|c| c.name().to_string()).collect();
                let per: Vec<String> = (0..fors.len()).map(|k| {
                    let pre = format!("c{}_", k);
                    format!("({})", all.iter().filter_map(|n| n.strip_prefix(&pre)).map(|rest| format!("({})", rest.split('_').map(frag_sx).collect::<Vec<_>>().join(" "))).collect::<Vec<_>>().join(" "))
                }).collect();
                let dom: Vec<String> = m.domain().iter().filter(|(n, _)| n.as_str() != "z").map(|(n, v)| {
                    let mut parts = n.split('_');
                    let base = parts.next().unwrap_or("");
                    let ty = match v.get_type() {
                        rooc::VariableType::Boolean => "(bool)".to_string(),
                        rooc::VariableType::Real(a, b) => format!("(real {} {})", pre_reflect::numc(*a), pre_reflect::numc(*b)),
                        rooc::VariableType::NonNegativeReal(a, b) => format!("(nnreal {} {})", pre_reflect::numc(*a), pre_reflect::numc(*b)),
                        rooc::VariableType::IntegerRange(a, b) => format!("(int {} {})", a, b),
                    };
                    format!("({} ({}) {})", sx::q(base), parts.map(frag_sx).collect::<Vec<_>>().join(" "), ty)
                }).collect();
                format!("(ok (domain{}) (names{}))", dom.iter().map(|d| format!(" {}", d)).collect::<String>(), per.iter().map(|d| format!(" {}", d)).collect::<String>())
            }
            Err(e) => format!("(err {})", class_of(&e)),
        };
        let static_any = pre.create_token_type_map(&vec![], &IndexMap::new()).iter().any(|(_, tok)| serde_json::to_string(tok).map(|t| t.contains("\"Any\"")).unwrap_or(false));
        Ok::<_, String>((names, tc, tr, static_any))
    }));
    let mut c = Case::default();
    c.tags = vec!["stream:scopes".into()];
    let (names, tc, tr, static_any) = match res {
        Ok(Ok(x)) => x,
        Ok(Err(e)) => { c.tags.push("scopes-parse-error".into()); c.show = format!("{}\n{}", src, e); return c; }
        Err(_) => {
            // a panic somewhere between parse and transform: reported on the implementation, no model comparison
            c.tags.push("scopes-panic".into());
            c.show = src.clone();
            c.sig = Some("panic:typed-program".into());
            c.impl_violation = Some("a stage between parse and transform panics on a program of the scopes stream".into());
            return c;
        }
    };
    let it_sx = |it: &LIt| format!("(it ({}) {} {})", it.vars.iter().map(|v| sx::q(v)).collect::<Vec<_>>().join(" "), if it.tuple { "tuple" } else { "single" }, le_sx(&it.over));
    let its_sx = |its: &Vec<LIt>| its.iter().map(|i| format!(" {}", it_sx(i))).collect::<String>();
    c.req = format!("scopes (lets{}) (decls{}) (fors{})",
        lets.iter().zip(names.iter()).map(|((_, e), n)| format!(" (let {} {})", sx::q(n), le_sx(e))).collect::<String>(),
        decls.iter().map(|d| format!(" (decl (its{}) (vars{}) {})", its_sx(&d.its),
            d.vars.iter().map(|(n, ix)| match ix { None => format!(" (v {})", sx::q(n)), Some(ix) => format!(" (cv {}{})", sx::q(n), ix.iter().map(|e| format!(" {}", le_sx(e))).collect::<String>()) }).collect::<String>(), lty_sx(&d.ty))).collect::<String>(),
        fors.iter().map(|f| format!(" (for (its{}) (idx{}))", its_sx(&f.its), f.idx.iter().map(|e| format!(" {}", le_sx(e))).collect::<String>())).collect::<String>());
    c.imp = format!("(check {} eval {})", tc, tr);
    c.show = format!("{}=> {}", src, c.imp);
    let trv = if tr.starts_with("(ok") { "ok".to_string() } else { tr.trim_start_matches("(err ").trim_end_matches(')').to_string() };
    c.tags.push(format!("scopes-typecheck-verdict:{}", tc));
    c.tags.push(format!("scopes-transform:{}", trv));
    c.tags.push(format!("scopes-decls:{}", decls.len()));
    c.tags.push(format!("scopes-fors:{}", fors.len()));
    for d in decls { c.tags.push(format!("scopes-decl-type:{}", match d.ty { LTy::Bool => "Boolean", LTy::Real(None) => "Real", LTy::Real(_) => "Real(bounds)", LTy::NNReal(None) => "NonNegativeReal", LTy::NNReal(_) => "NonNegativeReal(bounds)", LTy::Int(..) => "IntegerRange" })); if d.vars.iter().any(|v| v.1.is_none()) { c.tags.push("scopes-feature:plain-declared-name".into()); } if !d.its.is_empty() { c.tags.push("scopes-feature:quantified-declaration".into()); } }
    let all_its = || fors.iter().flat_map(|f| f.its.iter()).chain(decls.iter().flat_map(|d| d.its.iter()));
    if all_its().any(|i| i.tuple) { c.tags.push("scopes-feature:tuple-pattern".into()); }
    if all_its().any(|i| i.vars.iter().any(|v| v == "_")) { c.tags.push("scopes-feature:underscore".into()); }
    if fors.iter().any(|f| f.idx.iter().any(|e| matches!(e, LE::Var(v) if v == "free"))) { c.tags.push("scopes-feature:literal-fragment".into()); }
    if tr.starts_with("(ok") { let leaves = tr.matches("((").count() + tr.matches(") (").count(); c.tags.push(format!("scopes-leaves:{}", if leaves == 0 { "0" } else if leaves < 4 { "1-3" } else { "4+" })); }
    c.nontrivial = tc == "(ok)";
    if tc == "(ok)" && TYPE_CLASS.contains(&trv.as_str()) {
        let v = run_program(&src);
        let any = static_any;
        c.sig = Some(if v.applicable == Some(true) { format!("{}:operator-applicable", trv) } else if any { format!("{}:any-typed-value,any-typed-value", trv) } else { format!("{}:scopes", trv) });
        c.oracle = format!("sound ok {} {}", trv, match v.applicable { Some(true) => "applicable", Some(false) => "inapplicable", None => "na" });
        c.impl_violation = Some(format!("declarations / quantified constraints are accepted by the type checker and fail at transform with {}", trv));
    }
    if c.oracle.is_empty() { c.oracle = format!("sound {} {} na", if tc == "(ok)" { "ok" } else { "err" }, trv); }
    c
}

fn lets_cases(r: &mut Rng, n: usize) -> Vec<Case> {
    let mut out = vec![];
    for _ in 0..n {
        let (_, lets) = gen_lets(r, 5);
        out.push(lets_case(&lets));
    }
    // regression (67931d1): `let _ = e` discards, whatever names occur inside e
    let q0 = ("q0".to_string(), LE::Lit(LV::Arr(vec![LV::I(6), LV::I(2)])));
    let us = |e: LE| ("_".to_string(), e);
    for (_i, rest) in [
        vec![us(LE::Acc("q0".into(), vec![LE::Lit(LV::I(0))]))],
        vec![us(LE::Call("len".into(), vec![LE::Var("q0".into())]))],
        vec![us(LE::Call("lenn".into(), vec![LE::Var("q0".into())]))],
        vec![us(LE::Bin("add", Box::new(LE::Lit(LV::I(1))), Box::new(LE::Lit(LV::I(2)))))],
        vec![us(LE::Var("q0".into()))],
        vec![us(LE::Lit(LV::I(1))), us(LE::Acc("q0".into(), vec![LE::Lit(LV::I(1))])), ("q1".to_string(), LE::Acc("q0".into(), vec![LE::Lit(LV::I(1))]))],
        vec![us(LE::Acc("q0".into(), vec![LE::Lit(LV::I(7))]))],
        vec![us(LE::Bin("div", Box::new(LE::Lit(LV::I(1))), Box::new(LE::Lit(LV::I(0)))))],
        vec![us(LE::Call("range".into(), vec![LE::Lit(LV::I(0)), LE::Call("len".into(), vec![LE::Var("q0".into())]), LE::Lit(LV::B(false))]))],
    ].into_iter().enumerate() {
        let mut lets = vec![q0.clone()];
        lets.extend(rest);
        let mut c = lets_case(&lets);
        c.tags.push("lets:underscore-regression".into());
        out.push(c);
    }
    // unary minus of a Boolean is a Number (`get_type` and the value agree): using it where a Boolean is required is rejected - deterministic
    {
        let t = || LE::Lit(LV::B(true));
        let f = || LE::Var("flag".into());
        let neg = |e: LE| LE::Un("neg", Box::new(e));
        let not = |e: LE| LE::Un("not", Box::new(e));
        let bin = |op: &'static str, a: LE, b: LE| LE::Bin(op, Box::new(a), Box::new(b));
        let flag = ("flag".to_string(), LE::Lit(LV::B(false)));
        for (i, e) in [
            bin("and", neg(f()), f()), bin("and", f(), neg(f())), bin("or", neg(t()), f()), bin("iff", f(), neg(f())), bin("implies", neg(f()), t()), bin("xor", neg(t()), neg(f())),
            not(neg(f())), not(neg(t())), neg(neg(f())), bin("and", neg(bin("and", f(), t())), t()), bin("add", LE::Lit(LV::I(3)), neg(f())), neg(not(f())),
            LE::Call("range".into(), vec![LE::Lit(LV::I(0)), LE::Lit(LV::I(2)), neg(t())]), LE::Call("range".into(), vec![LE::Lit(LV::I(0)), LE::Lit(LV::I(2)), neg(f())]),
            LE::Call("len".into(), vec![LE::Call("range".into(), vec![LE::Lit(LV::I(0)), LE::Lit(LV::I(2)), not(neg(f()))])]),
            bin("mul", neg(f()), LE::Lit(LV::F(2.5))),
        ].into_iter().enumerate() {
            let mut c = lets_case(&[flag.clone(), ("k".to_string(), e)]);
            c.tags.push("lets:negated-boolean".into());
            c.tags.push(format!("lets:negated-boolean:{}", i));
            out.push(c);
        }
    }
    // multi-index access with each index position in turn out of range (by one, by many, negative, fractional, Boolean) on a
    // matrix, a jagged array, a 3-level array and a mixed-row matrix: `IterableKind::read` against `readV` - deterministic
    {
        let ints = |xs: &[i64]| LV::Arr(xs.iter().map(|x| LV::I(*x)).collect());
        let data: Vec<(String, LE)> = vec![
            ("M".into(), LE::Lit(LV::Arr(vec![ints(&[1, 2]), ints(&[3, 4])]))),
            ("J".into(), LE::Lit(LV::Arr(vec![ints(&[1]), ints(&[2, 3]), ints(&[4, 5, 6])]))),
            ("T".into(), LE::Lit(LV::Arr(vec![LV::Arr(vec![ints(&[1, 2]), ints(&[3])]), LV::Arr(vec![ints(&[4])])]))),
            ("X".into(), LE::Lit(LV::Arr(vec![ints(&[1, 2]), LV::Arr(vec![LV::S("a".into()), LV::S("b".into())])]))),
            ("W".into(), LE::Lit(ints(&[7, 8, 9]))),
        ];
        let mut accs: Vec<(String, Vec<LE>)> = vec![];
        for (name, dims) in [("M", vec![2i64, 2]), ("J", vec![3, 1]), ("T", vec![2, 2, 2]), ("X", vec![2, 2])] {
            for pos in 0..dims.len() {
                for bad in 0..5 {
                    let ix: Vec<LE> = (0..dims.len()).map(|p| if p == pos { match bad { 0 => LE::Lit(LV::I(dims[p])), 1 => LE::Lit(LV::I(7)), 2 => LE::Bin("sub", Box::new(LE::Lit(LV::I(0))), Box::new(LE::Lit(LV::I(1)))), 3 => LE::Lit(LV::F(0.5)), _ => LE::Lit(LV::B(true)) } } else { LE::Lit(LV::I(0)) }).collect();
                    accs.push((name.to_string(), ix));
                }
            }
        }
        let i = |n: i64| LE::Lit(LV::I(n));
        for (n, ix) in [("J", vec![i(2), i(3)]), ("J", vec![i(2), i(2)]), ("J", vec![i(0), i(1)]), ("T", vec![i(1), i(1), i(0)]), ("T", vec![i(0), i(1), i(1)]), ("T", vec![i(1), i(0), i(0)]), ("T", vec![i(0), i(2), i(0)]),
            ("M", vec![i(2), i(2)]), ("W", vec![i(0), i(0)]), ("W", vec![i(3), i(0)]), ("M", vec![i(0), i(0), i(0)]), ("T", vec![i(0), i(0), i(0), i(0)]), ("M", vec![i(1), i(1)]), ("X", vec![i(1), i(1)]), ("X", vec![i(0), i(1)]),
            ("M", vec![LE::Call("len".into(), vec![LE::Var("W".into())]), i(0)]), ("T", vec![i(1)]), ("T", vec![i(1), i(0)])] {
            accs.push((n.to_string(), ix));
        }
        for (k, (n, ix)) in accs.into_iter().enumerate() {
            let mut lets = data.clone();
            lets.push(("k".to_string(), LE::Acc(n, ix)));
            let mut c = lets_case(&lets);
            c.tags.push("lets:multi-index-access".into());
            c.tags.push(format!("lets:multi-index-access:{}", k));
            out.push(c);
        }
    }
    // which names a constant may take (`check_if_reserved_token`)
    for name in ["min", "max", "where", "in", "for", "as", "if", "else", "solve", "true", "false", "Graph", "avg", "abs", "all", "any", "xor", "sum", "prod", "edges", "E", "len", "nodes", "V",
        "neigh_edges", "N", "neigh_edges_of", "N_of", "enumerate", "enum", "range", "zip", "difference", "union", "intersection", "lenn", "Min", "graph", "sumx", "PI", "Infinity", "e", "n_of", "Sum", "ranges"] {
        let mut c = lets_case(&[(name.to_string(), LE::Lit(LV::I(1)))]);
        c.tags.push("lets:reserved-name-probe".into());
        out.push(c);
    }
    out
}

fn lets_case(lets: &[(String, LE)]) -> Case {
    let decl = lets.iter().map(|(n, e)| format!("    let {} = {}\n", n, le_txt(e))).collect::<String>();
    let src = format!("min 1\ns.t.\n    z >= 0\nwhere\n{}define\n    z as Real\n", decl);
    let res = catch_unwind(AssertUnwindSafe(|| {
        let pre = RoocParser::new(src.clone()).parse().map_err(|e| e.to_string_from_source(&src))?;
        // the names the parser gave the constants
        let names: Vec<(String, u64)> = pre.constants().iter().map(|c| (c.name.value().clone(), c.name.span().start as u64)).collect();
        let tc = match pre.create_type_checker(&vec![], &IndexMap::new()) { Ok(()) => "(ok)".to_string(), Err(e) => format!("(err {})", class_of_static(&e)) };
        let map = pre.create_token_type_map(&vec![], &IndexMap::new());
        let mut kinds: Vec<(u64, String, String)> = vec![];
        for (_, tok) in map.iter() {
            let v = serde_json::to_value(tok).unwrap_or(serde_json::Value::Null);
            if let Some(id) = v.get("identifier").and_then(|x| x.as_str()) {
                let start = v.get("span").and_then(|s| s.get("start")).and_then(|x| x.as_u64()).unwrap_or(0);
                kinds.push((start, id.to_string(), kind_from_json(v.get("value").unwrap_or(&serde_json::Value::Null))));
            }
        }
        // does the checker give some token the kind `Any` (known finding C19-any-escape applies only then)
        let static_any = map.iter().any(|(_, tok)| serde_json::to_string(tok).map(|t| t.contains("\"Any\"")).unwrap_or(false));
        let tr = match pre.clone().transform(vec![], &IndexMap::new()) { Ok(_) => "ok".to_string(), Err(e) => format!("(err {})", class_of(&e)) };
        Ok::<_, String>((names, tc, kinds, tr, static_any))
    }));
    let underscore = lets.iter().any(|l| l.0 == "_");
    let (names, tc, kinds, tr, static_any) = match res {
        Ok(Ok(x)) => x,
        Ok(Err(e)) => {
            let mut c = Case::default();
            c.tags = vec!["stream:where-section".into(), "lets-parse-error".into()];
            c.show = format!("{}\n{}", src, e);
            if underscore && e.contains("Missing constant body") {
                c.sig = Some("let-underscore:missing-constant-body".into());
                c.impl_violation = Some("`let _ = e` is rejected by the parser with `Missing constant body` (the grammar's literal \"_\" yields no `name` token)".into());
            }
            return c;
        }
        Err(_) => {
            let mut c = Case::default();
            c.tags = vec!["stream:where-section".into(), "lets-panic".into()];
            c.show = src.clone();
            c.sig = Some("panic:typed-program".into());
            c.impl_violation = Some("a stage between parse and transform panics on a where section".into());
            return c;
        }
    };
    // the kind recorded at the position of every constant's name, in source order
    let kind_list: Vec<String> = names.iter().map(|(name, pos)| kinds.iter().find(|k| k.0 == *pos && &k.1 == name).map(|k| k.2.clone()).unwrap_or_else(|| "?".into())).collect();
    // numeric values, one probe constraint per distinct name
    let eval = if tr == "ok" {
        let mut vals = vec![];
        let mut seen: Vec<&String> = vec![];
        for (name, _) in &names {
            if name == "_" || seen.contains(&name) { continue; }
            seen.push(name);
            let probe = format!("min 1\ns.t.\n    z >= {}\nwhere\n{}define\n    z as Real\n", name, decl);
            if let Ok(Ok(m)) = catch_unwind(AssertUnwindSafe(|| RoocParser::new(probe.clone()).parse_and_transform(vec![], &IndexMap::new()))) {
                if let rooc::model_transformer::Exp::Number(x) = m.constraints()[0].rhs() { vals.push(format!("({} {})", sx::q(name), pre_reflect::numc(*x))); }
            }
        }
        format!("(ok {})", vals.join(" ")).replace("(ok )", "(ok)")
    } else { tr.clone() };
    let mut c = Case::default();
    c.req = format!("lets {}", lets.iter().zip(names.iter()).map(|((_, e), (n, _))| format!("(let {} {})", sx::q(n), le_sx(e))).collect::<Vec<_>>().join(" "));
    c.imp = format!("(check {} kinds ({}) eval {})", tc, kind_list.join(" "), eval);
    c.show = format!("{}=> {}", src, c.imp);
    c.tags = vec!["stream:where-section".into(), format!("lets-typecheck:{}", if tc == "(ok)" { "accepts" } else { "rejects" }), format!("lets-transform:{}", if tr == "ok" { "ok".to_string() } else { tr.clone() })];
    c.tags.push(format!("lets-typecheck-verdict:{}", tc));
    let mut feats = vec![];
    for (_, e) in lets { le_features(e, &mut feats); }
    feats.sort(); feats.dedup();
    for f in feats { c.tags.push(format!("lets-feature:{}", f)); }
    if kind_list.iter().any(|k| k.contains("any")) { c.tags.push("lets-feature:static-any".into()); }
    if kind_list.iter().any(|k| k == "undefined") { c.tags.push("lets-feature:static-undefined".into()); }
    c.nontrivial = tc == "(ok)";
    let trv = tr.trim_start_matches("(err ").trim_end_matches(')');
    if tc == "(ok)" && TYPE_CLASS.contains(&trv) {
        let v = run_program(&src);
        let any = static_any || kind_list.iter().any(|k| k.contains("any"));
        c.sig = Some(if v.applicable == Some(true) { format!("{}:operator-applicable", trv) } else if any { format!("{}:any-typed-value,any-typed-value", trv) } else { format!("{}:where-section", trv) });
        c.oracle = format!("sound ok {} {}", trv, match v.applicable { Some(true) => "applicable", Some(false) => "inapplicable", None => "na" });
        c.impl_violation = Some(format!("the where section is accepted by the type checker and fails at transform with {}", trv));
    }
    if let Some(((written, _), (parsed, _))) = lets.iter().zip(names.iter()).find(|(a, b)| a.0 != b.0) {
        c.tags.push("lets:underscore-renamed".into());
        c.sig = Some("let-underscore:takes-inner-name".into());
        c.impl_violation = Some(format!("`let {} = …` was parsed as the constant `{}` (the first `name` token inside its value)", written, parsed));
    }
    if c.oracle.is_empty() { c.oracle = format!("sound {} {} {}", if tc == "(ok)" { "ok" } else { "err" }, if tr == "ok" { "ok" } else { trv }, "na"); }
    c
}

/// JSON form of a serialized `PrimitiveKind` → protocol spelling
fn kind_from_json(v: &serde_json::Value) -> String {
    let t = v.get("type").and_then(|x| x.as_str()).unwrap_or("?");
    match t {
        "Number" => "number".into(), "Integer" => "integer".into(), "PositiveInteger" => "pint".into(), "String" => "string".into(),
        "Graph" => "graph".into(), "GraphEdge" => "edge".into(), "GraphNode" => "node".into(), "Boolean" => "boolean".into(),
        "Undefined" => "undefined".into(), "Any" => "any".into(),
        "Iterable" => format!("(iter {})", kind_from_json(v.get("value").unwrap_or(&serde_json::Value::Null))),
        "Tuple" => { let mut s = String::from("(tuple"); if let Some(a) = v.get("value").and_then(|x| x.as_array()) { for k in a { s.push(' '); s.push_str(&kind_from_json(k)); } } s.push(')'); s }
        _ => "?".into(),
    }
}

/// typed constants: (name, static kind, kind of the runtime value)
const TYPED: [(&str, &str, &str); 17] = [
    ("pF", "number", "number"), ("pN", "integer", "integer"), ("pL", "pint", "pint"), ("pS", "string", "string"), ("pB", "boolean", "boolean"),
    ("pArr", "(iter integer)", "(iter integer)"), ("pMix", "(iter any)", "(iter any)"), ("pMat", "(iter (iter integer))", "(iter (iter integer))"), ("pG", "graph", "graph"),
    ("pSs", "(iter string)", "(iter string)"), ("pEn", "(iter (tuple integer pint))", "(iter (tuple integer number))"), ("pNs", "(iter node)", "(iter node)"), ("pEs", "(iter edge)", "(iter edge)"),
    ("pT", "(tuple integer pint)", "(tuple integer number)"), ("pNd", "node", "node"), ("pEd", "edge", "edge"), ("pAny", "any", "integer"),
];
const TYPED_DECLS: &str = "    let pF = 2.0\n    let pN = 3\n    let pArr = [4, 5, 6]\n    let pL = len(pArr)\n    let pS = \"B\"\n    let pB = true\n    let pMix = [1, \"a\"]\n    let pMat = [[1, 2], [3]]\n    let pG = Graph { A -> [B: 2, C], B -> [C], C }\n    let pSs = [\"a\", \"b\"]\n    let pEn = enumerate(pArr)\n    let pNs = nodes(pG)\n    let pEs = edges(pG)\n    let pT = pEn[0]\n    let pNd = pNs[0]\n    let pEd = pEs[0]\n    let pAny = pMix[0]\n";

/// builtin signatures by reflection through the real front end: the call sits in a `let`, its arguments are
/// constants of every static kind; observed: the type checker's verdict, the static kind it assigns to the
/// call (token type map) and the variant with which `transform` fails
fn builtin_cases(thorough: bool) -> Vec<Case> {
    let names = ["len", "enumerate", "enum", "zip", "range", "union", "intersection", "difference", "nodes", "V", "edges", "E", "neigh_edges", "N", "neigh_edges_of", "N_of", "nosuchfn"];
    let mut out = vec![];
    for name in names {
        let max_arity = if name == "range" { 3 } else if thorough && name == "zip" { 3 } else { 2 };
        let mut tuples: Vec<Vec<usize>> = vec![vec![]];
        let mut frontier: Vec<Vec<usize>> = vec![vec![]];
        for _ in 0..max_arity {
            let mut next = vec![];
            for t in &frontier { for k in 0..TYPED.len() { let mut u = t.clone(); u.push(k); next.push(u); } }
            tuples.extend(next.iter().cloned());
            frontier = next;
        }
        for t in tuples {
            let args = t.iter().map(|k| TYPED[*k].0).collect::<Vec<_>>().join(", ");
            let src = format!("min 1\ns.t.\n    1 >= 0\nwhere\n{}    let probe = {}({})\n", TYPED_DECLS, name, args);
            let r = catch_unwind(AssertUnwindSafe(|| {
                let pre = RoocParser::new(src.clone()).parse().map_err(|e| e.to_string_from_source(&src))?;
                let tc = match pre.create_type_checker(&vec![], &IndexMap::new()) { Ok(()) => "(ok)".to_string(), Err(e) => format!("(err {})", variant(&e)) };
                let map = pre.create_token_type_map(&vec![], &IndexMap::new());
                let mut ret = "?".to_string();
                for (_, tok) in map.iter() {
                    let v = serde_json::to_value(tok).unwrap_or(serde_json::Value::Null);
                    if v.get("identifier").and_then(|x| x.as_str()) == Some("probe") { ret = kind_from_json(v.get("value").unwrap_or(&serde_json::Value::Null)); }
                }
                let call = match pre.transform(vec![], &IndexMap::new()) {
                    Ok(_) => "none".to_string(),
                    Err(e) => { let v = variant(&e); if TYPE_CLASS.contains(&v.as_str()) && !numeric_conversion(&e) { v } else { "none".into() } }
                };
                Ok::<_, String>((tc, ret, call))
            }));
            let (tc, ret, call) = match r { Ok(Ok(x)) => x, Ok(Err(e)) => ("(parse-error)".into(), e, "none".into()), Err(_) => ("(panic)".into(), "?".into(), "panic".into()) };
            let st = t.iter().map(|k| TYPED[*k].1).collect::<Vec<_>>().join(" ");
            let dy = t.iter().map(|k| TYPED[*k].2).collect::<Vec<_>>().join(" ");
            let mut c = Case::default();
            c.req = format!("fn {} ({}) ({})", name, st, dy);
            c.imp = format!("(check {} ret {} callerr {})", tc, ret, call);
            c.oracle = format!("fn-sound {} {}", name, c.imp);
            c.tags = vec!["stream:builtin-signatures".into(), format!("fn:{}", name), format!("fn-typecheck:{}", if tc == "(ok)" { "accepts" } else { "rejects" }), format!("fn-call:{}", call)];
            c.nontrivial = tc == "(ok)";
            c.show = format!("let probe = {}({})  [{}] => {}", name, args, st, c.imp);
            if tc == "(ok)" && call != "none" {
                c.sig = Some(if ["union", "intersection", "difference"].contains(&name) { format!("{}:set-function-of-non-iterable", call) } else { format!("{}:builtin:{}", call, name) });
                c.impl_violation = Some(format!("type checker accepts `{}({})` with argument kinds [{}], the call fails with {}", name, args, st, call));
            }
            out.push(c);
        }
    }
    out
}

/// corpus file name → (perturbation class, position) so that a replayed seed gets the signature of its root cause
fn corpus_class(name: &str) -> (&'static str, &'static str) {
    if name.contains("union") || name.contains("setfn") { ("setfn-scalar", "const") }
    else if name.contains("block") || name.contains("aggregate") { ("block-as-value", "const") }
    else if name.contains("domain-var") { ("domain-var", "const") }
    else if name.contains("objective") { ("string", "objective") }
    else if name.contains("any") { ("mixed-array", "const") }
    else { ("corpus", "corpus") }
}

pub fn generate(seed: u64, n: usize, thorough: bool, corpus: Option<&str>) -> Vec<Case> {
    let mut r = Rng::new(crate::pre_gen::spread_seed(seed));
    let mut cases = vec![];
    let pool = pool();
    if let Some(dir) = corpus {
        if let Ok(rd) = std::fs::read_dir(dir) {
            let mut files: Vec<_> = rd.filter_map(|e| e.ok()).map(|e| e.path()).filter(|p| p.extension().map(|x| x == "rooc").unwrap_or(false)).collect();
            files.sort();
            for f in files {
                if let Ok(s) = std::fs::read_to_string(&f) {
                    let name = f.file_name().unwrap().to_string_lossy().to_string();
                    let (pert, pos) = corpus_class(&name);
                    cases.push(judge(&s, vec!["stream:corpus".into(), format!("corpus:{}", name)], pert, pos));
                }
            }
        }
    }
    // ---- templates: every position × every perturbation (exhaustive in the thorough tier, sampled otherwise)
    for (name, p) in templates() {
        let src = print_prog(&p);
        let base = judge(&src, vec!["stream:templates".into(), format!("template:{}", name), "unperturbed".into()], "none", "none");
        if base.imp != "(tc ok transform ok)" {
            let mut c = base.clone();
            c.impl_violation = Some(format!("template {} is not a valid program: {}", name, c.imp));
            c.sig = Some("generator-invalid-template".into());
            cases.push(c);
            continue;
        }
        cases.push(base);
        let npos = positions(&p).len();
        for k in 0..npos {
            for (class, text, _) in &pool {
                if !thorough && !r.chance(1, 4) { continue; }
                if let Some((q, pos)) = replace_at(&p, k, &E::Raw(text.to_string())) {
                    cases.push(judge(&print_prog(&q), vec!["stream:templates".into(), format!("template:{}", name)], class, &pos));
                }
            }
        }
    }
    // ---- grammar-generated programs, perturbed at random positions
    let per = if thorough { 60 } else { 12 };
    for i in 0..n {
        let mut rr = r.fork();
        let mut g = ProgGen::new(&mut rr, GenCfg { graphs: i % 2 == 0, logic: i % 3 == 0, errors: false });
        let mut p = g.program();
        add_extras(&mut p);
        let src = print_prog(&p);
        let base = judge(&src, vec!["stream:grammar".into(), "unperturbed".into()], "none", "none");
        let valid = base.imp == "(tc ok transform ok)";
        cases.push(base);
        if !valid { continue; }
        let npos = positions(&p).len();
        for _ in 0..per {
            let k = r.below(npos);
            let (class, text, _) = r.pick(&pool).clone();
            if let Some((q, pos)) = replace_at(&p, k, &E::Raw(text.to_string())) {
                cases.push(judge(&print_prog(&q), vec!["stream:grammar".into()], class, &pos));
            }
        }
    }
    // ---- correspondence with the Lean model
    for mut c in pre_reflect::static_cases() { c.tags.push("stream:operator-tables".into()); cases.push(c); }
    cases.extend(builtin_cases(thorough));
    cases.extend(lets_cases(&mut r, if thorough { 8000 } else { 1500 }));
    cases.extend(scopes_cases(&mut r, if thorough { 8000 } else { 1200 }));
    FAULT_DEN.store(14, std::sync::atomic::Ordering::Relaxed);
    cases.extend(destructure_cases());
    cases.extend(compound_cases());
    cases.extend(expr_cases(&mut r, if thorough { 20000 } else { 2000 }));
    let _ = (BinOp::Add, UnOp::Neg);
    cases
}
