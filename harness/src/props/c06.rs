//! C06 — data-driven constructs expand exactly.
//!
//! (1) property check on the implementation itself: generated data-driven programs `p` and their
//!     hand-unrolled text `unroll p` (independent reference unroller, `pre_unroll.rs`) must compile to
//!     the same `Model` (same constraints in the same order with the same names, same variable set,
//!     domains and usage counts) and, after `Linearizer::linearize`, to the same `LinearModel`;
//! (2) correspondence with the Lean model `Rooc/Pre/Expand.lean`: aggregation folds of `into_exp`
//!     (through small programs whose data is literal), `range`, `enumerate`, `zip`, set functions,
//!     `flatten_variable_name`.
use crate::case::Case;
use crate::pre_gen::*;
use crate::pre_unroll::{unroll, UErr};
use crate::rng::Rng;
use crate::sx;
use indexmap::IndexMap;
use rooc::model_transformer::{Exp, Model, TransformError};
use rooc::{Linearizer, RoocParser};
use std::panic::{catch_unwind, AssertUnwindSafe};

pub fn variant_name(e: &TransformError) -> String {
    let d = format!("{:?}", e.base_error());
    d.split(|c: char| !c.is_alphanumeric()).next().unwrap_or("").to_string()
}

pub enum Compiled { Ok(Model), ParseErr(String), TransErr(String), Panic(String) }

pub fn compile(src: &str) -> Compiled {
    let r = catch_unwind(AssertUnwindSafe(|| {
        let p = RoocParser::new(src.to_string());
        match p.parse() {
            Err(e) => Compiled::ParseErr(e.to_string_from_source(src)),
            Ok(pre) => match pre.transform(vec![], &IndexMap::new()) {
                Ok(m) => Compiled::Ok(m),
                Err(e) => Compiled::TransErr(variant_name(&e)),
            },
        }
    }));
    r.unwrap_or_else(|p| Compiled::Panic(crate::pre_worker::panic_text(&p)))
}

fn close(a: f64, b: f64) -> bool { a == b || (a - b).abs() <= 1e-9 * a.abs().max(b.abs()).max(1.0) || (a.is_nan() && b.is_nan()) }
fn vt_close(a: &rooc::VariableType, b: &rooc::VariableType) -> bool {
    use rooc::VariableType::*;
    match (a, b) {
        (Boolean, Boolean) => true,
        (IntegerRange(a1, a2), IntegerRange(b1, b2)) => a1 == b1 && a2 == b2,
        (Real(a1, a2), Real(b1, b2)) | (NonNegativeReal(a1, a2), NonNegativeReal(b1, b2)) => close(*a1, *b1) && close(*a2, *b2),
        _ => false,
    }
}
/// same linear model: names, order, variable set, domains, usage counts; numbers up to 1e-9 relative
/// (the unrolled text writes sums flat, so sums of coefficients may associate differently)
fn lin_close(a: &rooc::LinearModel, b: &rooc::LinearModel) -> bool {
    let v = |x: &[f64], y: &[f64]| x.len() == y.len() && x.iter().zip(y).all(|(p, q)| close(*p, *q));
    sx::opt_type(a.optimization_type()) == sx::opt_type(b.optimization_type())
        && a.variables() == b.variables() && v(a.objective(), b.objective()) && close(a.objective_offset(), b.objective_offset())
        && a.domain().len() == b.domain().len()
        && a.domain().iter().zip(b.domain()).all(|((n1, d1), (n2, d2))| n1 == n2 && vt_close(d1.get_type(), d2.get_type()) && d1.usage_count() == d2.usage_count())
        && a.constraints().len() == b.constraints().len()
        && a.constraints().iter().zip(b.constraints()).all(|(r1, r2)| r1.name() == r2.name() && sx::cmp(*r1.constraint_type()) == sx::cmp(*r2.constraint_type())
            && v(r1.coefficients(), r2.coefficients()) && close(r1.rhs(), r2.rhs()))
}
enum Lin { Ok(rooc::LinearModel), Other(String) }
fn lin2(m: Model) -> Lin {
    match catch_unwind(AssertUnwindSafe(|| Linearizer::linearize(m))) {
        Ok(Ok(l)) => Lin::Ok(l),
        Ok(Err(e)) => { let d = format!("{:?}", e); Lin::Other(format!("(err {})", d.split(|c: char| !c.is_alphanumeric()).next().unwrap_or(""))) }
        Err(p) => Lin::Other(format!("(panic {})", sx::q(&crate::pre_worker::panic_text(&p)))),
    }
}
#[allow(dead_code)]
fn lin(m: Model) -> String {
    match catch_unwind(AssertUnwindSafe(|| Linearizer::linearize(m))) {
        Ok(Ok(l)) => format!("(ok {})", sx::lin_model(&l)),
        Ok(Err(e)) => { let d = format!("{:?}", e); format!("(err {})", d.split(|c: char| !c.is_alphanumeric()).next().unwrap_or("")) }
        Err(p) => format!("(panic {})", sx::q(&crate::pre_worker::panic_text(&p))),
    }
}

/// the property check on one program
pub fn check_program(p: &Prog, tags: Vec<String>, stream: &str) -> Case {
    let src = print_prog(p);
    if std::env::var("PRE_DEBUG").is_ok() { eprintln!("=== program\n{}", src); }
    let mut c = Case::default();
    c.tags = tags;
    c.tags.push(format!("stream:{}", stream));
    c.show = src.clone();
    let orig = compile(&src);
    match unroll(p) {
        Err(UErr::NoText(why)) => {
            c.tags.push(format!("no-text:{}", why));
            c.imp = match orig { Compiled::Ok(_) => "(ok)".into(), Compiled::Panic(m) => { c.impl_violation = Some(format!("panic: {}", m)); c.sig = Some("panic".into()); "(panic)".into() } _ => "(err)".into() };
        }
        Err(UErr::Reject(why)) => {
            c.tags.push("reference-rejects".into());
            match orig {
                Compiled::Ok(_) => { c.impl_violation = Some(format!("the reference semantics rejects the program ({}) but it compiles", why)); c.sig = Some("accepted-but-reference-rejects".into()); }
                Compiled::Panic(m) => { c.impl_violation = Some(format!("panic: {}", m)); c.sig = Some("panic".into()); }
                Compiled::TransErr(v) => { c.tags.push(format!("both-reject:{}", v)); c.nontrivial = true; }
                Compiled::ParseErr(m) => { c.impl_violation = Some(format!("generated program does not parse: {}", m)); c.sig = Some("generator-parse-error".into()); }
            }
        }
        Ok(q) => {
            let usrc = print_prog(&q);
            c.show = format!("{}\n--- unrolled ---\n{}", src, usrc);
            let un = compile(&usrc);
            match (orig, un) {
                (Compiled::Ok(a), Compiled::Ok(b)) => {
                    let (sa, sb) = (crate::pre_sx::normalise_str(&sx::model(&a)), crate::pre_sx::normalise_str(&sx::model(&b)));
                    c.nontrivial = true;
                    c.tags.push(format!("constraints:{}", a.constraints().len().min(9)));
                    if sa != sb {
                        c.impl_violation = Some(format!("expansion differs from the hand-unrolled text at Model level:\n  expanded: {}\n  unrolled: {}", sa, sb));
                        c.sig = Some("model-differs".into());
                    } else {
                        let (la, lb) = (lin2(a), lin2(b));
                        let (same, ta, tb) = match (&la, &lb) {
                            (Lin::Ok(x), Lin::Ok(y)) => (lin_close(x, y), format!("(ok {})", sx::lin_model(x)), format!("(ok {})", sx::lin_model(y))),
                            (Lin::Other(x), Lin::Other(y)) => (x == y, x.clone(), y.clone()),
                            (Lin::Ok(x), Lin::Other(y)) => (false, format!("(ok {})", sx::lin_model(x)), y.clone()),
                            (Lin::Other(x), Lin::Ok(y)) => (false, x.clone(), format!("(ok {})", sx::lin_model(y))),
                        };
                        c.tags.push(if ta.starts_with("(ok") { "linearized".into() } else { format!("lin:{}", &ta[..ta.len().min(30)]) });
                        if ta.starts_with("(panic") { c.impl_violation = Some(format!("linearizer panics: {}", ta)); c.sig = Some("panic-linearize".into()); }
                        else if !same {
                            c.impl_violation = Some(format!("linearized models differ:\n  expanded: {}\n  unrolled: {}", ta, tb));
                            c.sig = Some("linear-model-differs".into());
                        }
                        c.imp = ta;
                    }
                }
                (Compiled::Panic(m), _) | (_, Compiled::Panic(m)) => { c.impl_violation = Some(format!("panic: {}", m)); c.sig = Some("panic".into()); }
                (Compiled::ParseErr(m), _) => { c.impl_violation = Some(format!("generated program does not parse: {}", m)); c.sig = Some("generator-parse-error".into()); }
                (_, Compiled::ParseErr(m)) => { c.impl_violation = Some(format!("unrolled program does not parse: {}", m)); c.sig = Some("unroller-parse-error".into()); }
                (Compiled::TransErr(a), Compiled::TransErr(b)) => { c.tags.push(format!("both-error:{}/{}", a, b)); }
                (Compiled::Ok(_), Compiled::TransErr(b)) => { c.impl_violation = Some(format!("program compiles but its hand-unrolled text fails with {}", b)); c.sig = Some(format!("only-unrolled-fails:{}", b)); }
                (Compiled::TransErr(a), Compiled::Ok(_)) => { c.impl_violation = Some(format!("program fails with {} but its hand-unrolled text compiles", a)); c.sig = Some(format!("only-expanded-fails:{}", a)); }
            }
        }
    }
    c
}

// ------------------------------------------------------------------ hand-written seeds
fn seeds() -> Vec<(&'static str, Prog)> {
    let mut v = vec![];
    let decl = |base: &str, its: Vec<It>, ty: DomT| Decl { vars: vec![VarName::Cv(base.into(), its.iter().map(|i| Ix::Id(i.vars[0].clone())).collect())], ty, iters: its };
    let data = |xs: &[i64]| E::Lit(V::Arr(xs.iter().map(|x| V::Int(*x)).collect()));
    // index flattening x_1_23 vs x_12_3
    v.push(("flatten-1-23", Prog { sense: "min".into(), obj: int(1),
        cons: vec![Cons { name: None, lhs: bin(Op::Add, cv("x", vec![Ix::Id("i".into()), Ix::Id("j".into())]), cv("x", vec![Ix::Id("j".into()), Ix::Id("i".into())])), rel: Some(("<=".into(), int(1))),
            iters: vec![it1("i", data(&[1, 12])), it1("j", data(&[23, 3]))] }],
        consts: vec![], decls: vec![decl("x", vec![it1("a", data(&[1, 12, 23, 3])), it1("b", data(&[1, 12, 23, 3]))], DomT::Boolean)] }));
    // off-by-one range ends
    for (lo, hi, inc) in [(0, 0, false), (0, 0, true), (2, 1, true), (-2, 1, false), (-2, -2, true), (3, 5, true)] {
        v.push(("range-ends", Prog { sense: "min".into(), obj: E::Scp("sum".into(), vec![it1("i", range(int(lo), int(hi), inc))], Box::new(bin(Op::Mul, id("i"), cv("x", vec![Ix::Id("i".into())])))),
            cons: vec![Cons { name: Some(VarName::Cv("c".into(), vec![Ix::Id("i".into())])), lhs: cv("x", vec![Ix::Id("i".into())]), rel: Some((">=".into(), id("i"))), iters: vec![it1("i", range(int(lo), int(hi), inc))] },
                       Cons { name: None, lhs: id("z"), rel: Some((">=".into(), int(0))), iters: vec![] }],
            consts: vec![], decls: vec![decl("x", vec![it1("a", range(int(-3), int(6), true))], DomT::Real(None)), Decl { vars: vec![VarName::Simple("z".into())], ty: DomT::Real(None), iters: vec![] }] }));
    }
    // every scoped aggregate over 0, 1, 2, 3 elements
    for kind in ["sum", "prod", "avg", "min", "max"] {
        for n in 0..4 {
            let body = if kind == "prod" { bin(Op::Add, id("i"), int(1)) } else { bin(Op::Mul, bin(Op::Add, id("i"), int(1)), cv("x", vec![Ix::Id("i".into())])) };
            let agg = E::Scp(kind.into(), vec![it1("i", range(int(0), int(n), false))], Box::new(body));
            let lhs = if kind == "prod" { bin(Op::Mul, agg, id("z")) } else { agg };
            v.push(("scoped-sizes", Prog { sense: "min".into(), obj: int(1),
                cons: vec![Cons { name: None, lhs, rel: Some(("<=".into(), int(7))), iters: vec![] }], consts: vec![],
                decls: vec![decl("x", vec![it1("a", range(int(0), int(4), false))], DomT::Real(Some((int(0), int(9))))), Decl { vars: vec![VarName::Simple("z".into())], ty: DomT::Real(None), iters: vec![] }] }));
        }
    }
    for kind in ["all", "any", "xor"] {
        for n in 0..4 {
            let agg = E::Scp(kind.into(), vec![it1("i", range(int(0), int(n), false))], Box::new(cv("b", vec![Ix::Id("i".into())])));
            v.push(("scoped-logic-sizes", Prog { sense: "solve".into(), obj: E::Lit(V::Bool(true)),
                cons: vec![Cons { name: None, lhs: agg, rel: None, iters: vec![] }], consts: vec![],
                decls: vec![decl("b", vec![it1("a", range(int(0), int(4), false))], DomT::Boolean)] }));
        }
    }
    // block forms
    for (kind, n) in [("avg", 1), ("avg", 3), ("min", 2), ("max", 3), ("xor", 3), ("all", 2), ("any", 3), ("abs", 1)] {
        let logic = matches!(kind, "xor" | "all" | "any");
        let es: Vec<E> = (0..n).map(|i| cv(if logic { "b" } else { "x" }, vec![Ix::Lit(i)])).collect();
        let blk = E::Blk(kind.into(), es);
        v.push(("blocks", Prog { sense: "min".into(), obj: int(1),
            cons: vec![Cons { name: None, lhs: blk, rel: if logic { None } else { Some(("<=".into(), int(3))) }, iters: vec![] }], consts: vec![],
            decls: vec![decl("x", vec![it1("a", range(int(0), int(4), false))], DomT::Real(Some((int(0), int(9))))), decl("b", vec![it1("a", range(int(0), int(4), false))], DomT::Boolean)] }));
    }
    // scope shadowing: same name twice must be rejected
    v.push(("shadowing", Prog { sense: "min".into(), obj: int(1),
        cons: vec![Cons { name: None, lhs: E::Scp("sum".into(), vec![it1("i", range(int(0), int(2), false)), it1("i", range(int(0), int(2), false))], Box::new(cv("x", vec![Ix::Id("i".into())]))), rel: Some(("<=".into(), int(1))), iters: vec![] }],
        consts: vec![], decls: vec![decl("x", vec![it1("a", range(int(0), int(2), false))], DomT::Boolean)] }));
    v.push(("shadowing-const", Prog { sense: "min".into(), obj: int(1),
        cons: vec![Cons { name: None, lhs: cv("x", vec![Ix::Id("i".into())]), rel: Some(("<=".into(), int(1))), iters: vec![it1("i", range(int(0), int(2), false))] }],
        consts: vec![("i".into(), int(1))], decls: vec![decl("x", vec![it1("a", range(int(0), int(2), false))], DomT::Boolean)] }));
    // sibling scopes may reuse a name
    v.push(("sibling-scopes", Prog { sense: "min".into(), obj: int(1),
        cons: vec![Cons { name: None, lhs: bin(Op::Add, E::Scp("sum".into(), vec![it1("i", range(int(0), int(2), false))], Box::new(cv("x", vec![Ix::Id("i".into())]))),
                E::Scp("sum".into(), vec![it1("i", range(int(1), int(3), false))], Box::new(cv("x", vec![Ix::Id("i".into())])))), rel: Some(("<=".into(), int(1))), iters: vec![] }],
        consts: vec![], decls: vec![decl("x", vec![it1("a", range(int(0), int(3), false))], DomT::Boolean)] }));
    // out-of-range access must be rejected
    v.push(("out-of-range", Prog { sense: "min".into(), obj: int(1),
        cons: vec![Cons { name: None, lhs: bin(Op::Mul, E::Acc("A".into(), vec![id("i")]), id("z")), rel: Some(("<=".into(), int(1))), iters: vec![it1("i", range(int(0), int(3), true))] }],
        consts: vec![("A".into(), data(&[4, 5, 6]))], decls: vec![Decl { vars: vec![VarName::Simple("z".into())], ty: DomT::Real(None), iters: vec![] }] }));
    // a range end of 2^63 (a PositiveInteger: the seventh power of the length of a 512-element array) is not an empty range
    {
        let a512 = E::Lit(V::Arr((0..512).map(|_| V::Int(1)).collect()));
        let mut l7 = call("len", vec![id("A")]);
        for _ in 0..6 { l7 = bin(Op::Mul, l7, call("len", vec![id("A")])); }
        v.push(("range-end-2pow63", Prog { sense: "min".into(), obj: int(1),
            cons: vec![Cons { name: Some(VarName::Cv("c".into(), vec![Ix::Id("i".into())])), lhs: id("z"), rel: Some((">=".into(), int(1))), iters: vec![it1("i", range(int(0), l7, false))] }],
            consts: vec![("A".into(), a512)], decls: vec![Decl { vars: vec![VarName::Simple("z".into())], ty: DomT::Real(None), iters: vec![] }] }));
    }
    // indexes computed from DIFFERENCES of range variables / lengths whose intermediate value is negative (`c[i - j + 2]` with
    // j > i): the difference of two PositiveIntegers is an Integer, not a clamped PositiveInteger - deterministic
    for off in [2i64, 3] {
        let window = || bin(Op::Add, bin(Op::Sub, id("i"), id("j")), int(off));
        let zreal = || Decl { vars: vec![VarName::Simple("z".into())], ty: DomT::Real(None), iters: vec![] };
        let xs = |n: i64| decl("x", vec![it1("a", range(int(0), int(n), false))], DomT::Real(Some((int(0), int(9)))));
        // array access in a sum body (the shape of the description)
        v.push(("index-difference", Prog { sense: "min".into(), obj: E::Scp("sum".into(), vec![it1("j", range(int(0), int(3), false))], Box::new(cv("x", vec![Ix::Id("j".into())]))),
            cons: vec![Cons { name: None, lhs: E::Scp("sum".into(), vec![it1("j", range(int(0), int(3), false))], Box::new(bin(Op::Mul, E::Acc("c".into(), vec![window()]), cv("x", vec![Ix::Id("j".into())])))),
                rel: Some(("<=".into(), int(100))), iters: vec![it1("i", range(int(0), int(off), false))] }],
            consts: vec![("c".into(), data(&[10, 20, 30, 40, 50, 60]))], decls: vec![xs(3)] }));
        // compound index and constraint name
        v.push(("index-difference", Prog { sense: "min".into(), obj: int(1),
            cons: vec![Cons { name: Some(VarName::Cv("w".into(), vec![Ix::Ex(window())])), lhs: cv("x", vec![Ix::Ex(window())]), rel: Some((">=".into(), bin(Op::Sub, id("i"), id("j")))),
                iters: vec![it1("i", range(int(0), int(3), false)), it1("j", range(int(0), int(3), false))] }],
            consts: vec![], decls: vec![xs(off + 3)] }));
        // the difference as a coefficient and as a range end
        v.push(("index-difference", Prog { sense: "min".into(), obj: int(1),
            cons: vec![Cons { name: None, lhs: bin(Op::Add, bin(Op::Mul, bin(Op::Sub, id("i"), id("j")), id("z")), E::Scp("sum".into(), vec![it1("k", range(int(0), window(), false))], Box::new(cv("x", vec![Ix::Id("k".into())])))),
                rel: Some(("<=".into(), int(7))), iters: vec![it1("i", range(int(0), int(2), true)), it1("j", range(int(0), int(2), true))] }],
            consts: vec![], decls: vec![xs(off + 3), zreal()] }));
        // lengths: len(A) - len(B) with the shorter array first, enumerate indexes
        v.push(("index-difference", Prog { sense: "min".into(), obj: int(1),
            cons: vec![Cons { name: None, lhs: bin(Op::Mul, E::Acc("B".into(), vec![bin(Op::Add, bin(Op::Sub, call("len", vec![id("A")]), call("len", vec![id("B")])), int(off))]), id("z")), rel: Some((">=".into(), bin(Op::Sub, call("len", vec![id("A")]), call("len", vec![id("B")])))), iters: vec![] },
                Cons { name: None, lhs: bin(Op::Mul, E::Acc("B".into(), vec![bin(Op::Add, bin(Op::Sub, id("p"), id("q")), int(off))]), id("z")), rel: Some((">=".into(), int(0))),
                    iters: vec![itn(&["_", "p"], call("enumerate", vec![id("A")])), it1("q", range(int(1), int(3), false))] }],
            consts: vec![("A".into(), data(&[1, 2, 3, 4])), ("B".into(), data(&[4, 5, 6, 7, 8, 9]))], decls: vec![zreal()] }));
        // products of differences
        v.push(("index-difference", Prog { sense: "max".into(), obj: id("z"),
            cons: vec![Cons { name: None, lhs: bin(Op::Mul, bin(Op::Mul, bin(Op::Sub, id("i"), id("j")), bin(Op::Sub, id("j"), id("i"))), id("z")), rel: Some(("<=".into(), bin(Op::Add, bin(Op::Sub, id("i"), id("j")), int(off)))),
                iters: vec![it1("i", range(int(0), int(3), false)), it1("j", range(int(1), int(3), true))] }],
            consts: vec![], decls: vec![zreal()] }));
    }
    // compile-time arithmetic whose value must be the mathematical one: Integer (op) Number for the non-commutative operators
    // with asymmetric operands, and 0 / 0 in every spelling (a division by zero, never a NaN coefficient) - deterministic
    {
        let zreal = || Decl { vars: vec![VarName::Simple("z".into())], ty: DomT::Real(None), iters: vec![] };
        let ge = |lhs: E, rhs: E, iters: Vec<It>| Cons { name: None, lhs, rel: Some((">=".into(), rhs)), iters };
        for (tag, consts, cons) in [
            ("mixed-arithmetic", vec![("c", bin(Op::Sub, int(1), num(0.25))), ("d", bin(Op::Div, int(3), num(1.5))), ("e", bin(Op::Sub, num(0.25), int(1))), ("f", bin(Op::Div, num(1.5), int(3)))],
                vec![ge(bin(Op::Mul, id("c"), id("z")), id("d"), vec![]), ge(bin(Op::Mul, id("e"), id("z")), id("f"), vec![])]),
            ("mixed-arithmetic", vec![("A", data(&[1, 2, 5])), ("h", num(0.5))],
                vec![ge(bin(Op::Mul, bin(Op::Sub, id("a"), id("h")), id("z")), bin(Op::Div, id("a"), id("h")), vec![it1("a", id("A"))]),
                     ge(bin(Op::Mul, bin(Op::Sub, id("h"), id("a")), id("z")), bin(Op::Div, id("h"), id("a")), vec![it1("a", id("A"))])]),
            ("mixed-arithmetic", vec![("A", data(&[4, 7])), ("F", E::Lit(V::Arr(vec![V::Num(0.25), V::Num(2.5)])))],
                vec![ge(E::Scp("sum".into(), vec![it1("a", id("A")), it1("f", id("F"))], Box::new(bin(Op::Mul, bin(Op::Sub, id("a"), id("f")), id("z")))), E::Scp("sum".into(), vec![it1("a", id("A")), it1("f", id("F"))], Box::new(bin(Op::Div, id("a"), id("f")))), vec![]),
                     ge(bin(Op::Mul, bin(Op::Sub, bin(Op::Sub, int(0), int(3)), num(1.5)), id("z")), bin(Op::Div, bin(Op::Sub, int(0), int(3)), num(1.5)), vec![])]),
            ("zero-over-zero", vec![("D", E::Lit(V::Arr(vec![]))), ("r", bin(Op::Div, call("len", vec![id("D")]), call("len", vec![id("D")])))], vec![ge(id("z"), id("r"), vec![])]),
            ("zero-over-zero", vec![("r", bin(Op::Div, int(0), int(0)))], vec![ge(id("z"), id("r"), vec![])]),
            ("zero-over-zero", vec![("r", bin(Op::Div, num(0.0), int(0)))], vec![ge(id("z"), id("r"), vec![])]),
            ("zero-over-zero", vec![("r", bin(Op::Div, int(0), num(0.0)))], vec![ge(id("z"), id("r"), vec![])]),
            ("zero-over-zero", vec![("r", bin(Op::Div, bin(Op::Sub, int(1), int(1)), bin(Op::Sub, num(2.0), num(2.0))))], vec![ge(id("z"), id("r"), vec![])]),
            ("zero-over-zero", vec![("U", data(&[3, 0])), ("K", data(&[5, 0]))], vec![ge(id("z"), bin(Op::Div, E::Acc("U".into(), vec![id("i")]), E::Acc("K".into(), vec![id("i")])), vec![it1("i", range(int(0), int(2), false))])]),
            ("zero-over-zero", vec![("U", data(&[3, 0])), ("K", data(&[5, 0]))], vec![ge(bin(Op::Mul, bin(Op::Div, E::Acc("U".into(), vec![int(1)]), E::Acc("K".into(), vec![int(1)])), id("z")), int(1), vec![])]),
            ("zero-over-zero", vec![("b", E::Lit(V::Bool(false)))], vec![ge(id("z"), bin(Op::Div, int(0), id("b")), vec![])]),
            ("zero-over-zero", vec![("D", E::Lit(V::Arr(vec![])))], vec![ge(id("z"), bin(Op::Div, int(1), call("len", vec![id("D")])), vec![])]),
        ] {
            v.push((tag, Prog { sense: "min".into(), obj: id("z"), cons, consts: consts.into_iter().map(|(n, e)| (n.to_string(), e)).collect(), decls: vec![zreal()] }));
        }
    }
    // enumerate over entries that are themselves TUPLES (zip results, edges): the element is `(entry, position)`, so the
    // two-name pattern `(_, i)` binds i to the position, not to a component of the entry - deterministic
    {
        let zreal = || Decl { vars: vec![VarName::Simple("z".into())], ty: DomT::Real(None), iters: vec![] };
        let xs = || decl("x", vec![it1("a", range(int(0), int(9), false))], DomT::Real(Some((int(0), int(9)))));
        let zipwk = || call("zip", vec![id("W"), id("K")]);
        let g = E::Lit(V::Graph(vec![GNode { name: "A".into(), edges: vec![GEdge { from: "A".into(), to: "B".into(), w: Some(7.0) }, GEdge { from: "A".into(), to: "C".into(), w: None }] }, GNode { name: "B".into(), edges: vec![GEdge { from: "B".into(), to: "C".into(), w: Some(5.0) }] }, GNode { name: "C".into(), edges: vec![] }]));
        let wk = || vec![("W".to_string(), data(&[5, 6, 7])), ("K".to_string(), data(&[8, 4, 3]))];
        for (src, consts) in [(zipwk(), wk()), (call("zip", vec![id("K"), id("W"), id("K")]), wk()), (call("edges", vec![id("G")]), vec![("G".to_string(), g.clone())]), (call("enumerate", vec![id("W")]), wk())] {
            // position used as index, coefficient and constraint name
            v.push(("enumerate-of-tuples", Prog { sense: "min".into(), obj: E::Scp("sum".into(), vec![itn(&["_", "i"], call("enumerate", vec![src.clone()]))], Box::new(bin(Op::Mul, bin(Op::Add, id("i"), int(1)), cv("x", vec![Ix::Id("i".into())])))),
                cons: vec![Cons { name: Some(VarName::Cv("pos".into(), vec![Ix::Id("i".into())])), lhs: cv("x", vec![Ix::Id("i".into())]), rel: Some((">=".into(), id("i"))), iters: vec![itn(&["_", "i"], call("enumerate", vec![src.clone()]))] }],
                consts: consts.clone(), decls: vec![xs()] }));
            // the one-name and the over-long pattern next to it
            v.push(("enumerate-of-tuples", Prog { sense: "min".into(), obj: int(1),
                cons: vec![Cons { name: None, lhs: bin(Op::Mul, call("len", vec![call("enumerate", vec![src.clone()])]), id("z")), rel: Some((">=".into(), E::Scp("sum".into(), vec![itn(&["_", "i"], call("enumerate", vec![src.clone()]))], Box::new(id("i"))))), iters: vec![] },
                    Cons { name: None, lhs: id("z"), rel: Some((">=".into(), id("i"))), iters: vec![itn(&["e", "i"], call("enumerate", vec![src.clone()])), itn(&["f", "j"], call("enumerate", vec![src.clone()]))] }],
                consts: consts.clone(), decls: vec![zreal()] }));
            v.push(("enumerate-of-tuples", Prog { sense: "min".into(), obj: int(1),
                cons: vec![Cons { name: None, lhs: id("z"), rel: Some((">=".into(), id("i"))), iters: vec![itn(&["a", "i", "j"], call("enumerate", vec![src.clone()]))] }],
                consts, decls: vec![zreal()] }));
        }
    }
    // a where-constant divided by a NON-ZERO value of tiny magnitude is a number, not a division by zero - deterministic
    {
        let zreal = || Decl { vars: vec![VarName::Simple("z".into())], ty: DomT::Real(None), iters: vec![] };
        for tiny in [1e-16f64, 2e-16, 1e-17, 1e-30, 1e-300, 1e-307] {
            // numerators of the same magnitude, so that the quotient is an ordinary number the unrolled text can spell
            for (num_e, neg) in [(num(3.0 * tiny), false), (num(0.5 * tiny), true), (bin(Op::Mul, int(2), id("t")), false), (bin(Op::Mul, call("len", vec![id("A")]), id("t")), true)] {
                let d = if neg { E::Un(UOp::Neg, Box::new(E::Lit(V::Num(tiny)))) } else { E::Lit(V::Num(tiny)) };
                v.push(("tiny-divisor", Prog { sense: "min".into(), obj: id("z"),
                    cons: vec![Cons { name: None, lhs: bin(Op::Mul, id("s"), id("z")), rel: Some((">=".into(), int(1))), iters: vec![] }],
                    consts: vec![("A".to_string(), data(&[1, 2, 3])), ("t".to_string(), d), ("s".to_string(), bin(Op::Div, num_e, id("t")))], decls: vec![zreal()] }));
            }
        }
    }
    // graphs in which a node occurs only as an edge DESTINATION: nodes(G) / V(G) are the declared nodes, in declaration order
    for (k, g) in [
        vec![("A", vec![("B", None), ("C", None)]), ("B", vec![("C", Some(2.0))])],
        vec![("S", vec![("n10", None), ("n2", Some(1.5))])],
        vec![("B", vec![("A", None)]), ("A", vec![("Z", None), ("B", None)])],
        vec![("P", vec![("Q", None)]), ("R", vec![("Q", None), ("T", Some(3.0))]), ("Q", vec![])],
    ].into_iter().enumerate() {
        let nodes: Vec<GNode> = g.iter().map(|(n, es)| GNode { name: n.to_string(), edges: es.iter().map(|(t, w)| GEdge { from: n.to_string(), to: t.to_string(), w: *w }).collect() }).collect();
        let gl = E::Lit(V::Graph(nodes));
        let _ = k;
        let zreal = Decl { vars: vec![VarName::Simple("z".into())], ty: DomT::Real(None), iters: vec![] };
        // one variable per declared node, one per edge destination (so that destination-only nodes have a variable too)
        let xdecl = Decl { vars: vec![VarName::Cv("x".into(), vec![Ix::Id("v".into())])], ty: DomT::Boolean, iters: vec![it1("v", call("nodes", vec![id("G")]))] };
        let ydecl = Decl { vars: vec![VarName::Cv("x".into(), vec![Ix::Id("u".into())])], ty: DomT::Boolean, iters: vec![itn(&["_", "u"], call("edges", vec![id("G")]))] };
        v.push(("destination-only-node", Prog { sense: "min".into(), obj: E::Scp("sum".into(), vec![it1("v", call("nodes", vec![id("G")]))], Box::new(cv("x", vec![Ix::Id("v".into())]))),
            cons: vec![Cons { name: Some(VarName::Cv("cover".into(), vec![Ix::Id("v".into())])), lhs: bin(Op::Add, cv("x", vec![Ix::Id("v".into())]), E::Scp("sum".into(), vec![itn(&["_", "u"], call("neigh_edges", vec![id("v")]))], Box::new(cv("x", vec![Ix::Id("u".into())])))),
                rel: Some((">=".into(), int(1))), iters: vec![it1("v", call("V", vec![id("G")]))] }],
            consts: vec![("G".into(), gl.clone())], decls: vec![xdecl.clone(), ydecl.clone()] }));
        v.push(("destination-only-node", Prog { sense: "min".into(), obj: int(1),
            cons: vec![Cons { name: Some(VarName::Cv("n".into(), vec![Ix::Id("i".into()), Ix::Id("v".into())])), lhs: bin(Op::Mul, id("i"), id("z")), rel: Some((">=".into(), call("len", vec![call("nodes", vec![id("G")])]))), iters: vec![itn(&["v", "i"], call("enumerate", vec![call("nodes", vec![id("G")])]))] },
                Cons { name: None, lhs: bin(Op::Mul, id("w"), cv("x", vec![Ix::Id("b".into())])), rel: Some(("<=".into(), id("z"))), iters: vec![itn(&["a", "b", "w"], call("edges", vec![id("G")]))] }],
            consts: vec![("G".into(), gl)], decls: vec![zreal, xdecl, ydecl] }));
    }
    // string / float / negative indexes
    v.push(("odd-indexes", Prog { sense: "min".into(), obj: int(1),
        cons: vec![Cons { name: None, lhs: bin(Op::Add, cv("x", vec![Ix::Id("s".into())]), cv("y", vec![Ix::Ex(bin(Op::Sub, id("i"), int(2)))])), rel: Some(("<=".into(), int(1))),
            iters: vec![it1("s", E::Lit(V::Arr(vec![V::Str("a".into()), V::Str("b_c".into()), V::Str("d e".into())]))), it1("i", E::Lit(V::Arr(vec![V::Num(0.5), V::Num(2.0), V::Num(3.25)])))] }],
        consts: vec![], decls: vec![
            decl("x", vec![it1("q", E::Lit(V::Arr(vec![V::Str("a".into()), V::Str("b_c".into()), V::Str("d e".into())])))], DomT::Boolean),
            Decl { vars: vec![VarName::Cv("y".into(), vec![Ix::Ex(bin(Op::Sub, id("q"), int(2)))])], ty: DomT::Boolean, iters: vec![it1("q", E::Lit(V::Arr(vec![V::Num(0.5), V::Num(2.0), V::Num(3.25)])))] }] }));
    v
}

/// error paths of the expansion: a valid generated program plus ONE construct the reference semantics
/// rejects (or, for the control group, accepts); rooc must reject exactly when the reference does
fn fault_cases(r: &mut Rng, n: usize) -> Vec<Case> {
    let kinds = ["access-out-of-range", "division-by-zero", "integer-overflow", "duplicate-constant", "reserved-constant", "shadowed-iteration-variable", "shadowed-constant",
        "undeclared-bound", "destructure-too-many", "iterate-a-number", "fractional-range-end", "len-of-number", "index-a-number", "string-in-expression", "negative-index",
        "control:in-range", "control:sibling-scopes", "control:empty-range", "control:destructure-fewer"];
    let mut out = vec![];
    for i in 0..n {
        let kind = kinds[i % kinds.len()];
        let mut rr = r.fork();
        let mut g = ProgGen::new(&mut rr, GenCfg { graphs: i % 2 == 0, logic: false, errors: false });
        let mut p = g.program();
        let fz = Decl { vars: vec![VarName::Simple("fz".into())], ty: DomT::Real(None), iters: vec![] };
        p.decls.push(fz);
        p.consts.push(("FA".into(), E::Lit(V::Arr(vec![V::Int(4), V::Int(5), V::Int(6)]))));
        let ge = |lhs: E, iters: Vec<It>| Cons { name: None, lhs, rel: Some((">=".into(), int(1))), iters };
        let acc = |ix: E| bin(Op::Mul, E::Acc("FA".into(), vec![ix]), id("fz"));
        let sum = |its: Vec<It>, body: E| E::Scp("sum".into(), its, Box::new(body));
        match kind {
            "access-out-of-range" => p.cons.push(ge(acc(id("fi")), vec![it1("fi", range(int(0), int(3), true))])),
            "negative-index" => p.cons.push(ge(acc(bin(Op::Sub, id("fi"), int(1))), vec![it1("fi", range(int(0), int(2), false))])),
            "division-by-zero" => p.consts.push(("FB".into(), bin(Op::Div, int(1), bin(Op::Sub, int(2), int(2))))),
            "integer-overflow" => p.consts.push(("FB".into(), bin(Op::Mul, E::Lit(V::Int(i64::MAX)), int(2)))),
            "duplicate-constant" => p.consts.push(("FA".into(), int(1))),
            "reserved-constant" => p.consts.push(("len".into(), int(1))),
            "shadowed-iteration-variable" => p.cons.push(ge(sum(vec![it1("fi", range(int(0), int(2), false)), it1("fi", range(int(0), int(2), false))], acc(id("fi"))), vec![])),
            "shadowed-constant" => p.cons.push(ge(acc(id("FA")), vec![it1("FA", range(int(0), int(2), false))])),
            "undeclared-bound" => p.cons.push(ge(sum(vec![it1("fi", range(int(0), id("nope"), false))], acc(id("fi"))), vec![])),
            "destructure-too-many" => p.cons.push(ge(sum(vec![itn(&["fa", "fb", "fc"], call("enumerate", vec![id("FA")]))], bin(Op::Mul, id("fa"), id("fz"))), vec![])),
            "iterate-a-number" => p.cons.push(ge(acc(int(0)), vec![it1("fi", int(5))])),
            "fractional-range-end" => p.cons.push(ge(sum(vec![it1("fi", range(int(0), num(1.5), false))], acc(id("fi"))), vec![])),
            "len-of-number" => p.cons.push(ge(sum(vec![it1("fi", range(int(0), call("len", vec![int(3)]), false))], acc(id("fi"))), vec![])),
            "index-a-number" => { p.consts.push(("FN".into(), int(3))); p.cons.push(ge(bin(Op::Mul, E::Acc("FN".into(), vec![int(0)]), id("fz")), vec![])) }
            "string-in-expression" => { p.consts.push(("FS".into(), E::Lit(V::Str("a".into())))); p.cons.push(ge(bin(Op::Mul, id("FS"), id("fz")), vec![])) }
            "control:in-range" => p.cons.push(ge(acc(id("fi")), vec![it1("fi", range(int(0), int(2), true))])),
            "control:sibling-scopes" => p.cons.push(ge(bin(Op::Add, sum(vec![it1("fi", range(int(0), int(2), false))], acc(id("fi"))), sum(vec![it1("fi", range(int(1), int(3), false))], acc(id("fi")))), vec![])),
            "control:empty-range" => p.cons.push(ge(bin(Op::Add, id("fz"), sum(vec![it1("fi", range(int(2), int(2), false))], acc(id("fi")))), vec![])),
            _ => p.cons.push(ge(sum(vec![itn(&["fa"], call("enumerate", vec![id("FA")]))], bin(Op::Mul, id("fa"), id("fz"))), vec![])),
        }
        let mut tags = vec![format!("fault:{}", kind)];
        tags.push(if kind.starts_with("control:") { "fault-group:control".into() } else { "fault-group:fault".to_string() });
        let mut c = check_program(&p, tags, "faults");
        // the control group must compile, the fault group must not
        let rejected = c.tags.iter().any(|t| t.starts_with("both-reject:") || t == "reference-rejects");
        let no_text = c.tags.iter().any(|t| t.starts_with("no-text:"));
        if kind.starts_with("control:") == rejected && c.impl_violation.is_none() && !no_text {
            c.impl_violation = Some(format!("fault stream: `{}` was {}", kind, if rejected { "rejected" } else { "accepted by both rooc and the reference" }));
            c.sig = Some("fault-stream-expectation".into());
        }
        out.push(c);
    }
    out
}

pub fn generate(seed: u64, n: usize, thorough: bool, _corpus: Option<&str>) -> Vec<Case> {
    let mut r = Rng::new(crate::pre_gen::spread_seed(seed));
    let mut cases = vec![];
    for (tag, p) in seeds() { cases.push(check_program(&p, vec![format!("seed:{}", tag)], "seeds")); }
    for i in 0..n {
        let graphs = i % 3 != 0;
        let logic = i % 4 == 1;
        let mut rr = r.fork();
        let mut g = ProgGen::new(&mut rr, GenCfg { graphs, logic, errors: false });
        let p = g.program();
        let tags = g.tags.clone();
        cases.push(check_program(&p, tags, if graphs { "random+graphs" } else { "random" }));
    }
    cases.extend(fault_cases(&mut r, if thorough { 1900 } else { 190 }));
    cases.extend(crate::pre_expand::model_cases(&mut r, if thorough { 4000 } else { 400 }));
    cases.extend(crate::pre_expand::graph_cases(&mut r, if thorough { 400 } else { 40 }));
    cases.extend(crate::pre_expand::svset_cases(&mut r, if thorough { 1500 } else { 150 }));
    cases.extend(crate::pre_expand::program_cases(&mut r, if thorough { 3000 } else { 500 }));
    cases.extend(crate::pre_expand::fragment_cases(&mut r, if thorough { 6000 } else { 500 }));
    let _ = Exp::Number(0.0);
    cases
}
