//! C16 — all front doors agree: fluent builder (operators + helper functions), source text, PipeRunner
//! presets and the one-shot RoocSolver on the same abstract model; read-backs through builder handles.
use crate::case::Case;
use crate::gen_model::{self, ModelCfg, VarDecl};
use crate::props::c03::{solve_text, solver_error};
use crate::rng::Rng;
use crate::sx;
use crate::text::{Printer, Spelling};
use indexmap::IndexMap;
use rooc::model_transformer::{Exp, Model};
use rooc::pipe::{AutoSolverPipe, CompilerPipe, LinearModelPipe, ModelPipe, PipeContext, PipeRunner, PipeableData, PreModelPipe};
use rooc::{Auto, BinOp, BuilderConstraint, BuilderError, Expr, Linearizer, MILPValue, ModelBuilder, OptimizationType, RoocParser, UnOp, Var, VariableType};

/// abstract expression -> builder expression THROUGH THE PUBLIC OPERATOR / HELPER API
fn to_builder(e: &Exp, vars: &IndexMap<String, Var>, r: &mut Rng) -> Expr {
    let mut go = |x: &Exp| to_builder(x, vars, r);
    match e {
        Exp::Number(v) => Expr::from(*v),
        Exp::Variable(n) => Expr::from(vars[n]),
        Exp::Abs(x) => rooc::builder::abs(go(x)),
        Exp::Min(es) => rooc::builder::min(es.iter().map(|x| go(x)).collect::<Vec<_>>()),
        Exp::Max(es) => rooc::builder::max(es.iter().map(|x| go(x)).collect::<Vec<_>>()),
        Exp::And(es) => rooc::builder::all(es.iter().map(|x| go(x)).collect::<Vec<_>>()),
        Exp::Or(es) => rooc::builder::any(es.iter().map(|x| go(x)).collect::<Vec<_>>()),
        Exp::Not(x) => !go(x),
        Exp::Xor(a, b) => { let l = go(a); let rr = go(b); l ^ rr }
        Exp::Implies(a, b) => { let l = go(a); let rr = go(b); l.implies(rr) }
        Exp::Iff(a, b) => { let l = go(a); let rr = go(b); l.iff(rr) }
        Exp::BinOp(op, a, b) => {
            let l = go(a);
            let rr = go(b);
            match op {
                BinOp::Add => l + rr, BinOp::Sub => l - rr, BinOp::Mul => l * rr, BinOp::Div => l / rr,
                // the operators build the structural n-ary / binary logic forms
                BinOp::And => l & rr, BinOp::Or => l | rr, BinOp::Xor => l ^ rr,
                BinOp::Implies => l.implies(rr), BinOp::Iff => l.iff(rr),
            }
        }
        Exp::UnOp(UnOp::Neg, x) => -go(x),
        Exp::UnOp(UnOp::Not, x) => !go(x),
    }
}

/// the same expression with the structural forms the builder operators produce (for the tree comparison)
fn builder_shape(e: &Exp) -> Exp {
    let b = |x: &Exp| Box::new(builder_shape(x));
    match e {
        Exp::Number(_) | Exp::Variable(_) => e.clone(),
        Exp::Abs(x) => Exp::Abs(b(x)),
        Exp::Min(es) => Exp::Min(es.iter().map(builder_shape).collect()),
        Exp::Max(es) => Exp::Max(es.iter().map(builder_shape).collect()),
        Exp::And(es) => Exp::And(es.iter().map(builder_shape).collect()),
        Exp::Or(es) => Exp::Or(es.iter().map(builder_shape).collect()),
        Exp::Not(x) | Exp::UnOp(UnOp::Not, x) => Exp::Not(b(x)),
        Exp::Xor(x, y) | Exp::BinOp(BinOp::Xor, x, y) => Exp::Xor(b(x), b(y)),
        Exp::Implies(x, y) | Exp::BinOp(BinOp::Implies, x, y) => Exp::Implies(b(x), b(y)),
        Exp::Iff(x, y) | Exp::BinOp(BinOp::Iff, x, y) => Exp::Iff(b(x), b(y)),
        Exp::BinOp(BinOp::And, x, y) => Exp::And(vec![builder_shape(x), builder_shape(y)]),
        Exp::BinOp(BinOp::Or, x, y) => Exp::Or(vec![builder_shape(x), builder_shape(y)]),
        Exp::BinOp(op, x, y) => Exp::BinOp(*op, b(x), b(y)),
        Exp::UnOp(UnOp::Neg, x) => Exp::UnOp(UnOp::Neg, b(x)),
    }
}

fn index_exp(e: &Exp, names: &[String]) -> Exp {
    // abstract expression with variable NAMES replaced by decimal indices (the builder's `Expr::Variable(i)`)
    let b = |x: &Exp| Box::new(index_exp(x, names));
    match e {
        Exp::Number(_) => e.clone(),
        Exp::Variable(n) => Exp::Variable(names.iter().position(|x| x == n).unwrap().to_string()),
        Exp::Abs(x) => Exp::Abs(b(x)),
        Exp::Min(es) => Exp::Min(es.iter().map(|x| index_exp(x, names)).collect()),
        Exp::Max(es) => Exp::Max(es.iter().map(|x| index_exp(x, names)).collect()),
        Exp::And(es) => Exp::And(es.iter().map(|x| index_exp(x, names)).collect()),
        Exp::Or(es) => Exp::Or(es.iter().map(|x| index_exp(x, names)).collect()),
        Exp::Not(x) => Exp::Not(b(x)),
        Exp::Xor(x, y) => Exp::Xor(b(x), b(y)),
        Exp::Implies(x, y) => Exp::Implies(b(x), b(y)),
        Exp::Iff(x, y) => Exp::Iff(b(x), b(y)),
        Exp::BinOp(op, x, y) => Exp::BinOp(*op, b(x), b(y)),
        Exp::UnOp(op, x) => Exp::UnOp(*op, b(x)),
    }
}

fn milp(v: MILPValue) -> f64 { match v { MILPValue::Bool(b) => if b { 1.0 } else { 0.0 }, MILPValue::Int(i) => i as f64, MILPValue::Real(r) => r } }

fn outcome_class(o: &str) -> String {
    if o.starts_with("(solution") { "solution".into() } else { o.trim_start_matches('(').split(|c| c == ' ' || c == ')').next().unwrap_or("").to_string() }
}
fn outcome_value(o: &str) -> Option<f64> {
    if !o.starts_with("(solution #x") { return None; }
    u64::from_str_radix(&o[12..28], 16).ok().map(f64::from_bits)
}

pub fn generate(seed: u64, n: usize, _thorough: bool, _corpus: Option<&str>) -> Vec<Case> {
    let mut r = Rng::new(seed).fork();
    let mut out = vec![];
    for i in 0..n {
        let cfg = ModelCfg { max_vars: 3, depth: 2, logic: true, piecewise: true, unbounded: false, fractional: false, strict_cmp: false, hostile: false };
        let nv = 1 + r.below(3);
        let names = ["x", "y", "z", "w"];
        let mut ds: Vec<VarDecl> = (0..nv).map(|k| {
            let ty = match r.below(5) { 0 | 1 | 2 => VariableType::Boolean, _ => { let lo = r.range(-2, 1) as i32; VariableType::IntegerRange(lo, lo + r.range(0, 3) as i32) } };
            VarDecl { name: names[k].to_string(), ty }
        }).collect();
        let (m, _) = gen_model::model_with(&mut r, &cfg, ds.clone());
        // an extra declared-but-unused builder variable
        let unused = r.chance(1, 3);
        if unused { ds.push(VarDecl { name: "unused".into(), ty: VariableType::IntegerRange(2, 3) }); }
        out.extend(one(&m, &ds, &mut r, i));
    }
    out
}

fn one(m: &Model, ds: &[VarDecl], r: &mut Rng, i: usize) -> Vec<Case> {
    let mut cases = vec![];
    let names: Vec<String> = ds.iter().map(|d| d.name.clone()).collect();
    // ---------------- door 1: builder
    let mut b = ModelBuilder::new();
    let mut handles = IndexMap::new();
    for d in ds { handles.insert(d.name.clone(), b.add_var(d.name.clone(), d.ty)); }
    let objective_first = r.chance(1, 2);
    let obj_expr = to_builder(&m.objective().rhs, &handles, r);
    let set_obj = |b: ModelBuilder, e: Expr| match m.objective().objective_type {
        OptimizationType::Min => b.minimize(e), OptimizationType::Max => b.maximize(e), OptimizationType::Satisfy => b.satisfy(),
    };
    let mut bcons = vec![];
    for c in m.constraints() {
        let l = to_builder(c.lhs(), &handles, r);
        if c.is_logic_assertion() { bcons.push(BuilderConstraint::new_logic_assertion(l, c.name().to_string())); }
        else { bcons.push(BuilderConstraint::new(l, c.constraint_type(), to_builder(c.rhs(), &handles, r), c.name().to_string())); }
    }
    let mut b = b;
    if objective_first { b = set_obj(b, obj_expr.clone()); }
    if r.chance(1, 2) { b = b.with_all(bcons.clone()); } else { for c in bcons.clone() { b = b.with(c); } }
    if !objective_first { b = set_obj(b, obj_expr.clone()); }
    // (a) into_model vs the Lean model of into_model
    let bm = b.clone().into_model();
    {
        let mut c = Case::default();
        let vars = ds.iter().map(|d| format!("({} {})", sx::q(&d.name), sx::var_type(&d.ty))).collect::<Vec<_>>().join(" ");
        let cons = m.constraints().iter().map(|c| {
            let l = builder_shape(&index_exp(c.lhs(), &names));
            if c.is_logic_assertion() { format!("(assert {} {})", sx::q(c.name()), sx::exp(&l)) }
            else { format!("(c {} {} {} {})", sx::q(c.name()), sx::cmp(c.constraint_type()), sx::exp(&l), sx::exp(&builder_shape(&index_exp(c.rhs(), &names)))) }
        }).collect::<Vec<_>>().join(" ");
        let obj = match m.objective().objective_type {
            OptimizationType::Satisfy => "(solve (num #x0000000000000000))".to_string(),
            ref t => format!("({} {})", sx::opt_type(t), sx::exp(&builder_shape(&index_exp(&m.objective().rhs, &names)))),
        };
        c.req = format!("into-model (bvars{}{}) (constraints{}{}) {}", if vars.is_empty() { "" } else { " " }, vars, if cons.is_empty() { "" } else { " " }, cons, obj);
        c.imp = format!("(ok {})", sx::model(&bm));
        c.show = format!("builder.into_model of: {}", format!("{}", m).replace('\n', " ; "));
        c.tags = vec!["into-model".into(), if objective_first { "objective-first".into() } else { "objective-last".into() }];
        c.nontrivial = true;
        cases.push(c);
    }
    // (b) the doors
    let builder_lin = Linearizer::linearize(bm.clone());
    let sp = Spelling { aliases: r.chance(1, 2), implicit_mul: r.chance(1, 2), redundant_parens: r.chance(1, 2), named_consts: false };
    let mut pr = r.fork();
    // the text declares every builder variable (also the unused one)
    let text_model = gen_model::build(m.objective().objective_type.clone(), m.objective().rhs.clone(), m.constraints().clone(), ds);
    let text = Printer { r: &mut pr, sp, consts: vec![] }.program(&text_model);
    let text_lin = RoocParser::new(text.clone()).parse_and_transform(vec![], &IndexMap::new()).map_err(|e| e.chars().take(60).collect::<String>())
        .and_then(|tm| Linearizer::linearize(tm).map_err(|e| crate::props::c01::lin_error(&e)));
    let o_text = solve_text(&text);
    let o_builder = match b.clone().solve_with(Auto) {
        Ok(sol) => {
            let asg = names.iter().map(|n| format!("({} {})", sx::q(n), sx::num(sol.numeric_value(handles[n]).unwrap_or(f64::NAN)))).collect::<Vec<_>>().join(" ");
            // read-backs
            let mut c = Case::default();
            let vals: Vec<f64> = names.iter().map(|n| sol.numeric_value(handles[n]).unwrap_or(f64::NAN)).collect();
            let e = if m.constraints().is_empty() { m.objective().rhs.clone() } else { m.constraints()[r.below(m.constraints().len())].lhs().clone() };
            let be = to_builder(&e, &handles, r);
            c.req = format!("eval-expr {} (vals {})", sx::exp(&builder_shape(&index_exp(&e, &names))), sx::nums(&vals));
            c.imp = format!("(ok {})", sx::num(sol.eval(&be)));
            c.show = format!("solution.eval({}) at {:?}", e, vals);
            c.tags = vec!["eval-expr".into()];
            c.nontrivial = true;
            // handle / name / value_of agreement and unused variables inside their domain
            for (n, d) in names.iter().zip(ds) {
                let by_handle = sol.var_value(handles[n]).map(milp);
                let by_name = sol.solution().value_of(n).map(milp);
                if by_handle != by_name { c.impl_violation = Some(format!("handle/name read-back differ for {}: {:?} vs {:?}", n, by_handle, by_name)); }
                match (by_handle, d.ty) {
                    (None, _) => c.impl_violation = Some(format!("declared builder variable {} has no value in the solution", n)),
                    (Some(v), VariableType::IntegerRange(lo, hi)) if v < lo as f64 || v > hi as f64 || v.fract() != 0.0 => c.impl_violation = Some(format!("{} = {} outside IntegerRange({}, {})", n, v, lo, hi)),
                    (Some(v), VariableType::Boolean) if v != 0.0 && v != 1.0 => c.impl_violation = Some(format!("{} = {} not Boolean", n, v)),
                    _ => {}
                }
            }
            cases.push(c);
            format!("(solution {} (assign{}{}))", sx::num(sol.value()), if asg.is_empty() { "" } else { " " }, asg)
        }
        Err(BuilderError::Linearization(e)) => format!("(compile-error linearize {})", crate::props::c01::lin_error(&e)),
        Err(BuilderError::Solver(e)) => solver_error(&e),
    };
    let o_pipe = {
        let runner = PipeRunner::new(vec![Box::new(CompilerPipe::new()), Box::new(PreModelPipe::new()), Box::new(ModelPipe::new()), Box::new(LinearModelPipe::new()), Box::new(AutoSolverPipe::new())]);
        let fns = IndexMap::new();
        match runner.run(PipeableData::String(text.clone()), &PipeContext::new(vec![], &fns)) {
            Ok(mut res) => match res.pop() {
                Some(PipeableData::MILPSolution(sol)) => format!("(solution {})", sx::num(sol.value())),
                _ => "(pipe-no-solution)".into(),
            },
            Err((e, _)) => {
                let s = format!("{:?}", e);
                if s.contains("Infeasible") { "(infeasible)".into() } else if s.contains("Unbounded") { "(unbounded)".into() } else { format!("(pipe-error {})", sx::q(&s.chars().take(50).collect::<String>())) }
            }
        }
    };
    // agreement of the doors
    let mut c = Case::default();
    c.show = text.replace('\n', " ; ");
    c.imp = format!("(doors (builder {}) (text {}) (pipe {}))", o_builder, o_text, o_pipe);
    c.tags = vec!["doors".into(), outcome_class(&o_builder)];
    c.nontrivial = o_builder.starts_with("(solution") || o_builder == "(infeasible)";
    let classes = [outcome_class(&o_builder), outcome_class(&o_text), outcome_class(&o_pipe)];
    if classes[0] != classes[1] || classes[0] != classes[2] {
        c.impl_violation = Some(format!("front doors disagree on the verdict: {}", c.imp));
    } else if matches!(m.objective().objective_type, OptimizationType::Satisfy) {
        // a feasibility problem has no optimal value to agree on (the text door reports its dummy objective 1,
        // the builder its dummy objective 0)
        c.tags.push("satisfy".into());
    } else if let (Some(a), Some(t), Some(p)) = (outcome_value(&o_builder), outcome_value(&o_text), outcome_value(&o_pipe)) {
        let tol = 1e-6 * a.abs().max(1.0);
        if (a - t).abs() > tol || (a - p).abs() > tol { c.impl_violation = Some(format!("front doors disagree on the optimal value: {}", c.imp)); }
    }
    // identical trees => identical linear models, row for row (usage counts aside)
    if let (Ok(bl), Ok(tl)) = (&builder_lin, &text_lin) {
        let same_tree = RoocParser::new(text.clone()).parse_and_transform(vec![], &IndexMap::new()).map(|tm| strip_usage(&sx::model(&tm)) == strip_usage(&sx::model(&bm))).unwrap_or(false);
        let all_used = text_model.domain().values().all(|d| d.is_used());
        if same_tree && all_used {
            c.tags.push("same-tree".into());
            if strip_usage(&sx::lin_model(bl)) != strip_usage(&sx::lin_model(tl)) {
                c.impl_violation = Some("identical expression trees compiled to different linear models through builder and text".into());
            }
        }
    }
    // the builder's answer is also judged by the reference interpreter
    c.oracle = format!("ref {} {}", sx::model(&gen_model::build(m.objective().objective_type.clone(), m.objective().rhs.clone(), m.constraints().clone(), ds).mark_all()), o_builder);
    let fl = crate::props::c01::flags(m);
    if !fl.is_empty() { c.sig = Some(fl.join(",")); }
    let _ = i;
    cases.push(c);
    cases
}

fn strip_usage(s: &str) -> String {
    // drop the usage count of `(name type N)` domain entries
    let mut out = String::new();
    let mut rest = s;
    while let Some(p) = rest.find("(domain") {
        out.push_str(&rest[..p]);
        let end = match_paren(&rest[p..]);
        let dom = &rest[p..p + end];
        let cleaned: String = dom.split(") (").map(|e| { let t = e.trim_end_matches(')'); let cut = t.rfind(' ').unwrap_or(t.len()); t[..cut].to_string() }).collect::<Vec<_>>().join(") (");
        out.push_str(&cleaned);
        rest = &rest[p + end..];
    }
    out.push_str(rest);
    out
}
fn match_paren(s: &str) -> usize {
    let mut d = 0;
    for (i, ch) in s.char_indices() { if ch == '(' { d += 1 } else if ch == ')' { d -= 1; if d == 0 { return i + 1; } } }
    s.len()
}

trait MarkAll { fn mark_all(self) -> Model; }
impl MarkAll for Model {
    fn mark_all(mut self) -> Model { for v in self.domain_mut().values_mut() { if !v.is_used() { v.increment_usage(); } } self }
}
