//! C16 — all front doors agree: fluent builder (operators + helper functions), source text, PipeRunner
//! presets and the one-shot RoocSolver on the same abstract model; read-backs through builder handles.
use crate::case::Case;
use crate::gen_model::{self, ModelCfg, VarDecl};
use crate::props::c03::{solve_text, solver_error};
use crate::rng::Rng;
use crate::sx;
use crate::text::{Printer, Spelling};
use indexmap::IndexMap;
use rooc::model_transformer::{Exp, Model};
use rooc::pipe::{AutoSolverPipe, CompilerPipe, LinearModelPipe, MILPSolverPipe, ModelPipe, PipeContext, PipeRunner, PipeableData, PreModelPipe, RealSolver};
use rooc::{Auto, Clarabel, RoocSolver, RoocSolverError, Comparison, BinOp, BuilderConstraint, BuilderError, Expr, Linearizer, MILPValue, ModelBuilder, OptimizationType, RoocParser, UnOp, Var, VariableType};

/// abstract expression -> builder expression THROUGH THE PUBLIC OPERATOR / HELPER API
fn to_builder(e: &Exp, vars: &IndexMap<String, Var>, r: &mut Rng) -> Expr {
    if let Exp::BinOp(..) = e { return to_builder_bin(e, vars, r); }
    let mut go = |x: &Exp| to_builder(x, vars, r);
    match e {
        Exp::Number(v) => Expr::from(*v),
        Exp::Variable(n) => Expr::from(vars[n]),
        Exp::Abs(x) => rooc::builder::abs(go(x)),
        Exp::Min(es) => rooc::builder::min(es.iter().map(|x| go(x)).collect::<Vec<_>>()),
        Exp::Max(es) => rooc::builder::max(es.iter().map(|x| go(x)).collect::<Vec<_>>()),
        Exp::And(es) => rooc::builder::all(es.iter().map(|x| go(x)).collect::<Vec<_>>()),
        Exp::Or(es) => rooc::builder::any(es.iter().map(|x| go(x)).collect::<Vec<_>>()),
        // every receiver form of the public API: a bare `Var` handle as well as an `Expr`
        Exp::Not(x) | Exp::UnOp(UnOp::Not, x) => { if let Exp::Variable(n) = &**x { if r.chance(2, 3) { return !vars[n]; } } !to_builder(x, vars, r) }
        Exp::Xor(a, b) => logic2(LogicOp::Xor, a, b, vars, r),
        Exp::Implies(a, b) => logic2(LogicOp::Implies, a, b, vars, r),
        Exp::Iff(a, b) => logic2(LogicOp::Iff, a, b, vars, r),
        Exp::BinOp(..) => unreachable!(),
        Exp::UnOp(UnOp::Neg, x) => { if let Exp::Variable(n) = &**x { if r.chance(2, 3) { return -vars[n]; } } -to_builder(x, vars, r) }
    }
}

#[derive(Clone, Copy, PartialEq)]
enum LogicOp { And, Or, Xor, Implies, Iff }

/// a binary logic connective through EVERY overload / method of the public API: the receiver is a bare `Var` handle or an
/// `Expr`; the other operand a `Var`, an `Expr`, for `&`/`|` also a `bool` literal, for `.implies()`/`.iff()` also `f64`/`i32`
fn logic2(op: LogicOp, a: &Exp, b: &Exp, vars: &IndexMap<String, Var>, r: &mut Rng) -> Expr {
    #[derive(Clone)]
    enum O { V(Var), E(Expr), B(bool), F(f64), I(i32) }
    let mut classify = |x: &Exp, r: &mut Rng, lit_ok: bool| -> O {
        match x {
            Exp::Variable(n) if r.chance(3, 4) => O::V(vars[n]),
            Exp::Number(v) if lit_ok && (op == LogicOp::And || op == LogicOp::Or) && (*v == 0.0 && !v.is_sign_negative() || *v == 1.0) && r.chance(2, 3) => O::B(*v == 1.0),
            Exp::Number(v) if lit_ok && (op == LogicOp::Implies || op == LogicOp::Iff) && r.chance(1, 2) =>
                if v.fract() == 0.0 && v.abs() < 1e6 && !(*v == 0.0 && v.is_sign_negative()) && r.chance(1, 2) { O::I(*v as i32) } else { O::F(*v) },
            other => O::E(to_builder(other, vars, r)),
        }
    };
    let l = classify(a, r, op == LogicOp::And || op == LogicOp::Or);
    let rr = classify(b, r, true);
    let ex = |o: O| match o { O::V(v) => Expr::from(v), O::E(e) => e, O::B(b) => Expr::from(if b { 1.0 } else { 0.0 }), O::F(x) => Expr::from(x), O::I(x) => Expr::from(x) };
    match op {
        LogicOp::And => match (l.clone(), rr.clone()) {
            (O::V(x), O::V(y)) => x & y, (O::V(x), O::E(y)) => x & y, (O::E(x), O::V(y)) => x & y, (O::E(x), O::E(y)) => x & y,
            (O::V(x), O::B(y)) => x & y, (O::E(x), O::B(y)) => x & y, (O::B(x), O::V(y)) => x & y, (O::B(x), O::E(y)) => x & y,
            _ => ex(l) & ex(rr) },
        LogicOp::Or => match (l.clone(), rr.clone()) {
            (O::V(x), O::V(y)) => x | y, (O::V(x), O::E(y)) => x | y, (O::E(x), O::V(y)) => x | y, (O::E(x), O::E(y)) => x | y,
            (O::V(x), O::B(y)) => x | y, (O::E(x), O::B(y)) => x | y, (O::B(x), O::V(y)) => x | y, (O::B(x), O::E(y)) => x | y,
            _ => ex(l) | ex(rr) },
        LogicOp::Xor => match (l.clone(), rr.clone()) {
            (O::V(x), O::V(y)) => x ^ y, (O::V(x), O::E(y)) => x ^ y, (O::E(x), O::V(y)) => x ^ y, _ => ex(l) ^ ex(rr) },
        LogicOp::Implies => match (l.clone(), rr.clone()) {
            (O::V(x), O::V(y)) => x.implies(y), (O::V(x), O::E(y)) => x.implies(y), (O::V(x), O::F(y)) => x.implies(y), (O::V(x), O::I(y)) => x.implies(y),
            (O::E(x), O::V(y)) => x.implies(y), (O::E(x), O::F(y)) => x.implies(y), (O::E(x), O::I(y)) => x.implies(y),
            _ => ex(l).implies(ex(rr)) },
        LogicOp::Iff => match (l.clone(), rr.clone()) {
            (O::V(x), O::V(y)) => x.iff(y), (O::V(x), O::E(y)) => x.iff(y), (O::V(x), O::F(y)) => x.iff(y), (O::V(x), O::I(y)) => x.iff(y),
            (O::E(x), O::V(y)) => x.iff(y), (O::E(x), O::F(y)) => x.iff(y), (O::E(x), O::I(y)) => x.iff(y),
            _ => ex(l).iff(ex(rr)) },
    }
}


fn to_builder_bin(e: &Exp, vars: &IndexMap<String, Var>, r: &mut Rng) -> Expr {
    let Exp::BinOp(op, a, b) = e else { unreachable!() };
            // exercise every overload arm of the public operator API: literals as i32 / f64, variables as `Var`
            #[derive(Clone)]
            enum Opnd { I(i32), F(f64), V(Var), E(Expr) }
            let mut classify = |x: &Exp, r: &mut Rng| -> Opnd {
                match x {
                    Exp::Number(v) if v.fract() == 0.0 && v.abs() < 1e6 && !(*v == 0.0 && v.is_sign_negative()) && r.chance(1, 2) => Opnd::I(*v as i32),
                    Exp::Number(v) if r.chance(1, 2) => Opnd::F(*v),
                    Exp::Variable(n) if r.chance(2, 3) => Opnd::V(vars[n]),
                    other => Opnd::E(to_builder(other, vars, r)),
                }
            };
            let l = classify(a, r);
            let rr = classify(b, r);
            macro_rules! arith {
                ($op:tt) => {
                    match (l.clone(), rr.clone()) {
                        (Opnd::I(x), Opnd::V(y)) => x $op y,
                        (Opnd::I(x), Opnd::E(y)) => x $op y,
                        (Opnd::F(x), Opnd::V(y)) => x $op y,
                        (Opnd::F(x), Opnd::E(y)) => x $op y,
                        (Opnd::V(x), Opnd::I(y)) => x $op y,
                        (Opnd::V(x), Opnd::F(y)) => x $op y,
                        (Opnd::V(x), Opnd::V(y)) => x $op y,
                        (Opnd::V(x), Opnd::E(y)) => x $op y,
                        (Opnd::E(x), Opnd::I(y)) => x $op y,
                        (Opnd::E(x), Opnd::F(y)) => x $op y,
                        (Opnd::E(x), Opnd::V(y)) => x $op y,
                        (Opnd::E(x), Opnd::E(y)) => x $op y,
                        (Opnd::I(x), Opnd::I(y)) => Expr::from(x) $op Expr::from(y),
                        (Opnd::I(x), Opnd::F(y)) => Expr::from(x) $op y,
                        (Opnd::F(x), Opnd::I(y)) => x $op Expr::from(y),
                        (Opnd::F(x), Opnd::F(y)) => Expr::from(x) $op y,
                    }
                };
            }
            let ex = |o: Opnd| match o { Opnd::I(x) => Expr::from(x), Opnd::F(x) => Expr::from(x), Opnd::V(x) => Expr::from(x), Opnd::E(x) => x };
            match op {
                BinOp::Add => arith!(+), BinOp::Sub => arith!(-), BinOp::Mul => arith!(*), BinOp::Div => arith!(/),
                // the operators build the structural n-ary / binary logic forms
                BinOp::And => logic2(LogicOp::And, a, b, vars, r), BinOp::Or => logic2(LogicOp::Or, a, b, vars, r), BinOp::Xor => logic2(LogicOp::Xor, a, b, vars, r),
                BinOp::Implies => logic2(LogicOp::Implies, a, b, vars, r), BinOp::Iff => logic2(LogicOp::Iff, a, b, vars, r),
            }
        }

/// the same expression with the structural forms the builder operators produce (for the tree comparison)
fn builder_shape(e: &Exp) -> Exp {
    let b = |x: &Exp| Box::new(builder_shape(x));
    match e {
        Exp::Number(_) | Exp::Variable(_) => e.clone(),
        Exp::Abs(x) => Exp::Abs(b(x)),
        Exp::Min(es) => Exp::Min(es.iter().map(builder_shape).collect()),
        Exp::Max(es) => Exp::Max(es.iter().map(builder_shape).collect()),
        Exp::And(es) => Exp::And(es.iter().map(builder_shape).collect()),
        Exp::Or(es) => Exp::Or(es.iter().map(builder_shape).collect()),
        Exp::Not(x) | Exp::UnOp(UnOp::Not, x) => Exp::Not(b(x)),
        Exp::Xor(x, y) | Exp::BinOp(BinOp::Xor, x, y) => Exp::Xor(b(x), b(y)),
        Exp::Implies(x, y) | Exp::BinOp(BinOp::Implies, x, y) => Exp::Implies(b(x), b(y)),
        Exp::Iff(x, y) | Exp::BinOp(BinOp::Iff, x, y) => Exp::Iff(b(x), b(y)),
        Exp::BinOp(BinOp::And, x, y) => Exp::And(vec![builder_shape(x), builder_shape(y)]),
        Exp::BinOp(BinOp::Or, x, y) => Exp::Or(vec![builder_shape(x), builder_shape(y)]),
        Exp::BinOp(op, x, y) => Exp::BinOp(*op, b(x), b(y)),
        Exp::UnOp(UnOp::Neg, x) => Exp::UnOp(UnOp::Neg, b(x)),
    }
}

fn index_exp(e: &Exp, names: &[String]) -> Exp {
    // abstract expression with variable NAMES replaced by decimal indices (the builder's `Expr::Variable(i)`)
    let b = |x: &Exp| Box::new(index_exp(x, names));
    match e {
        Exp::Number(_) => e.clone(),
        Exp::Variable(n) => Exp::Variable(names.iter().position(|x| x == n).unwrap().to_string()),
        Exp::Abs(x) => Exp::Abs(b(x)),
        Exp::Min(es) => Exp::Min(es.iter().map(|x| index_exp(x, names)).collect()),
        Exp::Max(es) => Exp::Max(es.iter().map(|x| index_exp(x, names)).collect()),
        Exp::And(es) => Exp::And(es.iter().map(|x| index_exp(x, names)).collect()),
        Exp::Or(es) => Exp::Or(es.iter().map(|x| index_exp(x, names)).collect()),
        Exp::Not(x) => Exp::Not(b(x)),
        Exp::Xor(x, y) => Exp::Xor(b(x), b(y)),
        Exp::Implies(x, y) => Exp::Implies(b(x), b(y)),
        Exp::Iff(x, y) => Exp::Iff(b(x), b(y)),
        Exp::BinOp(op, x, y) => Exp::BinOp(*op, b(x), b(y)),
        Exp::UnOp(op, x) => Exp::UnOp(*op, b(x)),
    }
}

fn milp(v: MILPValue) -> f64 { match v { MILPValue::Bool(b) => if b { 1.0 } else { 0.0 }, MILPValue::Int(i) => i as f64, MILPValue::Real(r) => r } }

fn outcome_class(o: &str) -> String {
    if o.starts_with("(solution") { "solution".into() } else { o.trim_start_matches('(').split(|c| c == ' ' || c == ')').next().unwrap_or("").to_string() }
}
fn outcome_value(o: &str) -> Option<f64> {
    if !o.starts_with("(solution #x") { return None; }
    u64::from_str_radix(&o[12..28], 16).ok().map(f64::from_bits)
}

pub fn generate(seed: u64, n: usize, _thorough: bool, _corpus: Option<&str>) -> Vec<Case> {
    let mut r = Rng::new(seed).fork();
    let mut out = vec![];
    for i in 0..n {
        let cfg = ModelCfg { max_vars: 3, depth: 2, logic: true, piecewise: true, unbounded: false, fractional: false, strict_cmp: false, hostile: false };
        let nv = 1 + r.below(3);
        let names = ["x", "y", "z", "w"];
        let mut ds: Vec<VarDecl> = (0..nv).map(|k| {
            let ty = match r.below(5) { 0 | 1 | 2 => VariableType::Boolean, _ => { let lo = r.range(-2, 1) as i32; VariableType::IntegerRange(lo, lo + r.range(0, 3) as i32) } };
            VarDecl { name: names[k].to_string(), ty }
        }).collect();
        let (m, _) = gen_model::model_with(&mut r, &cfg, ds.clone());
        // an extra declared-but-unused builder variable
        let unused = r.chance(1, 3);
        if unused { ds.push(VarDecl { name: "unused".into(), ty: VariableType::IntegerRange(2, 3) }); }
        out.extend(one(&m, &ds, &mut r, i));
        if i % 2 == 0 { if let Some(c) = eval_probe(&mut r) { out.push(c); } }
        if i % 2 == 1 { out.push(continuous_doors(&mut r)); }
        out.extend(history_cases(&mut r));
        out.push(pipe_case(&mut r));
        if i % 2 == 0 { out.push(data_doors(&mut r)); }
    }
    // fixed-size blocks with their OWN generators (independent of how much randomness the streams above consume)
    let mut rg = Rng::new(seed ^ 0x6a9d_0055_u64).fork();
    for k in 0..(if n >= 2000 { n / 16 } else { GAP_BLOCK }) { out.push(gap_doors(&mut rg, k)); }
    // scripted linear histories: the call patterns whose ORDER matters, every run
    let mut rh = Rng::new(seed ^ 0x5c217_7ed_u64).fork();
    for k in 0..(if n >= 2000 { n / 12 } else { 36 }) { out.extend(history_cases_with(&mut rh, Some(k))); }
    // read-backs at values a hair away from an integer, and every arm of the `vars!` macro
    let mut rq = Rng::new(seed ^ 0x71d7_e7a1_u64).fork();
    for k in 0..(if n >= 2000 { n / 20 } else { 30 }) { out.push(tiny_eval_probe(&mut rq, k)); }
    for k in 0..(if n >= 2000 { n / 40 } else { 16 }) { out.push(vars_macro_case(&mut rq, k)); }
    for k in 0..(if n >= 2000 { n / 24 } else { 30 }) { out.push(sum_helper_case(&mut rq, k)); }
    // the TRUTH TABLES of every connective through the method / operator forms, twice (the receiver form - bare handle or
    // expression - is drawn per probe): 12 connective shapes x 8 value pairs x 3
    let mut rt = Rng::new(seed ^ 0x7ab1e_u64).fork();
    for _rep in 0..3 { for kind in 0..12 { for pq in [[0.0, 1.0], [1.0, 0.0], [0.0, 0.0], [1.0, 1.0], [0.0, 2.0], [-1.0, 0.0], [0.0, -1.0], [3.0, 0.0]] {
        if let Some(c) = eval_probe_with(&mut rt, Some((kind, pq))) { out.push(c); } } } }
    out
}

/// `BuilderSolution::eval` at a CHOSEN point: variables are pinned by `v = c` rows, then an arbitrary
/// expression is evaluated at the solution and compared bit-exactly with the Lean `evalExpr`.
fn eval_probe(r: &mut Rng) -> Option<Case> { eval_probe_with(r, None) }

/// `fixed = Some((kind, [p, q]))`: the connective `kind` applied to the handles of `p` and `q` at exactly these values
fn eval_probe_with(r: &mut Rng, fixed: Option<(usize, [f64; 2])>) -> Option<Case> {
    let names: Vec<String> = ["p", "q", "s"].iter().map(|x| x.to_string()).collect();
    let ds: Vec<VarDecl> = names.iter().map(|n| VarDecl { name: n.clone(), ty: VariableType::IntegerRange(-4, 4) }).collect();
    let vals: Vec<f64> = if let Some((_, pq)) = fixed { vec![pq[0], pq[1], 1.0] } else if r.chance(1, 2) { (0..3).map(|_| *r.pick(&[0.0, 1.0, 0.0, 1.0, 2.0, -1.0])).collect() } else { (0..3).map(|_| r.range(-4, 4) as f64).collect() };
    let mut b = ModelBuilder::new();
    let mut handles = IndexMap::new();
    for d in &ds { handles.insert(d.name.clone(), b.add_var(d.name.clone(), d.ty)); }
    let mut b = b.satisfy();
    for (n, v) in names.iter().zip(&vals) {
        b = b.with(BuilderConstraint::new(Expr::from(handles[n]), Comparison::Equal, Expr::from(*v), String::new()));
    }
    let sol = b.solve_with(Auto).ok()?;
    let cfg = ModelCfg { max_vars: 3, depth: 3, logic: true, piecewise: true, unbounded: false, fractional: true, strict_cmp: false, hostile: false };
    // numeric and logic operators over ALL variables (truthiness of non-0/1 values included: eval_expr is total)
    let connective = fixed.is_some() || r.chance(1, 3);
    let e = if let Some((kind, _)) = fixed {
        let (p, q) = (Box::new(Exp::Variable("p".into())), Box::new(Exp::Variable("q".into())));
        match kind {
            0 => Exp::Iff(p, q), 1 => Exp::Implies(p, q), 2 => Exp::Xor(p, q), 3 => Exp::BinOp(BinOp::And, p, q), 4 => Exp::BinOp(BinOp::Or, p, q),
            5 => Exp::BinOp(BinOp::Iff, p, q), 6 => Exp::BinOp(BinOp::Implies, p, q), 7 => Exp::BinOp(BinOp::Xor, p, q),
            8 => Exp::Not(p), 9 => Exp::UnOp(UnOp::Neg, p), 10 => Exp::Iff(q, p), _ => Exp::Implies(q, p),
        }
    } else if connective {
        // one connective applied to variable handles directly (the METHOD / operator forms with a bare `Var` receiver), possibly
        // under one more operator; the values below include the rows of the truth table where the connectives differ
        let v = |r: &mut Rng| Box::new(Exp::Variable(r.pick(&names).clone()));
        let inner = match r.below(9) {
            0 => Exp::Iff(v(r), v(r)), 1 => Exp::Implies(v(r), v(r)), 2 => Exp::Xor(v(r), v(r)),
            3 => Exp::BinOp(BinOp::And, v(r), v(r)), 4 => Exp::BinOp(BinOp::Or, v(r), v(r)), 5 => Exp::Not(v(r)), 6 => Exp::UnOp(UnOp::Neg, v(r)),
            7 => Exp::BinOp(BinOp::Iff, v(r), v(r)), _ => Exp::BinOp(BinOp::Implies, v(r), v(r)),
        };
        match r.below(4) { 0 => Exp::Not(Box::new(inner)), 1 => Exp::BinOp(BinOp::Add, Box::new(inner), v(r)), 2 => Exp::Iff(Box::new(inner), v(r)), _ => inner }
    } else if r.chance(1, 2) { gen_model::num_exp(r, &ds, &cfg, 3) } else { crate::gen_exp::exp(r, &crate::gen_exp::ExpCfg { vars: names.clone(), logic: true, minmax: true, special: false }, 3) };
    let be = to_builder(&e, &handles, r);
    let mut c = Case::default();
    c.req = format!("eval-expr {} (vals {})", sx::exp(&builder_shape(&index_exp(&e, &names))), sx::nums(&vals));
    c.imp = format!("(ok {})", sx::num(sol.eval(&be)));
    c.oracle = format!("eval-check {} (vals {}) {}", sx::exp(&builder_shape(&index_exp(&e, &names))), sx::nums(&vals), sx::num(sol.eval(&be)));
    c.show = format!("solution.eval({}) at {:?}", e, vals);
    c.tags = vec!["eval-probe".into()];
    if connective { c.tags.push("eval-probe-connective".into()); }
    if fixed.is_some() { c.tags.push("eval-probe-truth-table".into()); }
    c.nontrivial = true;
    Some(c)
}

fn real_outcome(r: Result<rooc::LpSolution<f64>, rooc::SolverError>) -> (String, Option<f64>) {
    match r {
        Ok(s) => ("solution".into(), Some(s.value())),
        Err(e) => (crate::props::c03::solver_error(&e), None),
    }
}

/// a continuous model through the real-solver doors: builder + Clarabel, text + RoocSolver + clarabel, the
/// PipeRunner preset ending in `RealSolver`, and the direct entry point on the compiled linear model.
fn continuous_doors(r: &mut Rng) -> Case {
    let cfg = ModelCfg { max_vars: 3, depth: 2, logic: false, piecewise: false, unbounded: false, fractional: false, strict_cmp: false, hostile: false };
    let nv = 1 + r.below(3);
    let names = ["x", "y", "z"];
    let ds: Vec<VarDecl> = (0..nv).map(|k| {
        let lo = r.range(-3, 1) as f64;
        let ty = if r.chance(1, 2) { VariableType::Real(lo, lo + r.range(1, 6) as f64) } else { VariableType::NonNegativeReal(0.0, r.range(1, 6) as f64) };
        VarDecl { name: names[k].to_string(), ty }
    }).collect();
    let (m, _) = gen_model::model_with(r, &cfg, ds.clone());
    let mut handles = IndexMap::new();
    let mut b = ModelBuilder::new();
    for d in &ds { handles.insert(d.name.clone(), b.add_var(d.name.clone(), d.ty)); }
    let obj = to_builder(&m.objective().rhs, &handles, r);
    let mut b = match m.objective().objective_type { OptimizationType::Min => b.minimize(obj), OptimizationType::Max => b.maximize(obj), OptimizationType::Satisfy => b.satisfy() };
    for c in m.constraints() {
        b = b.with(BuilderConstraint::new(to_builder(c.lhs(), &handles, r), c.constraint_type(), to_builder(c.rhs(), &handles, r), c.name().to_string()));
    }
    let text_model = gen_model::build(m.objective().objective_type.clone(), m.objective().rhs.clone(), m.constraints().clone(), &ds);
    let mut pr = r.fork();
    let text = Printer { r: &mut pr, sp: Spelling { aliases: false, implicit_mul: r.chance(1, 2), redundant_parens: r.chance(1, 2), named_consts: false, minimal_parens: false }, consts: vec![] }.program(&text_model);
    let guard = |f: &mut dyn FnMut() -> (String, Option<f64>)| -> (String, Option<f64>) {
        std::panic::catch_unwind(std::panic::AssertUnwindSafe(|| f())).unwrap_or(("(panic)".to_string(), None))
    };
    let mut bopt = Some(b);
    let mut ref_outcome: Option<String> = None;
    let o_builder = guard(&mut || match bopt.take().unwrap().solve_with(Clarabel) { Ok(s) => {
            let asg = s.solution().assignment().iter().map(|a| format!("({} {})", sx::q(&a.name), sx::num(a.value))).collect::<Vec<_>>().join(" ");
            ref_outcome = Some(format!("(solution {} (assign{}{}))", sx::num(s.value()), if asg.is_empty() { "" } else { " " }, asg));
            ("solution".to_string(), Some(s.value())) }, Err(BuilderError::Solver(e)) => (crate::props::c03::solver_error(&e), None), Err(BuilderError::Linearization(e)) => (crate::props::c01::lin_error(&e), None) });
    let o_solver = guard(&mut || match RoocSolver::try_new(text.clone()) {
        Ok(s) => match s.solve_using(rooc::solve_real_lp_problem_clarabel) {
            Ok(sol) => ("solution".to_string(), Some(sol.value())),
            Err(RoocSolverError::Solver(e)) => (crate::props::c03::solver_error(&e), None),
            Err(RoocSolverError::Linearization(e)) => (crate::props::c01::lin_error(&e), None),
            Err(RoocSolverError::Transform(_)) => ("(transform-error)".into(), None),
        },
        Err(_) => ("(parse-error)".into(), None),
    });
    let fns = IndexMap::new();
    let runner = PipeRunner::new(vec![Box::new(CompilerPipe::new()), Box::new(PreModelPipe::new()), Box::new(ModelPipe::new()), Box::new(LinearModelPipe::new()), Box::new(RealSolver::new())]);
    let o_pipe = guard(&mut || match runner.run(PipeableData::String(text.clone()), &PipeContext::new(vec![], &fns)) {
        Ok(mut res) => match res.pop() { Some(PipeableData::RealSolution(sol)) => ("solution".to_string(), Some(sol.value())), _ => ("(pipe-no-solution)".into(), None) },
        Err((e, _)) => { (match &e { rooc::pipe::PipeError::SolverError(se) => crate::props::c03::solver_error(se), other => { let s = format!("{:?}", other); format!("(pipe-error {})", sx::q(&s.chars().take(60).collect::<String>())) } }, None) }
    });
    let o_direct = guard(&mut || RoocParser::new(text.clone()).parse_and_transform(vec![], &fns).ok().and_then(|tm| Linearizer::linearize(tm).ok())
        .map(|lm| real_outcome(rooc::solve_real_lp_problem_clarabel(&lm))).unwrap_or(("(compile-error)".into(), None)));
    let mut c = Case::default();
    c.show = text.replace('\n', " ; ");
    c.imp = format!("(real-doors (builder {} {:?}) (roocsolver {} {:?}) (pipe {} {:?}) (direct {} {:?}))", o_builder.0, o_builder.1, o_solver.0, o_solver.1, o_pipe.0, o_pipe.1, o_direct.0, o_direct.1);
    c.tags = vec!["real-doors".into(), o_direct.0.trim_start_matches('(').split(|ch| ch == ' ' || ch == ')').next().unwrap_or("").to_string()];
    // the builder door's answer is also judged by the mixed reference (no discrete declaration: one residual LP, solved by
    // independent vertex enumeration; non-affine models are skipped there)
    if o_builder.0 == "solution" || o_builder.0 == "(infeasible)" {
        let outcome = if o_builder.0 == "solution" { ref_outcome.clone().unwrap_or_default() } else { "(infeasible)".to_string() };
        if !outcome.is_empty() { c.oracle = format!("ref {} {}", sx::model(&text_model.clone().mark_all()), outcome); c.tags.push("real-doors-judged".into()); }
    }
    c.nontrivial = o_direct.0 == "solution" || o_direct.0 == "(infeasible)";
    let all = [&o_builder, &o_solver, &o_pipe, &o_direct];
    if all.iter().any(|o| o.0 == "(panic)") {
        c.impl_violation = Some(format!("a real-solver front door panicked: {}", c.imp));
        c.sig = Some(if text_model.domain().values().all(|d| !d.is_used()) { "clarabel-panic-no-variables".into() } else { "clarabel-panic".into() });
    } else if all.iter().any(|o| o.0 != o_direct.0) {
        c.impl_violation = Some(format!("real-solver front doors disagree on the verdict: {}", c.imp));
        // root cause flag: Clarabel gives up with `Numerical error` on one door's LP and proves infeasibility on the other's
        // (the builder keeps declared-but-unused variables as extra columns, which changes Clarabel's numerics)
        if all.iter().all(|o| o.0 == "(infeasible)" || o.0.contains("Numerical error")) { c.sig = Some("clarabel-numerical-error-on-infeasible".into()); }
    } else if !matches!(m.objective().objective_type, OptimizationType::Satisfy) {
        if let Some(v) = o_direct.1 {
            if all.iter().any(|o| o.1.map(|w| (w - v).abs() > 1e-5 * v.abs().max(1.0)).unwrap_or(true)) {
                c.impl_violation = Some(format!("real-solver front doors disagree on the optimal value: {}", c.imp));
            }
        }
    }
    c
}

fn one(m: &Model, ds: &[VarDecl], r: &mut Rng, i: usize) -> Vec<Case> {
    let mut cases = vec![];
    let names: Vec<String> = ds.iter().map(|d| d.name.clone()).collect();
    // ---------------- door 1: builder
    let mut b = ModelBuilder::new();
    let mut handles = IndexMap::new();
    for d in ds { handles.insert(d.name.clone(), b.add_var(d.name.clone(), d.ty)); }
    let objective_first = r.chance(1, 2);
    let obj_expr = to_builder(&m.objective().rhs, &handles, r);
    let set_obj = |b: ModelBuilder, e: Expr| match m.objective().objective_type {
        OptimizationType::Min => b.minimize(e), OptimizationType::Max => b.maximize(e), OptimizationType::Satisfy => b.satisfy(),
    };
    let mut bcons = vec![];
    for c in m.constraints() {
        let l = to_builder(c.lhs(), &handles, r);
        if c.is_logic_assertion() { bcons.push(BuilderConstraint::new_logic_assertion(l, c.name().to_string())); }
        else { bcons.push(BuilderConstraint::new(l, c.constraint_type(), to_builder(c.rhs(), &handles, r), c.name().to_string())); }
    }
    let mut b = b;
    if objective_first { b = set_obj(b, obj_expr.clone()); }
    if r.chance(1, 2) { b = b.with_all(bcons.clone()); } else { for c in bcons.clone() { b = b.with(c); } }
    if !objective_first { b = set_obj(b, obj_expr.clone()); }
    // (a) into_model vs the Lean model of into_model
    let bm = b.clone().into_model();
    {
        let mut c = Case::default();
        let vars = ds.iter().map(|d| format!("({} {})", sx::q(&d.name), sx::var_type(&d.ty))).collect::<Vec<_>>().join(" ");
        let cons = m.constraints().iter().map(|c| {
            let l = builder_shape(&index_exp(c.lhs(), &names));
            if c.is_logic_assertion() { format!("(assert {} {})", sx::q(c.name()), sx::exp(&l)) }
            else { format!("(c {} {} {} {})", sx::q(c.name()), sx::cmp(c.constraint_type()), sx::exp(&l), sx::exp(&builder_shape(&index_exp(c.rhs(), &names)))) }
        }).collect::<Vec<_>>().join(" ");
        let obj = match m.objective().objective_type {
            OptimizationType::Satisfy => "(solve (num #x0000000000000000))".to_string(),
            ref t => format!("({} {})", sx::opt_type(t), sx::exp(&builder_shape(&index_exp(&m.objective().rhs, &names)))),
        };
        c.req = format!("into-model (bvars{}{}) (constraints{}{}) {}", if vars.is_empty() { "" } else { " " }, vars, if cons.is_empty() { "" } else { " " }, cons, obj);
        c.imp = format!("(ok {})", sx::model(&bm));
        c.show = format!("builder.into_model of: {}", format!("{}", m).replace('\n', " ; "));
        c.tags = vec!["into-model".into(), if objective_first { "objective-first".into() } else { "objective-last".into() }];
        c.nontrivial = true;
        cases.push(c);
    }
    // (b) the doors
    let builder_lin = Linearizer::linearize(bm.clone());
    let sp = Spelling { aliases: r.chance(1, 2), implicit_mul: r.chance(1, 2), redundant_parens: r.chance(1, 2), named_consts: false, minimal_parens: r.chance(1, 2) };
    let mut pr = r.fork();
    // the text declares every builder variable (also the unused one)
    let text_model = gen_model::build(m.objective().objective_type.clone(), m.objective().rhs.clone(), m.constraints().clone(), ds);
    let text = Printer { r: &mut pr, sp, consts: vec![] }.program(&text_model);
    let text_lin = RoocParser::new(text.clone()).parse_and_transform(vec![], &IndexMap::new()).map_err(|e| e.chars().take(60).collect::<String>())
        .and_then(|tm| Linearizer::linearize(tm).map_err(|e| crate::props::c01::lin_error(&e)));
    let o_text = solve_text(&text);
    let o_builder = match b.clone().solve_with(Auto) {
        Ok(sol) => {
            let asg = names.iter().map(|n| format!("({} {})", sx::q(n), sx::num(sol.numeric_value(handles[n]).unwrap_or(f64::NAN)))).collect::<Vec<_>>().join(" ");
            // read-backs
            let mut c = Case::default();
            let vals: Vec<f64> = names.iter().map(|n| sol.numeric_value(handles[n]).unwrap_or(f64::NAN)).collect();
            let e = if m.constraints().is_empty() { m.objective().rhs.clone() } else { m.constraints()[r.below(m.constraints().len())].lhs().clone() };
            let be = to_builder(&e, &handles, r);
            c.req = format!("eval-expr {} (vals {})", sx::exp(&builder_shape(&index_exp(&e, &names))), sx::nums(&vals));
            c.imp = format!("(ok {})", sx::num(sol.eval(&be)));
            c.oracle = format!("eval-check {} (vals {}) {}", sx::exp(&builder_shape(&index_exp(&e, &names))), sx::nums(&vals), sx::num(sol.eval(&be)));
            c.show = format!("solution.eval({}) at {:?}", e, vals);
            c.tags = vec!["eval-expr".into()];
            c.nontrivial = true;
            // handle / name / value_of agreement and unused variables inside their domain
            for (n, d) in names.iter().zip(ds) {
                let by_handle = sol.var_value(handles[n]).map(milp);
                let by_name = sol.solution().value_of(n).map(milp);
                if by_handle != by_name { c.impl_violation = Some(format!("handle/name read-back differ for {}: {:?} vs {:?}", n, by_handle, by_name)); }
                match (by_handle, d.ty) {
                    (None, _) => c.impl_violation = Some(format!("declared builder variable {} has no value in the solution", n)),
                    (Some(v), VariableType::IntegerRange(lo, hi)) if v < lo as f64 || v > hi as f64 || v.fract() != 0.0 => c.impl_violation = Some(format!("{} = {} outside IntegerRange({}, {})", n, v, lo, hi)),
                    (Some(v), VariableType::Boolean) if v != 0.0 && v != 1.0 => c.impl_violation = Some(format!("{} = {} not Boolean", n, v)),
                    _ => {}
                }
            }
            cases.push(c);
            format!("(solution {} (assign{}{}))", sx::num(sol.value()), if asg.is_empty() { "" } else { " " }, asg)
        }
        Err(BuilderError::Linearization(e)) => format!("(compile-error linearize {})", crate::props::c01::lin_error(&e)),
        Err(BuilderError::Solver(e)) => solver_error(&e),
    };
    let o_pipe = {
        let runner = PipeRunner::new(vec![Box::new(CompilerPipe::new()), Box::new(PreModelPipe::new()), Box::new(ModelPipe::new()), Box::new(LinearModelPipe::new()), Box::new(AutoSolverPipe::new())]);
        let fns = IndexMap::new();
        match runner.run(PipeableData::String(text.clone()), &PipeContext::new(vec![], &fns)) {
            Ok(mut res) => match res.pop() {
                Some(PipeableData::MILPSolution(sol)) => format!("(solution {})", sx::num(sol.value())),
                _ => "(pipe-no-solution)".into(),
            },
            Err((e, _)) => {
                let s = format!("{:?}", e);
                if s.contains("Infeasible") { "(infeasible)".into() } else if s.contains("Unbounded") { "(unbounded)".into() } else { format!("(pipe-error {})", sx::q(&s.chars().take(50).collect::<String>())) }
            }
        }
    };
    let o_pipe_milp = {
        let runner = PipeRunner::new(vec![Box::new(CompilerPipe::new()), Box::new(PreModelPipe::new()), Box::new(ModelPipe::new()), Box::new(LinearModelPipe::new()), Box::new(MILPSolverPipe::new())]);
        let fns = IndexMap::new();
        match runner.run(PipeableData::String(text.clone()), &PipeContext::new(vec![], &fns)) {
            Ok(mut res) => match res.pop() { Some(PipeableData::MILPSolution(sol)) => format!("(solution {})", sx::num(sol.value())), _ => "(pipe-no-solution)".into() },
            Err((e, _)) => { let s = format!("{:?}", e); if s.contains("Infeasible") { "(infeasible)".into() } else if s.contains("Unbounded") { "(unbounded)".into() } else { format!("(pipe-error {})", sx::q(&s.chars().take(50).collect::<String>())) } }
        }
    };
    // agreement of the doors
    let mut c = Case::default();
    c.show = text.replace('\n', " ; ");
    c.imp = format!("(doors (builder {}) (text {}) (pipe {}) (pipe-milp {}))", o_builder, o_text, o_pipe, o_pipe_milp);
    c.tags = vec!["doors".into(), outcome_class(&o_builder)];
    c.nontrivial = o_builder.starts_with("(solution") || o_builder == "(infeasible)";
    let classes = [outcome_class(&o_builder), outcome_class(&o_text), outcome_class(&o_pipe), outcome_class(&o_pipe_milp)];
    // a variable-free model: the MILP entry point has no special case for it (auto_solver does)
    let no_vars = text_model.domain().values().all(|d| !d.is_used());
    if classes[0] != classes[1] || classes[0] != classes[2] || (classes[0] != classes[3] && !no_vars) {
        c.impl_violation = Some(format!("front doors disagree on the verdict: {}", c.imp));
    } else if matches!(m.objective().objective_type, OptimizationType::Satisfy) {
        // a feasibility problem has no optimal value to agree on (the text door reports its dummy objective 1,
        // the builder its dummy objective 0)
        c.tags.push("satisfy".into());
    } else if let (Some(a), Some(t), Some(p)) = (outcome_value(&o_builder), outcome_value(&o_text), outcome_value(&o_pipe)) {
        let tol = 1e-6 * a.abs().max(1.0);
        if (a - t).abs() > tol || (a - p).abs() > tol { c.impl_violation = Some(format!("front doors disagree on the optimal value: {}", c.imp)); }
    }
    // identical trees => identical linear models, row for row (usage counts aside)
    if let (Ok(bl), Ok(tl)) = (&builder_lin, &text_lin) {
        let same_tree = RoocParser::new(text.clone()).parse_and_transform(vec![], &IndexMap::new()).map(|tm| strip_usage(&sx::model(&tm)) == strip_usage(&sx::model(&bm))).unwrap_or(false);
        let all_used = text_model.domain().values().all(|d| d.is_used());
        if same_tree && all_used {
            c.tags.push("same-tree".into());
            if strip_usage(&sx::lin_model(bl)) != strip_usage(&sx::lin_model(tl)) {
                c.impl_violation = Some("identical expression trees compiled to different linear models through builder and text".into());
            }
        }
    }
    // the builder's answer is also judged by the reference interpreter
    c.oracle = format!("ref {} {}", sx::model(&gen_model::build(m.objective().objective_type.clone(), m.objective().rhs.clone(), m.constraints().clone(), ds).mark_all()), o_builder);
    let fl = crate::props::c01::flags(m);
    if !fl.is_empty() { c.sig = Some(fl.join(",")); }
    let _ = i;
    cases.push(c);
    cases
}

fn strip_usage(s: &str) -> String {
    // drop the usage count of `(name type N)` domain entries
    let mut out = String::new();
    let mut rest = s;
    while let Some(p) = rest.find("(domain") {
        out.push_str(&rest[..p]);
        let end = match_paren(&rest[p..]);
        let dom = &rest[p..p + end];
        let cleaned: String = dom.split(") (").map(|e| { let t = e.trim_end_matches(')'); let cut = t.rfind(' ').unwrap_or(t.len()); t[..cut].to_string() }).collect::<Vec<_>>().join(") (");
        out.push_str(&cleaned);
        rest = &rest[p + end..];
    }
    out.push_str(rest);
    out
}
fn match_paren(s: &str) -> usize {
    let mut d = 0;
    for (i, ch) in s.char_indices() { if ch == '(' { d += 1 } else if ch == ')' { d -= 1; if d == 0 { return i + 1; } } }
    s.len()
}

trait MarkAll { fn mark_all(self) -> Model; }
impl MarkAll for Model {
    fn mark_all(mut self) -> Model { for v in self.domain_mut().values_mut() { if !v.is_used() { v.increment_usage(); } } self }
}

// ======================================================================================================
// builder CALL HISTORIES: a random sequence of `add_var / add_vars / with / with_all / maximize / minimize / satisfy`
// on a real `ModelBuilder` (every call under `catch_unwind`, the builder is used on after a panic), then
// `into_model`, then read-backs through `BuilderSolution` for a hand-made solution (a `Solver` that returns it) and
// for the real `Auto` solver.  The Lean model replays the same history (`C16 float history …`).

use rooc::{Assignment, LpSolution, SolverError, LinearModel};
use rooc::builder::Solver;

struct Canned(LpSolution<MILPValue>);
impl Solver for Canned {
    type Solution = LpSolution<MILPValue>;
    fn solve(&self, _m: &LinearModel) -> Result<Self::Solution, SolverError> { Ok(self.0.clone()) }
}

fn sx_val(v: MILPValue) -> String {
    match v { MILPValue::Bool(b) => format!("(bool {})", b), MILPValue::Int(i) => format!("(int {})", i), MILPValue::Real(x) => format!("(real {})", sx::num(x)) }
}
fn sx_bc(name: &str, cmp: Comparison, l: &Exp, rr: &Exp, a: bool) -> String {
    format!("(bc {} {} {} {} {})", sx::q(name), sx::cmp(cmp), sx::exp(l), sx::exp(rr), a)
}
fn sx_rmodel(m: &Model) -> String {
    let mut s = format!("(rmodel ({} {}) (constraints", sx::opt_type(&m.objective().objective_type), sx::exp(&m.objective().rhs));
    for c in m.constraints() { s.push(' '); s.push_str(&sx_bc(c.name(), c.constraint_type(), c.lhs(), c.rhs(), c.is_logic_assertion())); }
    s.push_str(") ");
    s.push_str(&sx::domain(m.domain()));
    s.push(')');
    s
}
fn sx_sol(s: &LpSolution<MILPValue>) -> String {
    let asg = s.assignment().iter().map(|a| format!("({} {})", sx::q(&a.name), sx_val(a.value))).collect::<Vec<_>>().join(" ");
    let rows = s.constraints().iter().map(|(k, v)| format!("({} {})", sx::q(k), sx::num(*v))).collect::<Vec<_>>().join(" ");
    let duals = s.shadow_prices().iter().map(|(k, v)| format!("({} {})", sx::q(k), sx::num(*v))).collect::<Vec<_>>().join(" ");
    let sec = |h: &str, b: String| if b.is_empty() { format!("({})", h) } else { format!("({} {})", h, b) };
    format!("(sol (value {}) {} {} {})", sx::num(s.value()), sec("assign", asg), sec("rows", rows), sec("duals", duals))
}
fn opt_num(v: Option<f64>) -> String { v.map(sx::num).unwrap_or("none".into()) }

fn hist_type(r: &mut Rng, discrete: bool) -> VariableType {
    match r.below(if discrete { 4 } else { 6 }) {
        0 | 1 => VariableType::Boolean,
        2 | 3 => { let lo = r.range(-2, 1) as i32; VariableType::IntegerRange(lo, lo + r.range(0, 3) as i32) }
        4 => { let lo = r.range(-3, 1) as f64; VariableType::Real(lo, lo + r.range(1, 6) as f64) }
        _ => VariableType::NonNegativeReal(0.0, r.range(1, 6) as f64),
    }
}

struct Hist { b: ModelBuilder, minted: Vec<Var>, ops: Vec<String>, outs: Vec<String>, tags: Vec<String>, cnames: Vec<String>, linear: bool, div_by_var: bool, abs_cons: Vec<(String, Comparison, Exp, Exp)>, abs_obj: Option<(OptimizationType, Exp)> }

fn has_var(e: &Exp) -> bool { let mut m = IndexMap::new(); gen_model::count_vars(e, &mut m); !m.is_empty() }
/// a division whose divisor mentions a variable (the linearizer's error-vs-pruning order on such models is C01's matter)
fn div_by_var(e: &Exp) -> bool {
    match e {
        Exp::Number(_) | Exp::Variable(_) => false,
        Exp::Abs(x) | Exp::Not(x) | Exp::UnOp(_, x) => div_by_var(x),
        Exp::Min(es) | Exp::Max(es) | Exp::And(es) | Exp::Or(es) => es.iter().any(div_by_var),
        Exp::BinOp(BinOp::Div, a, b) => has_var(b) || div_by_var(a) || div_by_var(b),
        Exp::Xor(a, b) | Exp::Implies(a, b) | Exp::Iff(a, b) | Exp::BinOp(_, a, b) => div_by_var(a) || div_by_var(b),
    }
}

impl Hist {
    fn tag(&mut self, t: &str) { if !self.tags.iter().any(|x| x == t) { self.tags.push(t.to_string()); } }
    /// the handle table handed to `to_builder`: minted handles by index, and (non-linear histories only) unknown indices
    fn table(&self, r: &mut Rng) -> (IndexMap<String, Var>, Vec<String>) {
        let mut m = IndexMap::new();
        let mut names = vec![];
        for v in &self.minted { m.insert(v.index.to_string(), *v); names.push(v.index.to_string()); }
        if !self.linear && r.chance(1, 8) {
            // a handle that was never minted by this builder (or was lost in a panicking add_vars)
            let k = self.minted.len() + r.below(3);
            m.insert(k.to_string(), Var { index: k });
            names.push(k.to_string());
        }
        (m, names)
    }
    fn expr(&mut self, r: &mut Rng, depth: u32) -> (Exp, Expr) {
        let (tab, names) = self.table(r);
        if names.iter().any(|n| n.parse::<usize>().unwrap() >= self.minted.len()) { self.tag("unknown-handle-in-expression"); }
        let e = if self.linear {
            // a linear form over the minted handles
            if names.is_empty() { Exp::Number(r.range(0, 3) as f64) } else {
                let mut e = Exp::Variable(r.pick(&names).clone());
                for _ in 0..r.below(3) {
                    let t = Exp::BinOp(BinOp::Mul, Box::new(Exp::Number(r.range(1, 3) as f64)), Box::new(Exp::Variable(r.pick(&names).clone())));
                    e = Exp::BinOp(if r.chance(2, 3) { BinOp::Add } else { BinOp::Sub }, Box::new(e), Box::new(t));
                }
                e
            }
        } else {
            let special = r.chance(1, 6);
            crate::gen_exp::exp(r, &crate::gen_exp::ExpCfg { vars: names, logic: true, minmax: true, special }, depth)
        };
        let be = to_builder(&e, &tab, r);
        (builder_shape(&e), be)
    }
    fn constraint(&mut self, r: &mut Rng) -> (String, BuilderConstraint) {
        let name = if r.chance(1, 3) { String::new() } else { r.pick(&["c", "d", "cap", "c"]).to_string() + &r.below(3).to_string() };
        self.cnames.push(name.clone());
        let cmps = [Comparison::LessOrEqual, Comparison::GreaterOrEqual, Comparison::Equal, Comparison::Less, Comparison::Greater];
        let (mut l, mut bl) = self.expr(r, 2);
        if self.linear && self.minted.len() >= 1 && r.chance(1, 8) {
            // the one non-linear construct of a linear history: a product of two variables (`NonLinearExpression`)
            let a = *r.pick(&self.minted); let b2 = *r.pick(&self.minted);
            l = Exp::BinOp(BinOp::Mul, Box::new(Exp::Variable(a.index.to_string())), Box::new(Exp::Variable(b2.index.to_string())));
            bl = a * b2;
            self.tag("product-of-variables");
        }
        if div_by_var(&l) { self.div_by_var = true; }
        match r.below(if self.linear { 6 } else { 10 }) {
            0..=5 => {
                let cmp = if self.linear { cmps[r.below(3)] } else { *r.pick(&cmps) };
                let (rr, br) = if self.linear { let k = r.range(0, 6) as f64; (Exp::Number(k), Expr::from(k)) } else { self.expr(r, 1) };
                if div_by_var(&rr) { self.div_by_var = true; }
                self.tag("bc-new");
                self.abs_cons.push((name.clone(), cmp, l.clone(), rr.clone()));
                (sx_bc(&name, cmp, &l, &rr, false), BuilderConstraint::new(bl, cmp, br, name))
            }
            6 | 7 => {
                self.tag("bc-assert");
                (sx_bc(&name, Comparison::Equal, &l, &Exp::Number(1.0), true), BuilderConstraint::new_logic_assertion(bl, name))
            }
            _ => {
                // the fields are public: an assertion flag next to an arbitrary comparison / right-hand side
                let cmp = *r.pick(&cmps);
                let (rr, br) = self.expr(r, 1);
                if div_by_var(&rr) { self.div_by_var = true; }
                let a = r.chance(2, 3);
                self.tag(if a { "bc-raw-assert" } else { "bc-raw" });
                (sx_bc(&name, cmp, &l, &rr, a), BuilderConstraint { name, lhs: bl, constraint_type: cmp, rhs: br, is_logic_assertion: a })
            }
        }
    }
    fn step(&mut self, r: &mut Rng) { let k = r.below(11); self.step_kind(r, k) }
    /// 0-2 add_var, 3-4 add_vars, 5-7 with, 8 with_all, 9 maximize / minimize, 10 satisfy
    fn step_kind(&mut self, r: &mut Rng, kind: usize) {
        let pool = ["x", "y", "z", "x_0", "x_1", "y_1", "w"];
        match kind {
            0..=2 => {
                let name = r.pick(&pool).to_string();
                let ty = hist_type(r, self.linear);
                self.ops.push(format!("(add-var {} {})", sx::q(&name), sx::var_type(&ty)));
                let b = &mut self.b;
                match std::panic::catch_unwind(std::panic::AssertUnwindSafe(|| b.add_var(name.clone(), ty))) {
                    Ok(v) => { self.minted.push(v); self.outs.push(format!("(handles {})", v.index)); self.tag("add-var"); }
                    Err(p) => { self.outs.push(format!("(duplicate {})", sx::q(&dup_name(&p)))); self.tag("add-var-duplicate"); }
                }
            }
            3 | 4 => {
                let name = r.pick(&["x", "y", "v"]).to_string();
                let count = r.below(4);
                let ty = hist_type(r, self.linear);
                self.ops.push(format!("(add-vars {} {} {})", sx::q(&name), count, sx::var_type(&ty)));
                let b = &mut self.b;
                match std::panic::catch_unwind(std::panic::AssertUnwindSafe(|| b.add_vars(&name, count, ty))) {
                    Ok(vs) => {
                        self.outs.push(if vs.is_empty() { "(handles)".into() } else { format!("(handles {})", vs.iter().map(|v| v.index.to_string()).collect::<Vec<_>>().join(" ")) });
                        self.tag(if vs.is_empty() { "add-vars-empty" } else { "add-vars" });
                        self.minted.extend(vs);
                    }
                    Err(p) => { self.outs.push(format!("(duplicate {})", sx::q(&dup_name(&p)))); self.tag("add-vars-duplicate"); }
                }
            }
            5..=7 => {
                let (s, c) = self.constraint(r);
                self.ops.push(format!("(with {})", s));
                self.outs.push("(unit)".into());
                self.b = std::mem::take(&mut self.b).with(c);
                self.tag("with");
            }
            8 => {
                let n = r.below(3);
                let mut ss = vec![]; let mut cs = vec![];
                for _ in 0..n { let (s, c) = self.constraint(r); ss.push(s); cs.push(c); }
                self.ops.push(if ss.is_empty() { "(with-all)".into() } else { format!("(with-all {})", ss.join(" ")) });
                self.outs.push("(unit)".into());
                self.b = std::mem::take(&mut self.b).with_all(cs);
                self.tag(if n == 0 { "with-all-empty" } else { "with-all" });
            }
            9 => {
                // the objective, also through the `sum` helper
                let (e, be) = if r.chance(1, 3) {
                    let k = r.below(4).min(self.minted.len() + 1);
                    let picks: Vec<Var> = (0..k).filter_map(|_| if self.minted.is_empty() { None } else { Some(*r.pick(&self.minted)) }).collect();
                    let be = rooc::builder::sum(picks.clone());
                    let mut it = picks.iter().map(|v| Exp::Variable(v.index.to_string()));
                    let e = match it.next() { None => Exp::Number(0.0), Some(f) => it.fold(f, |a, x| Exp::BinOp(BinOp::Add, Box::new(a), Box::new(x))) };
                    self.tag(if picks.is_empty() { "sum-empty" } else { "sum" });
                    (e, be)
                } else { self.expr(r, 2) };
                if div_by_var(&e) { self.div_by_var = true; }
                let max = r.chance(1, 2);
                self.ops.push(format!("({} {})", if max { "maximize" } else { "minimize" }, sx::exp(&e)));
                self.outs.push("(unit)".into());
                self.abs_obj = Some((if max { OptimizationType::Max } else { OptimizationType::Min }, e.clone()));
                let b = std::mem::take(&mut self.b);
                self.b = if max { b.maximize(be) } else { b.minimize(be) };
                self.tag(if max { "maximize" } else { "minimize" });
            }
            _ => {
                self.ops.push("(satisfy)".into());
                self.outs.push("(unit)".into());
                self.b = std::mem::take(&mut self.b).satisfy();
                self.abs_obj = Some((OptimizationType::Satisfy, Exp::Number(0.0)));
                self.tag("satisfy");
            }
        }
    }
}

fn dup_name(p: &Box<dyn std::any::Any + Send>) -> String {
    let msg = p.downcast_ref::<String>().cloned().or_else(|| p.downcast_ref::<&str>().map(|s| s.to_string())).unwrap_or_default();
    // `a variable named "NAME" already exists; …`
    msg.split('"').nth(1).unwrap_or("?").to_string()
}

fn random_milp(r: &mut Rng) -> MILPValue {
    match r.below(3) { 0 => MILPValue::Bool(r.chance(1, 2)), 1 => MILPValue::Int(r.range(-4, 9) as i32), _ => MILPValue::Real(r.range(-20, 20) as f64 / 4.0) }
}

fn history_cases(r: &mut Rng) -> Vec<Case> { history_cases_with(r, None) }

/// `script = Some(k)`: a LINEAR history that ends with a fixed call pattern - objective then `satisfy` / `satisfy` then objective
/// (the last call must win), `with` then `with_all` and `with_all` then `with` (appending, in call order, repeated names),
/// two objectives in a row, an `add_vars` family after constraints
fn history_cases_with(r: &mut Rng, script: Option<usize>) -> Vec<Case> {
    let linear = script.is_some() || r.chance(2, 5);
    let mut h = Hist { b: ModelBuilder::new(), minted: vec![], ops: vec![], outs: vec![], tags: vec!["history".into()], cnames: vec![], linear, div_by_var: false, abs_cons: vec![], abs_obj: None };
    if linear { h.tag("linear-history"); }
    let span = if r.chance(1, 6) { 24 } else { 9 };
    let n = 2 + r.below(span);
    if script.is_some() { h.step_kind(r, 0); h.step_kind(r, 3); }
    for _ in 0..n { h.step(r); }
    if let Some(k) = script {
        h.tag("scripted-history");
        let tail: &[usize] = match k % 6 { 0 => &[9, 10], 1 => &[10, 9], 2 => &[5, 8, 8], 3 => &[8, 5, 8], 4 => &[9, 9, 5], _ => &[5, 9, 10, 8] };
        for kind in tail { h.step_kind(r, *kind); }
    }
    if h.ops.len() >= 12 { h.tag("long-history"); }
    let model = std::panic::catch_unwind(std::panic::AssertUnwindSafe(|| h.b.clone().into_model()));
    let model_sx = match &model { Ok(m) => sx_rmodel(m), Err(_) => { h.tag("index-panic"); "(index-panic)".to_string() } };
    let head_req = format!("history (ops{}{})", if h.ops.is_empty() { "" } else { " " }, h.ops.join(" "));
    let head_imp = format!("(outcomes{}{}) {}", if h.outs.is_empty() { "" } else { " " }, h.outs.join(" "), model_sx);
    let show = format!("builder history: {}", h.ops.join(" "));
    let mut cases = vec![];
    // the read-back queries: every minted handle + an unknown one; arbitrary expressions; constraint names + an unknown one
    let mut q_handles: Vec<usize> = h.minted.iter().map(|v| v.index).collect();
    q_handles.push(h.minted.len() + r.below(2));
    let save_linear = h.linear; h.linear = false;
    let mut q_exprs = vec![];
    for _ in 0..2 { q_exprs.push(h.expr(r, 3)); }
    h.linear = save_linear;
    let mut q_cnames: Vec<String> = h.cnames.clone(); q_cnames.push("nope".into()); q_cnames.dedup();
    let declared: Vec<String> = match &model { Ok(m) => m.domain().keys().cloned().collect(), Err(_) => vec![] };
    let readback = |sol: &rooc::BuilderSolution<Canned>| -> String {
        let vv = q_handles.iter().map(|i| sol.var_value(Var { index: *i }).map(sx_val).unwrap_or("none".into())).collect::<Vec<_>>().join(" ");
        let nv = q_handles.iter().map(|i| opt_num(sol.numeric_value(Var { index: *i }))).collect::<Vec<_>>().join(" ");
        let ev = q_exprs.iter().map(|(_, be)| sx::num(sol.eval(be))).collect::<Vec<_>>().join(" ");
        let cv = q_cnames.iter().map(|c| opt_num(sol.constraint_value(c))).collect::<Vec<_>>().join(" ");
        let dv = q_cnames.iter().map(|c| opt_num(sol.shadow_price(c))).collect::<Vec<_>>().join(" ");
        let sec = |hd: &str, b: String| if b.is_empty() { format!("({})", hd) } else { format!("({} {})", hd, b) };
        format!("(readback (value {}) {} {} {} {} {})", sx::num(sol.value()), sec("var-values", vv), sec("numeric", nv), sec("evals", ev), sec("cvalues", cv), sec("duals", dv))
    };
    let queries = format!("(handles {}) (exprs {}) (cnames {})", q_handles.iter().map(|i| i.to_string()).collect::<Vec<_>>().join(" "),
        q_exprs.iter().map(|(e, _)| sx::exp(e)).collect::<Vec<_>>().join(" "), q_cnames.iter().map(|c| sx::q(c)).collect::<Vec<_>>().join(" "));
    // (1) a hand-made solution: repeated names (first wins), names of other models, declared variables without a value
    let mut asg = vec![];
    for n in &declared { if r.chance(4, 5) { asg.push(Assignment { name: n.clone(), value: random_milp(r) }); } }
    if r.chance(1, 2) && !declared.is_empty() { asg.push(Assignment { name: r.pick(&declared).clone(), value: random_milp(r) }); h.tag("solution-repeated-name"); }
    if r.chance(1, 3) { asg.insert(0, Assignment { name: "$aux_0".into(), value: random_milp(r) }); }
    let mut rows = IndexMap::new();
    for c in &h.cnames { if r.chance(3, 4) { rows.insert(c.clone(), r.range(-8, 8) as f64 / 2.0); } }
    let mut duals = IndexMap::new();
    for c in &h.cnames { if r.chance(1, 3) { duals.insert(c.clone(), r.range(-8, 8) as f64 / 2.0); } }
    let canned = LpSolution::new(asg, r.range(-9, 9) as f64 / 2.0, rows).with_shadow_prices(duals);
    let solved = std::panic::catch_unwind(std::panic::AssertUnwindSafe(|| h.b.clone().solve_with(Canned(canned.clone()))));
    let mut c = Case::default();
    c.tags = h.tags.clone();
    c.nontrivial = true;
    c.show = show.clone();
    let section = "solution";
    match solved {
        Ok(Ok(sol)) => {
            c.tags.push("readback-canned".into());
            if q_handles.iter().any(|i| sol.var_value(Var { index: *i }).is_none()) { c.tags.push("var-value-none".into()); }
            c.req = format!("{} ({} {} {})", head_req, section, sx_sol(&canned), queries);
            c.imp = format!("(ok {} {})", head_imp, readback(&sol));
            // the first evaluated expression is also judged against the language semantics at the values the handles resolve to
            let top = h.minted.len() + 4;
            let vals: Vec<f64> = (0..top).map(|i| sol.numeric_value(Var { index: i }).unwrap_or(0.0)).collect();
            // (literals far from 1 make the float evaluation overflow / cancel where the exact semantics does not: no verdict there)
            fn tame(e: &Exp) -> bool { match e {
                Exp::Number(v) => *v == 0.0 || (v.abs() >= 1e-3 && v.abs() <= 1e3), Exp::Variable(_) => true,
                Exp::Abs(x) | Exp::Not(x) | Exp::UnOp(_, x) => tame(x),
                Exp::Min(es) | Exp::Max(es) | Exp::And(es) | Exp::Or(es) => es.iter().all(tame),
                Exp::Xor(a, b) | Exp::Implies(a, b) | Exp::Iff(a, b) | Exp::BinOp(_, a, b) => tame(a) && tame(b) } }
            if vals.iter().all(|v| v.is_finite()) && tame(&q_exprs[0].0) && sol.eval(&q_exprs[0].1).is_finite() {
                c.oracle = format!("eval-check {} (vals {}) {}", sx::exp(&q_exprs[0].0), sx::nums(&vals), sx::num(sol.eval(&q_exprs[0].1)));
            }
        }
        Ok(Err(BuilderError::Linearization(e))) => {
            // `linearize()?` comes first: its error is what `solve_with` returns, whatever the solver would say
            c.tags.push("not-linearizable".into());
            c.req = format!("{} (solution {} {})", head_req, sx_sol(&canned), queries);
            c.imp = format!("(ok {} (linearization {}))", head_imp, crate::props::c01::lin_error(&e));
        }
        Ok(Err(BuilderError::Solver(_))) => { c.req = head_req.clone(); c.imp = format!("(ok {})", head_imp); c.impl_violation = Some("the canned solver cannot fail".into()); }
        Err(_) => {
            c.tags.push("solve-panic".into());
            c.req = format!("{} (solution {} {})", head_req, sx_sol(&canned), queries);
            c.imp = format!("(ok {} (solve-panic))", head_imp);
            if model.is_ok() { c.impl_violation = Some("solve_with panicked although into_model succeeded".into()); }
        }
    }
    cases.push(c);
    // (1b) builder ~ text: the calls of a linear history, written down as a program in the documented order (constraints in
    // call order, `with_all` appending its list, the last objective), must compile to the model `into_model` yields (usage
    // counts aside) and, solved through the text door, give every NAMED constraint the activity the builder reads back
    if linear && !h.tags.iter().any(|t| t == "product-of-variables") {
        if let Ok(bm) = &model {
            let names: Vec<String> = bm.domain().keys().cloned().collect();
            let rename = |e: &Exp| -> Exp { fn go(e: &Exp, names: &[String]) -> Exp { match e {
                Exp::Number(_) => e.clone(), Exp::Variable(i) => Exp::Variable(names[i.parse::<usize>().unwrap()].clone()),
                Exp::BinOp(op, a, b) => Exp::BinOp(*op, Box::new(go(a, names)), Box::new(go(b, names))), other => other.clone() } } go(e, &names) };
            let ds: Vec<VarDecl> = bm.domain().iter().map(|(n, d)| VarDecl { name: n.clone(), ty: *d.get_type() }).collect();
            let cons: Vec<rooc::model_transformer::Constraint> = h.abs_cons.iter().map(|(n, cmp, l, rr)| rooc::model_transformer::Constraint::new(rename(l), *cmp, rename(rr), n.clone())).collect();
            let (ot, oe) = h.abs_obj.clone().unwrap_or((OptimizationType::Satisfy, Exp::Number(0.0)));
            let tm_abs = gen_model::build(ot.clone(), rename(&oe), cons, &ds);
            let mut pr = r.fork();
            let text = Printer { r: &mut pr, sp: Spelling { aliases: false, implicit_mul: false, redundant_parens: false, named_consts: false, minimal_parens: false }, consts: vec![] }.program(&tm_abs);
            if let Ok(tm) = RoocParser::new(text.clone()).parse_and_transform(vec![], &IndexMap::new()) {
                let body = |m: &Model| format!("{} {}", m.constraints().iter().map(sx::constraint).collect::<Vec<_>>().join(" "), strip_usage(&sx::domain(m.domain())));
                let mut c = Case::default();
                c.tags = vec!["history".into(), "history-text-twin".into()];
                c.nontrivial = true;
                c.show = format!("{} ~ text: {}", show, text.replace('\n', " ; "));
                c.imp = "(twin)".into();
                let obj_same = matches!(ot, OptimizationType::Satisfy) || sx::exp(&tm.objective().rhs) == sx::exp(&bm.objective().rhs);
                if body(&tm) != body(bm) || !obj_same || sx::opt_type(&tm.objective().objective_type) != sx::opt_type(&bm.objective().objective_type) {
                    c.impl_violation = Some(format!("the model of the builder calls differs from the model of the same program as text: builder {} vs text {}", sx::model(bm), sx::model(&tm)));
                } else if tm.domain().values().all(|d| !d.is_used()) {
                    // no used variable in the text: `auto_solver` decides the constant rows on the spot and reports no row
                    // activities, while the builder (every declaration marked) goes through the MILP path - not compared
                    c.tags.push("history-text-twin-variable-free".into());
                } else if let (Ok(Ok(bsol)), Ok(tsolver)) = (std::panic::catch_unwind(std::panic::AssertUnwindSafe(|| h.b.clone().solve_with(Auto))), RoocSolver::try_new(text.clone())) {
                    if let Ok(tsol) = tsolver.solve_using(rooc::auto_solver) {
                        c.tags.push("history-text-twin-solved".into());
                        for n in h.cnames.iter().filter(|n| !n.is_empty()) {
                            let a = bsol.constraint_value(n); let b2 = tsol.constraints().get(n).copied();
                            let same = match (a, b2) { (Some(x), Some(y)) => (x - y).abs() <= 1e-6 * x.abs().max(1.0), (None, None) => true, _ => false };
                            if !same { c.impl_violation = Some(format!("constraint_value({:?}) differs between the builder ({:?}) and the text door ({:?})", n, a, b2)); }
                        }
                        if (bsol.value() - tsol.value()).abs() > 1e-6 * tsol.value().abs().max(1.0) && !matches!(ot, OptimizationType::Satisfy) {
                            c.impl_violation = Some(format!("optimal value differs between the builder ({}) and the text door ({})", bsol.value(), tsol.value()));
                        }
                    }
                }
                cases.push(c);
            }
        }
    }
    // (2) the real default solver on a linear history: its own solution through the same read-backs
    if linear && model.is_ok() {
        if let Ok(Ok(real)) = std::panic::catch_unwind(std::panic::AssertUnwindSafe(|| h.b.clone().solve_with(Auto))) {
            let inner: LpSolution<MILPValue> = real.solution().clone();
            if let Ok(Ok(sol)) = std::panic::catch_unwind(std::panic::AssertUnwindSafe(|| h.b.clone().solve_with(Canned(inner.clone())))) {
                let mut c = Case::default();
                c.tags = vec!["history".into(), "readback-real".into()];
                c.nontrivial = true;
                c.show = show;
                c.req = format!("{} (solution {} {})", head_req, sx_sol(&inner), queries);
                c.imp = format!("(ok {} {})", head_imp, readback(&sol));
                // the wrapper hands back exactly what the solver returned
                let same = q_handles.iter().all(|i| real.var_value(Var { index: *i }).map(milp) == sol.var_value(Var { index: *i }).map(milp)) && real.value().to_bits() == sol.value().to_bits();
                if !same { c.impl_violation = Some("BuilderSolution of the real solver differs from the one rebuilt from its LpSolution".into()); }
                cases.push(c);
            }
        }
    }
    cases
}

// ======================================================================================================
// the staged PIPE RUNNER with arbitrary (also ill-typed) sequences of the eleven built-in pipes: which results were
// accumulated, where the run stopped and with which `PipeError` (tag mismatch `InvalidData { expected, got }` or the
// pipe's own failure wrapped in its variant).  The Lean model (`Rooc/Pipes.lean`) knows the typing table of the pipes
// and `run_pipe`; the position of a failing stage FUNCTION is handed to it.

use rooc::pipe::{PipeError, Pipeable, StandardLinearModelPipe, StepByStepSimplexPipe, TableauPipe};

fn pipe_case(r: &mut Rng) -> Case {
    let names = ["CompilerPipe", "PreModelPipe", "ModelPipe", "LinearModelPipe", "StandardLinearModelPipe", "TableauPipe",
                 "RealSolver", "StepByStepSimplexPipe", "MILPSolverPipe", "AutoSolverPipe"];
    let make = |n: &str| -> Box<dyn Pipeable> { match n {
        "CompilerPipe" => Box::new(CompilerPipe::new()), "PreModelPipe" => Box::new(PreModelPipe::new()), "ModelPipe" => Box::new(ModelPipe::new()),
        "LinearModelPipe" => Box::new(LinearModelPipe::new()), "StandardLinearModelPipe" => Box::new(StandardLinearModelPipe::new()),
        "TableauPipe" => Box::new(TableauPipe::new()), "RealSolver" => Box::new(RealSolver::new()),
        "StepByStepSimplexPipe" => Box::new(StepByStepSimplexPipe::new()),
        "MILPSolverPipe" => Box::new(MILPSolverPipe::new()), _ => Box::new(AutoSolverPipe::new()) } };
    // what follows what in a well-typed chain
    let next_ok = |last: &str| -> Vec<&'static str> { match last {
        "" => vec!["CompilerPipe"], "CompilerPipe" => vec!["PreModelPipe"], "PreModelPipe" => vec!["ModelPipe"], "ModelPipe" => vec!["LinearModelPipe"],
        "LinearModelPipe" => vec!["StandardLinearModelPipe", "RealSolver", "MILPSolverPipe", "AutoSolverPipe"],
        "StandardLinearModelPipe" => vec!["TableauPipe"], "TableauPipe" => vec!["StepByStepSimplexPipe"], _ => vec![] } };
    let n = r.below(8);
    let mut seq: Vec<&str> = vec![];
    // one run in four: the whole step-by-step simplex preset
    if r.chance(1, 2) {
        seq = vec!["CompilerPipe", "PreModelPipe", "ModelPipe", "LinearModelPipe"];
        match r.below(5) {
            0 | 1 => seq.extend(["StandardLinearModelPipe", "TableauPipe", "StepByStepSimplexPipe"]),
            2 => seq.push("RealSolver"), 3 => seq.push("MILPSolverPipe"), _ => seq.push("AutoSolverPipe"),
        }
    }
    for _ in 0..(if seq.is_empty() { n } else { r.below(2) }) {
        let ok = next_ok(seq.last().copied().unwrap_or(""));
        if !ok.is_empty() && r.chance(5, 6) { seq.push(*r.pick(&ok)); } else { seq.push(*r.pick(&names)); }
    }
    // sources: fine (continuous so that the simplex pipes apply / discrete), a syntax error, an undeclared variable, a product
    let texts = [
        "max x + y\ns.t.\n    c: x + 2 * y <= 4\n    d: x <= 3\ndefine\n    x as NonNegativeReal\n    y as NonNegativeReal",
        "min x\ns.t.\n    c: x + y >= 1\ndefine\n    x as Boolean\n    y as IntegerRange(0, 2)",
        "max x +\ns.t.\n    c: <= 4",
        "max x\ns.t.\n    c: x + q <= 4\ndefine\n    x as Boolean",
        "max x * y\ns.t.\n    c: x + y <= 4\ndefine\n    x as NonNegativeReal\n    y as NonNegativeReal",
        "max x\ns.t.\n    c: x >= 1\ndefine\n    x as NonNegativeReal",
        "min x\ns.t.\n    c: x >= 2\n    d: x <= 1\ndefine\n    x as NonNegativeReal",
        "min x\ns.t.\n    c: x < 2\ndefine\n    x as NonNegativeReal",
        "max x + y\ns.t.\n    c: x + y <= 1\n    d: x + y >= 3\ndefine\n    x as NonNegativeReal\n    y as NonNegativeReal",
        "min y\ns.t.\n    c: y = 2\n    d: y = 5\ndefine\n    y as NonNegativeReal",
        "max x + y\ns.t.\n    c: x - y <= 1\ndefine\n    x as NonNegativeReal\n    y as NonNegativeReal",
        "min x\ns.t.\n    c: x > 1\ndefine\n    x as NonNegativeReal",
        "min x + y\ns.t.\n    c: x + y >= 1\ndefine\n    x as Boolean\n    y as NonNegativeReal",
    ];
    let ti = r.below(texts.len());
    let fns = IndexMap::new();
    let runner = PipeRunner::new(seq.iter().map(|n| make(n)).collect());
    let res = std::panic::catch_unwind(std::panic::AssertUnwindSafe(|| runner.run(PipeableData::String(texts[ti].to_string()), &PipeContext::new(vec![], &fns))));
    let ty = |d: &PipeableData| format!("{:?}", d.get_type());
    let tys = |v: &Vec<PipeableData>| v.iter().map(|d| ty(d)).collect::<Vec<_>>().join(" ");
    let mut c = Case::default();
    c.show = format!("PipeRunner [{}] on text #{}", seq.join(", "), ti);
    c.tags = vec!["pipe-runner".into()];
    c.nontrivial = !seq.is_empty();
    let mut fail = "none".to_string();
    match res {
        Err(_) => { c.impl_violation = Some(format!("PipeRunner panicked: {}", c.show)); c.imp = "(panic)".into(); }
        Ok(Ok(rs)) => { c.imp = format!("(ok {})", tys(&rs)); c.tags.push("pipe-ok".into()); }
        Ok(Err((e, rs))) => {
            let ev = match &e {
                PipeError::InvalidData { expected, got } => { c.tags.push("pipe-invalid-data".into()); format!("(invalid-data {:?} {:?})", expected, got) }
                other => {
                    fail = format!("(fail {})", rs.len() - 1);
                    let v = match other {
                        PipeError::EmptyPipeData => "EmptyPipeData", PipeError::CompilationError { .. } => "CompilationError", PipeError::TransformError { .. } => "TransformError",
                        PipeError::LinearizationError(_) => "LinearizationError", PipeError::StandardizationError(_) => "StandardizationError",
                        PipeError::CanonicalizationError(_) => "CanonicalizationError", PipeError::StepByStepSimplexError(..) => "StepByStepSimplexError",
                        PipeError::SolverError(_) => "SolverError", PipeError::Other(_) => "Other", PipeError::InvalidData { .. } => unreachable!(),
                    };
                    c.tags.push(format!("pipe-{}", v));
                    format!("(stage {})", v)
                }
            };
            c.imp = format!("(err {} (results {}))", ev, tys(&rs));
        }
    }
    c.req = format!("run-pipe (pipes{}{}) String {}", if seq.is_empty() { "" } else { " " }, seq.join(" "), fail);
    c
}

// ======================================================================================================
// the DATA-CARRYING doors: constants supplied through the API (`RoocParser::parse_and_transform(constants, ..)`,
// `RoocSolver::solve_with_data_using(.., constants, ..)`, `PipeContext::new(constants, ..)`) with `where` constants of
// the text that DEPEND on them, against the same program with every constant written in the text.

fn data_doors(r: &mut Rng) -> Case {
    use rooc::{Constant, Primitive};
    // API constants: a number, an integer, sometimes a second number
    let cap = r.range(1, 6);
    let step = r.range(1, 3);
    let k = r.range(0, 3);
    // (an `IntegerRange` bound must be of integer kind: `cap` is then supplied as `Primitive::Integer`, as the literal `4` of the
    // inlined text is; a `Number` there is rejected by the type-checking doors only - C19's matter, not a door disagreement)
    let cap_in_domain = r.chance(1, 2);
    let mut api: Vec<(&str, Primitive, String)> = vec![
        ("cap", if !cap_in_domain && r.chance(1, 2) { Primitive::Number(cap as f64) } else { Primitive::Integer(cap) }, cap.to_string()),
        ("step", Primitive::Number(step as f64), step.to_string()),
    ];
    // one run in three: a HUGE whole-valued number through the API (a big-M, "no limit"), beyond the i64 range, against a
    // coefficient of the same magnitude so that it decides the optimum: `scale * y <= big` means `y <= lim`
    let huge = r.chance(1, 3);
    let lim = r.range(1, 9);
    let big: f64 = *r.pick(&[1e20, 9223372036854775808.0, 1.8446744073709552e19, 1e19, 4e18]);
    let flit = |v: f64| -> String { let t = format!("{}", v); if t.contains('.') || t.contains('e') { t } else { format!("{}.0", t) } };
    if huge { api.push(("big", Primitive::Number(big), flit(big))); }
    // `where` constants of the text that refer to the API ones (and to each other)
    let derived = match r.below(4) {
        0 => format!("    let total = cap * 2 - {}\n", k),
        1 => format!("    let total = cap + step\n"),
        2 => format!("    let half = cap - {}\n    let total = half + step * 2\n", k.min(cap)),
        _ => format!("    let total = cap * step + {}\n", k),
    };
    // where the constants are used: a right-hand side, a coefficient, a domain bound
    let dom_hi = if cap_in_domain { "cap + 4".to_string() } else { "10".to_string() };
    let obj = match r.below(3) { 0 => "max x + 2 * y", 1 => "max step * x + y", _ => "min x - y" };
    let extra = if huge { format!("    e: {} * y <= big\n", flit(big / lim as f64)) } else { String::new() };
    let body = format!("{}\ns.t.\n    c: x + y <= total\n    d: y <= cap\n{}", obj, extra);
    let decl = format!("define\n    x as IntegerRange(0, {})\n    y as IntegerRange(0, 10)", dom_hi);
    let text_api = format!("{}where\n{}{}", body, derived, decl);
    let inlined: String = api.iter().map(|(n, _, v)| format!("    let {} = {}\n", n, v)).collect();
    let text_inline = format!("{}where\n{}{}{}", body, inlined, derived, decl);
    let consts = || -> Vec<Constant> { api.iter().map(|(n, p, _)| Constant::from_primitive(n, p.clone())).collect() };
    let fns = IndexMap::new();
    let milp_out = |res: Result<rooc::LpSolution<MILPValue>, String>| -> String { match res { Ok(s) => format!("(solution {})", sx::num(s.value())), Err(e) => e } };
    let guard = |f: &mut dyn FnMut() -> String| -> String { std::panic::catch_unwind(std::panic::AssertUnwindSafe(|| f())).unwrap_or("(panic)".to_string()) };
    let short = |s: String| -> String { sx::q(&s.replace("SpannedError { spanned_error: ", "").chars().take(110).collect::<String>()) };
    // door A: parse_and_transform with the constants, then the compiler and the default solver
    let mut model_a: Option<Model> = None;
    let o_direct = guard(&mut || match RoocParser::new(text_api.clone()).parse_and_transform(consts(), &fns) {
        Err(e) => format!("(compile-error {})", short(e)),
        Ok(m) => { model_a = Some(m.clone()); match Linearizer::linearize(m) { Err(e) => format!("(compile-error linearize {})", crate::props::c01::lin_error(&e)), Ok(lm) => milp_out(rooc::auto_solver(&lm).map_err(|e| solver_error(&e))) } }
    });
    // door B: the one-shot solver with data
    let o_solver = guard(&mut || match RoocSolver::try_new(text_api.clone()) {
        Err(e) => format!("(compile-error parse {})", short(format!("{:?}", e))),
        Ok(s) => match s.solve_with_data_using(rooc::auto_solver, consts(), &fns) {
            Ok(sol) => format!("(solution {})", sx::num(sol.value())),
            Err(RoocSolverError::Transform(e)) => format!("(compile-error transform {})", short(format!("{:?}", e))),
            Err(RoocSolverError::Linearization(e)) => format!("(compile-error linearize {})", crate::props::c01::lin_error(&e)),
            Err(RoocSolverError::Solver(e)) => solver_error(&e),
        },
    });
    // door C: the staged runner with a context that carries the constants
    let o_pipe = guard(&mut || {
        let runner = PipeRunner::new(vec![Box::new(CompilerPipe::new()), Box::new(PreModelPipe::new()), Box::new(ModelPipe::new()), Box::new(LinearModelPipe::new()), Box::new(AutoSolverPipe::new())]);
        match runner.run(PipeableData::String(text_api.clone()), &PipeContext::new(consts(), &fns)) {
            Ok(mut res) => match res.pop() { Some(PipeableData::MILPSolution(sol)) => format!("(solution {})", sx::num(sol.value())), _ => "(pipe-no-solution)".into() },
            Err((rooc::pipe::PipeError::SolverError(se), _)) => solver_error(&se),
            Err((rooc::pipe::PipeError::TransformError { error, .. }, _)) => format!("(compile-error transform {})", short(format!("{:?}", error))),
            Err((e, _)) => format!("(pipe-error {})", short(format!("{:?}", e))),
        }
    });
    // door D: the same program with the constants written in the text
    let mut model_d: Option<Model> = None;
    let o_inline = guard(&mut || match RoocParser::new(text_inline.clone()).parse_and_transform(vec![], &fns) {
        Err(e) => format!("(compile-error {})", short(e)),
        Ok(m) => { model_d = Some(m.clone()); match Linearizer::linearize(m) { Err(e) => format!("(compile-error linearize {})", crate::props::c01::lin_error(&e)), Ok(lm) => milp_out(rooc::auto_solver(&lm).map_err(|e| solver_error(&e))) } }
    });
    let mut c = Case::default();
    c.show = format!("API constants cap={:?} step={:?} ; {}", api[0].1, api[1].1, text_api.replace('\n', " ; "));
    c.imp = format!("(data-doors (direct {}) (roocsolver {}) (pipe {}) (inlined {}))", o_direct, o_solver, o_pipe, o_inline);
    c.tags = vec!["data-doors".into(), outcome_class(&o_inline)];
    if huge { c.tags.push("data-doors-huge-constant".into()); }
    c.nontrivial = o_inline.starts_with("(solution") || o_inline == "(infeasible)";
    let all = [&o_direct, &o_solver, &o_pipe, &o_inline];
    let cls: Vec<String> = all.iter().map(|o| outcome_class(o)).collect();
    if all.iter().any(|o| o.as_str() == "(panic)") { c.impl_violation = Some(format!("a data-carrying front door panicked: {}", c.imp)); }
    else if cls.iter().any(|x| *x != cls[3]) { c.impl_violation = Some(format!("data-carrying front doors disagree with the inlined program on the verdict: {}", c.imp)); }
    else if let Some(v) = outcome_value(&o_inline) {
        if all.iter().any(|o| outcome_value(o).map(|w| (w - v).abs() > 1e-6 * v.abs().max(1.0)).unwrap_or(true)) { c.impl_violation = Some(format!("data-carrying front doors disagree on the optimal value: {}", c.imp)); }
    }
    if c.impl_violation.is_none() {
        if let (Some(a), Some(d)) = (&model_a, &model_d) {
            if sx::model(a) != sx::model(d) { c.impl_violation = Some(format!("constants through the API and in the text compile to different models: {} vs {}", sx::model(a), sx::model(d))); }
            // the answer is also judged by the reference interpreter
            c.oracle = format!("ref {} {}", sx::model(d), if o_inline.starts_with("(solution") { String::new() } else { o_inline.clone() });
            if o_inline.starts_with("(solution") { c.oracle = String::new(); }
        }
    }
    c
}

// ======================================================================================================
// the builder's SOLVER WRAPPERS: `Microlp::new()` (no explicit gap), `Microlp::new().with_mip_gap(0.0)`, `Auto` and the text
// door's `solve_milp_lp_problem` must prove the same optimum on a MILP whose near-optimal solutions are close together
// RELATIVE to the objective (large base values + small bonuses, a cardinality limit, pairwise conflicts: a fractional root
// LP, so that an early incumbent is not optimal).

const GAP_BLOCK: usize = 32;

struct GapInst { family: usize, n: usize, values: Vec<f64>, k: usize, conflicts: Vec<(usize, usize)>, weights: Vec<i64>, wcap: i64 }

fn gap_instance(r: &mut Rng, family: usize) -> GapInst {
    // families (rotating): 0 = the five-item shape (cardinality 3, conflict triangle 0-2-4), 1 = 6-8 items, triangle + pairs,
    // 2 = a weight row instead of the cardinality row (knapsack), 3 = two triangles
    let n = match family { 0 => 5, 1 => 6 + r.below(3), 2 => 5 + r.below(3), _ => 7 + r.below(2) };
    let base = *r.pick(&[1000000.0, 2000000.0, 5000000.0, 10000000.0]);
    // small DISTINCT bonuses
    let mut bonus: Vec<i64> = vec![];
    while bonus.len() < n { let b = r.range(1, 40); if !bonus.contains(&b) { bonus.push(b); } }
    let values: Vec<f64> = bonus.iter().map(|b| base + *b as f64).collect();
    let k = match family { 0 => 3, _ => 2 + r.below(n - 3) };
    let mut conflicts: Vec<(usize, usize)> = vec![(0, 2), (0, 4), (2, 4)];
    if family == 3 { conflicts.extend([(1, 3), (1, 5), (3, 5)]); }
    if family != 0 { for _ in 0..r.below(3) { let a = r.below(n); let b = r.below(n); if a != b && !conflicts.contains(&(a.min(b), a.max(b))) { conflicts.push((a.min(b), a.max(b))); } } }
    let weights: Vec<i64> = (0..n).map(|_| r.range(2, 5)).collect();
    let wcap = weights.iter().sum::<i64>() / 2;
    GapInst { family, n, values, k, conflicts, weights, wcap }
}

fn gap_build(g: &GapInst) -> (ModelBuilder, Vec<Var>) {
    let mut b = ModelBuilder::new();
    let x = b.add_vars("x", g.n, VariableType::Boolean);
    let mut b = b.maximize(rooc::builder::sum(x.iter().zip(&g.values).map(|(xi, v)| *v * *xi)));
    if g.family == 2 { b = b.with(BuilderConstraint::new(rooc::builder::sum(x.iter().zip(&g.weights).map(|(v, w)| (*w as f64) * *v)), Comparison::LessOrEqual, Expr::from(g.wcap as f64), "card".into())); }
    else { b = b.with(BuilderConstraint::new(rooc::builder::sum(x.iter().map(|v| Expr::from(*v))), Comparison::LessOrEqual, Expr::from(g.k as f64), "card".into())); }
    for (a, c) in &g.conflicts { b = b.with(BuilderConstraint::new(x[*a] + x[*c], Comparison::LessOrEqual, Expr::from(1.0), String::new())); }
    (b, x)
}

fn gap_doors(r: &mut Rng, k_index: usize) -> Case {
    use rooc::Microlp;
    // GAP-SENSITIVE instances by construction: a candidate is kept only if microlp with an EXPLICIT relative gap of 1e-4
    // (`with_mip_gap(1e-4)`, a legitimate setting on the unchanged code) stops at an incumbent that is NOT the optimum the exact
    // search proves - i.e. the 1e-4 gap provably admits a non-optimal solution that microlp's search order returns first.
    // A wrapper that silently applies such a gap by default is then caught on every one of them.
    let family = k_index % 4;
    let solve = |g: &GapInst, gap: f64| -> Option<f64> { std::panic::catch_unwind(std::panic::AssertUnwindSafe(|| gap_build(g).0.solve_with(Microlp::new().with_mip_gap(gap)).ok().map(|s| s.value()))).ok().flatten() };
    let mut g = gap_instance(r, family);
    let mut sensitive = false;
    for _ in 0..80 {
        if let (Some(a), Some(b)) = (solve(&g, 1e-4), solve(&g, 0.0)) { if (a - b).abs() > 0.5 { sensitive = true; break; } }
        let f2 = if family == 2 && r.chance(1, 2) { 0 } else { family };
        g = gap_instance(r, f2);
    }
    let (family, n, k) = (g.family, g.n, g.k);
    let (values, conflicts, weights, wcap) = (g.values.clone(), g.conflicts.clone(), g.weights.clone(), g.wcap);
    let build = || gap_build(&g);
    let text = format!("max {}\ns.t.\n    card: {} <= {}\n{}define\n    {} as Boolean",
        (0..n).map(|i| format!("{} * x_{}", values[i] as i64, i)).collect::<Vec<_>>().join(" + "),
        if family == 2 { (0..n).map(|i| format!("{} * x_{}", weights[i], i)).collect::<Vec<_>>().join(" + ") } else { (0..n).map(|i| format!("x_{}", i)).collect::<Vec<_>>().join(" + ") }, if family == 2 { wcap as usize } else { k },
        conflicts.iter().map(|(a, c)| format!("    x_{} + x_{} <= 1\n", a, c)).collect::<String>(),
        (0..n).map(|i| format!("x_{}", i)).collect::<Vec<_>>().join(", "));
    let run = |f: &mut dyn FnMut() -> Result<f64, String>| -> Result<f64, String> { std::panic::catch_unwind(std::panic::AssertUnwindSafe(|| f())).unwrap_or(Err("(panic)".into())) };
    let berr = |e: BuilderError| match e { BuilderError::Solver(e) => solver_error(&e), BuilderError::Linearization(e) => crate::props::c01::lin_error(&e) };
    let mut ref_outcome = String::new();
    let o_default = run(&mut || { let (b, x) = build(); b.solve_with(Microlp::new()).map(|s| {
        let asg = x.iter().enumerate().map(|(i, v)| format!("({} {})", sx::q(&format!("x_{}", i)), sx::num(s.numeric_value(*v).unwrap_or(f64::NAN)))).collect::<Vec<_>>().join(" ");
        ref_outcome = format!("(solution {} (assign {}))", sx::num(s.value()), asg);
        s.value() }).map_err(berr) });
    let o_exact = run(&mut || build().0.solve_with(Microlp::new().with_mip_gap(0.0)).map(|s| s.value()).map_err(berr));
    let o_auto = run(&mut || build().0.solve_with(Auto).map(|s| s.value()).map_err(berr));
    let o_text = run(&mut || match RoocSolver::try_new(text.clone()) { Err(e) => Err(format!("(parse {:?})", e).chars().take(60).collect()), Ok(s) => match s.solve_using(rooc::solve_milp_lp_problem) {
        Ok(sol) => Ok(sol.value()), Err(RoocSolverError::Solver(e)) => Err(solver_error(&e)), Err(_) => Err("(compile-error)".into()) } });
    let mut c = Case::default();
    c.show = text.replace('\n', " ; ");
    c.imp = format!("(gap-doors (microlp-default {:?}) (microlp-gap0 {:?}) (auto {:?}) (text-milp {:?}))", o_default, o_exact, o_auto, o_text);
    c.tags = vec!["gap-doors".into(), format!("gap-family-{}", family)];
    if sensitive { c.tags.push("gap-sensitive".into()); }
    c.nontrivial = o_default.is_ok();
    let all = [&o_default, &o_exact, &o_auto, &o_text];
    match &o_text {
        Ok(v) => { if all.iter().any(|o| match o { Ok(w) => (w - v).abs() > 1e-6, Err(_) => true }) { c.impl_violation = Some(format!("the builder's solver wrappers and the text door disagree on the optimum: {}", c.imp)); } }
        Err(e) => { if all.iter().any(|o| match o { Err(f) => f != e, Ok(_) => true }) { c.impl_violation = Some(format!("the builder's solver wrappers and the text door disagree on the verdict: {}", c.imp)); } }
    }
    // the default wrapper's answer is also judged by the reference interpreter (2^n points)
    if !ref_outcome.is_empty() {
        if let Ok(tm) = RoocParser::new(text.clone()).parse_and_transform(vec![], &IndexMap::new()) { c.oracle = format!("ref {} {}", sx::model(&tm), ref_outcome); }
    }
    c
}

// ======================================================================================================
// `BuilderSolution::eval` / `numeric_value` at solution values a hair away from an integer (2.5e-7, 3 - 2.5e-7, …): `eval(x)`
// must be exactly `numeric_value(x)`, and `eval(x * 1e9)` the scaled value (the language semantics, judged by the exact oracle).
// The solution is handed in through a `Solver` that returns it, so the values are exactly the ones chosen.

fn tiny_eval_probe(r: &mut Rng, k: usize) -> Case {
    let eps = *r.pick(&[2.5e-7, 4e-7, 1e-7, 7.5e-7, 9e-7]);
    let near = r.range(-3, 5) as f64;
    let vals = [if k % 2 == 0 { eps } else { -eps }, near - eps, near + eps];
    let mut b = ModelBuilder::new();
    let hs: Vec<Var> = ["dose", "p", "q"].iter().map(|n| b.add_var(*n, VariableType::Real(-10.0, 10.0))).collect();
    let b = b.satisfy().with(BuilderConstraint::new(hs[0] + hs[1] + hs[2], Comparison::LessOrEqual, Expr::from(100.0), "c".into()));
    let asg: Vec<Assignment<MILPValue>> = ["dose", "p", "q"].iter().zip(&vals).map(|(n, v)| Assignment { name: n.to_string(), value: MILPValue::Real(*v) }).collect();
    let canned = LpSolution::new(asg, 0.0, IndexMap::new());
    let which = k % 3;
    let scale = 1e9;
    // expressions: the bare handle, the handle scaled, the distance to the nearby integer scaled
    let (e, be): (Exp, Expr) = match (k / 3) % 3 {
        0 => (Exp::Variable(which.to_string()), Expr::from(hs[which])),
        1 => (Exp::BinOp(BinOp::Mul, Box::new(Exp::Variable(which.to_string())), Box::new(Exp::Number(scale))), hs[which] * scale),
        _ => { let c = if which == 0 { 0.0 } else { near };
               (Exp::BinOp(BinOp::Mul, Box::new(Exp::BinOp(BinOp::Sub, Box::new(Exp::Variable(which.to_string())), Box::new(Exp::Number(c)))), Box::new(Exp::Number(scale))), (hs[which] - c) * scale) }
    };
    let mut c = Case::default();
    c.tags = vec!["tiny-eval-probe".into()];
    c.nontrivial = true;
    c.show = format!("solution.eval({}) with dose={:e} p={:e} q={:e}", e, vals[0], vals[1], vals[2]);
    match std::panic::catch_unwind(std::panic::AssertUnwindSafe(|| b.solve_with(Canned(canned)))) {
        Ok(Ok(sol)) => {
            let got = sol.eval(&be);
            c.req = format!("eval-expr {} (vals {})", sx::exp(&e), sx::nums(&vals));
            c.imp = format!("(ok {})", sx::num(got));
            c.oracle = format!("eval-check {} (vals {}) {}", sx::exp(&e), sx::nums(&vals), sx::num(got));
            for (i, h) in hs.iter().enumerate() {
                let a = sol.eval(&Expr::from(*h)); let n2 = sol.numeric_value(*h);
                if Some(a.to_bits()) != n2.map(|x| x.to_bits()) { c.impl_violation = Some(format!("eval(handle {}) = {:e} but numeric_value = {:?}", i, a, n2)); }
            }
        }
        _ => { c.imp = "(no-solution)".into(); c.impl_violation = Some("solve_with on a linear satisfy model with a canned solution failed".into()); }
    }
    c
}

// ======================================================================================================
// every arm of the `vars!` macro - scalar and array forms of bool / real(min,max) / real / nonneg(min,max) / nonneg / int(min,max),
// bounded ranges with a NEGATIVE minimum included - against the same declarations made with `add_var` / `add_vars`, and against
// the Lean state machine.

fn vars_macro_case(r: &mut Rng, k: usize) -> Case {
    let lo = -(r.range(1, 6) as f64) - 0.5; let hi = r.range(1, 6) as f64;
    let nlo = r.range(0, 2) as f64; let nhi = nlo + r.range(1, 5) as f64;
    let ilo = r.range(-4, 0) as i32; let ihi = ilo + r.range(0, 6) as i32;
    let cnt = 1 + r.below(3);
    let mut m = ModelBuilder::new();
    if k % 2 == 0 {
        rooc::vars! { m =>
            a: bool;
            b: real(lo, hi);
            c: real;
            d: nonneg(nlo, nhi);
            e: nonneg;
            f: int(ilo, ihi);
            ga[cnt]: bool;
            gb[cnt]: real(lo, hi);
            gc[cnt]: real;
            gd[cnt]: nonneg(nlo, nhi);
            ge[cnt]: nonneg;
            gf[cnt]: int(ilo, ihi);
        };
        let _ = (a, b, c, d, e, f, &ga, &gb, &gc, &gd, &ge, &gf);
    } else {
        rooc::vars! { m =>
            gb[cnt]: real(lo, hi);
            a: bool;
            gf[cnt]: int(ilo, ihi);
            b: real(lo, hi);
            gd[cnt]: nonneg(nlo, nhi);
            gc[cnt]: real;
            f: int(ilo, ihi);
            ge[cnt]: nonneg;
            ga[cnt]: bool;
            e: nonneg;
            d: nonneg(nlo, nhi);
            c: real;
        };
        let _ = (a, b, c, d, e, f, &ga, &gb, &gc, &gd, &ge, &gf);
    }
    // the same declarations through the plain API, in the same order
    let ty = |n: &str| -> VariableType { match n.trim_start_matches('g') {
        "a" => VariableType::Boolean, "b" => VariableType::Real(lo, hi), "c" => VariableType::Real(f64::NEG_INFINITY, f64::INFINITY),
        "d" => VariableType::NonNegativeReal(nlo, nhi), "e" => VariableType::NonNegativeReal(0.0, f64::INFINITY), _ => VariableType::IntegerRange(ilo, ihi) } };
    let order: Vec<&str> = if k % 2 == 0 { vec!["a", "b", "c", "d", "e", "f", "ga", "gb", "gc", "gd", "ge", "gf"] } else { vec!["gb", "a", "gf", "b", "gd", "gc", "f", "ge", "ga", "e", "d", "c"] };
    let mut plain = ModelBuilder::new();
    let mut ops = vec![];
    for n in &order {
        if n.len() == 2 { plain.add_vars(n, cnt, ty(n)); ops.push(format!("(add-vars {} {} {})", sx::q(n), cnt, sx::var_type(&ty(n)))); }
        else { plain.add_var(*n, ty(n)); ops.push(format!("(add-var {} {})", sx::q(n), sx::var_type(&ty(n)))); }
    }
    let mm = m.into_model(); let pm = plain.into_model();
    let mut c = Case::default();
    c.tags = vec!["vars-macro".into()];
    c.nontrivial = true;
    c.show = format!("vars! {{ … }} with real({}, {}) nonneg({}, {}) int({}, {}) count {} order {}", lo, hi, nlo, nhi, ilo, ihi, cnt, k % 2);
    // the Lean state machine replays the plain calls; the macro's model is the implementation's answer
    c.req = format!("history (ops {})", ops.join(" "));
    let outs: Vec<String> = { let mut next = 0usize; order.iter().map(|n| if n.len() == 2 { let s = format!("(handles {})", (next..next + cnt).map(|i| i.to_string()).collect::<Vec<_>>().join(" ")); next += cnt; s } else { next += 1; format!("(handles {})", next - 1) }).collect() };
    c.imp = format!("(ok (outcomes {}) {})", outs.join(" "), sx_rmodel(&mm));
    if sx::model(&mm) != sx::model(&pm) { c.impl_violation = Some(format!("the `vars!` macro declares something else than add_var / add_vars: macro {} vs plain {}", sx::domain(mm.domain()), sx::domain(pm.domain()))); }
    c
}

// ======================================================================================================
// the `sum` helper on lists that MIX variable terms with Number entries (negative, zero and positive totals, numbers first,
// last and in between, numbers only): the tree must be the left-nested `+` of the entries in order - compared with the
// expression built with the `+` operator, with the Lean state machine, and (objective offset, right-hand side) with the text door.

fn sum_helper_case(r: &mut Rng, k: usize) -> Case {
    let mut b = ModelBuilder::new();
    let hs: Vec<Var> = ["x", "y", "z"].iter().map(|n| b.add_var(*n, VariableType::IntegerRange(0, 4))).collect();
    let names: Vec<String> = ["x", "y", "z"].iter().map(|n| n.to_string()).collect();
    // the entries
    let n_items = 2 + r.below(4);
    let mut items: Vec<(Exp, Expr)> = vec![];
    let target = match k % 3 { 0 => -1, 1 => 0, _ => 1 };           // sign of the total of the Number entries
    let mut nums: Vec<f64> = vec![];
    for _ in 0..n_items {
        if r.chance(1, 2) {
            let i = r.below(3); let c = r.range(1, 4) as f64;
            if r.chance(1, 3) { items.push((Exp::Variable(i.to_string()), Expr::from(hs[i]))); }
            else { items.push((Exp::BinOp(BinOp::Mul, Box::new(Exp::Number(c)), Box::new(Exp::Variable(i.to_string()))), c * hs[i])); }
        } else { let v = r.range(-10, 10) as f64; nums.push(v); items.push((Exp::Number(v), Expr::from(v))); }
    }
    // steer the total of the numbers
    let total: f64 = nums.iter().sum();
    let fix = match target { -1 if total >= 0.0 => Some(-total - r.range(1, 5) as f64), 0 if total != 0.0 => Some(-total), 1 if total <= 0.0 => Some(-total + r.range(1, 5) as f64), _ => None };
    if let Some(v) = fix { let at = r.below(items.len() + 1); items.insert(at, (Exp::Number(v), Expr::from(v))); }
    if k % 7 == 6 { items.retain(|(e, _)| matches!(e, Exp::Number(_))); if items.is_empty() { items.push((Exp::Number(-3.0), Expr::from(-3.0))); } }   // numbers only
    let abs_sum = { let mut it = items.iter().map(|(e, _)| e.clone()); let f = it.next().unwrap(); it.fold(f, |a, x| Exp::BinOp(BinOp::Add, Box::new(a), Box::new(x))) };
    let via_sum = rooc::builder::sum(items.iter().map(|(_, be)| be.clone()).collect::<Vec<Expr>>());
    let via_plus = { let mut it = items.iter().map(|(_, be)| be.clone()); let f = it.next().unwrap(); it.fold(f, |a, x| a + x) };
    let rhs = r.range(0, 12) as f64;
    let mk = |e: Expr, b: ModelBuilder| b.maximize(e.clone()).with(BuilderConstraint::new(e, Comparison::LessOrEqual, Expr::from(rhs), "cap".into()));
    let b_sum = mk(via_sum, b.clone()); let b_plus = mk(via_plus, b.clone());
    let m_sum = b_sum.clone().into_model(); let m_plus = b_plus.clone().into_model();
    let mut c = Case::default();
    c.tags = vec!["sum-helper".into(), format!("sum-helper-total-{}", match target { -1 => "negative", 0 => "zero", _ => "positive" })];
    c.nontrivial = true;
    c.show = format!("sum([{}]) ; maximize it subject to it <= {}", items.iter().map(|(e, _)| format!("{}", e)).collect::<Vec<_>>().join(", "), rhs);
    // the Lean state machine on the abstract left-nested tree
    let vars = names.iter().map(|n| format!("(add-var {} (int 0 4))", sx::q(n))).collect::<Vec<_>>().join(" ");
    c.req = format!("history (ops {} (maximize {}) (with {}))", vars, sx::exp(&abs_sum), sx_bc("cap", Comparison::LessOrEqual, &abs_sum, &Exp::Number(rhs), false));
    c.imp = format!("(ok (outcomes (handles 0) (handles 1) (handles 2) (unit) (unit)) {})", sx_rmodel(&m_sum));
    if sx::model(&m_sum) != sx::model(&m_plus) {
        c.impl_violation = Some(format!("sum(..) builds another expression than the entries joined with `+`: {} vs {}", sx::exp(&m_sum.objective().rhs), sx::exp(&m_plus.objective().rhs)));
    } else {
        // the same program as text: optimal value (objective offset) and verdict (right-hand side)
        let rename = |e: &Exp| index_to_name(e, &names);
        let tm = gen_model::build(OptimizationType::Max, rename(&abs_sum), vec![rooc::model_transformer::Constraint::new(rename(&abs_sum), Comparison::LessOrEqual, Exp::Number(rhs), "cap".into())],
            &names.iter().map(|n| VarDecl { name: n.clone(), ty: VariableType::IntegerRange(0, 4) }).collect::<Vec<_>>());
        let mut pr = r.fork();
        let text = Printer { r: &mut pr, sp: Spelling { aliases: false, implicit_mul: false, redundant_parens: false, named_consts: false, minimal_parens: false }, consts: vec![] }.program(&tm);
        let o_text = solve_text(&text);
        let o_b = match std::panic::catch_unwind(std::panic::AssertUnwindSafe(|| b_sum.solve_with(Auto))) { Ok(Ok(s)) => format!("(solution {})", sx::num(s.value())), Ok(Err(BuilderError::Solver(e))) => solver_error(&e), Ok(Err(BuilderError::Linearization(e))) => crate::props::c01::lin_error(&e), Err(_) => "(panic)".into() };
        if outcome_class(&o_b) != outcome_class(&o_text) { c.impl_violation = Some(format!("builder (sum helper) and text door disagree on the verdict: {} vs {} on {}", o_b, o_text, text.replace('\n', " ; "))); }
        else if let (Some(a), Some(t)) = (outcome_value(&o_b), outcome_value(&o_text)) { if (a - t).abs() > 1e-6 * t.abs().max(1.0) { c.impl_violation = Some(format!("builder (sum helper) and text door disagree on the optimum: {} vs {} on {}", a, t, text.replace('\n', " ; "))); } }
    }
    c
}

fn index_to_name(e: &Exp, names: &[String]) -> Exp {
    match e {
        Exp::Number(_) => e.clone(),
        Exp::Variable(i) => Exp::Variable(names[i.parse::<usize>().unwrap()].clone()),
        Exp::BinOp(op, a, b) => Exp::BinOp(*op, Box::new(index_to_name(a, names)), Box::new(index_to_name(b, names))),
        other => other.clone(),
    }
}
