//! C10 — algebraic rewrites preserve meaning: `Exp::simplify`, `Exp::flatten`.
use crate::case::Case;
use crate::gen_exp::{self, ExpCfg};
use crate::rng::Rng;
use crate::sx;
use rooc::model_transformer::Exp;

fn one(e: &Exp, which: &str, tag: &str) -> Case {
    let req_e = sx::exp(e);
    let out = if which == "simplify" { e.simplify() } else { e.clone().flatten() };
    let out_s = sx::exp(&out);
    let mut c = Case::default();
    c.req = format!("{} {}", which, req_e);
    c.imp = format!("(ok {})", out_s);
    c.oracle = format!("check-rewrite {} {}", req_e, out_s);
    c.nontrivial = out_s != req_e;
    c.tags = vec![tag.to_string(), which.to_string(), if c.nontrivial { "rewritten".into() } else { "unchanged".into() }];
    c.show = format!("{}({})", which, e);
    if which == "simplify" {
        // idempotence, checked on the implementation directly
        let twice = out.simplify();
        if sx::exp(&twice) != out_s {
            c.impl_violation = Some(format!("simplify not idempotent: {} -> {} -> {}", e, out, twice));
        }
    }
    c
}

pub fn generate(seed: u64, n: usize, thorough: bool, _corpus: Option<&str>) -> Vec<Case> {
    let mut r = Rng::new(seed);
    let mut cases = vec![];
    // exhaustive small trees
    let leaves = vec![
        Exp::Number(0.0), Exp::Number(1.0), Exp::Number(-0.0), Exp::Number(2.0),
        Exp::Variable("x".into()), Exp::Variable("y".into()),
    ];
    let size = if thorough { 4 } else { 3 };
    for e in gen_exp::enumerate(size, &leaves) {
        cases.push(one(&e, "simplify", "exhaustive"));
        cases.push(one(&e, "flatten", "exhaustive"));
    }
    let cfgs = [
        ExpCfg { vars: vec!["x".into(), "y".into(), "z".into()], logic: true, minmax: true, special: false },
        ExpCfg { vars: vec!["x".into(), "y".into()], logic: false, minmax: false, special: false },
        ExpCfg { vars: vec!["x".into()], logic: true, minmax: true, special: true },
        ExpCfg { vars: vec![], logic: true, minmax: true, special: false },
    ];
    for i in 0..n {
        let cfg = &cfgs[i % cfgs.len()];
        let depth = 2 + r.below(4) as u32;
        let e = gen_exp::exp(&mut r, cfg, depth);
        let tag = ["random-mixed", "random-arith", "random-special", "random-closed"][i % cfgs.len()];
        cases.push(one(&e, "simplify", tag));
        cases.push(one(&e, "flatten", tag));
    }
    cases
}
