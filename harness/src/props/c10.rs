//! C10 — algebraic rewrites preserve meaning: `Exp::simplify`, `Exp::flatten`.
use crate::case::Case;
use crate::gen_exp::{self, ExpCfg};
use crate::rng::Rng;
use crate::sx;
use rooc::model_transformer::{Constraint, Exp, Model, Objective};
use rooc::{BinOp, Linearizer, UnOp};
use crate::gen_model::{self, ModelCfg};

/// NaN sign and payload are not observable through `f64` arithmetic and comparisons (x86 produces the
/// "negative" default NaN for `0 * inf`, Lean's `Float.toBits` the canonical positive one): every NaN bit
/// pattern in an encoded tree is replaced by the canonical quiet NaN before model and implementation are diffed.
fn canon_nan(s: &str) -> String {
    let b = s.as_bytes();
    let mut out = String::with_capacity(s.len());
    let mut i = 0;
    while i < b.len() {
        if b[i] == b'#' && i + 18 <= b.len() && b[i + 1] == b'x' {
            if let Ok(bits) = u64::from_str_radix(&s[i + 2..i + 18], 16) {
                if f64::from_bits(bits).is_nan() {
                    out.push_str("#x7ff8000000000000");
                    i += 18;
                    continue;
                }
            }
        }
        out.push(b[i] as char);
        i += 1;
    }
    out
}


// ---------------------------------------------------------------------------------------------------------
// rule-level coverage: which arm of `Exp::simplify` / `Exp::flatten` fires where (tags `rule:s:*`, `rule:f:*`).
// The tracer asks the REAL code for the simplified children and only names the arm the real code then takes;
// it decides nothing about correctness.
fn num_truthy(v: f64) -> bool { v != 0.0 }
fn is_num(e: &Exp) -> Option<f64> { if let Exp::Number(v) = e { Some(*v) } else { None } }

fn nary_rules(children: &[Exp], is_and: bool, t: &mut std::collections::BTreeSet<String>) {
    let k = if is_and { "and" } else { "or" };
    let mut flat: Vec<Exp> = vec![];
    for c in children {
        let c = c.simplify();
        match (is_and, c) {
            (true, Exp::And(inner)) => { t.insert(format!("rule:s:{k}-splice-same-kind")); flat.extend(inner) }
            (false, Exp::Or(inner)) => { t.insert(format!("rule:s:{k}-splice-same-kind")); flat.extend(inner) }
            (_, c) => flat.push(c),
        }
    }
    let any_undef = flat.iter().any(|e| e.may_be_undefined());
    if any_undef { t.insert(format!("rule:s:{k}-keep-mode-any-undefined")); }
    let mut res = 0usize;
    for e in &flat {
        if let Some(v) = is_num(e) {
            let absorbing = num_truthy(v) != is_and;
            if !any_undef {
                if absorbing { t.insert(format!("rule:s:{k}-absorbing-short-circuit")); return; }
                t.insert(format!("rule:s:{k}-identity-dropped"));
            } else if absorbing { t.insert(format!("rule:s:{k}-absorbing-kept")); res += 1; }
            else { t.insert(format!("rule:s:{k}-identity-dropped")); }
        } else { res += 1; }
    }
    t.insert(format!("rule:s:{k}-result-{}", match res { 0 => "empty", 1 => "singleton", _ => "many" }));
}

fn simplify_rules(e: &Exp, t: &mut std::collections::BTreeSet<String>) {
    let mut ins = |s: &str| { t.insert(format!("rule:s:{s}")); };
    match e {
        Exp::Number(_) | Exp::Variable(_) => ins("leaf"),
        Exp::BinOp(op, l, r) => {
            let (ls, rs) = (l.simplify(), r.simplify());
            let (ln, rn) = (is_num(&ls), is_num(&rs));
            match op {
                BinOp::Add => ins(match (ln, rn) { (Some(_), Some(_)) => "add-fold", (Some(a), _) if a == 0.0 => "add-zero-l", (_, Some(b)) if b == 0.0 => "add-zero-r", _ => "add-keep" }),
                BinOp::Sub => ins(match (ln, rn) { (Some(_), Some(_)) => "sub-fold", (_, Some(b)) if b == 0.0 => "sub-zero-r", _ => "sub-keep" }),
                BinOp::Mul => ins(match (ln, rn) {
                    (Some(_), Some(_)) => "mul-fold",
                    (Some(a), _) if a == 0.0 && !rs.may_be_undefined() => "mul-zero-l",
                    (_, Some(b)) if b == 0.0 && !ls.may_be_undefined() => "mul-zero-r",
                    (Some(a), _) if a == 0.0 => "mul-zero-guarded-kept",
                    (_, Some(b)) if b == 0.0 => "mul-zero-guarded-kept",
                    (Some(a), _) if a == 1.0 => "mul-one-l",
                    (_, Some(b)) if b == 1.0 => "mul-one-r",
                    _ => "mul-keep" }),
                BinOp::Div => ins(match (ln, rn) {
                    (Some(_), Some(b)) if b == 0.0 => "div-literal-zero-kept",
                    (Some(_), Some(_)) => "div-fold",
                    (_, Some(b)) if b == 1.0 => "div-one",
                    _ => "div-keep" }),
                BinOp::And => { ins("binop-and-to-nary"); }
                BinOp::Or => { ins("binop-or-to-nary"); }
                BinOp::Xor => ins(if ln.is_some() && rn.is_some() { "binop-xor-fold" } else { "binop-xor-to-structural" }),
                BinOp::Implies => ins(if ln.is_some() && rn.is_some() { "binop-implies-fold" } else { "binop-implies-to-structural" }),
                BinOp::Iff => ins(if ln.is_some() && rn.is_some() { "binop-iff-fold" } else { "binop-iff-to-structural" }),
            }
            drop(ins);
            match op { BinOp::And => nary_rules(&[ls, rs], true, t), BinOp::Or => nary_rules(&[ls, rs], false, t), _ => {} }
            simplify_rules(l, t); simplify_rules(r, t);
        }
        Exp::UnOp(op, x) => {
            let n = is_num(&x.simplify()).is_some();
            ins(match (op, n) { (UnOp::Neg, true) => "neg-fold", (UnOp::Neg, false) => "neg-keep", (UnOp::Not, true) => "unop-not-fold", (UnOp::Not, false) => "unop-not-to-structural" });
            drop(ins); simplify_rules(x, t);
        }
        Exp::Abs(x) => { ins(if is_num(&x.simplify()).is_some() { "abs-fold" } else { "abs-keep" }); drop(ins); simplify_rules(x, t); }
        Exp::Not(x) => { ins(if is_num(&x.simplify()).is_some() { "not-fold" } else { "not-keep" }); drop(ins); simplify_rules(x, t); }
        Exp::Xor(a, b) | Exp::Implies(a, b) | Exp::Iff(a, b) => {
            let k = match e { Exp::Xor(..) => "xor", Exp::Implies(..) => "implies", _ => "iff" };
            let f = is_num(&a.simplify()).is_some() && is_num(&b.simplify()).is_some();
            ins(&format!("{k}-{}", if f { "fold" } else { "keep" }));
            drop(ins); simplify_rules(a, t); simplify_rules(b, t);
        }
        Exp::And(es) | Exp::Or(es) => {
            drop(ins);
            nary_rules(es, matches!(e, Exp::And(_)), t);
            for x in es { simplify_rules(x, t); }
        }
        Exp::Max(es) | Exp::Min(es) => {
            let k = if matches!(e, Exp::Max(_)) { "max" } else { "min" };
            if es.is_empty() { ins(&format!("{k}-empty")); }
            else if es.iter().all(|x| is_num(&x.simplify()).is_some()) { ins(&format!("{k}-fold")); }
            else { ins(&format!("{k}-keep")); }
            drop(ins);
            for x in es { simplify_rules(x, t); }
        }
    }
}

fn flatten_rules(e: &Exp, t: &mut std::collections::BTreeSet<String>) {
    let mk = |op: BinOp, a: &Exp, b: &Exp| Exp::BinOp(op, Box::new(a.clone()), Box::new(b.clone()));
    let addsub = |op: &BinOp| matches!(op, BinOp::Add | BinOp::Sub);
    match e {
        Exp::BinOp(op, l, r) => match (op, &**l, &**r) {
            (BinOp::Mul, Exp::BinOp(i, a, b), c) if addsub(i) => {
                t.insert("rule:f:mul-distribute-right".into());
                flatten_rules(&mk(*i, &mk(BinOp::Mul, a, c), &mk(BinOp::Mul, b, c)), t);
            }
            (BinOp::Mul, c, Exp::BinOp(i, a, b)) if addsub(i) => {
                t.insert("rule:f:mul-distribute-left".into());
                flatten_rules(&mk(*i, &mk(BinOp::Mul, c, a), &mk(BinOp::Mul, c, b)), t);
            }
            (BinOp::Mul, Exp::UnOp(UnOp::Neg, a), c) => { t.insert("rule:f:mul-neg-left".into()); flatten_rules(&mk(BinOp::Mul, a, c), t); }
            (BinOp::Mul, c, Exp::UnOp(UnOp::Neg, b)) => { t.insert("rule:f:mul-neg-right".into()); flatten_rules(&mk(BinOp::Mul, c, b), t); }
            (BinOp::Div, Exp::BinOp(i, a, b), c) if addsub(i) => {
                t.insert("rule:f:div-distribute".into());
                flatten_rules(&mk(BinOp::Div, a, c), t); flatten_rules(&mk(BinOp::Div, b, c), t);
            }
            (op, a, b) => { t.insert(format!("rule:f:descend-{}", sx::binop(*op))); flatten_rules(a, t); flatten_rules(b, t); }
        },
        _ => { t.insert("rule:f:other-unchanged".into()); }
    }
}

fn one(e: &Exp, which: &str, tag: &str) -> Case {
    let req_e = canon_nan(&sx::exp(e));
    let out = if which == "simplify" { e.simplify() } else { e.clone().flatten() };
    let out_s = canon_nan(&sx::exp(&out));
    let mut c = Case::default();
    c.req = format!("{} {}", which, req_e);
    c.imp = format!("(ok {})", out_s);
    c.oracle = format!("check-rewrite {} {}", req_e, out_s);
    c.nontrivial = out_s != req_e;
    c.tags = vec![tag.to_string(), which.to_string(), if c.nontrivial { "rewritten".into() } else { "unchanged".into() }];
    c.show = format!("{}({})", which, e);
    let mut rules = std::collections::BTreeSet::new();
    if which == "simplify" { simplify_rules(e, &mut rules) } else { flatten_rules(e, &mut rules) }
    c.tags.extend(rules);
    if which == "collapses" {
        // the region predicate of `simplify_eval_eq` / of the known finding's flag, diffed model vs harness
        let mut c = Case::default();
        c.req = format!("collapses {}", req_e);
        c.imp = format!("(ok {})", crate::props::c01::collapses_nonbinary_with(e, &|_| false));
        c.tags = vec![tag.to_string(), "collapses".into()];
        c.show = format!("collapses({})", e);
        return c;
    }
    if which == "simplify" {
        // idempotence, checked on the implementation directly
        let twice = out.simplify();
        if canon_nan(&sx::exp(&twice)) != out_s {
            c.impl_violation = Some(format!("simplify not idempotent: {} -> {} -> {}", e, out, twice));
        }
    }
    c
}

/// re-spell the constant `c` (same value, different tree)
fn respell_const(r: &mut Rng, c: f64) -> Exp {
    match r.below(5) {
        0 if c < 0.0 => Exp::UnOp(UnOp::Neg, Box::new(Exp::Number(-c))),
        1 => Exp::BinOp(BinOp::Sub, Box::new(Exp::Number(0.0)), Box::new(Exp::Number(-c))),
        2 => Exp::BinOp(BinOp::Add, Box::new(Exp::Number(c - 1.0)), Box::new(Exp::Number(1.0))),
        3 => Exp::BinOp(BinOp::Mul, Box::new(Exp::Number(c)), Box::new(Exp::Number(1.0))),
        _ => Exp::BinOp(BinOp::Div, Box::new(Exp::Number(c * 2.0)), Box::new(Exp::Number(2.0))),
    }
}

/// re-spell coefficients: `k * e`, `e * k`, `e / k` with `k` written differently (or the operands swapped)
fn respell(r: &mut Rng, e: &Exp) -> Exp {
    // `e / k`  <->  `e * (1/k)` for divisors whose reciprocal is exact
    if let Exp::BinOp(BinOp::Div, a, b) = e {
        if let Exp::Number(k) = **b {
            if [2.0, -2.0, 4.0, 0.5, -0.5, -1.0, 1.0, -4.0].contains(&k) && r.chance(1, 2) {
                return Exp::BinOp(BinOp::Mul, Box::new(respell(r, a)), Box::new(Exp::Number(1.0 / k)));
            }
        }
    }
    let mut go = |x: &Exp| Box::new(respell(r, x));
    match e {
        Exp::Number(_) | Exp::Variable(_) => e.clone(),
        Exp::Abs(x) => Exp::Abs(go(x)),
        Exp::Not(x) => Exp::Not(go(x)),
        Exp::UnOp(op, x) => Exp::UnOp(*op, go(x)),
        Exp::Min(es) => Exp::Min(es.iter().map(|x| respell(r, x)).collect()),
        Exp::Max(es) => Exp::Max(es.iter().map(|x| respell(r, x)).collect()),
        Exp::And(es) => Exp::And(es.iter().map(|x| respell(r, x)).collect()),
        Exp::Or(es) => Exp::Or(es.iter().map(|x| respell(r, x)).collect()),
        Exp::Xor(a, b) => { let x = go(a); let y = go(b); Exp::Xor(x, y) }
        Exp::Implies(a, b) => { let x = go(a); let y = go(b); Exp::Implies(x, y) }
        Exp::Iff(a, b) => { let x = go(a); let y = go(b); Exp::Iff(x, y) }
        Exp::BinOp(BinOp::Mul, a, b) => {
            let (a2, b2) = (respell(r, a), respell(r, b));
            match (&**a, &**b) {
                (Exp::Number(c), _) if r.chance(2, 3) => {
                    let k = respell_const(r, *c);
                    if r.chance(1, 3) { Exp::BinOp(BinOp::Mul, Box::new(b2), Box::new(k)) } else { Exp::BinOp(BinOp::Mul, Box::new(k), Box::new(b2)) }
                }
                (_, Exp::Number(c)) if r.chance(2, 3) => {
                    let k = respell_const(r, *c);
                    if r.chance(1, 3) { Exp::BinOp(BinOp::Mul, Box::new(k), Box::new(a2)) } else { Exp::BinOp(BinOp::Mul, Box::new(a2), Box::new(k)) }
                }
                _ => Exp::BinOp(BinOp::Mul, Box::new(a2), Box::new(b2)),
            }
        }
        Exp::BinOp(op, a, b) => { let x = go(a); let y = go(b); Exp::BinOp(*op, x, y) }
    }
}

fn respell_case(r: &mut Rng) -> Option<Case> {
    let cfg = ModelCfg { max_vars: 3, depth: 2, logic: false, piecewise: true, unbounded: true, fractional: false, strict_cmp: false, hostile: false };
    let (m, ds) = gen_model::model(r, &cfg);
    // make sure a scaled piecewise term is present: the direction a min/max/abs is relaxed in depends on the
    // SIGN of the coefficient, which is where spellings (`k * e`, `e * k`, `e / (1/k)`) can come apart
    let m = {
        let affine = ModelCfg { max_vars: 3, depth: 1, logic: false, piecewise: false, unbounded: false, fractional: false, strict_cmp: false, hostile: false };
        let mut piece = |r: &mut Rng| {
            let a = gen_model::num_exp(r, &ds, &affine, 1);
            let b = gen_model::num_exp(r, &ds, &affine, 1);
            match r.below(3) { 0 => Exp::Max(vec![a, b]), 1 => Exp::Min(vec![a, b]), _ => Exp::Abs(Box::new(a)) }
        };
        let k = *r.pick(&[-2.0, -1.0, -3.0, 2.0, -0.5]);
        let scaled = if r.chance(1, 3) { Exp::BinOp(BinOp::Div, Box::new(piece(r)), Box::new(Exp::Number(*r.pick(&[2.0, 4.0, -2.0])))) } else { Exp::BinOp(BinOp::Mul, Box::new(Exp::Number(k)), Box::new(piece(r))) };
        let mut cons = m.constraints().clone();
        let mut obj = m.objective().rhs.clone();
        if r.chance(2, 3) { cons.push(Constraint::new(scaled, gen_model::comparison(r), Exp::Number(gen_model::constant(r, false)), String::new())); }
        else { obj = Exp::BinOp(BinOp::Add, Box::new(obj), Box::new(scaled)); }
        gen_model::build(m.objective().objective_type.clone(), obj, cons, &ds)
    };
    let cons: Vec<Constraint> = m.constraints().iter().map(|c| Constraint::new(respell(r, c.lhs()), c.constraint_type(), respell(r, c.rhs()), c.name().to_string())).collect();
    let m2 = gen_model::build(m.objective().objective_type.clone(), respell(r, &m.objective().rhs), cons, &ds);
    if sx::model(&m) == sx::model(&m2) { return None; }
    let a = Linearizer::linearize(m.clone());
    let b = Linearizer::linearize(m2.clone());
    let mut c = Case::default();
    c.show = format!("{}  ~~respelled~~>  {}", format!("{}", m).replace('\n', " ; "), format!("{}", m2).replace('\n', " ; "));
    c.tags = vec!["respell".into()];
    c.nontrivial = true;
    match (&a, &b) {
        (Ok(la), Ok(lb)) => {
            c.imp = "(both-compile)".into();
            c.tags.push(if sx::lin_model(la) == sx::lin_model(lb) { "respell-identical-output".into() } else { "respell-different-output".into() });
            // the respelled model's compiled output must denote the ORIGINAL model's feasible set
            c.oracle = format!("py:{} {} {}", if r.chance(1, 2) { "c01" } else { "c02" }, sx::model(&m), sx::lin_model(lb));
        }
        (Err(_), Err(_)) => { c.imp = "(both-rejected)".into(); c.tags.push("respell-both-rejected".into()); }
        (x, y) => {
            c.imp = format!("(acceptance-differs {} {})", x.is_ok(), y.is_ok());
            c.sig = Some("respelling-changes-acceptance".into());
            let e = x.as_ref().err().or(y.as_ref().err()).map(|e| crate::props::c01::lin_error(e)).unwrap_or_default();
            c.impl_violation = Some(format!("two spellings of the same constants: one compiles, the other is rejected with {}", e));
        }
    }
    let _ = (Objective::new, Model::new);
    Some(c)
}

/// Twin models whose constraint SIDE is itself a bare `abs{}` / `min{}` / `max{}` block with a coefficient that
/// is a constant sub-expression in one twin and the folded literal in the other.  The bound inference only
/// recognises literal coefficients, so the twins agree only if `normalized_for_bounds` normalises EVERY side
/// (`Compile.normalizedForBounds_spec` in the model; the expression-level fact is `respell_normalize`).
/// Compared on the implementation: acceptance / error kind, published domains and inferred ranges, compiled rows.
fn respell_block_cases(r: &mut Rng, count: usize) -> Vec<Case> {
    use rooc::{Comparison, OptimizationType, VariableType};
    let num = |v: f64| Exp::Number(v);
    let var = |n: &str| Exp::Variable(n.into());
    let bx = |op: BinOp, l: Exp, rr: Exp| Exp::BinOp(op, Box::new(l), Box::new(rr));
    let ds = vec![
        gen_model::VarDecl { name: "x".into(), ty: VariableType::Real(f64::NEG_INFINITY, f64::INFINITY) },
        gen_model::VarDecl { name: "y".into(), ty: VariableType::Real(f64::NEG_INFINITY, f64::INFINITY) },
    ];
    let mut out = vec![];
    for i in 0..count {
        let k = *r.pick(&[2.0, 3.0, 4.0, -2.0, 0.5, -4.0]);
        // spellings of the constant k (all exact in binary floating point)
        let spelled: Exp = match i % 5 {
            0 => bx(BinOp::Add, num(k - 1.0), num(1.0)),
            1 => bx(BinOp::Div, num(2.0 * k), num(2.0)),
            2 => bx(BinOp::Sub, num(k + 1.0), num(1.0)),
            3 => bx(BinOp::Mul, num(k / 2.0), num(2.0)),
            _ => Exp::UnOp(UnOp::Neg, Box::new(num(-k))),
        };
        let commuted = r.chance(1, 4);
        let term = |c: Exp| if commuted { bx(BinOp::Mul, var("x"), c) } else { bx(BinOp::Mul, c, var("x")) };
        let kind = r.below(3);
        let block = |t: Exp| match kind { 0 => Exp::Max(vec![t, var("y")]), 1 => Exp::Min(vec![t, var("y")]), _ => Exp::Abs(Box::new(t)) };
        // the block bounds k*x from the side that makes the bound finite: max/abs <= b, min >= -b
        let b = 10.0 + r.below(5) as f64;
        let on_rhs = r.chance(1, 3);
        let side = |t: Exp| -> Constraint {
            let (blk, cmp, c) = match kind { 1 => (block(t), Comparison::GreaterOrEqual, num(-b)), _ => (block(t), Comparison::LessOrEqual, num(b)) };
            if on_rhs {
                let flipped = match cmp { Comparison::LessOrEqual => Comparison::GreaterOrEqual, _ => Comparison::LessOrEqual };
                Constraint::new(c, flipped, blk, String::new())
            } else { Constraint::new(blk, cmp, c, String::new()) }
        };
        // the other half of x's range, and an exact-value abs that needs the finite range
        let other = if (k > 0.0) == (kind != 1) { Constraint::new(var("x"), Comparison::GreaterOrEqual, num(-7.0), String::new()) }
                    else { Constraint::new(var("x"), Comparison::LessOrEqual, num(7.0), String::new()) };
        let needs = Constraint::new(Exp::Abs(Box::new(var("x"))), Comparison::GreaterOrEqual, num(1.0), String::new());
        let mk = |t: Exp| gen_model::build(OptimizationType::Max, var("x"), vec![side(t), other.clone(), needs.clone()], &ds);
        let (m1, m2) = (mk(term(num(k))), mk(term(spelled)));
        let (a, bb) = (Linearizer::linearize(m1.clone()), Linearizer::linearize(m2.clone()));
        let (b1, b2) = (crate::props::c01::bounds_sx(&m1), crate::props::c01::bounds_sx(&m2));
        let mut c = Case::default();
        c.show = format!("{}  ~~respelled block side~~>  {}", format!("{}", m1).replace('\n', " ; "), format!("{}", m2).replace('\n', " ; "));
        c.tags = vec!["respell".into(), "respell-block-side".into()];
        c.nontrivial = true;
        let err = |e: &rooc::LinearizationError| crate::props::c01::lin_error(e);
        if b1 != b2 {
            c.imp = "(bounds-differ)".into();
            c.sig = Some("respelling-changes-bounds".into());
            c.impl_violation = Some(format!("two spellings of the same coefficient inside a block that is a constraint side: inferred ranges / published domains differ: {} {}  vs  {} {}", b1.0, b1.1, b2.0, b2.1));
        } else {
            match (&a, &bb) {
                (Ok(la), Ok(lb)) => {
                    c.imp = "(both-compile)".into();
                    // `Rooc.Props.C10.compile_respell_constant`: the same linear model, bit for bit
                    if sx::lin_model(la) == sx::lin_model(lb) { c.tags.push("respell-identical-output".into()); }
                    else {
                        c.tags.push("respell-different-output".into());
                        c.sig = Some("respelling-changes-output".into());
                        c.impl_violation = Some(format!("two spellings of the same constant compile to different linear models: {}  vs  {}", sx::lin_model(la), sx::lin_model(lb)));
                    }
                }
                (Err(x), Err(y)) if err(x) == err(y) => { c.imp = format!("(both-rejected {})", err(x)); c.tags.push("respell-both-rejected".into()); }
                (x, y) => {
                    c.imp = format!("(acceptance-differs {} {})", x.is_ok(), y.is_ok());
                    c.sig = Some("respelling-changes-acceptance".into());
                    let e = |z: &Result<rooc::LinearModel, rooc::LinearizationError>| z.as_ref().err().map(|e| err(e)).unwrap_or("(ok)".into());
                    c.impl_violation = Some(format!("two spellings of the same coefficient inside a block that is a constraint side: {} vs {}", e(x), e(y)));
                }
            }
        }
        out.push(c);
    }
    out
}

/// Twin models that differ ONLY in how one closed constant is spelled, with the constant in every kind of
/// position: coefficient / bound in the objective, in an arithmetic constraint, inside a block, as an operand of a
/// logic connective (0/1 constants), under `not`, in a bare logic assertion.  `compile_respell_constant` says the
/// two compile to the same result; the implementation is held to that bit for bit (rows, published domains,
/// acceptance and error kind).
fn respell_position_cases(r: &mut Rng, count: usize) -> Vec<Case> {
    use rooc::{Comparison, OptimizationType, VariableType};
    let num = |v: f64| Exp::Number(v);
    let var = |n: &str| Exp::Variable(n.into());
    let bx = |op: BinOp, l: Exp, rr: Exp| Exp::BinOp(op, Box::new(l), Box::new(rr));
    let ds = vec![
        gen_model::VarDecl { name: "x".into(), ty: VariableType::Real(-4.0, 6.0) },
        gen_model::VarDecl { name: "y".into(), ty: VariableType::Real(f64::NEG_INFINITY, 8.0) },
        gen_model::VarDecl { name: "a".into(), ty: VariableType::Boolean },
        gen_model::VarDecl { name: "b".into(), ty: VariableType::Boolean },
    ];
    let spell = |k: f64, how: usize| -> Exp {
        match how % 6 {
            0 => bx(BinOp::Add, num(k - 1.0), num(1.0)),
            1 => bx(BinOp::Div, num(2.0 * k), num(2.0)),
            2 => bx(BinOp::Sub, num(k + 1.0), num(1.0)),
            3 => bx(BinOp::Mul, num(k / 2.0), num(2.0)),
            4 => Exp::UnOp(UnOp::Neg, Box::new(num(-k))),
            _ => Exp::Max(vec![num(k), num(k - 3.0)]),
        }
    };
    let mut out = vec![];
    for i in 0..count {
        let how = r.below(6) as usize;
        let pos = i % 8;
        // the context as a function of the constant
        let k = if pos >= 5 { *r.pick(&[1.0, 0.0]) } else { *r.pick(&[2.0, 3.0, -2.0, 0.5, 4.0, -1.0]) };
        let mk = |c: Exp| -> Model {
            let le = |l: Exp, rr: Exp| Constraint::new(l, Comparison::LessOrEqual, rr, String::new());
            let base = le(bx(BinOp::Add, var("x"), var("y")), num(9.0));
            let (obj, cons): (Exp, Vec<Constraint>) = match pos {
                // objective coefficient
                0 => (bx(BinOp::Sub, bx(BinOp::Mul, c, var("x")), var("y")), vec![base.clone(), le(Exp::UnOp(UnOp::Neg, Box::new(var("y"))), num(3.0))]),
                // objective offset inside a block
                1 => (Exp::Max(vec![bx(BinOp::Add, var("x"), c), var("y")]), vec![base.clone(), le(Exp::UnOp(UnOp::Neg, Box::new(var("y"))), num(3.0))]),
                // arithmetic constraint: coefficient and bound
                2 => (var("x"), vec![le(bx(BinOp::Add, bx(BinOp::Mul, c.clone(), var("x")), var("y")), bx(BinOp::Mul, c, num(3.0))), base.clone()]),
                // divisor
                3 => (var("x"), vec![le(bx(BinOp::Div, bx(BinOp::Add, var("x"), var("y")), c), num(5.0)), base.clone()]),
                // inside abs inside a product
                4 => (var("y"), vec![le(bx(BinOp::Mul, num(2.0), Exp::Abs(Box::new(bx(BinOp::Sub, var("x"), c)))), num(7.0)), base.clone()]),
                // operand of a logic connective that is a value in an arithmetic constraint
                5 => (var("x"), vec![le(bx(BinOp::Add, Exp::And(vec![var("a"), c.clone()]), Exp::Or(vec![var("b"), c])), bx(BinOp::Add, var("x"), num(2.0))), base.clone()]),
                // under `not`, in an implication
                6 => (var("x"), vec![le(Exp::Implies(Box::new(var("a")), Box::new(Exp::Not(Box::new(bx(BinOp::Sub, num(1.0), c))))), Exp::Iff(Box::new(var("b")), Box::new(var("a")))), base.clone()]),
                // bare logic assertion
                _ => (var("x"), vec![Constraint::new_logic_assertion(Exp::Or(vec![var("a"), Exp::And(vec![var("b"), c])]), String::new()), base.clone()]),
            };
            gen_model::build(if i % 2 == 0 { OptimizationType::Max } else { OptimizationType::Min }, obj, cons, &ds)
        };
        let (m1, m2) = (mk(num(k)), mk(spell(k, how)));
        let (a, bb) = (Linearizer::linearize(m1.clone()), Linearizer::linearize(m2.clone()));
        let (b1, b2) = (crate::props::c01::bounds_sx(&m1), crate::props::c01::bounds_sx(&m2));
        let mut c = Case::default();
        c.show = format!("{}  ~~respelled constant~~>  {}", format!("{}", m1).replace('\n', " ; "), format!("{}", m2).replace('\n', " ; "));
        c.tags = vec!["respell".into(), format!("respell-position-{}", ["objective-coefficient", "objective-block", "constraint-coefficient-and-bound", "divisor", "abs-in-product", "logic-operand", "under-not-implies", "logic-assertion"][pos])];
        c.nontrivial = true;
        let err = |e: &rooc::LinearizationError| crate::props::c01::lin_error(e);
        if b1 != b2 {
            c.imp = "(bounds-differ)".into();
            c.sig = Some("respelling-changes-bounds".into());
            c.impl_violation = Some(format!("two spellings of the same constant: inferred ranges / published domains differ: {} {}  vs  {} {}", b1.0, b1.1, b2.0, b2.1));
        } else {
            match (&a, &bb) {
                (Ok(la), Ok(lb)) if sx::lin_model(la) == sx::lin_model(lb) => { c.imp = "(both-compile)".into(); c.tags.push("respell-identical-output".into()); }
                (Ok(la), Ok(lb)) => {
                    c.imp = "(both-compile)".into();
                    c.sig = Some("respelling-changes-output".into());
                    c.impl_violation = Some(format!("two spellings of the same constant compile to different linear models: {}  vs  {}", sx::lin_model(la), sx::lin_model(lb)));
                }
                (Err(x), Err(y)) if err(x) == err(y) => { c.imp = format!("(both-rejected {})", err(x)); c.tags.push("respell-both-rejected".into()); }
                (x, y) => {
                    c.imp = format!("(acceptance-differs {} {})", x.is_ok(), y.is_ok());
                    c.sig = Some("respelling-changes-acceptance".into());
                    let e = |z: &Result<rooc::LinearModel, rooc::LinearizationError>| z.as_ref().err().map(|e| err(e)).unwrap_or("(ok)".into());
                    c.impl_violation = Some(format!("two spellings of the same constant: {} vs {}", e(x), e(y)));
                }
            }
        }
        out.push(c);
    }
    out
}

/// Twin models in which a coefficient is spelled as a DIVISION by a constant with |d| != 1 (`x / 4`, `x / (2 + 2)`,
/// `x / -2`, `abs{x} / 2`, `max{x, y} / 4 + y`) in one twin and as the reciprocal scale (`0.25 * x`, `x * 0.25`,
/// `(1 / 4) * x`) in the other, inside the abs/min/max block of a bound-giving constraint, on variables without a
/// declared finite range — so the range the bound inference derives through the `Div` arm of its reverse
/// propagation (`tighten_expression`) is what the exact lowering of `abs{x} >= 1` needs.  Own forked random stream
/// and a fixed number of twins, so that detection does not depend on what the other streams consumed.
/// Compared on the implementation: inferred ranges + published domains, acceptance / error kind, rows.
fn respell_division_cases(seed: u64, count: usize) -> Vec<Case> {
    use rooc::{Comparison, OptimizationType, VariableType};
    let mut r = Rng::new(seed ^ 0x00C1_0D17_5EED);
    let r = &mut r;
    let num = |v: f64| Exp::Number(v);
    let var = |n: &str| Exp::Variable(n.into());
    let bx = |op: BinOp, l: Exp, rr: Exp| Exp::BinOp(op, Box::new(l), Box::new(rr));
    let ds = vec![
        gen_model::VarDecl { name: "x".into(), ty: VariableType::Real(f64::NEG_INFINITY, f64::INFINITY) },
        gen_model::VarDecl { name: "y".into(), ty: VariableType::Real(f64::NEG_INFINITY, f64::INFINITY) },
    ];
    let mut out = vec![];
    for i in 0..count {
        let d = [4.0, 2.0, -2.0, -4.0, 8.0, -8.0][i % 6];
        let k = 1.0 / d; // exact: d is a power of two
        let template = (i / 6) % 5;
        // how the divisor / the scale are written
        let divisor = || if r_chance(i, 3) { if d > 0.0 { bx(BinOp::Add, num(d / 2.0), num(d / 2.0)) } else { bx(BinOp::Sub, num(0.0), num(-d)) } } else { num(d) };
        let scale = |e: Exp, how: usize| match how % 3 { 0 => bx(BinOp::Mul, num(k), e), 1 => bx(BinOp::Mul, e, num(k)), _ => bx(BinOp::Mul, bx(BinOp::Div, num(1.0), num(d)), e) };
        let how = r.below(3) as usize;
        let b = 3.0 + r.below(4) as f64;
        let le = |l: Exp, rr: Exp| Constraint::new(l, Comparison::LessOrEqual, rr, String::new());
        let ge = |l: Exp, rr: Exp| Constraint::new(l, Comparison::GreaterOrEqual, rr, String::new());
        // `q` is the spelled quotient term: built once with the division, once with the scale
        let mk = |q: &dyn Fn(Exp) -> Exp| -> Model {
            let needs = ge(Exp::Abs(Box::new(var("x"))), num(1.0));
            let cons = match template {
                0 => vec![le(Exp::Abs(Box::new(q(var("x")))), num(b)), needs],
                1 => vec![le(Exp::Max(vec![q(var("x")), var("y")]), num(b)),
                          if k > 0.0 { ge(var("x"), num(-7.0)) } else { le(var("x"), num(7.0)) }, needs],
                2 => vec![ge(Exp::Min(vec![q(var("x")), var("y")]), num(-b)),
                          if k > 0.0 { le(var("x"), num(7.0)) } else { ge(var("x"), num(-7.0)) }, needs],
                3 => if k > 0.0 { vec![le(q(Exp::Abs(Box::new(var("x")))), num(b)), needs] }
                     else { vec![ge(q(Exp::Abs(Box::new(var("x")))), num(-b)), needs] },
                _ => if k > 0.0 { vec![le(bx(BinOp::Add, q(Exp::Max(vec![var("x"), var("y")])), var("y")), num(b)), ge(var("y"), num(1.0)), ge(var("x"), num(-7.0)), needs] }
                     else { vec![ge(bx(BinOp::Add, q(Exp::Max(vec![var("x"), var("y")])), var("y")), num(-b)), le(var("y"), num(1.0)), ge(var("y"), num(-5.0)), ge(var("x"), num(-7.0)), needs] },
            };
            gen_model::build(OptimizationType::Max, var("x"), cons, &ds)
        };
        let dv = divisor();
        let m1 = mk(&|e: Exp| scale(e, how));
        let m2 = mk(&|e: Exp| bx(BinOp::Div, e, dv.clone()));
        let (a, bb) = (Linearizer::linearize(m1.clone()), Linearizer::linearize(m2.clone()));
        let (b1, b2) = (crate::props::c01::bounds_sx(&m1), crate::props::c01::bounds_sx(&m2));
        let mut c = Case::default();
        c.show = format!("{}  ~~scale respelled as division~~>  {}", format!("{}", m1).replace('\n', " ; "), format!("{}", m2).replace('\n', " ; "));
        c.tags = vec!["respell".into(), "respell-division".into(), format!("respell-division-template-{}", template)];
        c.nontrivial = true;
        let err = |e: &rooc::LinearizationError| crate::props::c01::lin_error(e);
        if b1 != b2 {
            c.imp = "(bounds-differ)".into();
            c.sig = Some("respelling-changes-bounds".into());
            c.impl_violation = Some(format!("a coefficient spelled `e / d` vs `(1/d) * e` inside a bound-giving block: inferred ranges / published domains differ: {} {}  vs  {} {}", b1.0, b1.1, b2.0, b2.1));
        } else {
            match (&a, &bb) {
                (Ok(la), Ok(lb)) => {
                    c.imp = "(both-compile)".into();
                    if sx::lin_model(la) == sx::lin_model(lb) { c.tags.push("respell-identical-output".into()); }
                    else {
                        // `e / d` and `(1/d) * e` are equal in value but not identical after `normalize`: the rows are
                        // compared semantically
                        c.tags.push("respell-different-output".into());
                        c.oracle = format!("py:{} {} {}", if i % 2 == 0 { "c01" } else { "c02" }, sx::model(&m1), sx::lin_model(lb));
                    }
                }
                (Err(x), Err(y)) if err(x) == err(y) => { c.imp = format!("(both-rejected {})", err(x)); c.tags.push("respell-both-rejected".into()); }
                (x, y) => {
                    c.imp = format!("(acceptance-differs {} {})", x.is_ok(), y.is_ok());
                    c.sig = Some("respelling-changes-acceptance".into());
                    let e = |z: &Result<rooc::LinearModel, rooc::LinearizationError>| z.as_ref().err().map(|e| err(e)).unwrap_or("(ok)".into());
                    c.impl_violation = Some(format!("a coefficient spelled `e / d` vs `(1/d) * e`: {} vs {}", e(x), e(y)));
                }
            }
        }
        out.push(c);
    }
    out
}
/// Twin models in which a coefficient is spelled as a DIFFERENCE (or sum) of terms in the SAME variable (`3x - x`,
/// `5x - (x + 2x)`, `2(x + y) - x - y`, `x + x`) in one twin and as the collected literal (`2x`, `x + y`) in the other,
/// in a bound-giving affine row.  The bound inference collects coefficients itself (`AffineForm`): the inferred ranges
/// and published domains of the twins must be the same, and so must acceptance and rows (seeded change C10-17: a
/// repeated variable under a binary minus added instead of subtracted).  Deterministic.
fn respell_difference_cases() -> Vec<Case> {
    use rooc::{Comparison, OptimizationType, VariableType};
    let num = |v: f64| Exp::Number(v);
    let var = |n: &str| Exp::Variable(n.into());
    let bx = |op: BinOp, l: Exp, rr: Exp| Exp::BinOp(op, Box::new(l), Box::new(rr));
    let mul = |k: f64, e: Exp| Exp::BinOp(BinOp::Mul, Box::new(Exp::Number(k)), Box::new(e));
    let ds = vec![
        gen_model::VarDecl { name: "x".into(), ty: VariableType::Real(f64::NEG_INFINITY, f64::INFINITY) },
        gen_model::VarDecl { name: "y".into(), ty: VariableType::NonNegativeReal(0.0, f64::INFINITY) },
    ];
    let mut out = vec![];
    let mut i = 0usize;
    for (k1, k2) in [(3.0, 1.0), (5.0, 3.0), (1.0, 3.0), (4.0, 1.0), (2.0, 4.0), (6.0, 2.0)] {
        let kd: f64 = k1 - k2;
        for shape in 0..5usize {
            for cmp in [Comparison::LessOrEqual, Comparison::GreaterOrEqual] {
                let b = if matches!(cmp, Comparison::LessOrEqual) { 4.0 } else { -4.0 } * if kd < 0.0 { -1.0 } else { 1.0 };
                // (collected, spelled)
                let (l1, l2): (Exp, Exp) = match shape {
                    0 => (mul(kd, var("x")), bx(BinOp::Sub, mul(k1, var("x")), mul(k2, var("x")))),
                    1 => (bx(BinOp::Add, mul(kd, var("x")), var("y")), bx(BinOp::Add, bx(BinOp::Sub, mul(k1, var("x")), mul(k2, var("x"))), var("y"))),
                    2 => (mul(kd, var("x")), bx(BinOp::Sub, mul(k1, var("x")), bx(BinOp::Add, var("x"), mul(k2 - 1.0, var("x"))))),
                    3 => (bx(BinOp::Add, mul(kd, var("x")), mul(kd, var("y"))), bx(BinOp::Sub, bx(BinOp::Sub, mul(k1, bx(BinOp::Add, var("x"), var("y"))), mul(k2, var("x"))), mul(k2, var("y")))),
                    _ => (mul(k1 + k2, var("x")), bx(BinOp::Add, mul(k1, var("x")), mul(k2, var("x")))),
                };
                let mk = |l: Exp| -> Model {
                    let cons = vec![Constraint::new(l, cmp.clone(), num(b), String::new()),
                                    Constraint::new(Exp::Abs(Box::new(var("x"))), Comparison::LessOrEqual, num(50.0), String::new())];
                    gen_model::build(if matches!(cmp, Comparison::LessOrEqual) == (kd > 0.0 || shape == 4) { OptimizationType::Max } else { OptimizationType::Min }, var("x"), cons, &ds)
                };
                let (m1, m2) = (mk(l1), mk(l2));
                let (a, bb) = (Linearizer::linearize(m1.clone()), Linearizer::linearize(m2.clone()));
                // the published domain carries the number of OCCURRENCES of the variable, which legitimately differs between
                // the spellings: compare ranges and domain types only
                let strip = |(b, d): (String, String)| -> (String, String) {
                    let mut o = String::new();
                    let cs: Vec<char> = d.chars().collect();
                    let mut j = 0;
                    while j < cs.len() {
                        if cs[j] == ')' && j + 2 < cs.len() && cs[j + 1] == ' ' && cs[j + 2].is_ascii_digit() {
                            let mut e = j + 2;
                            while e < cs.len() && cs[e].is_ascii_digit() { e += 1; }
                            if e < cs.len() && cs[e] == ')' { o.push(')'); j = e; continue; }
                        }
                        o.push(cs[j]); j += 1;
                    }
                    (b, o)
                };
                let (b1, b2) = (strip(crate::props::c01::bounds_sx(&m1)), strip(crate::props::c01::bounds_sx(&m2)));
                let mut c = Case::default();
                c.show = format!("{}  ~~coefficient respelled as a difference~~>  {}", format!("{}", m1).replace('\n', " ; "), format!("{}", m2).replace('\n', " ; "));
                c.tags = vec!["respell".into(), "respell-difference".into(), format!("respell-difference-shape-{}", shape)];
                c.nontrivial = true;
                let err = |e: &rooc::LinearizationError| crate::props::c01::lin_error(e);
                if b1 != b2 {
                    c.imp = "(bounds-differ)".into();
                    c.sig = Some("respelling-changes-bounds".into());
                    c.impl_violation = Some(format!("a coefficient spelled as a difference of terms in one variable vs the collected literal: inferred ranges / published domains differ: {} {}  vs  {} {}", b1.0, b1.1, b2.0, b2.1));
                } else {
                    match (&a, &bb) {
                        (Ok(la), Ok(lb)) => {
                            c.imp = "(both-compile)".into();
                            if sx::lin_model(la) == sx::lin_model(lb) { c.tags.push("respell-identical-output".into()); }
                            else {
                                c.tags.push("respell-different-output".into());
                                c.oracle = format!("py:{} {} {}", if i % 2 == 0 { "c01" } else { "c02" }, sx::model(&m1), sx::lin_model(lb));
                            }
                        }
                        (Err(x), Err(y)) if err(x) == err(y) => { c.imp = format!("(both-rejected {})", err(x)); c.tags.push("respell-both-rejected".into()); }
                        (x, y) => {
                            c.imp = format!("(acceptance-differs {} {})", x.is_ok(), y.is_ok());
                            c.sig = Some("respelling-changes-acceptance".into());
                            let e = |z: &Result<rooc::LinearModel, rooc::LinearizationError>| z.as_ref().err().map(|e| err(e)).unwrap_or("(ok)".into());
                            c.impl_violation = Some(format!("a coefficient spelled as a difference vs the collected literal: {} vs {}", e(x), e(y)));
                        }
                    }
                }
                out.push(c);
                i += 1;
            }
        }
    }
    out
}
fn r_chance(i: usize, m: usize) -> bool { i % m == 1 }

/// An undefined division NESTED in the numerator of another division (directly, or as an operand of + - * neg abs
/// min max under the outer division), below an absorbing constant (`0 * _`, `_ * 0`, `0 and _`, `_ or 1`, n-ary and
/// BinOp-spelled): `may_be_undefined` has to look through the outer division.  Own forked stream, fixed count.
/// Each expression goes through simplify / flatten / collapses (correspondence + exact oracle: `division-erased`,
/// `definedness-created`), and through `Linearizer::linearize` as `y + E >= 1` against the twin in which the outer
/// `/ d` is written `* (1/d)` (same acceptance / error kind / published domains expected).
fn nested_undefined_cases(seed: u64, count: usize) -> Vec<Case> {
    use rooc::{Comparison, OptimizationType, VariableType};
    let mut rr = Rng::new(seed ^ 0x0C10_7DEF_1DED);
    let r = &mut rr;
    let num = |v: f64| Exp::Number(v);
    let var = |n: &str| Exp::Variable(n.into());
    let bx = |op: BinOp, l: Exp, x: Exp| Exp::BinOp(op, Box::new(l), Box::new(x));
    let ds = vec![
        gen_model::VarDecl { name: "x".into(), ty: VariableType::Real(-3.0, 5.0) },
        gen_model::VarDecl { name: "y".into(), ty: VariableType::Real(0.0, 9.0) },
        gen_model::VarDecl { name: "a".into(), ty: VariableType::Boolean },
    ];
    let mut out = vec![];
    for i in 0..count {
        // the undefined division
        let u = match i % 3 { 0 => bx(BinOp::Div, var("x"), num(0.0)), 1 => bx(BinOp::Div, num(1.0), var("x")), _ => bx(BinOp::Div, var("y"), bx(BinOp::Sub, num(1.0), num(1.0))) };
        // how it sits in the numerator
        let inner = match (i / 3) % 8 {
            0 => u.clone(),
            1 => bx(BinOp::Add, u.clone(), var("y")),
            2 => bx(BinOp::Sub, var("y"), u.clone()),
            3 => bx(BinOp::Mul, u.clone(), num(3.0)),
            4 => Exp::UnOp(UnOp::Neg, Box::new(u.clone())),
            5 => Exp::Abs(Box::new(u.clone())),
            6 => Exp::Max(vec![u.clone(), var("y")]),
            _ => Exp::Min(vec![var("y"), bx(BinOp::Add, u.clone(), num(1.0))]),
        };
        let d = *r.pick(&[2.0, 4.0, -2.0, 8.0]);
        let outer = |scale: bool| if scale { bx(BinOp::Mul, inner.clone(), num(1.0 / d)) } else { bx(BinOp::Div, inner.clone(), num(d)) };
        // the absorbing context
        let ctx = |e: Exp| -> Exp { match (i / 24) % 6 {
            0 => bx(BinOp::Mul, num(0.0), e),
            1 => bx(BinOp::Mul, e, num(0.0)),
            2 => Exp::And(vec![num(0.0), e, var("a")]),
            3 => Exp::Or(vec![e, num(1.0)]),
            4 => bx(BinOp::And, e, num(0.0)),
            _ => bx(BinOp::Mul, num(0.0), bx(BinOp::Add, e, var("y"))),
        } };
        let e_div = ctx(outer(false));
        for which in ["simplify", "flatten", "collapses"] {
            out.push(one(&e_div, which, "nested-undefined"));
        }
        // through compile: `y + E >= 1`, division vs scale twin
        let mk = |e: Exp| gen_model::build(OptimizationType::Max, var("y"),
            vec![Constraint::new(bx(BinOp::Add, var("y"), e), Comparison::GreaterOrEqual, num(1.0), String::new())], &ds);
        let (m1, m2) = (mk(ctx(outer(true))), mk(e_div.clone()));
        let (a, b) = (Linearizer::linearize(m1.clone()), Linearizer::linearize(m2.clone()));
        let err = |e: &rooc::LinearizationError| crate::props::c01::lin_error(e);
        let show = |z: &Result<rooc::LinearModel, rooc::LinearizationError>| z.as_ref().err().map(|e| err(e)).unwrap_or("(ok)".into());
        let mut c = Case::default();
        c.show = format!("{}  ~~`* 1/d` respelled as `/ d` above an undefined division~~>  {}", format!("{}", m1).replace('\n', " ; "), format!("{}", m2).replace('\n', " ; "));
        c.tags = vec!["respell".into(), "respell-nested-undefined".into()];
        c.nontrivial = true;
        c.imp = format!("({} {})", show(&a), show(&b));
        let same = match (&a, &b) { (Ok(x), Ok(y)) => sx::lin_model(x) == sx::lin_model(y), (Err(x), Err(y)) => err(x) == err(y), _ => false };
        if !same {
            c.sig = Some("respelling-changes-acceptance".into());
            c.impl_violation = Some(format!("an undefined division in the numerator of `_ / d` vs `_ * (1/d)` below an absorbing constant: {} vs {}", show(&a), show(&b)));
        } else if a.is_ok() {
            // both accepted although the constraint contains a division by zero / by a variable
            c.tags.push("nested-undefined-both-accepted".into());
        } else { c.tags.push("respell-both-rejected".into()); }
        out.push(c);
    }
    out
}

/// Twin models whose only difference is a UNARY MINUS in front of a parenthesised sum / difference with a non-zero
/// constant (`-(x - 3)`, `-2(x - 3)` = `Neg(2 * (x - 3))`, `-(3 - x) * 2`) against the explicit-product spelling
/// (`-1 * (x - 3)`, `-2 * (x - 3)`, `(3 - x) * -2`, `-2x + 6`).  `flatten` leaves the negation of a sum alone, so it is
/// the bound inference's affine recogniser (`AffineForm::from_exp`, unary-minus arm) that reads it.  Own forked
/// stream, fixed count; compared on inferred ranges + published domains, acceptance / error kind, rows.
fn respell_negation_cases(seed: u64, count: usize) -> Vec<Case> {
    use rooc::{Comparison, OptimizationType, VariableType};
    let mut rr = Rng::new(seed ^ 0x0C10_8E6A_7103);
    let r = &mut rr;
    let num = |v: f64| Exp::Number(v);
    let var = |n: &str| Exp::Variable(n.into());
    let bx = |op: BinOp, l: Exp, x: Exp| Exp::BinOp(op, Box::new(l), Box::new(x));
    let neg = |e: Exp| Exp::UnOp(UnOp::Neg, Box::new(e));
    let mut out = vec![];
    for i in 0..count {
        let k = *r.pick(&[3.0, 1.0, 5.0, 2.5, 7.0]);
        let c2 = *r.pick(&[2.0, 3.0, 4.0]);
        let b = 10.0 + r.below(12) as f64;
        let ds = vec![
            gen_model::VarDecl { name: "x".into(), ty: VariableType::Real(0.0, 100.0) },
            gen_model::VarDecl { name: "y".into(), ty: VariableType::Real(-50.0, 50.0) },
        ];
        let xm = || bx(BinOp::Sub, var("x"), num(k));          // x - k
        let mx = || bx(BinOp::Sub, num(k), var("x"));          // k - x
        // (with unary minus, explicit product)
        let (t1, t2): (Exp, Exp) = match i % 6 {
            0 => (neg(xm()), bx(BinOp::Mul, num(-1.0), xm())),
            1 => (neg(bx(BinOp::Mul, num(c2), xm())), bx(BinOp::Mul, num(-c2), xm())),
            2 => (bx(BinOp::Mul, neg(mx()), num(c2)), bx(BinOp::Mul, mx(), num(-c2))),
            3 => (neg(bx(BinOp::Mul, num(c2), xm())), bx(BinOp::Add, bx(BinOp::Mul, num(-c2), var("x")), num(c2 * k))),
            4 => (neg(bx(BinOp::Add, var("x"), num(k))), bx(BinOp::Sub, bx(BinOp::Mul, num(-1.0), var("x")), num(k))),
            _ => (bx(BinOp::Add, neg(bx(BinOp::Mul, num(c2), bx(BinOp::Add, xm(), var("y")))), var("y")),
                  bx(BinOp::Add, bx(BinOp::Mul, num(-c2), bx(BinOp::Add, xm(), var("y"))), var("y"))),
        };
        let on_rhs = r.chance(1, 4);
        let mk = |t: Exp| {
            let c = if on_rhs { Constraint::new(num(-b), Comparison::LessOrEqual, t, String::new()) }
                    else { Constraint::new(t, Comparison::GreaterOrEqual, num(-b), String::new()) };
            gen_model::build(OptimizationType::Max, var("x"), vec![c], &ds)
        };
        let (m1, m2) = (mk(t2), mk(t1));
        let (a, bb) = (Linearizer::linearize(m1.clone()), Linearizer::linearize(m2.clone()));
        let (b1, b2) = (crate::props::c01::bounds_sx(&m1), crate::props::c01::bounds_sx(&m2));
        let mut c = Case::default();
        c.show = format!("{}  ~~product respelled with a unary minus~~>  {}", format!("{}", m1).replace('\n', " ; "), format!("{}", m2).replace('\n', " ; "));
        c.tags = vec!["respell".into(), "respell-unary-minus".into()];
        c.nontrivial = true;
        let err = |e: &rooc::LinearizationError| crate::props::c01::lin_error(e);
        if b1 != b2 {
            c.imp = "(bounds-differ)".into();
            c.sig = Some("respelling-changes-bounds".into());
            c.impl_violation = Some(format!("a product spelled with a unary minus in front of a parenthesised sum: inferred ranges / published domains differ: {} {}  vs  {} {}", b1.0, b1.1, b2.0, b2.1));
        } else {
            match (&a, &bb) {
                (Ok(la), Ok(lb)) => {
                    c.imp = "(both-compile)".into();
                    if sx::lin_model(la) == sx::lin_model(lb) { c.tags.push("respell-identical-output".into()); }
                    else {
                        c.tags.push("respell-different-output".into());
                        c.oracle = format!("py:{} {} {}", if i % 2 == 0 { "c01" } else { "c02" }, sx::model(&m1), sx::lin_model(lb));
                    }
                }
                (Err(x), Err(y)) if err(x) == err(y) => { c.imp = format!("(both-rejected {})", err(x)); c.tags.push("respell-both-rejected".into()); }
                (x, y) => {
                    c.imp = format!("(acceptance-differs {} {})", x.is_ok(), y.is_ok());
                    c.sig = Some("respelling-changes-acceptance".into());
                    let e = |z: &Result<rooc::LinearModel, rooc::LinearizationError>| z.as_ref().err().map(|e| err(e)).unwrap_or("(ok)".into());
                    c.impl_violation = Some(format!("a product spelled with a unary minus: {} vs {}", e(x), e(y)));
                }
            }
        }
        out.push(c);
    }
    out
}

/// and/or used as a VALUE inside arithmetic with the identity constant (1 for and, 0 for or) spelled as a literal in
/// one twin and as a closed constant EXPRESSION in the other (`(2 - 1)`, `(1 * 1)`, `(3 / 3)`, `not 0`, `abs{-1}`;
/// `(1 - 1)`, `0 * 5`, `not 1` for or).  With a non-Boolean operand (integer / real variable, arithmetic term) the node
/// collapses to that operand and BOTH twins must be rejected with NonBinaryLogicOperand by the up-front
/// `check_collapsing_logic_operands`; with a Boolean operand both compile to the same linear model.  This is the
/// implementation-side check of the hypothesis "same check outcome" of `Rooc.Props.C10.compile_twins` for constant
/// respellings (`compile_respell_constant` proves it for the model).  Own forked stream, fixed count.
fn respell_identity_cases(seed: u64, count: usize) -> Vec<Case> {
    use rooc::{Comparison, OptimizationType, VariableType};
    let mut rr = Rng::new(seed ^ 0x0C10_1200_1DE7);
    let r = &mut rr;
    let num = |v: f64| Exp::Number(v);
    let var = |n: &str| Exp::Variable(n.into());
    let bx = |op: BinOp, l: Exp, x: Exp| Exp::BinOp(op, Box::new(l), Box::new(x));
    let ds = vec![
        gen_model::VarDecl { name: "x".into(), ty: VariableType::IntegerRange(-3, 5) },
        gen_model::VarDecl { name: "z".into(), ty: VariableType::Real(0.0, 4.0) },
        gen_model::VarDecl { name: "a".into(), ty: VariableType::Boolean },
        gen_model::VarDecl { name: "y".into(), ty: VariableType::Real(0.0, 9.0) },
    ];
    let mut out = vec![];
    for i in 0..count {
        let is_and = i % 2 == 0;
        let id = if is_and { 1.0 } else { 0.0 };
        let spelled: Exp = if is_and { match (i / 2) % 5 {
            0 => bx(BinOp::Sub, num(2.0), num(1.0)),
            1 => bx(BinOp::Mul, num(1.0), num(1.0)),
            2 => bx(BinOp::Div, num(3.0), num(3.0)),
            3 => Exp::Not(Box::new(num(0.0))),
            _ => Exp::Abs(Box::new(num(-1.0))),
        } } else { match (i / 2) % 4 {
            0 => bx(BinOp::Sub, num(1.0), num(1.0)),
            1 => bx(BinOp::Mul, num(0.0), num(5.0)),
            2 => Exp::Not(Box::new(num(1.0))),
            _ => bx(BinOp::Add, num(-2.0), num(2.0)),
        } };
        let (operand, boolean): (Exp, bool) = match (i / 10) % 4 {
            0 => (var("x"), false),
            1 => (var("z"), false),
            2 => (bx(BinOp::Add, var("x"), num(1.0)), false),
            _ => (var("a"), true),
        };
        let shape = r.below(3);
        let node = |c: Exp| -> Exp { match (is_and, shape) {
            (true, 0) => Exp::And(vec![operand.clone(), c]),
            (true, 1) => Exp::And(vec![c, operand.clone()]),
            (true, _) => bx(BinOp::And, operand.clone(), c),
            (false, 0) => Exp::Or(vec![operand.clone(), c]),
            (false, 1) => Exp::Or(vec![c, operand.clone()]),
            (false, _) => bx(BinOp::Or, operand.clone(), c),
        } };
        let place = r.below(3);
        let mk = |c: Exp| -> Model {
            let v = node(c);
            let base = Constraint::new(bx(BinOp::Add, var("y"), var("z")), Comparison::LessOrEqual, num(8.0), String::new());
            let (obj, cons) = match place {
                0 => (var("y"), vec![Constraint::new(bx(BinOp::Add, v, var("y")), Comparison::GreaterOrEqual, num(3.0), String::new()), base]),
                1 => (bx(BinOp::Add, v, var("y")), vec![base]),
                _ => (var("y"), vec![Constraint::new(bx(BinOp::Mul, num(2.0), v), Comparison::LessOrEqual, var("y"), String::new()), base]),
            };
            gen_model::build(OptimizationType::Max, obj, cons, &ds)
        };
        let (m1, m2) = (mk(num(id)), mk(spelled));
        let (a, b) = (Linearizer::linearize(m1.clone()), Linearizer::linearize(m2.clone()));
        let err = |e: &rooc::LinearizationError| crate::props::c01::lin_error(e);
        let show = |z: &Result<rooc::LinearModel, rooc::LinearizationError>| z.as_ref().err().map(|e| err(e)).unwrap_or("(ok)".into());
        let mut c = Case::default();
        c.show = format!("{}  ~~identity constant respelled~~>  {}", format!("{}", m1).replace('\n', " ; "), format!("{}", m2).replace('\n', " ; "));
        c.tags = vec!["respell".into(), "respell-identity-constant".into(), if boolean { "identity-boolean-operand".into() } else { "identity-nonbinary-operand".into() }];
        c.nontrivial = true;
        c.imp = format!("({} {})", show(&a), show(&b));
        let same = match (&a, &b) { (Ok(x), Ok(y)) => sx::lin_model(x) == sx::lin_model(y), (Err(x), Err(y)) => err(x) == err(y), _ => false };
        if !same {
            c.sig = Some(if a.is_ok() != b.is_ok() { "respelling-changes-acceptance" } else { "respelling-changes-output" }.into());
            c.impl_violation = Some(format!("an and/or value whose identity constant is a literal vs a constant expression: {} vs {}", show(&a), show(&b)));
        } else if !boolean && a.is_ok() {
            c.sig = Some("collapse-nonbinary-accepted".into());
            c.impl_violation = Some("an and/or value collapses to a non-binary operand and BOTH spellings compile (expected NonBinaryLogicOperand)".into());
        } else if a.is_ok() { c.tags.push("respell-identical-output".into()); } else { c.tags.push("respell-both-rejected".into()); }
        out.push(c);
    }
    out
}

pub fn generate(seed: u64, n: usize, thorough: bool, _corpus: Option<&str>) -> Vec<Case> {
    let mut r = Rng::new(seed);
    let mut cases = vec![];
    // exhaustive small trees
    let leaves = vec![
        Exp::Number(0.0), Exp::Number(1.0), Exp::Number(-0.0), Exp::Number(2.0),
        Exp::Variable("x".into()), Exp::Variable("y".into()),
    ];
    let size = if thorough { 4 } else { 3 };
    for e in gen_exp::enumerate(size, &leaves) {
        cases.push(one(&e, "simplify", "exhaustive"));
        cases.push(one(&e, "flatten", "exhaustive"));
        cases.push(one(&e, "collapses", "exhaustive"));
    }
    // regression inputs found by earlier thorough runs (machinery false alarms and finding variants)
    {
        use rooc::{BinOp, UnOp};
        let n = |v: f64| Exp::Number(v);
        let x = || Exp::Variable("x".into());
        let b = |op: BinOp, l: Exp, r: Exp| Exp::BinOp(op, Box::new(l), Box::new(r));
        let regress = vec![
            // NaN sign: 0 * inf
            b(BinOp::Mul, n(0.0), n(f64::INFINITY)),
            Exp::Xor(Box::new(x()), Box::new(b(BinOp::Mul, n(0.0), n(f64::INFINITY)))),
            // underflow to zero in a folded divisor / factor
            b(BinOp::Div, n(4.0), b(BinOp::Add, b(BinOp::Div, n(5e-324), n(4.0)), n(0.0))),
            Exp::Iff(Box::new(b(BinOp::Div, n(1.0), x())), Box::new(b(BinOp::Mul, n(2e-5), n(5e-324)))),
            // one ulp in a folded constant, amplified by cancellation
            b(BinOp::Div, Exp::And(vec![]), b(BinOp::Add, x(), b(BinOp::Div, n(2.0), n(1.000000001)))),
            // divisor undefined (empty max) but folded to a literal below an absorbing constant
            b(BinOp::Div, n(0.2), b(BinOp::Or, Exp::Max(vec![]), n(-2.0))),
            b(BinOp::Div, n(1.0), b(BinOp::Sub, b(BinOp::Mul, Exp::Min(vec![]), n(0.0)), n(1.0))),
            // singleton collapse inside a divisor
            Exp::UnOp(UnOp::Neg, Box::new(b(BinOp::Div, x(), b(BinOp::Sub, b(BinOp::Add, n(1.0), x()), Exp::Or(vec![x()]))))),
            // the two known findings, minimal
            b(BinOp::Mul, n(0.0), b(BinOp::Div, x(), n(0.0))),
            Exp::And(vec![x(), n(1.0)]),
        ];
        for e in &regress {
            cases.push(one(e, "simplify", "regression"));
            cases.push(one(e, "flatten", "regression"));
        }
    }
    // targeted stream for the rules random trees rarely reach (nested same-kind n-ary nodes, an absorbing
    // constant next to an operand that may be undefined): 12 variants each, leaves drawn from the stream
    {
        let cfg = ExpCfg { vars: vec!["x".into(), "y".into()], logic: false, minmax: false, special: false };
        let bx = |op: BinOp, l: Exp, r: Exp| Exp::BinOp(op, Box::new(l), Box::new(r));
        for i in 0..12 {
            let (a, b2, c) = (gen_exp::exp(&mut r, &cfg, 1), gen_exp::exp(&mut r, &cfg, 1), gen_exp::exp(&mut r, &cfg, 2));
            let v = |n: &str| Exp::Variable(n.into());
            let undef = if i % 2 == 0 { bx(BinOp::Div, a.clone(), Exp::Number(0.0)) } else { Exp::Max(vec![]) };
            let targeted = vec![
                Exp::And(vec![Exp::And(vec![v("x"), v("y")]), c.clone()]),
                Exp::Or(vec![Exp::Or(vec![v("x"), v("y")]), c.clone()]),
                Exp::Or(vec![b2.clone(), bx(BinOp::Or, v("y"), v("z"))]),
                bx(BinOp::And, bx(BinOp::And, v("x"), v("z")), b2.clone()),
                Exp::And(vec![Exp::Number(0.0), undef.clone(), b2.clone()]),
                Exp::Or(vec![undef.clone(), Exp::Number(1.0 + i as f64)]),
                bx(BinOp::And, undef.clone(), Exp::Number(0.0)),
                bx(BinOp::Mul, Exp::Number(0.0), bx(BinOp::Add, undef.clone(), c.clone())),
            ];
            for e in &targeted {
                cases.push(one(e, "simplify", "targeted"));
                cases.push(one(e, "flatten", "targeted"));
                cases.push(one(e, "collapses", "targeted"));
            }
        }
    }
    let cfgs = [
        ExpCfg { vars: vec!["x".into(), "y".into(), "z".into()], logic: true, minmax: true, special: false },
        ExpCfg { vars: vec!["x".into(), "y".into()], logic: false, minmax: false, special: false },
        ExpCfg { vars: vec!["x".into()], logic: true, minmax: true, special: true },
        ExpCfg { vars: vec![], logic: true, minmax: true, special: false },
    ];
    for i in 0..n {
        let cfg = &cfgs[i % cfgs.len()];
        let depth = 2 + r.below(4) as u32;
        let e = gen_exp::exp(&mut r, cfg, depth);
        let tag = ["random-mixed", "random-arith", "random-special", "random-closed"][i % cfgs.len()];
        cases.push(one(&e, "simplify", tag));
        cases.push(one(&e, "flatten", tag));
        cases.push(one(&e, "collapses", tag));
    }
    for _ in 0..n / 4 {
        if let Some(c) = respell_case(&mut r) { cases.push(c); }
    }
    cases.extend(respell_block_cases(&mut r, if thorough { 600 } else { 60 }));
    cases.extend(respell_position_cases(&mut r, if thorough { 1600 } else { 160 }));
    cases.extend(respell_division_cases(seed, if thorough { 600 } else { 60 }));
    cases.extend(respell_difference_cases());
    cases.extend(nested_undefined_cases(seed, if thorough { 576 } else { 144 }));
    cases.extend(respell_negation_cases(seed, if thorough { 480 } else { 60 }));
    cases.extend(respell_identity_cases(seed, if thorough { 800 } else { 120 }));
    cases
}
