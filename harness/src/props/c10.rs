//! C10 — algebraic rewrites preserve meaning: `Exp::simplify`, `Exp::flatten`.
use crate::case::Case;
use crate::gen_exp::{self, ExpCfg};
use crate::rng::Rng;
use crate::sx;
use rooc::model_transformer::{Constraint, Exp, Model, Objective};
use rooc::{BinOp, Linearizer, UnOp};
use crate::gen_model::{self, ModelCfg};

/// NaN sign and payload are not observable through `f64` arithmetic and comparisons (x86 produces the
/// "negative" default NaN for `0 * inf`, Lean's `Float.toBits` the canonical positive one): every NaN bit
/// pattern in an encoded tree is replaced by the canonical quiet NaN before model and implementation are diffed.
fn canon_nan(s: &str) -> String {
    let b = s.as_bytes();
    let mut out = String::with_capacity(s.len());
    let mut i = 0;
    while i < b.len() {
        if b[i] == b'#' && i + 18 <= b.len() && b[i + 1] == b'x' {
            if let Ok(bits) = u64::from_str_radix(&s[i + 2..i + 18], 16) {
                if f64::from_bits(bits).is_nan() {
                    out.push_str("#x7ff8000000000000");
                    i += 18;
                    continue;
                }
            }
        }
        out.push(b[i] as char);
        i += 1;
    }
    out
}

fn one(e: &Exp, which: &str, tag: &str) -> Case {
    let req_e = canon_nan(&sx::exp(e));
    let out = if which == "simplify" { e.simplify() } else { e.clone().flatten() };
    let out_s = canon_nan(&sx::exp(&out));
    let mut c = Case::default();
    c.req = format!("{} {}", which, req_e);
    c.imp = format!("(ok {})", out_s);
    c.oracle = format!("check-rewrite {} {}", req_e, out_s);
    c.nontrivial = out_s != req_e;
    c.tags = vec![tag.to_string(), which.to_string(), if c.nontrivial { "rewritten".into() } else { "unchanged".into() }];
    c.show = format!("{}({})", which, e);
    if which == "simplify" {
        // idempotence, checked on the implementation directly
        let twice = out.simplify();
        if canon_nan(&sx::exp(&twice)) != out_s {
            c.impl_violation = Some(format!("simplify not idempotent: {} -> {} -> {}", e, out, twice));
        }
    }
    c
}

/// re-spell the constant `c` (same value, different tree)
fn respell_const(r: &mut Rng, c: f64) -> Exp {
    match r.below(5) {
        0 if c < 0.0 => Exp::UnOp(UnOp::Neg, Box::new(Exp::Number(-c))),
        1 => Exp::BinOp(BinOp::Sub, Box::new(Exp::Number(0.0)), Box::new(Exp::Number(-c))),
        2 => Exp::BinOp(BinOp::Add, Box::new(Exp::Number(c - 1.0)), Box::new(Exp::Number(1.0))),
        3 => Exp::BinOp(BinOp::Mul, Box::new(Exp::Number(c)), Box::new(Exp::Number(1.0))),
        _ => Exp::BinOp(BinOp::Div, Box::new(Exp::Number(c * 2.0)), Box::new(Exp::Number(2.0))),
    }
}

/// re-spell coefficients: `k * e`, `e * k`, `e / k` with `k` written differently (or the operands swapped)
fn respell(r: &mut Rng, e: &Exp) -> Exp {
    // `e / k`  <->  `e * (1/k)` for divisors whose reciprocal is exact
    if let Exp::BinOp(BinOp::Div, a, b) = e {
        if let Exp::Number(k) = **b {
            if [2.0, -2.0, 4.0, 0.5, -0.5, -1.0, 1.0, -4.0].contains(&k) && r.chance(1, 2) {
                return Exp::BinOp(BinOp::Mul, Box::new(respell(r, a)), Box::new(Exp::Number(1.0 / k)));
            }
        }
    }
    let mut go = |x: &Exp| Box::new(respell(r, x));
    match e {
        Exp::Number(_) | Exp::Variable(_) => e.clone(),
        Exp::Abs(x) => Exp::Abs(go(x)),
        Exp::Not(x) => Exp::Not(go(x)),
        Exp::UnOp(op, x) => Exp::UnOp(*op, go(x)),
        Exp::Min(es) => Exp::Min(es.iter().map(|x| respell(r, x)).collect()),
        Exp::Max(es) => Exp::Max(es.iter().map(|x| respell(r, x)).collect()),
        Exp::And(es) => Exp::And(es.iter().map(|x| respell(r, x)).collect()),
        Exp::Or(es) => Exp::Or(es.iter().map(|x| respell(r, x)).collect()),
        Exp::Xor(a, b) => { let x = go(a); let y = go(b); Exp::Xor(x, y) }
        Exp::Implies(a, b) => { let x = go(a); let y = go(b); Exp::Implies(x, y) }
        Exp::Iff(a, b) => { let x = go(a); let y = go(b); Exp::Iff(x, y) }
        Exp::BinOp(BinOp::Mul, a, b) => {
            let (a2, b2) = (respell(r, a), respell(r, b));
            match (&**a, &**b) {
                (Exp::Number(c), _) if r.chance(2, 3) => {
                    let k = respell_const(r, *c);
                    if r.chance(1, 3) { Exp::BinOp(BinOp::Mul, Box::new(b2), Box::new(k)) } else { Exp::BinOp(BinOp::Mul, Box::new(k), Box::new(b2)) }
                }
                (_, Exp::Number(c)) if r.chance(2, 3) => {
                    let k = respell_const(r, *c);
                    if r.chance(1, 3) { Exp::BinOp(BinOp::Mul, Box::new(k), Box::new(a2)) } else { Exp::BinOp(BinOp::Mul, Box::new(a2), Box::new(k)) }
                }
                _ => Exp::BinOp(BinOp::Mul, Box::new(a2), Box::new(b2)),
            }
        }
        Exp::BinOp(op, a, b) => { let x = go(a); let y = go(b); Exp::BinOp(*op, x, y) }
    }
}

fn respell_case(r: &mut Rng) -> Option<Case> {
    let cfg = ModelCfg { max_vars: 3, depth: 2, logic: false, piecewise: true, unbounded: true, fractional: false, strict_cmp: false, hostile: false };
    let (m, ds) = gen_model::model(r, &cfg);
    // make sure a scaled piecewise term is present: the direction a min/max/abs is relaxed in depends on the
    // SIGN of the coefficient, which is where spellings (`k * e`, `e * k`, `e / (1/k)`) can come apart
    let m = {
        let affine = ModelCfg { max_vars: 3, depth: 1, logic: false, piecewise: false, unbounded: false, fractional: false, strict_cmp: false, hostile: false };
        let mut piece = |r: &mut Rng| {
            let a = gen_model::num_exp(r, &ds, &affine, 1);
            let b = gen_model::num_exp(r, &ds, &affine, 1);
            match r.below(3) { 0 => Exp::Max(vec![a, b]), 1 => Exp::Min(vec![a, b]), _ => Exp::Abs(Box::new(a)) }
        };
        let k = *r.pick(&[-2.0, -1.0, -3.0, 2.0, -0.5]);
        let scaled = if r.chance(1, 3) { Exp::BinOp(BinOp::Div, Box::new(piece(r)), Box::new(Exp::Number(*r.pick(&[2.0, 4.0, -2.0])))) } else { Exp::BinOp(BinOp::Mul, Box::new(Exp::Number(k)), Box::new(piece(r))) };
        let mut cons = m.constraints().clone();
        let mut obj = m.objective().rhs.clone();
        if r.chance(2, 3) { cons.push(Constraint::new(scaled, gen_model::comparison(r), Exp::Number(gen_model::constant(r, false)), String::new())); }
        else { obj = Exp::BinOp(BinOp::Add, Box::new(obj), Box::new(scaled)); }
        gen_model::build(m.objective().objective_type.clone(), obj, cons, &ds)
    };
    let cons: Vec<Constraint> = m.constraints().iter().map(|c| Constraint::new(respell(r, c.lhs()), c.constraint_type(), respell(r, c.rhs()), c.name().to_string())).collect();
    let m2 = gen_model::build(m.objective().objective_type.clone(), respell(r, &m.objective().rhs), cons, &ds);
    if sx::model(&m) == sx::model(&m2) { return None; }
    let a = Linearizer::linearize(m.clone());
    let b = Linearizer::linearize(m2.clone());
    let mut c = Case::default();
    c.show = format!("{}  ~~respelled~~>  {}", format!("{}", m).replace('\n', " ; "), format!("{}", m2).replace('\n', " ; "));
    c.tags = vec!["respell".into()];
    c.nontrivial = true;
    match (&a, &b) {
        (Ok(la), Ok(lb)) => {
            c.imp = "(both-compile)".into();
            c.tags.push(if sx::lin_model(la) == sx::lin_model(lb) { "respell-identical-output".into() } else { "respell-different-output".into() });
            // the respelled model's compiled output must denote the ORIGINAL model's feasible set
            c.oracle = format!("py:{} {} {}", if r.chance(1, 2) { "c01" } else { "c02" }, sx::model(&m), sx::lin_model(lb));
        }
        (Err(_), Err(_)) => { c.imp = "(both-rejected)".into(); c.tags.push("respell-both-rejected".into()); }
        (x, y) => {
            c.imp = format!("(acceptance-differs {} {})", x.is_ok(), y.is_ok());
            c.sig = Some("respelling-changes-acceptance".into());
            let e = x.as_ref().err().or(y.as_ref().err()).map(|e| crate::props::c01::lin_error(e)).unwrap_or_default();
            c.impl_violation = Some(format!("two spellings of the same constants: one compiles, the other is rejected with {}", e));
        }
    }
    let _ = (Objective::new, Model::new);
    Some(c)
}

pub fn generate(seed: u64, n: usize, thorough: bool, _corpus: Option<&str>) -> Vec<Case> {
    let mut r = Rng::new(seed);
    let mut cases = vec![];
    // exhaustive small trees
    let leaves = vec![
        Exp::Number(0.0), Exp::Number(1.0), Exp::Number(-0.0), Exp::Number(2.0),
        Exp::Variable("x".into()), Exp::Variable("y".into()),
    ];
    let size = if thorough { 4 } else { 3 };
    for e in gen_exp::enumerate(size, &leaves) {
        cases.push(one(&e, "simplify", "exhaustive"));
        cases.push(one(&e, "flatten", "exhaustive"));
    }
    // regression inputs found by earlier thorough runs (machinery false alarms and finding variants)
    {
        use rooc::{BinOp, UnOp};
        let n = |v: f64| Exp::Number(v);
        let x = || Exp::Variable("x".into());
        let b = |op: BinOp, l: Exp, r: Exp| Exp::BinOp(op, Box::new(l), Box::new(r));
        let regress = vec![
            // NaN sign: 0 * inf
            b(BinOp::Mul, n(0.0), n(f64::INFINITY)),
            Exp::Xor(Box::new(x()), Box::new(b(BinOp::Mul, n(0.0), n(f64::INFINITY)))),
            // underflow to zero in a folded divisor / factor
            b(BinOp::Div, n(4.0), b(BinOp::Add, b(BinOp::Div, n(5e-324), n(4.0)), n(0.0))),
            Exp::Iff(Box::new(b(BinOp::Div, n(1.0), x())), Box::new(b(BinOp::Mul, n(2e-5), n(5e-324)))),
            // one ulp in a folded constant, amplified by cancellation
            b(BinOp::Div, Exp::And(vec![]), b(BinOp::Add, x(), b(BinOp::Div, n(2.0), n(1.000000001)))),
            // divisor undefined (empty max) but folded to a literal below an absorbing constant
            b(BinOp::Div, n(0.2), b(BinOp::Or, Exp::Max(vec![]), n(-2.0))),
            b(BinOp::Div, n(1.0), b(BinOp::Sub, b(BinOp::Mul, Exp::Min(vec![]), n(0.0)), n(1.0))),
            // singleton collapse inside a divisor
            Exp::UnOp(UnOp::Neg, Box::new(b(BinOp::Div, x(), b(BinOp::Sub, b(BinOp::Add, n(1.0), x()), Exp::Or(vec![x()]))))),
            // the two known findings, minimal
            b(BinOp::Mul, n(0.0), b(BinOp::Div, x(), n(0.0))),
            Exp::And(vec![x(), n(1.0)]),
        ];
        for e in &regress {
            cases.push(one(e, "simplify", "regression"));
            cases.push(one(e, "flatten", "regression"));
        }
    }
    let cfgs = [
        ExpCfg { vars: vec!["x".into(), "y".into(), "z".into()], logic: true, minmax: true, special: false },
        ExpCfg { vars: vec!["x".into(), "y".into()], logic: false, minmax: false, special: false },
        ExpCfg { vars: vec!["x".into()], logic: true, minmax: true, special: true },
        ExpCfg { vars: vec![], logic: true, minmax: true, special: false },
    ];
    for i in 0..n {
        let cfg = &cfgs[i % cfgs.len()];
        let depth = 2 + r.below(4) as u32;
        let e = gen_exp::exp(&mut r, cfg, depth);
        let tag = ["random-mixed", "random-arith", "random-special", "random-closed"][i % cfgs.len()];
        cases.push(one(&e, "simplify", tag));
        cases.push(one(&e, "flatten", tag));
    }
    for _ in 0..n / 4 {
        if let Some(c) = respell_case(&mut r) { cases.push(c); }
    }
    cases
}
