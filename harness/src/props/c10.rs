//! C10 — algebraic rewrites preserve meaning: `Exp::simplify`, `Exp::flatten`.
use crate::case::Case;
use crate::gen_exp::{self, ExpCfg};
use crate::rng::Rng;
use crate::sx;
use rooc::model_transformer::Exp;

/// NaN sign and payload are not observable through `f64` arithmetic and comparisons (x86 produces the
/// "negative" default NaN for `0 * inf`, Lean's `Float.toBits` the canonical positive one): every NaN bit
/// pattern in an encoded tree is replaced by the canonical quiet NaN before model and implementation are diffed.
fn canon_nan(s: &str) -> String {
    let b = s.as_bytes();
    let mut out = String::with_capacity(s.len());
    let mut i = 0;
    while i < b.len() {
        if b[i] == b'#' && i + 18 <= b.len() && b[i + 1] == b'x' {
            if let Ok(bits) = u64::from_str_radix(&s[i + 2..i + 18], 16) {
                if f64::from_bits(bits).is_nan() {
                    out.push_str("#x7ff8000000000000");
                    i += 18;
                    continue;
                }
            }
        }
        out.push(b[i] as char);
        i += 1;
    }
    out
}

fn one(e: &Exp, which: &str, tag: &str) -> Case {
    let req_e = canon_nan(&sx::exp(e));
    let out = if which == "simplify" { e.simplify() } else { e.clone().flatten() };
    let out_s = canon_nan(&sx::exp(&out));
    let mut c = Case::default();
    c.req = format!("{} {}", which, req_e);
    c.imp = format!("(ok {})", out_s);
    c.oracle = format!("check-rewrite {} {}", req_e, out_s);
    c.nontrivial = out_s != req_e;
    c.tags = vec![tag.to_string(), which.to_string(), if c.nontrivial { "rewritten".into() } else { "unchanged".into() }];
    c.show = format!("{}({})", which, e);
    if which == "simplify" {
        // idempotence, checked on the implementation directly
        let twice = out.simplify();
        if canon_nan(&sx::exp(&twice)) != out_s {
            c.impl_violation = Some(format!("simplify not idempotent: {} -> {} -> {}", e, out, twice));
        }
    }
    c
}

pub fn generate(seed: u64, n: usize, thorough: bool, _corpus: Option<&str>) -> Vec<Case> {
    let mut r = Rng::new(seed);
    let mut cases = vec![];
    // exhaustive small trees
    let leaves = vec![
        Exp::Number(0.0), Exp::Number(1.0), Exp::Number(-0.0), Exp::Number(2.0),
        Exp::Variable("x".into()), Exp::Variable("y".into()),
    ];
    let size = if thorough { 4 } else { 3 };
    for e in gen_exp::enumerate(size, &leaves) {
        cases.push(one(&e, "simplify", "exhaustive"));
        cases.push(one(&e, "flatten", "exhaustive"));
    }
    // regression inputs found by earlier thorough runs (machinery false alarms and finding variants)
    {
        use rooc::{BinOp, UnOp};
        let n = |v: f64| Exp::Number(v);
        let x = || Exp::Variable("x".into());
        let b = |op: BinOp, l: Exp, r: Exp| Exp::BinOp(op, Box::new(l), Box::new(r));
        let regress = vec![
            // NaN sign: 0 * inf
            b(BinOp::Mul, n(0.0), n(f64::INFINITY)),
            Exp::Xor(Box::new(x()), Box::new(b(BinOp::Mul, n(0.0), n(f64::INFINITY)))),
            // underflow to zero in a folded divisor / factor
            b(BinOp::Div, n(4.0), b(BinOp::Add, b(BinOp::Div, n(5e-324), n(4.0)), n(0.0))),
            Exp::Iff(Box::new(b(BinOp::Div, n(1.0), x())), Box::new(b(BinOp::Mul, n(2e-5), n(5e-324)))),
            // one ulp in a folded constant, amplified by cancellation
            b(BinOp::Div, Exp::And(vec![]), b(BinOp::Add, x(), b(BinOp::Div, n(2.0), n(1.000000001)))),
            // divisor undefined (empty max) but folded to a literal below an absorbing constant
            b(BinOp::Div, n(0.2), b(BinOp::Or, Exp::Max(vec![]), n(-2.0))),
            b(BinOp::Div, n(1.0), b(BinOp::Sub, b(BinOp::Mul, Exp::Min(vec![]), n(0.0)), n(1.0))),
            // singleton collapse inside a divisor
            Exp::UnOp(UnOp::Neg, Box::new(b(BinOp::Div, x(), b(BinOp::Sub, b(BinOp::Add, n(1.0), x()), Exp::Or(vec![x()]))))),
            // the two known findings, minimal
            b(BinOp::Mul, n(0.0), b(BinOp::Div, x(), n(0.0))),
            Exp::And(vec![x(), n(1.0)]),
        ];
        for e in &regress {
            cases.push(one(e, "simplify", "regression"));
            cases.push(one(e, "flatten", "regression"));
        }
    }
    let cfgs = [
        ExpCfg { vars: vec!["x".into(), "y".into(), "z".into()], logic: true, minmax: true, special: false },
        ExpCfg { vars: vec!["x".into(), "y".into()], logic: false, minmax: false, special: false },
        ExpCfg { vars: vec!["x".into()], logic: true, minmax: true, special: true },
        ExpCfg { vars: vec![], logic: true, minmax: true, special: false },
    ];
    for i in 0..n {
        let cfg = &cfgs[i % cfgs.len()];
        let depth = 2 + r.below(4) as u32;
        let e = gen_exp::exp(&mut r, cfg, depth);
        let tag = ["random-mixed", "random-arith", "random-special", "random-closed"][i % cfgs.len()];
        cases.push(one(&e, "simplify", tag));
        cases.push(one(&e, "flatten", tag));
    }
    cases
}
