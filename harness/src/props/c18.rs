//! C18 — the compiler is total: no stage panics, aborts or hangs; every error renders against the source.
//!
//! Three input streams (grammar-derived programs; mutated valid programs; raw noise ≤ 4 KiB, nesting ≤ 64)
//! go through parse → format → type_check → token_map → transform → display → linearize → standardise →
//! solve inside a watched child process (`pre_worker.rs`: wall-clock limit, address-space cap,
//! `catch_unwind` per stage).  A fourth family — the primitive operator core over boundary values —
//! is run in-process and doubles as the correspondence check of the Lean model `Rooc/Pre/Prim.lean`.
use crate::case::Case;
use crate::pre_gen::*;
use crate::pre_reflect;
use crate::pre_worker::{Pool, RunResult};
use crate::rng::Rng;
use std::time::Duration;

pub const MAX_BYTES: usize = 4096;
pub const MAX_NEST: usize = 64;

// ------------------------------------------------------------------------------------ features
pub fn depths(s: &str) -> (usize, usize, usize) {
    let (mut p, mut b, mut c) = (0usize, 0usize, 0usize);
    let (mut mp, mut mb, mut mc) = (0, 0, 0);
    for ch in s.chars() {
        match ch {
            '(' => { p += 1; mp = mp.max(p); } ')' => { p = p.saturating_sub(1); }
            '[' => { b += 1; mb = mb.max(b); } ']' => { b = b.saturating_sub(1); }
            '{' => { c += 1; mc = mc.max(c); } '}' => { c = c.saturating_sub(1); }
            _ => {}
        }
    }
    (mp, mb, mc)
}
/// an integer literal >= 5000 (sizes of ranges are user numbers)
pub fn has_big_literal(s: &str) -> bool {
    let mut run = String::new();
    let mut check = |run: &mut String| { let big = run.len() >= 19 || run.parse::<u64>().map(|v| v >= 5000).unwrap_or(false); run.clear(); big };
    for ch in s.chars() {
        if ch.is_ascii_digit() { run.push(ch); } else if check(&mut run) { return true; }
    }
    check(&mut run)
}
/// the input feature that explains a time-out / process death at `stage` (keeps known-finding signatures narrow)
fn features(stage: &str, s: &str) -> String {
    let (p, b, c) = depths(s);
    let big = has_big_literal(s);
    match stage {
        "startup" | "parse" | "format" => if p >= 10 { "paren-depth>=10" } else if b >= 10 { "bracket-depth>=10" } else { "plain" },
        "type_check" | "token_map" | "transform" | "display" => if big { "big-literal" } else { "plain" },
        _ => if big { "big-literal" } else if c >= 16 { "curly-depth>=16" } else { "plain" },
    }.to_string()
}
/// panic messages carry input fragments: keep the fixed part only
fn norm_msg(m: &str) -> String {
    let m = m.split(" || ").next().unwrap_or(m);
    for p in ["Expected operator, found", "Expected prefix or primary expression, found", "Expected postfix or infix expression, found", "called `Option::unwrap()`",
              "called `Result::unwrap()`", "index out of bounds", "byte index", "range end index", "range start index", "slice index", "attempt to", "capacity overflow"] {
        if let Some(i) = m.find(p) {
            let rest: String = m[i..].chars().take(48).collect();
            if p == "attempt to" { return rest; }
            return p.to_string();
        }
    }
    let t: String = m.chars().map(|c| if c.is_ascii_digit() { '#' } else { c }).take(60).collect();
    t
}

pub fn classify(src: &str, r: &RunResult, c: &mut Case) {
    let mut outcome = vec![];
    for s in &r.stages {
        outcome.push(format!("{}={}", s.stage, s.outcome));
        c.tags.push(format!("{}:{}", s.stage, if s.outcome.starts_with("err:") { "err" } else { &s.outcome }));
        if s.outcome.starts_with("err:") { c.tags.push(format!("error-kind:{}", &s.outcome[4..])); }
        if s.outcome == "panic" && c.impl_violation.is_none() {
            let at = s.detail.split(" || ").nth(1).unwrap_or("");
            let frames = at.split('@').nth(1).unwrap_or("");
            c.sig = Some(format!("panic:{}:{}@{}", s.stage, norm_msg(&s.detail), frames));
            c.impl_violation = Some(format!("stage {} panics: {}", s.stage, s.detail));
        }
        if s.outcome == "render-failed" && c.impl_violation.is_none() {
            c.sig = Some(format!("render-failed:{}", s.stage));
            c.impl_violation = Some(format!("error of stage {} cannot be rendered against the source: {}", s.stage, s.detail));
        }
    }
    if let Some((kind, stage, detail)) = &r.fatal {
        let alloc = detail.contains("memory allocation of");
        let stack = detail.contains("signal 11") || detail.contains("stack overflow");
        let how = if kind == "hang" { "hang".to_string() } else if alloc { "abort-alloc".into() } else if stack { "abort-stack".into() } else { "abort".into() };
        c.tags.push(format!("{}:{}", stage, how));
        // a stack overflow of a deep expression tree hits whichever recursive pass comes first: no stage in the signature
        c.sig = Some(if how == "abort-stack" { format!("{}:{}", how, features(stage, src)) } else { format!("{}:{}:{}", how, stage, features(stage, src)) });
        c.impl_violation = Some(format!("stage {} {}: {}", stage, if kind == "hang" { "does not terminate within the time limit" } else { "kills the process" }, detail));
        outcome.push(format!("{}={}", stage, how));
    }
    if r.wall_ms >= 200 && r.fatal.is_none() { c.tags.push("slow:>=200ms".into()); }
    c.imp = format!("({})", outcome.join(" "));
    c.oracle = format!("total {}", c.imp);
    c.nontrivial = r.stages.len() >= 5 || r.fatal.is_some() || r.stages.iter().any(|s| s.outcome.starts_with("err:"));
}

// ------------------------------------------------------------------------------------ tokens / mutations
fn tokenize(s: &str) -> Vec<String> {
    let cs: Vec<char> = s.chars().collect();
    let mut out = vec![];
    let mut i = 0;
    let multi = ["..=", "<->", "s.t.", "..", "<=", ">=", "->", "&&", "||"];
    while i < cs.len() {
        let c = cs[i];
        if c.is_alphabetic() || c == '_' || c == '$' {
            let mut j = i; while j < cs.len() && (cs[j].is_alphanumeric() || cs[j] == '_' || cs[j] == '$') { j += 1; }
            // `s.t.`
            if cs[i..j].iter().collect::<String>() == "s" && cs[i..].iter().take(4).collect::<String>() == "s.t." { out.push("s.t.".into()); i += 4; continue; }
            out.push(cs[i..j].iter().collect()); i = j;
        } else if c.is_ascii_digit() {
            let mut j = i; while j < cs.len() && cs[j].is_ascii_digit() { j += 1; }
            if j + 1 < cs.len() && cs[j] == '.' && cs[j + 1].is_ascii_digit() { j += 1; while j < cs.len() && cs[j].is_ascii_digit() { j += 1; } }
            out.push(cs[i..j].iter().collect()); i = j;
        } else if c == '"' {
            let mut j = i + 1; while j < cs.len() && cs[j] != '"' { j += 1; }
            j = (j + 1).min(cs.len());
            out.push(cs[i..j].iter().collect()); i = j;
        } else if c == ' ' || c == '\t' {
            let mut j = i; while j < cs.len() && (cs[j] == ' ' || cs[j] == '\t') { j += 1; }
            out.push(cs[i..j].iter().collect()); i = j;
        } else {
            let rest: String = cs[i..].iter().take(4).collect();
            if let Some(m) = multi.iter().find(|m| rest.starts_with(**m)) { out.push(m.to_string()); i += m.chars().count(); }
            else { out.push(c.to_string()); i += 1; }
        }
    }
    out
}
fn is_space(t: &str) -> bool { t.chars().all(|c| c == ' ' || c == '\t') }
fn is_number(t: &str) -> bool { t.chars().next().map(|c| c.is_ascii_digit()).unwrap_or(false) }
fn is_word(t: &str) -> bool { t.chars().next().map(|c| c.is_alphabetic() || c == '_' || c == '$').unwrap_or(false) }

const EXTREMES: [&str; 22] = ["9223372036854775807", "9223372036854775808", "9223372036854775806", "18446744073709551615", "18446744073709551616",
    "4294967296", "4294967295", "2147483648", "2147483647", "9007199254740993", "99999999999999999999999999", "0", "1", "0.0", "0.5",
    "179769313486231570000000000000000000000000000000000000000000000000000000000000000000000000000000000000000000000000000000000000000000000000000000000000000000000000000000000000000000000000000000000000000000000000000000000000000000000000000000000000000000000000000000000000000000000000000000000000000000000000.0",
    "1797693134862315700000000000000000000000000000000000000000000000000000000000000000000000000000000000000000000000000000000000000000000000000000000000000000000000000000000000000000000000000000000000000000000000000000000000000000000000000000000000000000000000000000000000000000000000000000000000000000000000000.0",
    "0.000000000000000000000000000000000000000000000000000000000000000000000000000000000000000000000000000000000000000000000000000000000000000000000000000000000000000000000000000000000000000000000000000000000000000000000000000000000000000000000000000000000000000000000000000000000000000000000000000000000000000000000000000000000000001",
    "9223372036854775807.5", "0.99999", "0.000001", "1000000"];
const GARBAGE: [&str; 40] = ["{", "}", "(", ")", "[", "]", "..", "..=", "in", "for", "as", "_", "\\", "\"", "$", "€", "∀", "\u{0}", "\t", ",", ":", "=", "<=", "-",
    "!", "not", "and", "->", "<->", "let", "where", "define", "s.t.", "min", "sum", "Graph", "true", "\u{feff}", "\r", "é"];
const OPS: [&str; 14] = ["+", "-", "*", "/", "and", "or", "xor", "implies", "iff", "&&", "||", "->", "<->", "<="];

/// applies one mutation; returns its tag
fn mutate(r: &mut Rng, toks: &mut Vec<String>) -> String {
    let idx: Vec<usize> = (0..toks.len()).filter(|i| !is_space(&toks[*i])).collect();
    if idx.is_empty() { return "noop".into(); }
    let at = *r.pick(&idx);
    let nums: Vec<usize> = idx.iter().cloned().filter(|i| is_number(&toks[*i])).collect();
    let words: Vec<usize> = idx.iter().cloned().filter(|i| is_word(&toks[*i]) && toks[*i] != "s.t.").collect();
    match r.below(14) {
        0 => { toks.remove(at); "delete".into() }
        1 => { let t = toks[at].clone(); toks.insert(at, t); "duplicate".into() }
        2 => { let other = *r.pick(&idx); toks.swap(at, other); "swap".into() }
        3 | 4 if !nums.is_empty() => { let i = *r.pick(&nums); toks[i] = r.pick(&EXTREMES).to_string(); "numeric-extreme".into() }
        5 => { let ops: Vec<usize> = idx.iter().cloned().filter(|i| OPS.contains(&toks[*i].as_str())).collect();
            if ops.is_empty() { toks.insert(at, r.pick(&GARBAGE).to_string()); "garbage".into() } else { let i = *r.pick(&ops); toks[i] = r.pick(&OPS).to_string(); "operator-swap".into() } }
        6 => { toks.insert(at, r.pick(&GARBAGE).to_string()); "garbage".into() }
        7 => { // huge range: the upper bound of a range becomes a large user number
            let rs: Vec<usize> = idx.iter().cloned().filter(|i| toks[*i] == ".." || toks[*i] == "..=").collect();
            if rs.is_empty() { toks.insert(at, "..".into()); return "garbage".into(); }
            let i = *r.pick(&rs);
            let big = *r.pick(&["30000000", "100000000000", "9223372036854775807", "4294967296", "1000000"]);
            let mut j = i + 1; while j < toks.len() && is_space(&toks[j]) { j += 1; }
            if j < toks.len() { toks[j] = big.into(); } else { toks.push(big.into()); }
            "huge-range".into() }
        8 if !words.is_empty() => { // deep index
            let i = *r.pick(&words); let d = *r.pick(&[2usize, 5, 17, 64]);
            let suffix = match r.below(3) { 0 => "[0]".repeat(d), 1 => "_1".repeat(d), _ => format!("{}1{}", "_{x".repeat(d), "}".repeat(d)) };
            toks[i] = format!("{}{}", toks[i], suffix); "deep-index".into() }
        9 if !words.is_empty() => { // nesting of parentheses / unary minus / blocks around one operand
            let i = *r.pick(&words); let d = *r.pick(&[2usize, 3, 5, 8]);
            toks[i] = match r.below(4) { 0 => format!("{}{}{}", "(".repeat(d), toks[i], ")".repeat(d)), 1 => format!("{}{}{}", "-(".repeat(d), toks[i], ")".repeat(d)),
                2 => format!("{}{}{}", "min{ ".repeat(d), toks[i], " }".repeat(d)), _ => format!("{}{}{}", "abs{ -".repeat(d), toks[i], " }".repeat(d)) };
            "nesting".into() }
        10 if !words.is_empty() => { let i = *r.pick(&words); toks[i] = r.pick(&["true", "\"s\"", "[1, 2]", "[]", "[[1], [2, 3]]", "Graph { A -> [B], B }", "len(A)", "x_1", "nodes(G)", "Infinity", "PI", "0..3", "_"]).to_string(); "retype".into() }
        11 => { toks.truncate(at); "truncate".into() }
        12 => { let t = toks[at].clone(); let n = 2 + r.below(6); for _ in 0..n { toks.insert(at, t.clone()); } "repeat".into() }
        _ => { toks[at] = r.pick(&GARBAGE).to_string(); "replace".into() }
    }
}

/// inputs that are expected to exhaust the time limit are rationed (each costs the full limit)
fn predicted_slow(src: &str) -> bool { let (p, b, c) = depths(src); p >= 10 || b >= 10 || c >= 16 || has_big_literal(src) }

fn clamp(s: String) -> String {
    if s.len() <= MAX_BYTES { return s; }
    let mut end = MAX_BYTES; while !s.is_char_boundary(end) { end -= 1; }
    s[..end].to_string()
}

// ------------------------------------------------------------------------------------ streams
fn numeric_program(r: &mut Rng) -> (String, String) {
    let lits = ["0", "1", "2", "3", "9223372036854775807", "9223372036854775806", "4611686018427387904", "3037000500", "4294967296", "2147483648",
        "0.5", "2.0", "9007199254740993", "len(A)", "len(B)", "true", "false", "PI", "Infinity", "MinusInfinity", "1000000"];
    fn e(r: &mut Rng, lits: &[&str], d: u32) -> String {
        if d == 0 || r.chance(1, 3) { return r.pick(lits).to_string(); }
        match r.below(8) {
            0 => format!("-({})", e(r, lits, d - 1)),
            1 => format!("-{}", r.pick(lits)),
            2 => format!("({} - {})", e(r, lits, d - 1), e(r, lits, d - 1)),
            3 => format!("({} * {})", e(r, lits, d - 1), e(r, lits, d - 1)),
            4 => format!("({} / {})", e(r, lits, d - 1), e(r, lits, d - 1)),
            5 => format!("(0 - {} - 1)", e(r, lits, d - 1)),
            _ => format!("({} + {})", e(r, lits, d - 1), e(r, lits, d - 1)),
        }
    }
    let x = e(r, &lits, 3);
    let y = e(r, &lits, 2);
    let pos = r.below(8);
    let (tag, body) = match pos {
        0 => ("const", format!("min 1\ns.t.\n    x >= a\nwhere\n    let A = [1, 2, 3]\n    let B = []\n    let a = {}\ndefine\n    x as Real\n", x)),
        1 => ("coefficient", format!("min ({}) * x\ns.t.\n    x >= {}\nwhere\n    let A = [1, 2, 3]\n    let B = []\ndefine\n    x as Real\n", x, y)),
        2 => ("range-bound", format!("min 1\ns.t.\n    sum(i in ({})..({})) {{ x }} >= 1\nwhere\n    let A = [1, 2, 3]\n    let B = []\ndefine\n    x as Real\n", x, y)),
        3 => ("array-index", format!("min 1\ns.t.\n    A[{}] * x >= 1\nwhere\n    let A = [1, 2, 3]\n    let B = []\ndefine\n    x as Real\n", x)),
        4 => ("compound-index", format!("min 1\ns.t.\n    x_{{{}}} >= 1\nwhere\n    let A = [1, 2, 3]\n    let B = []\ndefine\n    x_{{{}}} as Boolean\n", x, x)),
        5 => ("domain-bound", format!("min 1\ns.t.\n    x >= 1\nwhere\n    let A = [1, 2, 3]\n    let B = []\ndefine\n    x as IntegerRange({}, {})\n    y as Real({}, {})\n", x, y, y, x)),
        6 => ("range-inclusive", format!("min 1\ns.t.\n    x_i >= 1 for i in ({})..=({})\nwhere\n    let A = [1, 2, 3]\n    let B = []\ndefine\n    x_i as NonNegativeReal(0, {}) for i in ({})..=({})\n", x, y, y, x, y)),
        _ => ("block", format!("min avg{{ {}, x }}\ns.t.\n    max{{ x, {} }} <= prod(i in 0..3){{ {} }}\nwhere\n    let A = [1, 2, 3]\n    let B = []\ndefine\n    x as Real(0, 9)\n", x, y, x)),
    };
    (format!("numeric:{}", tag), body)
}

fn noise(r: &mut Rng) -> (String, String) {
    let n = *r.pick(&[1usize, 8, 40, 200, 1000, 4000]);
    match r.below(6) {
        0 => { let s: String = (0..n).map(|_| (32 + r.below(95)) as u8 as char).collect(); ("ascii".into(), s) }
        1 => { let s: String = (0..n / 2).map(|_| char::from_u32(r.below(0x11000) as u32).unwrap_or('\u{fffd}')).collect(); ("unicode".into(), s) }
        2 => { let b: Vec<u8> = (0..n).map(|_| r.below(256) as u8).collect(); ("bytes-lossy".into(), String::from_utf8_lossy(&b).into_owned()) }
        3 | 4 => {
            let vocab = ["min", "max", "solve", "s.t.", "where", "define", "let", "for", "in", "as", "sum", "prod", "avg", "len", "enumerate", "x", "y_i", "A", "i", "1", "2.5", "0", "..", "..=", "(", ")", "{", "}", "[", "]",
                ",", ":", "+", "-", "*", "/", "<=", ">=", "=", "Boolean", "Real", "IntegerRange", "Graph", "->", "\n", "\n    ", "true", "\"s\"", "_", "!", "and", "or", "\\x_1", "$a", "//c\n", "/*", "*/"];
            let mut s = String::from(if r.chance(1, 2) { "min x\ns.t.\n    " } else { "" });
            for _ in 0..n / 3 { s.push_str(*r.pick(&vocab)); if r.chance(2, 3) { s.push(' '); } }
            ("token-soup".into(), s) }
        _ => { // bracket noise up to the nesting bound
            let d = *r.pick(&[3usize, 9, 30, 64]);
            let open = *r.pick(&["(", "[", "{", "min{", "sum(i in ", "-(", "x_{", "A["]);
            let close = match open { "(" | "-(" => ")", "[" | "A[" => "]", "sum(i in " => "){1}", _ => "}" };
            // deep `(`/`[` need exponential parse time: keep the deep variants to the cheap openers
            let d = if (open == "(" || open == "-(" || open == "[") && d > 9 { 9 } else { d };
            ("bracket-noise".into(), format!("min 1\ns.t.\n    {}1{} >= 0\n", open.repeat(d), close.repeat(d))) }
    }
}

const SEED_PROGRAMS: [&str; 6] = [
"min sum(u in nodes(G)) { x_u }\ns.t.\n    x_v + sum((_, u) in neigh_edges(v)) { x_u } >= 1 for v in nodes(G)\nwhere\n    let G = Graph {\n        A -> [B, C],\n        B -> [A, C: 2],\n        C -> [A]\n    }\ndefine\n    x_u as Boolean for v in nodes(G), (_, u) in edges(G)\n    x_v as Boolean for v in nodes(G)\n",
"max sum((value, i) in enumerate(values)) { value * x_i }\ns.t.\n    sum((weight, i) in enumerate(weights)) { weight * x_i } <= capacity\nwhere\n    let weights = [10, 60, 30, 40]\n    let values = [1, 10, 15, 40]\n    let capacity = 102\ndefine\n    x_i as Boolean for i in 0..len(weights)\n",
"min 1\ns.t.\n    c_j: 1 + sum(el in R, i in 0..(el + 1)) { i } <= 1 for R in M\nwhere\n    let M = [[1, 2], [3, 4]]\n    let j = 0\n",
"min x + 2y\ns.t.\n    abs{ x - y } <= 3\n    max{ x, y } >= 1\n    (a or b) and !c\n    a -> b\ndefine\n    x, y as IntegerRange(-5, 5)\n    a, b, c as Boolean\n",
"solve\ns.t.\n    avg(i in A) { i * x } >= 1\n    x_{i + 1} <= A[i] for i in 0..len(A)\nwhere\n    let A = [1, 2, 3]\ndefine\n    x as Real\n    x_i as NonNegativeReal(0, 10) for i in 1..=len(A)\n",
"min 1\ns.t.\n    x >= a\nwhere\n    let a = -(0 - 9223372036854775807 - 1)\ndefine\n    x as Real\n",
];

pub fn generate(seed: u64, n: usize, thorough: bool, corpus: Option<&str>) -> Vec<Case> {
    let mut r = Rng::new(crate::pre_gen::spread_seed(seed));
    let mut cases = vec![];
    let limit = Duration::from_millis(if thorough { 15000 } else { 3000 });
    let mut pool = Pool::new(limit, 4 << 20);
    let mut run = |src: String, tags: Vec<String>, pool: &mut Pool| -> Case {
        let src = clamp(src);
        let mut c = Case::default();
        c.tags = tags;
        c.show = src.clone();
        let res = pool.run(&src, true);
        classify(&src, &res, &mut c);
        c
    };
    // ---- corpus (seeded known defects and past failures) first
    let mut valid: Vec<String> = SEED_PROGRAMS.iter().map(|s| s.to_string()).collect();
    if let Some(dir) = corpus {
        if let Ok(rd) = std::fs::read_dir(dir) {
            let mut files: Vec<_> = rd.filter_map(|e| e.ok()).map(|e| e.path()).filter(|p| p.extension().map(|x| x == "rooc").unwrap_or(false)).collect();
            files.sort();
            for f in files {
                if let Ok(s) = std::fs::read_to_string(&f) {
                    cases.push(run(s.clone(), vec!["stream:corpus".into(), format!("corpus:{}", f.file_name().unwrap().to_string_lossy())], &mut pool));
                }
            }
        }
    }
    for s in SEED_PROGRAMS.iter() { cases.push(run(s.to_string(), vec!["stream:seed-programs".into()], &mut pool)); }
    // ---- stream 1: grammar-derived programs
    let n1 = n / 4;
    for i in 0..n1 {
        let mut rr = r.fork();
        let mut g = ProgGen::new(&mut rr, GenCfg { graphs: i % 2 == 0, logic: i % 3 == 0, errors: false });
        let p = g.program();
        let src = print_prog(&p);
        if valid.len() < 64 { valid.push(src.clone()); }
        cases.push(run(src, vec!["stream:grammar".into()], &mut pool));
    }
    // ---- numeric extremes in every compile-time position
    let mut slow_budget = if thorough { 20 } else { 4 };
    for _ in 0..n / 4 {
        let (tag, src) = numeric_program(&mut r);
        // a numeric extreme in a range bound is the known "range as large as a user number" shape: rationed
        if tag.contains("range") && has_big_literal(&src) { if slow_budget == 0 { continue; } slow_budget -= 1; }
        cases.push(run(src, vec!["stream:numeric-extremes".into(), tag], &mut pool));
    }
    // ---- stream 2: mutated valid programs
    for _ in 0..n / 4 {
        let base = r.pick(&valid).clone();
        let mut toks = tokenize(&base);
        let k = 1 + r.below(3);
        let mut tags = vec!["stream:mutated".to_string()];
        for _ in 0..k { tags.push(format!("mutation:{}", mutate(&mut r, &mut toks))); }
        let src = clamp(toks.concat());
        // inputs that are expected to exhaust the time limit are rationed (each costs the full limit)
        if predicted_slow(&src) { if slow_budget == 0 { continue; } slow_budget -= 1; }
        cases.push(run(src, tags, &mut pool));
    }
    // ---- stream 3: raw noise
    for _ in 0..n / 4 {
        let (tag, src) = noise(&mut r);
        if predicted_slow(&src) { if slow_budget == 0 { continue; } slow_budget -= 1; }
        cases.push(run(src, vec!["stream:noise".into(), format!("noise:{}", tag)], &mut pool));
    }
    // ---- the nesting bound itself (deep but cheap constructs) and the known slow shapes, a fixed small set
    for (tag, src) in [
        ("deep-blocks-64", format!("min 1\ns.t.\n    {}x{} >= 0\ndefine\n    x as Real(0, 1)\n", "min{ ".repeat(64), " }".repeat(64))),
        ("deep-access-64", format!("min 1\ns.t.\n    A{} * x >= 0\nwhere\n    let A = [0]\ndefine\n    x as Real\n", "[0]".repeat(64))),
        ("deep-index-64", format!("min 1\ns.t.\n    {}1{} >= 0\ndefine\n    x_1 as Real\n", "x_{".repeat(64), "}".repeat(64))),
        ("deep-calls-64", format!("min 1\ns.t.\n    {}A{} * x >= 0\nwhere\n    let A = [0]\ndefine\n    x as Real\n", "len(".repeat(64), ")".repeat(64))),
        ("deep-scoped-24", format!("min 1\ns.t.\n    {}x{} >= 0\ndefine\n    x as Real\n", (0..24).map(|i| format!("sum(i{} in 0..1){{ ", i)).collect::<String>(), " }".repeat(24))),
        ("deep-parens-16", format!("min 1\ns.t.\n    {}x{} >= 0\ndefine\n    x as Real\n", "(".repeat(16), ")".repeat(16))),
        ("deep-iterators-40", format!("min 1\ns.t.\n    {}1{} >= 0\n", "sum(i in ".repeat(40), "){1}".repeat(40))),
        ("deep-arrays-28", format!("min 1\ns.t.\n    x >= 0\nwhere\n    let a = {}1{}\ndefine\n    x as Real\n", "[".repeat(28), "]".repeat(28))),
        ("sum-10000", "min 1\ns.t.\n    sum(i in 0..20000){ x } >= 1\ndefine\n    x as Real\n".to_string()),
        ("range-3e7", "min 1\ns.t.\n    sum(i in 0..30000000){ x } >= 1\ndefine\n    x as Real\n".to_string()),
        ("range-1e11", "min 1\ns.t.\n    sum(i in 0..100000000000){ x } >= 1\ndefine\n    x as Real\n".to_string()),
        ("range-i64max", "min 1\ns.t.\n    sum(i in 0..9223372036854775807){ x } >= 1\ndefine\n    x as Real\n".to_string()),
        ("nested-body-tag", "min 1\ns.t.\n    x >= sum(i in 0..max{1,2}){ i }\ndefine\n    x as Real\n".to_string()),
        ("neg-2pow63", format!("min 1\ns.t.\n    x >= a\nwhere\n    let A = [{}]\n    let a = -(len(A) * len(A) * len(A) * len(A) * len(A) * len(A) * len(A))\ndefine\n    x as Real\n", vec!["1"; 512].join(","))),
    ] {
        cases.push(run(src, vec!["stream:fixed-shapes".into(), format!("shape:{}", tag)], &mut pool));
    }
    // ---- ranges whose ends are numeric extremes (inclusive AND exclusive; sum / for / define), exhaustively
    for (tag, src) in range_extreme_programs() { cases.push(run(src, vec!["stream:range-extremes".into(), tag], &mut pool)); }
    // ---- tuple destructuring against every kind of element, incl. more names than components and jagged rows
    for d in destructure_programs(false) {
        cases.push(run(d.src, vec!["stream:destructuring".into(), format!("destructure:{}:{}{}:{}", d.source, if d.tuple { "tuple" } else { "single" }, d.vars.len(), d.position)], &mut pool));
    }
    // ---- typed programs (where section, declarations with bounds, quantified named constraints, enumerate, tuple patterns):
    //      the generators of C19's where / scopes streams, through every stage
    {
        let mut rr = Rng::new(crate::pre_gen::spread_seed(seed ^ 0x7ac3));
        for src in crate::props::c19::typed_program_sources(&mut rr, if thorough { 1500 } else { 150 }) {
            cases.push(run(src, vec!["stream:typed-programs".into()], &mut pool));
        }
    }
    // ---- tiny mixed-integer programs (2-4 variables of every declared type, 1-4 rows with small coefficients, growth cycles
    //      `x >= k*y + 1, y >= k*x + 1`, free / bounded / infinite domains): the solve stages must answer, whatever the answer is
    {
        let mut rr = Rng::new(crate::pre_gen::spread_seed(seed ^ 0x51a7));
        for _ in 0..(if thorough { 3000 } else { 300 }) {
            let nv = 2 + rr.below(3);
            let names: Vec<String> = (0..nv).map(|i| format!("v{}", i)).collect();
            let mut decls = String::new();
            for n in &names {
                let ty = match rr.below(9) { 0 | 1 => "Real".to_string(), 2 | 3 => "NonNegativeReal".to_string(), 4 => "Boolean".to_string(), 5 => format!("IntegerRange({}, {})", rr.range(-3, 1), rr.range(1, 5)),
                    6 => format!("Real({}, {})", rr.range(-5, 0), rr.range(0, 9)), 7 => format!("NonNegativeReal({}, {})", rr.range(0, 2), rr.range(2, 9)), _ => "IntegerRange(0, 1)".to_string() };
                decls.push_str(&format!("    {} as {}\n", n, ty));
            }
            let term = |rr: &mut Rng, n: &str| { let c = rr.range(-5, 5); if c == 1 { n.to_string() } else { format!("{} * {}", c, n) } };
            let mut rows = String::new();
            if rr.chance(1, 3) {
                let k = rr.range(1, 6); let (a, b) = (&names[0], &names[1]);
                rows.push_str(&format!("    {} * {} + 1 <= {}\n    {} * {} + 1 <= {}\n", k, a, b, k, b, a));
            }
            for _ in 0..1 + rr.below(4) {
                let mut lhs: Vec<String> = vec![];
                for n in &names { if rr.chance(2, 3) { lhs.push(term(&mut rr, n)); } }
                if lhs.is_empty() { lhs.push(names[0].clone()); }
                rows.push_str(&format!("    {} {} {}\n", lhs.join(" + "), rr.pick(&["<=", ">=", "=", "<=", ">="]), rr.range(-6, 9)));
            }
            let mut obj: Vec<String> = vec![];
            for n in &names { if rr.chance(2, 3) { obj.push(term(&mut rr, n)); } }
            let src = format!("{} {}\ns.t.\n{}define\n{}", rr.pick(&["min", "max"]), if obj.is_empty() { "1".to_string() } else { obj.join(" + ") }, rows, decls);
            cases.push(run(src, vec!["stream:tiny-milp".into()], &mut pool));
        }
    }
    // ---- inputs that END right after a line break (empty / blank sources, every seed program cut after each of its line
    //      breaks, constructs whose grammar swallows newlines left open): the parser's error glue must render them - deterministic
    {
        let mut k = 0usize;
        let mut srcs: Vec<String> = vec!["".into(), "\n".into(), "   \n".into(), "\n\n\n".into(), "\t\n  \n".into(), " ".into(),
            "min 1\ns.t.\n    x >= sum(i in 0..2) {\n".into(), "min 1\ns.t.\n    x >= max {\n".into(), "min 1\ns.t.\n    x >= 1\nwhere\n    let A = [1, 2,\n".into(),
            "min 1\ns.t.\n    x >= 1\nwhere\n    let G = Graph {\n".into(), "min 1\ns.t.\n    x >= len([\n".into(), "min 1\ns.t.\n    x >= 1\nwhere\n    let G = Graph { A -> [\n".into(),
            "min 1\ns.t.\n    x >= (1 +\n".into(), "min 1\ns.t.\n    x_{\n".into(), "min 1\ns.t.\n    x >= 1 for i in\n".into(), "min 1\ns.t.\n    x >= 1\ndefine\n    x as IntegerRange(\n".into(),
            "min\n".into(), "min 1\ns.t.\n".into(), "min 1\ns.t.\n    x >= 1\nwhere\n".into(), "min 1\ns.t.\n    x >= 1\ndefine\n".into(), "min 1\ns.t.\n    x >= 1\nwhere\n    let a =\n".into()];
        for p in SEED_PROGRAMS.iter() {
            for (i, ch) in p.char_indices() { if ch == '\n' { srcs.push(p[..=i].to_string()); } }
        }
        for src in srcs { cases.push(run(src, vec!["stream:ends-after-line-break".into(), format!("ends-after-line-break:{}", k)], &mut pool)); k += 1; }
    }
    // ---- errors that sit on NON-ASCII text (string literals, identifiers, a comment before the error on the same line) in
    //      syntactically valid programs: the rendered trace must exist AND quote the offending text in full - deterministic
    {
        let strings = ["\"日本語\"", "\"héllo wörld\"", "\"ключ\"", "\"añb\"", "\"😀x\"", "\"ß\""];
        let mut k = 0usize;
        let mut progs: Vec<(String, String, String)> = vec![];   // (template, source, text the trace must quote)
        for s in strings.iter() {
            progs.push(("cmp-string".into(), format!("min 1\ns.t.\n    x <= {}\ndefine\n    x as Real\n", s), format!("x <= {}", s)));
            progs.push(("len-string".into(), format!("min 1\ns.t.\n    x >= len({})\ndefine\n    x as Real\n", s), format!("len({})", s)));
            progs.push(("index-string".into(), format!("min 1\ns.t.\n    x >= A[{}]\nwhere\n    let A = [1, 2]\ndefine\n    x as Real\n", s), format!("A[{}]", s)));
            progs.push(("unknown-fn".into(), format!("min 1\ns.t.\n    x >= nope({})\ndefine\n    x as Real\n", s), format!("nope({})", s)));
            progs.push(("iter-string".into(), format!("min 1\ns.t.\n    x >= 1 for i in {}\ndefine\n    x as Real\n", s), format!("i in {}", s)));
            progs.push(("compound-index".into(), format!("min 1\ns.t.\n    x_{{{}}} >= 1\ndefine\n    x_i as Real for i in 0..2\n", s), format!("x_{{{}}}", s)));
            progs.push(("range-arg".into(), format!("min 1\ns.t.\n    x >= 1 for i in range(0, {}, true)\ndefine\n    x as Real\n", s), format!("range(0, {}, true)", s)));
            progs.push(("domain-bound".into(), format!("min 1\ns.t.\n    x >= 1\ndefine\n    x as Real(0, {})\n", s), format!("x as Real(0, {})", s)));
            progs.push(("sum-body".into(), format!("min 1\ns.t.\n    sum(i in 0..2) {{ {} }} >= 1\ndefine\n    x as Real\n", s), format!("{{ {} }}", s)));
            progs.push(("objective".into(), format!("min {}\ns.t.\n    x >= 1\ndefine\n    x as Real\n", s), s.to_string()));
            progs.push(("two-strings".into(), format!("min 1\ns.t.\n    x >= len({}) + len({})\ndefine\n    x as Real\n", s, s), format!("len({})", s)));
        }
        for id in ["ü", "ñandú", "Ärger", "данные", "变量"] {
            progs.push(("undeclared-identifier".into(), format!("min 1\ns.t.\n    x >= {}\ndefine\n    x as Real\n", id), id.to_string()));
            progs.push(("out-of-bounds-identifier".into(), format!("min 1\ns.t.\n    x >= {}[3]\nwhere\n    let {} = [1]\ndefine\n    x as Real\n", id, id), format!("{}[3]", id)));
            progs.push(("string-plus-identifier".into(), format!("min 1\ns.t.\n    x >= len({} + 1)\nwhere\n    let {} = \"ö\"\ndefine\n    x as Real\n", id, id), format!("{} + 1", id)));
            progs.push(("comment-before".into(), format!("min 1\ns.t.\n    /* {} ü */ x <= \"a\"\ndefine\n    x as Real\n", id), "x <= \"a\"".to_string()));
        }
        // frames LONGER than 120 bytes (a function call quoted with its comment / string argument) with multi-byte characters
        // around byte 120, at 0, 1, 2, 3 bytes of ASCII padding: the frame text of the trace may be shortened, never cut inside a character
        for ch in ["≤", "é", "😀", "日"] {
            for pad in 0..4 {
                let filler: String = std::iter::repeat(ch).take(80).collect();
                let padding = "a".repeat(pad);
                progs.push(("long-frame-comment".into(), format!("min 1\ns.t.\n    x + len(3 /* {}{} */) >= 1\ndefine\n    x as Real\n", padding, filler), "len(3".to_string()));
                progs.push(("long-frame-string".into(), format!("min 1\ns.t.\n    x + len(\"{}{}\") >= 1\ndefine\n    x as Real\n", padding, filler), "len(".to_string()));
                progs.push(("long-frame-unknown-fn".into(), format!("min 1\ns.t.\n    x >= nope(1, \"{}{}\", 2)\ndefine\n    x as Real\n", padding, filler), "nope(1".to_string()));
                progs.push(("long-frame-transform".into(), format!("min 1\ns.t.\n    x >= A[7 /* {}{} */]\nwhere\n    let A = [1]\ndefine\n    x as Real\n", padding, filler), "A[7".to_string()));
                progs.push(("long-frame-constraint".into(), format!("min 1\ns.t.\n    x /* {}{} */ <= \"s\"\ndefine\n    x as Real\n", padding, filler), "x /*".to_string()));
            }
        }
        for (tag, src, expect) in progs {
            let src = clamp(src);
            let mut c = Case::default();
            c.tags = vec!["stream:non-ascii-errors".into(), format!("non-ascii-error:{}", tag), format!("non-ascii-errors:{}", k)];
            c.show = src.clone();
            let res = pool.run(&src, true);
            classify(&src, &res, &mut c);
            // the first failing stage must be a rendered error that quotes the offending text in full
            if let Some(st) = res.stages.iter().find(|s| s.outcome != "ok") {
                if st.outcome.starts_with("err:") && !st.detail.contains(&expect) && c.impl_violation.is_none() {
                    c.sig = Some(format!("render-truncated:{}", st.stage));
                    c.impl_violation = Some(format!("the rendered error of stage {} does not quote the offending text `{}` in full: {}", st.stage, expect, st.detail));
                }
            } else if c.impl_violation.is_none() {
                c.sig = Some("non-ascii-block-expectation".into());
                c.impl_violation = Some("the program of the non-ASCII block was expected to end in a rendered error".into());
            }
            cases.push(c);
            k += 1;
        }
    }
    // ---- multi-index array access with each index position in turn out of range (by one, by many, negative, fractional) on
    //      matrices, jagged arrays and 3-level arrays, literal indexes and loop variables: OutOfBounds, never a panic - deterministic
    {
        let data = "    let M = [[1, 2], [3, 4]]\n    let J = [[1], [2, 3], [4, 5, 6]]\n    let T = [[[1, 2], [3]], [[4]]]\n    let W = [7, 8, 9]\n";
        let mut k = 0usize;
        let mut exprs: Vec<String> = vec![];
        for (name, dims) in [("M", vec![2usize, 2]), ("J", vec![3, 1]), ("T", vec![2, 2, 2])] {
            for pos in 0..dims.len() {
                for bad in ["by-one", "by-many", "negative", "fraction"] {
                    let ix: Vec<String> = (0..dims.len()).map(|p| if p == pos { match bad { "by-one" => dims[p].to_string(), "by-many" => "7".to_string(), "negative" => "(0 - 1)".to_string(), _ => "0.5".to_string() } } else { "0".to_string() }).collect();
                    exprs.push(format!("{}{}", name, ix.iter().map(|i| format!("[{}]", i)).collect::<String>()));
                }
            }
        }
        exprs.extend(["J[2][3]", "J[0][1]", "J[1][2]", "T[1][1][0]", "T[0][1][1]", "T[1][0][1]", "T[0][2][0]", "M[2][2]", "W[0][0]", "W[3][0]", "M[0][0][0]", "T[0][0][0][0]", "M[1][1]", "T[1][0][0]"].iter().map(|s| s.to_string()));
        let mut progs: Vec<String> = exprs.iter().map(|e| format!("min 1\ns.t.\n    z >= {}\nwhere\n{}define\n    z as Real\n", e, data)).collect();
        for (body, it) in [("M[i][0]", "i in 0..3"), ("M[0][i]", "i in 0..3"), ("J[i][i]", "i in 0..3"), ("T[i][1][0]", "i in 0..2"), ("T[0][i][0]", "i in 0..3"), ("T[0][0][i]", "i in 0..3"), ("M[i][j]", "i in 0..3, j in 0..2"), ("J[i][j]", "(i, j) in [[2, 2], [3, 0]]"), ("M[len(W)][0]", "i in 0..1")] {
            progs.push(format!("min 1\ns.t.\n    z >= {} for {}\nwhere\n{}define\n    z as Real\n", body, it, data));
            progs.push(format!("min 1\ns.t.\n    z >= sum({}) {{ {} }}\nwhere\n{}define\n    z as Real\n", it, body, data));
            progs.push(format!("min 1\ns.t.\n    z >= 0\nwhere\n{}define\n    z as Real\n    y_i as IntegerRange(0, {}) for {}\n", data, body.replace("[i][j]", "[i][0]"), it.split(',').next().unwrap_or(it)));
        }
        for src in progs { cases.push(run(src, vec!["stream:multi-index-access".into(), format!("multi-index-access:{}", k)], &mut pool)); k += 1; }
    }
    // ---- descending bound cycles that run through NON-AFFINE rows only (min / max / abs): bound inference must give up after its
    //      step budget, linearize must terminate - deterministic
    {
        let mut progs: Vec<String> = vec![
            "min x + y\ns.t.\n    x <= min{y - 1, 100}\n    y <= min{x - 1, 100}\ndefine\n    x, y as Real\n".into(),
            "min x + y\ns.t.\n    x + abs{z} <= y - 1\n    y + abs{z} <= x - 1\ndefine\n    x, y as Real(MinusInfinity, 50)\n    z as Real(-1, 1)\n".into(),
            "max x + y\ns.t.\n    x >= max{y + 1, 0 - 100}\n    y >= max{x + 1, 0 - 100}\ndefine\n    x, y as Real\n".into(),
            "min x\ns.t.\n    x <= min{y - 1, 100}\n    y <= min{w - 1, 100}\n    w <= min{x - 1, 100}\ndefine\n    x, y, w as Real\n".into(),
            "min x + y\ns.t.\n    x <= min{y - 0.5, z}\n    y <= min{x - 0.5, z}\ndefine\n    x, y as Real\n    z as Real(0, 10)\n".into(),
            "min x + y\ns.t.\n    x + max{z, 0} <= y - 1\n    y + max{z, 0} <= x - 1\ndefine\n    x, y as Real(MinusInfinity, 50)\n    z as Real(-1, 1)\n".into(),
            "min x + y\ns.t.\n    abs{x} <= y - 1\n    abs{y} <= x - 1\ndefine\n    x, y as Real\n".into(),
            "min x + y\ns.t.\n    x <= min{y - 1, 100}\n    y <= x - 1\ndefine\n    x, y as Real\n".into(),
            "min x + y\ns.t.\n    2 * x <= min{y - 1, 100}\n    2 * y <= min{x - 1, 100}\ndefine\n    x, y as Real\n".into(),
            "min x + y\ns.t.\n    x <= min{y - 1, 100}\n    y <= min{x - 1, 100}\ndefine\n    x, y as Real(MinusInfinity, 1000)\n".into(),
        ];
        for k in 1..=10 {
            progs.push(format!("min x + y\ns.t.\n    x <= min{{y - {}, {}}}\n    y <= min{{x - {}, {}}}\ndefine\n    x, y as Real\n", k, 50 * k, k, 50 * k));
            progs.push(format!("min x + y\ns.t.\n    x + abs{{z}} <= y - {}\n    y + abs{{z}} <= x - {}\ndefine\n    x, y as Real(MinusInfinity, {})\n    z as Real(-{}, {})\n", k, k, 10 * k, k, k));
        }
        for (k, src) in progs.into_iter().enumerate() { cases.push(run(src, vec!["stream:non-affine-bound-cycles".into(), format!("non-affine-bound-cycles:{}", k)], &mut pool)); }
    }
    // ---- min / max whose operands are FIXED to equal values, incl. the two zeros (0.0 against -0.0 through `-x`, `-y = 0`,
    //      `Real(-0.0, -0.0)`): mutual domination must keep one operand, never prune all of them - deterministic
    //      (seeded change C18-16)
    {
        let mut k = 0usize;
        let fixes: [(&str, &str, &str); 7] = [
            ("x = 0", "x as Real", "x"), ("-x = 0", "x as Real", "x"), ("x = 1", "x as Real", "x"), ("0 - x = 2", "x as Real", "x"),
            ("x >= 0", "x as Real(0, 0)", "x"), ("x <= 0", "x as Real(-0.0, -0.0)", "x"), ("2 * x = 0", "x as IntegerRange(0, 0)", "x"),
        ];
        let seconds = ["-x", "x", "y", "-y", "0 * x", "x - x", "0", "-0.0", "x + y", "abs{x}"];
        for f in ["max", "min"] { for (row, decl, a) in fixes.iter() { for b in seconds.iter() {
            for (yrow, ydecl) in [("y = 0", "y as Real"), ("-y = 0", "y as Real"), ("y <= 0", "y as Real(-0.0, -0.0)")] {
                if !b.contains('y') && yrow != "y = 0" { continue; }
                for cmp in [">=", "<="] {
                    let src = format!("min z\ns.t.\n    z {} {} {{ {}, {} }}\n    {}\n    {}\ndefine\n    z as Real(-10, 10)\n    {}\n    {}\n", cmp, f, a, b, row, yrow, decl, ydecl);
                    cases.push(run(src, vec!["stream:extremes-of-fixed-operands".into(), format!("extremes-of-fixed-operands:{}", k)], &mut pool)); k += 1;
                }
            }
        } } }
    }
    // ---- declared integer ranges with BOTH bounds near opposite ends of the i64 range (their difference does not fit i64), also
    //      through constants and in quantified declarations: TooLarge / Other, never a panic - deterministic
    {
        let los = ["(0 - 9223372036854775807)", "(0 - 9223372036854775807 - 1)", "(0 - 4611686018427387905)", "(0 - 2147483649)", "(0 - 2)", "lo"];
        let his = ["9223372036854775807", "9223372036854775806", "4611686018427387905", "2147483648", "1", "hi"];
        let mut k = 0usize;
        for lo in los.iter() { for hi in his.iter() {
            let src = format!("min 1\ns.t.\n    x >= 0\nwhere\n    let lo = 0 - 9223372036854775807\n    let hi = 9223372036854775807\ndefine\n    x as IntegerRange({}, {})\n", lo, hi);
            cases.push(run(src, vec!["stream:declared-range-extremes".into(), format!("declared-range-extremes:{}", k)], &mut pool)); k += 1;
        } }
        for src in ["min 1\ns.t.\n    x_0 >= 0\nwhere\n    let hi = 9223372036854775807\ndefine\n    x_i as IntegerRange(0 - hi, hi) for i in 0..2\n",
                    "min 1\ns.t.\n    x >= 0\ndefine\n    x as IntegerRange(9223372036854775807, 0 - 9223372036854775807)\n",
                    "min 1\ns.t.\n    x >= 0\ndefine\n    x as IntegerRange(0 - 9223372036854775807, 0 - 9223372036854775807)\n"] {
            cases.push(run(src.to_string(), vec!["stream:declared-range-extremes".into(), format!("declared-range-extremes:{}", k)], &mut pool)); k += 1;
        }
    }
    // ---- tableau start: standard forms with at least as many private positive columns as rows that do NOT cover every row
    //      (one `<=` row owning several otherwise unused unbounded variables, next to equality / pinned rows owning none):
    //      no basis can be read off, the tableau solver must fall back (two phases) - deterministic block, the same on every seed
    {
        let mut rr = Rng::new(0x7ab1ea5);
        let mut k = 0usize;
        let mut push = |src: String, cases: &mut Vec<Case>, pool: &mut Pool| { cases.push(run(src, vec!["stream:tableau-start".into(), format!("tableau-start:{}", k)], pool)); k += 1; };
        // the two shapes of the description, verbatim
        push("max x\ns.t.\n    y + z - t <= 5\n    x = 3\ndefine\n    x, y, z, t as NonNegativeReal\n".into(), &mut cases, &mut pool);
        push("max x\ns.t.\n    y + z + u - t <= 5\n    x + w = 3\n    x - w = 1\ndefine\n    x, y, z, u, t, w as NonNegativeReal\n".into(), &mut cases, &mut pool);
        for i in 0..30 {
            let np = 2 + rr.below(3);                       // private columns of the first row
            let ne = 1 + rr.below(2);                       // rows without a private column
            let priv_vars: Vec<String> = (0..np).map(|j| format!("p{}", j)).collect();
            let mut names = priv_vars.clone();
            names.push("t".into());
            let mut rows = format!("    {} - t <= {}\n", priv_vars.iter().map(|v| { let c = rr.range(1, 3); if c == 1 { v.clone() } else { format!("{} * {}", c, v) } }).collect::<Vec<_>>().join(" + "), rr.range(1, 9));
            let objv;
            if ne == 1 {
                names.push("x".into());
                rows.push_str(&format!("    {}x = {}\n", if rr.chance(1, 2) { "" } else { "2 * " }, rr.range(1, 6)));
                objv = "x".to_string();
            } else {
                names.push("x".into()); names.push("w".into());
                let (a, b) = (rr.range(2, 7), rr.range(0, 2));
                rows.push_str(&format!("    x + w = {}\n    x - w = {}\n", a, b));
                objv = if rr.chance(1, 2) { "x".to_string() } else { "x + w".to_string() };
            }
            if i % 5 == 4 { rows.push_str(&format!("    x >= {}\n", rr.range(0, 1))); }
            let sense = if i % 3 == 2 { "min" } else { "max" };
            let ty = if i % 4 == 3 { "Real" } else { "NonNegativeReal" };
            let tyx = if i % 7 == 6 { "Real(0, 9)" } else { "NonNegativeReal" };
            let others: Vec<String> = names.iter().filter(|n| *n != "x" && *n != "w").cloned().collect();
            let xs: Vec<String> = names.iter().filter(|n| *n == "x" || *n == "w").cloned().collect();
            let src = format!("{} {}\ns.t.\n{}define\n    {} as {}\n    {} as {}\n", sense, objv, rows, others.join(", "), ty, xs.join(", "), tyx);
            push(src, &mut cases, &mut pool);
        }
    }
    let restarts = pool.restarts;
    drop(pool);
    // ---- the primitive operator core (in-process, catch_unwind): correspondence with Rooc/Pre/Prim.lean
    let mut dynamic = pre_reflect::dynamic_cases();
    for c in dynamic.iter_mut() {
        c.tags.push("stream:operator-core".into());
        c.oracle = format!("opcore ({}) {}", c.req, c.imp);
        if c.imp == "(panic)" {
            let which = c.req.split_whitespace().take(2).collect::<Vec<_>>().join(":");
            c.sig = Some(format!("panic:operator-core:{}", which));
            c.impl_violation = Some(format!("primitive operator panics: {}", c.req));
        }
    }
    cases.extend(dynamic);
    if let Some(c) = cases.first_mut() { c.tags.push(format!("worker-restarts:{}", restarts)); }
    cases
}
