//! C15 — limits and tolerances never turn into wrong answers.
//!
//! Small MILPs × time limits (0 ns, 1 ns, 1 µs, 1 ms, none) × MIP gaps (none, 0, small, large, huge, negative, NaN,
//! +inf) through `solve_milp_lp_problem_with` in the killable worker.  The wrapper model is diffed where microlp's
//! answer does not depend on the clock (no limit, or a 0 ns limit) using the raw answer of the mirror; every answer
//! goes to the exact oracle: returned point certificate-checked, label compared with the certified optimum and the
//! requested gap, invalid options must be rejected.
use crate::case::Case;
use crate::child::{self, Opts, Outcome, SolverKind};
use crate::gen_lp::{self, Doms, LpCfg};
use crate::props::c04::show_model;
use crate::rng::Rng;
use crate::sx;
use rooc::{Comparison, LinearModel, OptimizationType, VariableType};
use std::time::Duration;

const TIMEOUT: Duration = Duration::from_secs(3);
pub const LIMITS: [Option<u64>; 5] = [None, Some(0), Some(1), Some(1_000), Some(1_000_000)];

pub fn gaps() -> Vec<(Option<f64>, &'static str)> {
    vec![(None, "gap-none"), (Some(0.0), "gap-zero"), (Some(1e-9), "gap-small"), (Some(0.5), "gap-large"), (Some(10.0), "gap-huge"),
         (Some(-1.0), "gap-negative"), (Some(f64::NAN), "gap-nan"), (Some(f64::INFINITY), "gap-inf"), (Some(-0.0), "gap-negzero")]
}

fn knapsack(r: &mut Rng) -> LinearModel {
    let n = 3 + r.below(4);
    let mut m = LinearModel::new();
    for i in 0..n { m.add_variable(&format!("b{}", i), VariableType::Boolean); }
    let w: Vec<f64> = (0..n).map(|_| 1.0 + r.below(5) as f64).collect();
    let cap = (w.iter().sum::<f64>() / 2.0).floor();
    m.add_named_constraint(w, Comparison::LessOrEqual, cap, "cap");
    if r.chance(1, 3) {
        let w2: Vec<f64> = (0..n).map(|_| r.below(4) as f64).collect();
        let cap2 = (w2.iter().sum::<f64>() / 2.0).floor();
        m.add_constraint(w2, Comparison::LessOrEqual, cap2);
    }
    let v: Vec<f64> = (0..n).map(|_| 1.0 + r.below(9) as f64).collect();
    m.set_objective(v, OptimizationType::Max);
    m
}

/// a knapsack large enough for the search to be stopped MID-WAY (an incumbent exists, optimality unproven), still
/// small enough for the certified enumeration (2^12..2^13 leaves)
fn mid_knapsack(r: &mut Rng) -> LinearModel {
    let n = 12 + r.below(2);
    let mut m = LinearModel::new();
    for i in 0..n { m.add_variable(&format!("b{}", i), VariableType::Boolean); }
    let w: Vec<f64> = (0..n).map(|_| 10.0 + r.below(30) as f64).collect();
    // strongly correlated values make branch and bound work
    let v: Vec<f64> = w.iter().map(|x| x + 5.0 + r.below(3) as f64).collect();
    let cap = (w.iter().sum::<f64>() * 0.45).floor();
    m.add_named_constraint(w, Comparison::LessOrEqual, cap, "cap");
    m.set_objective(v, OptimizationType::Max);
    m
}

/// the minimisation twin: a covering problem (`min cost, weights >= need`) with correlated costs — a search cut short holds
/// an incumbent ABOVE the optimum while the bound is below it
fn mid_cover(r: &mut Rng) -> LinearModel {
    let n = 12 + r.below(2);
    let mut m = LinearModel::new();
    for i in 0..n { m.add_variable(&format!("b{}", i), VariableType::Boolean); }
    let w: Vec<f64> = (0..n).map(|_| 10.0 + r.below(30) as f64).collect();
    let c: Vec<f64> = w.iter().map(|x| x + 5.0 + r.below(3) as f64).collect();
    let need = (w.iter().sum::<f64>() * 0.55).floor();
    m.add_named_constraint(w, Comparison::GreaterOrEqual, need, "need");
    m.set_objective(c, OptimizationType::Min);
    m
}

/// a mixed-integer model without an objective (`Satisfy`, zero coefficients)
fn satisfy_integer(r: &mut Rng) -> LinearModel {
    let (lm, _) = gen_lp::model(r, &LpCfg { doms: Doms::Integer, naming: 0, max_vars: 4, feasible_pct: 90, ..LpCfg::default() });
    let (obj, _, off, rows, vars, dom) = lm.into_parts();
    LinearModel::new_from_parts(vec![0.0; obj.len()], OptimizationType::Satisfy, off, rows, vars, dom)
}

/// a knapsack whose profits are thousandths: every objective value is below 1, where an "epsilon relative to the
/// incumbent" silently turns absolute
fn small_scale_knapsack(r: &mut Rng) -> LinearModel {
    let n = 5 + r.below(4);
    let mut m = LinearModel::new();
    for i in 0..n { m.add_variable(&format!("b{}", i), VariableType::Boolean); }
    let w: Vec<f64> = (0..n).map(|_| 2.0 + r.below(8) as f64).collect();
    let cap = (w.iter().sum::<f64>() * 0.5).floor() + 0.5;
    m.add_named_constraint(w, Comparison::LessOrEqual, cap, "cap");
    let v: Vec<f64> = (0..n).map(|_| (1 + r.below(20)) as f64 * 1e-3).collect();
    m.set_objective(v, OptimizationType::Max);
    m
}

/// the 5-item knapsack of the design-phase probe
pub fn seeded_knapsack() -> LinearModel {
    let mut m = LinearModel::new();
    for i in 0..5 { m.add_variable(&format!("b{}", i), VariableType::Boolean); }
    m.add_named_constraint(vec![2.0, 3.0, 1.0, 4.0, 3.0], Comparison::LessOrEqual, 7.0, "cap");
    m.set_objective(vec![5.0, 4.0, 3.0, 7.0, 6.0], OptimizationType::Max);
    m
}

fn enc_gap(g: Option<f64>) -> String { match g { None => "none".into(), Some(g) => format!("(gap {})", sx::num(g)) } }
fn enc_limit(l: Option<u64>) -> String { match l { None => "none".into(), Some(n) => format!("(limit {})", n) } }

fn raw_status(o: &Outcome) -> String {
    match o { Outcome::Solution(s) => s.status.clone(), _ => "unknown".into() }
}

/// how the options reach the solver: the `MilpOptions` struct of `solve_milp_lp_problem_with`, or the builder methods
/// `Microlp::new().with_mip_gap(..).with_time_limit(..)` + `Solver::solve`
#[derive(Clone, Copy, PartialEq)]
pub enum Entry { Direct, Builder, Door, DoorAux }

fn one(lm: &LinearModel, lms: &str, base: &Outcome, gap: (Option<f64>, &str), limit: Option<u64>, fam: &str, fixed: bool, out: &mut Vec<Case>) {
    one_entry(Entry::Direct, lm, lms, base, gap, limit, fam, fixed, out);
}

fn one_entry(entry: Entry, lm: &LinearModel, lms: &str, base: &Outcome, gap: (Option<f64>, &str), limit: Option<u64>, fam: &str, fixed: bool, out: &mut Vec<Case>) {
    let kind = match entry { Entry::Direct => SolverKind::Milp, Entry::Builder => SolverKind::BuilderMicrolp, Entry::Door => SolverKind::BuilderDoorMicrolp, Entry::DoorAux => SolverKind::BuilderDoorMicrolpAux };
    let opts = Opts { time_limit_ns: limit, mip_gap_bits: gap.0.map(f64::to_bits), ..Opts::default() };
    // the raw answer of microlp is reproducible only when the clock plays no role
    // (a limit of a second or more never fires on these models)
    let deterministic = matches!(limit, None | Some(0)) || limit.map_or(false, |l| l >= 1_000_000_000);
    let mut o = child::solve(kind, lm, &opts, TIMEOUT);
    let mut raw = child::solve(SolverKind::RawMilp, lm, &opts, TIMEOUT);
    if !deterministic {
        // the mirror call is evidence for the root cause only if the clock hit both calls alike: when the limit changed
        // rooc's answer but the mirror finished, try again
        for _ in 0..5 {
            if gen_lp::result(&o) == gen_lp::result(base) || raw_status(&raw) != "optimal" { break; }
            o = child::solve(kind, lm, &opts, TIMEOUT);
            raw = child::solve(SolverKind::RawMilp, lm, &opts, TIMEOUT);
        }
    }
    let res = gen_lp::result(&o);
    let mut c = Case::default();
    c.imp = res.clone();
    let door = matches!(entry, Entry::Door | Entry::DoorAux);
    if deterministic && !door && !matches!(o, Outcome::Hang) {
        if let Some(raw) = gen_lp::mlp(&raw) {
            let name = match (entry, fixed) {
                (Entry::Direct, true) => "milp-with-fixed", (Entry::Direct, false) => "milp-with",
                (Entry::Builder, true) => "builder-microlp-fixed", (Entry::Builder, false) => "builder-microlp",
                (Entry::Door, _) | (Entry::DoorAux, _) => unreachable!(),
            };
            c.req = format!("{} {} {} {} {}", name, lms, enc_gap(gap.0), enc_limit(limit), raw);
        }
    }
    // through the builder door the compiled model differs (derived bounds, `$` helper variables) but it is the SAME
    // problem: the label is judged against the certified optimum of `lm`, the point is read by name
    c.oracle = format!("label {} {} {} {} {} {}", lms, enc_gap(gap.0), enc_limit(limit), res, gen_lp::result(base), raw_status(&raw));

    let limit_tag = match limit { None => "limit-none".to_string(), Some(n) => format!("limit-{}ns", n) };
    c.tags = vec![format!("family-{}", fam), gap.1.to_string(), limit_tag,
        match entry { Entry::Direct => "entry-milp-options".into(), Entry::Builder => "entry-builder-microlp".into(), Entry::Door => "entry-model-builder-solve-with".to_string(), Entry::DoorAux => "entry-model-builder-with-helper-variables".to_string() },
        format!("microlp-status-{}", raw_status(&raw)),
        if fixed { "wrapper-reads-status".into() } else { "wrapper-ignores-status".into() },
        match &o {
            Outcome::Solution(s) => format!("answer-solution-{}", s.status),
            Outcome::Err { variant, .. } => format!("answer-err-{}", variant),
            Outcome::Panic(_) => "answer-panic".into(),
            Outcome::Hang => "answer-hang".into(),
        }];
    c.nontrivial = limit.is_some() || gap.0.is_some();
    if door {
        if let Outcome::Solution(sol) = &o {
            c.tags.push(if sol.assignment.iter().any(|(n, _)| n.starts_with('$')) { "door-model-has-helper-variables".into() } else { "door-model-plain".into() });
        }
    }
    // the status (and everything else) must read the same through EVERY accessor: inherent, capability traits, BuilderSolution
    if let Outcome::Solution(sol) = &o {
        if let Some(d) = gen_lp::accessor_disagreement(sol) {
            c.impl_violation = Some(format!("the accessors of the returned solution disagree: {}", d));
            c.sig = Some("accessor-disagreement".into());
        }
    }
    c.show = if door { format!("ModelBuilder … solve_with(Microlp gap {:?}, limit {:?} ns){} on: {}", gap.0, limit, if entry == Entry::DoorAux { " + max(x0,x1) <= 1e6" } else { "" }, show_model(lm)) } else if entry == Entry::Direct { format!("solve_milp_lp_problem_with(gap {:?}, time_limit {:?} ns) on: {}", gap.0, limit, show_model(lm)) }
             else { format!("Microlp::new().with_mip_gap({:?}).with_time_limit({:?} ns).solve on: {}", gap.0, limit, show_model(lm)) };
    out.push(c);
}

pub fn generate(seed: u64, n: usize, _thorough: bool, _corpus: Option<&str>) -> Vec<Case> {
    let mut r = Rng::new(seed);
    let mut cases = vec![];
    let gaps = gaps();
    let fixed = gen_lp::detect_variants().milp_reads_status;
    let mut models: Vec<(LinearModel, &str)> = vec![(seeded_knapsack(), "seeded-knapsack")];
    for i in 0..n {
        models.push(match i % 4 {
            0 if i % 8 == 4 => (gen_lp::permuted_domain(&mut r, false), "permuted-domain-order"),
            0 => (knapsack(&mut r), "knapsack"),
            1 => (gen_lp::model(&mut r, &LpCfg { doms: Doms::Integer, naming: 0, max_vars: 5, feasible_pct: 80, allow_satisfy: false, ..LpCfg::default() }).0, "integer"),
            2 => (gen_lp::model(&mut r, &LpCfg { doms: Doms::Mixed, naming: 0, feasible_pct: 80, allow_satisfy: false, ..LpCfg::default() }).0, "mixed"),
            _ => (gen_lp::model(&mut r, &LpCfg { doms: Doms::Integer, naming: 0, feasible_pct: 20, allow_satisfy: false, ..LpCfg::default() }).0, "integer-random-rhs"),
        });
    }
    for (lm, fam) in &models {
        let lms = sx::lin_model(lm);
        let base = child::solve(SolverKind::Milp, lm, &Opts::default(), TIMEOUT);
        for l in LIMITS { one(lm, &lms, &base, gaps[0], l, fam, fixed, &mut cases); }
        for g in &gaps[1..] {
            one(lm, &lms, &base, *g, None, fam, fixed, &mut cases);
            one_entry(Entry::Builder, lm, &lms, &base, *g, None, fam, fixed, &mut cases);
        }
        one_entry(Entry::Builder, lm, &lms, &base, gaps[0], None, fam, fixed, &mut cases);
        one_entry(Entry::Builder, lm, &lms, &base, gaps[0], Some(0), fam, fixed, &mut cases);
        one_entry(Entry::Door, lm, &lms, &base, gaps[0], Some(0), fam, fixed, &mut cases);
        one_entry(Entry::Door, lm, &lms, &base, gaps[0], None, fam, fixed, &mut cases);
        for _ in 0..3 {
            let g = gaps[r.below(gaps.len())];
            let l = LIMITS[1 + r.below(LIMITS.len() - 1)];
            one(lm, &lms, &base, g, l, fam, fixed, &mut cases);
            one_entry(Entry::Builder, lm, &lms, &base, g, l, fam, fixed, &mut cases);
        }
    }
    // nearly tied optima with large coefficients: a generous limit (or no option at all) must not loosen the gap
    let minute = Some(60_000_000_000u64);
    for _ in 0..(n / 2).max(20) {
        let lm = gen_lp::near_tied(&mut r);
        let lms = sx::lin_model(&lm);
        let base = child::solve(SolverKind::Milp, &lm, &Opts::default(), TIMEOUT);
        for e in [Entry::Direct, Entry::Builder] {
            one_entry(e, &lm, &lms, &base, gaps[0], None, "near-tied-large-coefficients", fixed, &mut cases);
            one_entry(e, &lm, &lms, &base, gaps[0], minute, "near-tied-large-coefficients", fixed, &mut cases);
            one_entry(e, &lm, &lms, &base, gaps[1], minute, "near-tied-large-coefficients", fixed, &mut cases);
            one_entry(e, &lm, &lms, &base, gaps[2], None, "near-tied-large-coefficients", fixed, &mut cases);
        }
    }
    // objective values below 1 (profits in thousandths) with POSITIVE gaps: a relative gap must stay relative
    for _ in 0..(n / 3).max(20) {
        let lm = small_scale_knapsack(&mut r);
        let lms = sx::lin_model(&lm);
        let base = child::solve(SolverKind::Milp, &lm, &Opts::default(), TIMEOUT);
        for g in [(Some(0.01), "gap-1e-2"), (Some(0.001), "gap-1e-3"), (Some(0.05), "gap-5e-2")] {
            one_entry(Entry::Direct, &lm, &lms, &base, g, None, "small-magnitude-objective", fixed, &mut cases);
            one_entry(Entry::Builder, &lm, &lms, &base, g, None, "small-magnitude-objective", fixed, &mut cases);
        }
    }
    // the same option set TWICE on one `Microlp` value: the LAST call wins (a fresh object carrying only the last value
    // must give the same answer, and the label / the rejection is judged for the last value)
    let mut r7 = Rng::new(seed ^ 0x7a57);
    let minute = Some(60_000_000_000u64);
    for k in 0..8 {
        let lm = if k == 0 { seeded_knapsack() } else if k % 2 == 1 { gen_lp::near_tied(&mut r7) } else { knapsack(&mut r7) };
        let lms = sx::lin_model(&lm);
        let base = child::solve(SolverKind::Milp, &lm, &Opts::default(), TIMEOUT);
        let seqs: [(Option<f64>, Option<f64>, Option<u64>, Option<u64>, &str); 8] = [
            (Some(0.5), Some(0.0), None, None, "gap-large-then-zero"),
            (Some(0.0), Some(0.5), None, None, "gap-zero-then-large"),
            (Some(10.0), Some(1e-9), None, None, "gap-huge-then-small"),
            (Some(0.5), Some(-1.0), None, None, "gap-valid-then-invalid"),
            (Some(f64::NAN), Some(0.0), None, None, "gap-invalid-then-valid"),
            (Some(-1.0), Some(0.5), None, None, "gap-invalid-then-valid"),
            (None, None, Some(0), minute, "limit-zero-then-minute"),
            (None, None, minute, Some(0), "limit-minute-then-zero"),
        ];
        for (g1, g2, l1, l2, tag) in seqs {
            let twice = Opts { first_gap_bits: g1.map(f64::to_bits), mip_gap_bits: g2.map(f64::to_bits), first_limit_ns: l1, time_limit_ns: l2, ..Opts::default() };
            let last = Opts { mip_gap_bits: g2.map(f64::to_bits), time_limit_ns: l2, ..Opts::default() };
            let o2 = child::solve(SolverKind::BuilderMicrolp, &lm, &twice, TIMEOUT);
            let o1 = child::solve(SolverKind::BuilderMicrolp, &lm, &last, TIMEOUT);
            let (r2, r1) = (gen_lp::result(&o2), gen_lp::result(&o1));
            let mut c = Case::default();
            c.imp = r2.clone();
            let raw = child::solve(SolverKind::RawMilp, &lm, &last, TIMEOUT);
            if let Some(rawx) = gen_lp::mlp(&raw) {
                c.req = format!("{} {} {} {} {}", if fixed { "builder-microlp-fixed" } else { "builder-microlp" }, lms, enc_gap(g2), enc_limit(l2), rawx);
            }
            c.oracle = format!("label {} {} {} {} {} {}", lms, enc_gap(g2), enc_limit(l2), r2, gen_lp::result(&base), raw_status(&raw));
            if r2 != r1 {
                c.impl_violation = Some(format!("Microlp option set twice ({}): the object with both calls answers {} but a fresh object with only the last value answers {}", tag, &r2[..r2.len().min(90)], &r1[..r1.len().min(90)]));
                c.sig = Some("builder-option-last-call-does-not-win".into());
            }
            c.tags = vec!["family-option-set-twice".into(), format!("twice-{}", tag), "entry-builder-microlp".into(),
                match &o2 { Outcome::Solution(s) => format!("answer-solution-{}", s.status), Outcome::Err { variant, .. } => format!("answer-err-{}", variant), Outcome::Panic(_) => "answer-panic".into(), Outcome::Hang => "answer-hang".into() }];
            c.nontrivial = true;
            c.show = format!("Microlp::new().with_mip_gap({:?}).with_mip_gap({:?}) / with_time_limit({:?}).with_time_limit({:?}) .solve on: {}", g1, g2, l1, l2, show_model(&lm));
            cases.push(c);
        }
    }
    // Satisfy models (no objective) x invalid and valid gaps x every door: invalid options are rejected there too
    let mut r4 = Rng::new(seed ^ 0x5a715f);
    for _ in 0..12 {
        let lm = satisfy_integer(&mut r4);
        let lms = sx::lin_model(&lm);
        let base = child::solve(SolverKind::Milp, &lm, &Opts::default(), TIMEOUT);
        for g in [gaps[5], gaps[6], gaps[7], gaps[1], gaps[0]] {
            for e in [Entry::Direct, Entry::Builder, Entry::Door] {
                one_entry(e, &lm, &lms, &base, g, None, "satisfy-integer", fixed, &mut cases);
            }
        }
    }
    // searches stopped mid-way (incumbent known), maximisation AND minimisation, also through the builder door with and
    // without `$` helper variables
    let mut r5 = Rng::new(seed ^ 0x31d5ea);
    for k in 0..(n / 15).max(6) {
        let lm = if k % 2 == 0 { mid_knapsack(&mut r5) } else { mid_cover(&mut r5) };
        let lms = sx::lin_model(&lm);
        let base = child::solve(SolverKind::Milp, &lm, &Opts::default(), TIMEOUT);
        for l in [Some(20_000u64), Some(100_000), Some(400_000), Some(2_000_000), None] {
            one(&lm, &lms, &base, gaps[0], l, "mid-search-knapsack", fixed, &mut cases);
        }
        one(&lm, &lms, &base, gaps[3], Some(100_000), "mid-search-knapsack", fixed, &mut cases);
        for l in [Some(50_000u64), Some(100_000), Some(200_000), Some(400_000), Some(800_000)] {
            one_entry(Entry::Door, &lm, &lms, &base, gaps[0], l, "mid-search-knapsack", fixed, &mut cases);
            one_entry(Entry::DoorAux, &lm, &lms, &base, gaps[0], l, "mid-search-knapsack", fixed, &mut cases);
        }
    }
    child::shutdown();
    cases
}
