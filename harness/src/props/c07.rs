//! C07 — derived variable ranges are sound: `transformers::bounds` through `verif_hooks::analyze_bounds`.
//!
//! Every case is one `(domain, constraints, expressions)` instance.  The real analyzer is run in-process
//! (under `catch_unwind`), its report (`bounds_of` of every declared variable, `bounds_of` of every listed
//! expression, the domain after `apply_to_domain`) is the canonical answer `imp`; the Lean model answers
//! the same request at `Float` and must agree bit for bit; the exact oracle then tests the PROPERTY on
//! the implementation's published ranges.
use crate::case::Case;
use crate::gen_exp::{self, ExpCfg};
use crate::rng::Rng;
use crate::sx;
use indexmap::IndexMap;
use rooc::model_transformer::{Constraint, DomainVariable, Exp};
use rooc::verif_hooks::{analyze_bounds, linearizer_bounds};
use rooc::{BinOp, Comparison, InputSpan, Linearizer, OptimizationType, UnOp, VariableType};
use crate::gen_model::{self, VarDecl};

/// `DEFAULT_TOLERANCE` of bounds.rs (private there): read from the source the harness is linked against, so that the
/// requests follow a change of the constant (the step limit comes from `Gen/Consts.lean` the same way).
fn default_tolerance() -> f64 {
    static T: std::sync::OnceLock<f64> = std::sync::OnceLock::new();
    *T.get_or_init(|| {
        let repo = std::env::var("VERIF_REPO").unwrap_or_else(|_| "/repo".to_string());
        let src = std::fs::read_to_string(format!("{}/packages/rooc/src/transformers/bounds.rs", repo)).unwrap_or_default();
        src.lines()
            .find_map(|l| l.trim().strip_prefix("const DEFAULT_TOLERANCE: f64 =").map(|r| r.trim().trim_end_matches(';').trim().to_string()))
            .and_then(|t| t.parse::<f64>().ok())
            .unwrap_or(1e-9)
    })
}
const INF: f64 = f64::INFINITY;

// ---------------------------------------------------------------- expression helpers
fn v(n: &str) -> Exp { Exp::Variable(n.to_string()) }
fn pv(r: &mut Rng, vars: &[String]) -> Exp { Exp::Variable(r.pick(vars).clone()) }
fn k(x: f64) -> Exp { Exp::Number(x) }
fn bin(op: BinOp, a: Exp, b: Exp) -> Exp { Exp::BinOp(op, Box::new(a), Box::new(b)) }
fn add(a: Exp, b: Exp) -> Exp { bin(BinOp::Add, a, b) }
fn sub(a: Exp, b: Exp) -> Exp { bin(BinOp::Sub, a, b) }
fn mul(a: Exp, b: Exp) -> Exp { bin(BinOp::Mul, a, b) }
fn div(a: Exp, b: Exp) -> Exp { bin(BinOp::Div, a, b) }
fn neg(a: Exp) -> Exp { Exp::UnOp(UnOp::Neg, Box::new(a)) }
fn abs(a: Exp) -> Exp { Exp::Abs(Box::new(a)) }

fn names(e: &Exp, out: &mut Vec<String>) {
    match e {
        Exp::Number(_) => {}
        Exp::Variable(n) => { if !out.contains(n) { out.push(n.clone()) } }
        Exp::Abs(a) | Exp::Not(a) | Exp::UnOp(_, a) => names(a, out),
        Exp::Min(es) | Exp::Max(es) | Exp::And(es) | Exp::Or(es) => { for e in es { names(e, out) } }
        Exp::Xor(a, b) | Exp::Implies(a, b) | Exp::Iff(a, b) | Exp::BinOp(_, a, b) => { names(a, out); names(b, out) }
    }
}

// ---------------------------------------------------------------- instances
#[derive(Clone)]
struct Inst {
    domain: Vec<(String, VariableType)>,
    constraints: Vec<Constraint>,
    exprs: Vec<Exp>,
    tags: Vec<String>,
}

fn cn(i: usize) -> String { format!("r{}", i) }
fn row(l: Exp, c: Comparison, r: Exp, i: usize) -> Constraint { Constraint::new(l, c, r, cn(i)) }

fn canon(x: f64) -> f64 { if x.is_nan() { f64::from_bits(0x7ff8000000000000) } else { x } }
fn canon_ty(t: &VariableType) -> VariableType {
    match t {
        VariableType::NonNegativeReal(a, b) => VariableType::NonNegativeReal(canon(*a), canon(*b)),
        VariableType::Real(a, b) => VariableType::Real(canon(*a), canon(*b)),
        t => *t,
    }
}
fn b(lo: f64, hi: f64) -> String { format!("(b {} {})", sx::num(canon(lo)), sx::num(canon(hi))) }

fn run(inst: &Inst) -> Case {
    let mut used = vec![];
    for c in &inst.constraints { names(c.lhs(), &mut used); names(c.rhs(), &mut used); }
    let mut domain: IndexMap<String, DomainVariable> = IndexMap::new();
    for (n, t) in &inst.domain {
        let mut d = DomainVariable::new(*t, InputSpan::default());
        if used.contains(n) { d.increment_usage(); }
        domain.insert(n.clone(), d);
    }
    // undeclared variables are observed through an extra expression each
    let mut exprs = inst.exprs.clone();
    let mut mentioned = used.clone();
    for e in &inst.exprs { names(e, &mut mentioned); }
    for n in &mentioned {
        if !domain.contains_key(n) { exprs.push(v(n)); }
    }
    let mut req = format!("analyze {} {} (constraints", sx::num(default_tolerance()), sx::domain(&domain));
    for c in &inst.constraints { req.push(' '); req.push_str(&sx::constraint(c)); }
    req.push_str(") (exprs");
    for e in &exprs { req.push(' '); req.push_str(&sx::exp(e)); }
    req.push_str(")");
    let mut c = Case::default();
    let res = std::panic::catch_unwind(|| analyze_bounds(&domain, &inst.constraints, &exprs));
    match res {
        Ok(rep) => {
            let mut imp = String::from("(ok (vars");
            for (_, lo, hi) in &rep.variables { imp.push(' '); imp.push_str(&b(*lo, *hi)); }
            imp.push_str(") (exprs");
            for (lo, hi) in &rep.expressions { imp.push(' '); imp.push_str(&b(*lo, *hi)); }
            imp.push_str(") ");
            let mut dom = rep.domain.clone();
            for (_, d) in dom.iter_mut() {
                // canonical NaN only (set_type is crate-private: rebuild)
                let t = canon_ty(d.get_type());
                let mut nd = DomainVariable::new(t, InputSpan::default());
                for _ in 0..d.usage_count() { nd.increment_usage(); }
                *d = nd;
            }
            imp.push_str(&sx::domain(&dom));
            imp.push(')');
            c.nontrivial = rep.variables.iter().zip(inst.domain.iter()).any(|((_, lo, hi), (_, t))| {
                let (dl, dh) = match t {
                    VariableType::Boolean => (0.0, 1.0),
                    VariableType::IntegerRange(a, b) => (*a as f64, *b as f64),
                    VariableType::NonNegativeReal(a, b) | VariableType::Real(a, b) => (*a, *b),
                };
                lo.to_bits() != dl.to_bits() || hi.to_bits() != dh.to_bits()
            });
            c.oracle = format!("check {} {}", &req["analyze ".len()..], imp);
            c.imp = imp;
        }
        Err(_) => {
            c.imp = "(err panic)".into();
            c.impl_violation = Some("analyze_bounds panicked".into());
        }
    }
    c.req = req;
    c.tags = inst.tags.clone();
    c.tags.push(if c.nontrivial { "tightened".into() } else { "untouched".into() });
    let mut show = String::new();
    for (n, t) in &inst.domain { show.push_str(&format!("{} as {:?}; ", n, t)); }
    show.push_str("s.t. ");
    for x in &inst.constraints { show.push_str(&format!("{} {} {}; ", x.lhs(), x.constraint_type(), x.rhs())); }
    if !exprs.is_empty() {
        show.push_str("exprs: ");
        for e in &exprs { show.push_str(&format!("{}; ", e)); }
    }
    c.show = show;
    c
}

/// the same instance through `verif_hooks::linearizer_bounds`: what `Linearizer::linearize` itself uses
/// (`normalized_for_bounds`, `analyze(..).enforceable(&domain)`, `apply_to_domain`).  The normalisation
/// (`simplify().flatten().simplify()`, C10's subject) is done here with the public methods, so the model request and
/// the oracle's source model are the normalised constraints; the hook gets the raw ones.
fn run_lin(inst: &Inst) -> Option<Case> {
    let mut used = vec![];
    for c in &inst.constraints { names(c.lhs(), &mut used); names(c.rhs(), &mut used); }
    let mut domain: IndexMap<String, DomainVariable> = IndexMap::new();
    for (n, t) in &inst.domain {
        let mut d = DomainVariable::new(*t, InputSpan::default());
        if used.contains(n) { d.increment_usage(); }
        domain.insert(n.clone(), d);
    }
    let raw = inst.constraints.clone();
    let norm = std::panic::catch_unwind(|| {
        raw.iter().map(|c| {
            let n = |e: &Exp| e.clone().simplify().flatten().simplify();
            if c.is_logic_assertion() { Constraint::new_logic_assertion(n(c.lhs()), c.name().to_string()) }
            else { Constraint::new(n(c.lhs()), c.constraint_type(), n(c.rhs()), c.name().to_string()) }
        }).collect::<Vec<_>>()
    }).ok()?;
    let mut tail = format!("{} {} (constraints", sx::num(default_tolerance()), sx::domain(&domain));
    for c in &norm { tail.push(' '); tail.push_str(&sx::constraint(c)); }
    tail.push(')');
    let mut c = Case::default();
    c.req = format!("linbounds {}", tail);
    match std::panic::catch_unwind(|| linearizer_bounds(&domain, &inst.constraints)) {
        Ok(rep) => {
            let mut imp = String::from("(ok (vars");
            for (_, lo, hi) in &rep.variables { imp.push(' '); imp.push_str(&b(*lo, *hi)); }
            imp.push_str(") (exprs) ");
            let mut dom = rep.domain.clone();
            for (_, d) in dom.iter_mut() {
                let t = canon_ty(d.get_type());
                let mut nd = DomainVariable::new(t, InputSpan::default());
                for _ in 0..d.usage_count() { nd.increment_usage(); }
                *d = nd;
            }
            imp.push_str(&sx::domain(&dom));
            imp.push(')');
            c.nontrivial = rep.variables.iter().zip(inst.domain.iter()).any(|((_, lo, hi), (_, t))| {
                let (dl, dh) = match t {
                    VariableType::Boolean => (0.0, 1.0),
                    VariableType::IntegerRange(a, b) => (*a as f64, *b as f64),
                    VariableType::NonNegativeReal(a, b) | VariableType::Real(a, b) => (*a, *b),
                };
                lo.to_bits() != dl.to_bits() || hi.to_bits() != dh.to_bits()
            });
            c.oracle = format!("check-lin {} {}", tail, imp);
            c.imp = imp;
        }
        Err(_) => {
            c.imp = "(err panic)".into();
            c.impl_violation = Some("linearizer_bounds panicked".into());
        }
    }
    c.tags = vec!["linearizer-path".to_string(), format!("lin-{}", inst.tags[0])];
    c.tags.push(if c.nontrivial { "lin-tightened".into() } else { "lin-declared".into() });
    let mut show = String::from("[linearizer path] ");
    for (n, t) in &inst.domain { show.push_str(&format!("{} as {:?}; ", n, t)); }
    show.push_str("s.t. ");
    for x in &inst.constraints { show.push_str(&format!("{} {} {}; ", x.lhs(), x.constraint_type(), x.rhs())); }
    c.show = show;
    Some(c)
}

/// the same instance through the REAL `Linearizer::linearize(model)` (objective `solve 0`): every domain of the
/// resulting `LinearModel` — declared variables AND the auxiliaries `$abs_k/$min_k/$max_k`, whose declared range is
/// the compiler's claim about a sub-expression — is compared bit for bit with the composed Lean pipeline
/// (`Compile.linearize`: normalisation, `analyze`, `enforceable`, `apply_to_domain`, lowering); the exact oracle
/// tests the published domains of the declared variables against the source-feasible points of the normalised model.
fn run_compiled(inst: &Inst) -> Vec<Case> {
    let mut aux_case: Option<Case> = None;
    if inst.domain.iter().any(|(n, _)| n.starts_with('$')) { return vec![]; }
    let ds: Vec<VarDecl> = inst.domain.iter().map(|(n, t)| VarDecl { name: n.clone(), ty: *t }).collect();
    let model = gen_model::build(OptimizationType::Satisfy, Exp::Number(0.0), inst.constraints.clone(), &ds);
    // undeclared variables make the front end fail earlier; keep to declared ones
    let mut used = vec![];
    for c in &inst.constraints { names(c.lhs(), &mut used); names(c.rhs(), &mut used); }
    if used.iter().any(|n| !inst.domain.iter().any(|(m, _)| m == n)) { return vec![]; }
    let raw = inst.constraints.clone();
    let norm = std::panic::catch_unwind(|| {
        raw.iter().map(|c| {
            let n = |e: &Exp| e.clone().simplify().flatten().simplify();
            if c.is_logic_assertion() { Constraint::new_logic_assertion(n(c.lhs()), c.name().to_string()) }
            else { Constraint::new(n(c.lhs()), c.constraint_type(), n(c.rhs()), c.name().to_string()) }
        }).collect::<Vec<_>>()
    }).ok();
    let Some(norm) = norm else { return vec![]; };
    let mut c = Case::default();
    c.req = format!("compile-domains {} {}", sx::model(&model), sx::num(default_tolerance()));
    let res = std::panic::catch_unwind(std::panic::AssertUnwindSafe(|| Linearizer::linearize(model.clone())));
    let mut kind = "compiled";
    match res {
        Ok(Ok(lm)) => {
            let canon_dom = |d: &IndexMap<String, DomainVariable>| {
                let mut dom = d.clone();
                for (_, v) in dom.iter_mut() {
                    let t = canon_ty(v.get_type());
                    let mut nd = DomainVariable::new(t, InputSpan::default());
                    for _ in 0..v.usage_count() { nd.increment_usage(); }
                    *v = nd;
                }
                dom
            };
            let published = canon_dom(lm.domain());
            c.imp = format!("(ok {})", sx::domain(&published));
            c.nontrivial = lm.variables().iter().any(|v| v.starts_with('$'));
            if c.nontrivial { kind = "compiled-aux"; }
            // The published domain of every USED declared variable must be the one `verif_hooks::linearizer_bounds` reports
            // (the hook runs the same three steps); the oracle then gets the hook's full report, so that its root-cause
            // classification (Shadow run == implementation) applies here as well.
            let src = model.domain();
            let rep = linearizer_bounds(src, &inst.constraints);
            for (n, dv) in &published {
                if n.starts_with('$') { continue; }
                let hooked = rep.domain.get(n).map(|d| sx::var_type(&canon_ty(d.get_type())));
                if hooked.as_deref() != Some(sx::var_type(dv.get_type()).as_str()) && c.impl_violation.is_none() {
                    c.impl_violation = Some(format!("Linearizer::linearize publishes {} as {:?} but analyze|>enforceable|>apply_to_domain gives {:?}", n, dv.get_type(), rep.domain.get(n).map(|d| *d.get_type())));
                }
            }
            let mut imp = String::from("(ok (vars");
            for (_, lo, hi) in &rep.variables { imp.push(' '); imp.push_str(&b(*lo, *hi)); }
            imp.push_str(") (exprs) ");
            imp.push_str(&sx::domain(&canon_dom(&rep.domain)));
            imp.push(')');
            let mut tail = format!("{} {} (constraints", sx::num(default_tolerance()), sx::domain(src));
            for x in &norm { tail.push(' '); tail.push_str(&sx::constraint(x)); }
            tail.push(')');
            c.oracle = format!("check-lin {} {}", tail, imp);
            if c.nontrivial {
                // the ranges declared for the compiler's auxiliaries: every source-feasible point must leave, in the rows
                // that mention one auxiliary only, a value inside the auxiliary's published range
                let mut a = Case::default();
                a.oracle = format!("check-aux {} {}", tail, sx::lin_model(&lm));
                a.imp = String::new();
                a.nontrivial = true;
                aux_case = Some(a);
            }
        }
        // which error, and whether the port agrees on it, is C01's subject (detailed error diff there)
        Ok(Err(_)) => { c.imp = "(err)".into(); c.req = String::new(); kind = "compile-error"; }
        Err(_) => { c.imp = "(panic)".into(); c.impl_violation = Some("Linearizer::linearize panicked".into()); kind = "compile-panic"; }
    }
    c.tags = vec!["real-linearize".to_string(), format!("real-{}", inst.tags[0]), kind.to_string()];
    let mut show = String::from("[Linearizer::linearize] ");
    for (n, t) in &inst.domain { show.push_str(&format!("{} as {:?}; ", n, t)); }
    show.push_str("s.t. ");
    for x in &inst.constraints { show.push_str(&format!("{} {} {}; ", x.lhs(), x.constraint_type(), x.rhs())); }
    c.show = show;
    let mut out = vec![];
    if let Some(mut a) = aux_case {
        a.tags = vec!["real-linearize-aux".to_string(), format!("aux-{}", inst.tags[0])];
        a.show = c.show.replace("[Linearizer::linearize]", "[Linearizer::linearize, auxiliary ranges]");
        out.push(a);
    }
    out.insert(0, c);
    out
}

// ---------------------------------------------------------------- value pools
fn nice(r: &mut Rng) -> f64 {
    match r.below(12) {
        0 | 1 => r.range(-6, 6) as f64,
        2 => r.range(1, 9) as f64,
        3 => r.range(-20, 20) as f64 / 4.0,
        4 => r.range(-50, 50) as f64 / 10.0,
        5 => *r.pick(&[1.9, 0.1, 0.3, 0.7, 2.7, 1.1, -1.9, -0.1, 3.3, 0.9999]),
        6 => *r.pick(&[1.0, -1.0, 2.0, 0.5, -0.5, 3.0]),
        7 => r.range(-100, 100) as f64 / 7.0,
        8 => r.range(1, 40) as f64,
        9 => 0.0,
        _ => r.range(-3, 3) as f64,
    }
}
fn coef(r: &mut Rng) -> f64 {
    match r.below(10) {
        0 => 0.0,
        1 => *r.pick(&[1.9, 0.1, 0.3, -1.9, -0.1, 2.7, 1e-3, 1e3, 0.7, -0.3]),
        2 | 3 => 1.0,
        4 => -1.0,
        5 => r.range(-40, 40) as f64 / 8.0,
        _ => { let x = r.range(-5, 5) as f64; if x == 0.0 { 2.0 } else { x } }
    }
}
fn delta(r: &mut Rng) -> f64 {
    let d = *r.pick(&[1e-10, 5e-10, 9.9e-10, 1e-9, 1.0000001e-9, 2e-9, 1e-8, 2e-5, 1e-12, 0.0]);
    if r.chance(1, 2) { d } else { -d }
}
fn special(r: &mut Rng) -> f64 {
    *r.pick(&[INF, -INF, f64::NAN, -0.0, 1e300, -1e300, 5e-324, 1e-300, 1e16, 9007199254740993.0, 0.0])
}
fn cmp(r: &mut Rng) -> Comparison {
    *r.pick(&[Comparison::LessOrEqual, Comparison::LessOrEqual, Comparison::GreaterOrEqual, Comparison::GreaterOrEqual,
              Comparison::Equal, Comparison::Less, Comparison::Greater])
}

fn var_type(r: &mut Rng, wild: bool) -> VariableType {
    match r.below(if wild { 14 } else { 11 }) {
        0 => VariableType::Boolean,
        1 | 2 => { let a = r.range(-6, 4); VariableType::IntegerRange(a as i32, (a + r.range(0, 8)) as i32) }
        3 => { let a = r.range(0, 3); VariableType::IntegerRange(a as i32, (a + r.range(0, 30)) as i32) }
        4 | 5 => { let a = r.range(0, 8) as f64 / 2.0; VariableType::NonNegativeReal(a, a + r.range(0, 12) as f64 / 2.0) }
        6 => VariableType::NonNegativeReal(0.0, INF),
        7 | 8 => { let a = r.range(-12, 6) as f64 / 2.0; VariableType::Real(a, a + r.range(0, 20) as f64 / 2.0) }
        9 => VariableType::Real(-INF, INF),
        10 => if r.chance(1, 2) { VariableType::Real(-INF, r.range(-3, 8) as f64) } else { VariableType::Real(r.range(-8, 3) as f64, INF) },
        11 => *r.pick(&[VariableType::IntegerRange(i32::MIN, i32::MAX), VariableType::IntegerRange(i32::MAX - 1, i32::MAX),
                        VariableType::IntegerRange(i32::MIN, i32::MIN + 3), VariableType::IntegerRange(5, 2)]),
        12 => VariableType::NonNegativeReal(-(r.range(1, 5) as f64), r.range(0, 5) as f64), // malformed: negative lower
        _ => { let a = special(r); let b = special(r); if r.chance(1, 2) { VariableType::Real(a, b) } else { VariableType::NonNegativeReal(a, b) } }
    }
}
fn var_names(n: usize) -> Vec<String> { ["x", "y", "z", "w", "u", "t", "s", "p"][..n].iter().map(|s| s.to_string()).collect() }

/// `c * x` in one of the spellings the affine recogniser accepts (or a plain variable for c = 1).
fn term(r: &mut Rng, c: f64, x: &str) -> Exp {
    if c == 1.0 && r.chance(2, 3) { return v(x); }
    if c == -1.0 && r.chance(1, 2) { return neg(v(x)); }
    match r.below(6) {
        0 | 1 | 2 => mul(k(c), v(x)),
        3 => mul(v(x), k(c)),
        4 if c != 0.0 && (1.0 / c).is_finite() => div(v(x), k(1.0 / c)),
        _ => if c < 0.0 { neg(mul(k(-c), v(x))) } else { mul(k(c), v(x)) },
    }
}
/// random affine expression over `vars` with an optional constant; may repeat a variable.
fn affine(r: &mut Rng, vars: &[String], terms: (usize, usize), with_const: Option<bool>) -> Exp {
    let terms = terms.0 + r.below(terms.1);
    let with_const = match with_const { Some(b) => b, None => r.chance(1, 3) };
    let mut e: Option<Exp> = None;
    let mut push = |e: &mut Option<Exp>, t: Exp, r: &mut Rng| {
        *e = Some(match e.take() { None => t, Some(p) => if r.chance(1, 4) { sub(p, t) } else { add(p, t) } });
    };
    for _ in 0..terms {
        let c = coef(r);
        let x = r.pick(vars).clone();
        let t = term(r, c, &x);
        push(&mut e, t, r);
    }
    if with_const || e.is_none() { let c = nice(r); push(&mut e, k(c), r); }
    let e = e.unwrap();
    match r.below(12) { 0 => mul(k(coef(r)), e), 1 => div(e, k(*r.pick(&[2.0, -2.0, 0.5, 3.0, 1.9]))), 2 => neg(e), _ => e }
}

fn std_exprs(r: &mut Rng, vars: &[String], n: usize) -> Vec<Exp> {
    let cfg = ExpCfg { vars: vars.to_vec(), logic: true, minmax: true, special: false };
    let arith = ExpCfg { vars: vars.to_vec(), logic: false, minmax: true, special: false };
    let mut out = vec![];
    for i in 0..n {
        out.push(match r.below(10) {
            0 => abs(affine(r, vars, (2, 0), Some(true))),
            1 => Exp::Min(vec![affine(r, vars, (1, 0), Some(true)), affine(r, vars, (1, 0), Some(false))]),
            2 => Exp::Max(vec![affine(r, vars, (1, 0), Some(true)), affine(r, vars, (1, 0), Some(false)), k(nice(r))]),
            3 => affine(r, vars, (3, 0), Some(true)),
            4 => mul(pv(r, vars), pv(r, vars)),
            5 => div(affine(r, vars, (2, 0), Some(true)), k(*r.pick(&[0.0, 2.0, -4.0, 0.1, -0.0]))),
            6 | 7 => gen_exp::exp(r, if i % 2 == 0 { &cfg } else { &arith }, 3),
            8 => mul(k(coef(r)), abs(pv(r, vars))),
            _ => sub(Exp::Max(vec![pv(r, vars), k(0.0)]), Exp::Min(vec![pv(r, vars), k(1.0)])),
        });
    }
    out
}

// ---------------------------------------------------------------- steering towards feasible instances
fn ev(e: &Exp, p: &[(String, f64)]) -> f64 {
    let t = |x: f64| x != 0.0;
    let bl = |b: bool| if b { 1.0 } else { 0.0 };
    match e {
        Exp::Number(x) => *x,
        Exp::Variable(n) => p.iter().find(|(m, _)| m == n).map(|q| q.1).unwrap_or(0.0),
        Exp::Abs(a) => ev(a, p).abs(),
        Exp::Min(es) => es.iter().map(|e| ev(e, p)).fold(f64::INFINITY, f64::min),
        Exp::Max(es) => es.iter().map(|e| ev(e, p)).fold(f64::NEG_INFINITY, f64::max),
        Exp::And(es) => bl(es.iter().all(|e| t(ev(e, p)))),
        Exp::Or(es) => bl(es.iter().any(|e| t(ev(e, p)))),
        Exp::Not(a) | Exp::UnOp(UnOp::Not, a) => bl(!t(ev(a, p))),
        Exp::UnOp(UnOp::Neg, a) => -ev(a, p),
        Exp::Xor(a, b) | Exp::BinOp(BinOp::Xor, a, b) => bl(t(ev(a, p)) != t(ev(b, p))),
        Exp::Implies(a, b) | Exp::BinOp(BinOp::Implies, a, b) => bl(!t(ev(a, p)) || t(ev(b, p))),
        Exp::Iff(a, b) | Exp::BinOp(BinOp::Iff, a, b) => bl(t(ev(a, p)) == t(ev(b, p))),
        Exp::BinOp(BinOp::And, a, b) => bl(t(ev(a, p)) && t(ev(b, p))),
        Exp::BinOp(BinOp::Or, a, b) => bl(t(ev(a, p)) || t(ev(b, p))),
        Exp::BinOp(BinOp::Add, a, b) => ev(a, p) + ev(b, p),
        Exp::BinOp(BinOp::Sub, a, b) => ev(a, p) - ev(b, p),
        Exp::BinOp(BinOp::Mul, a, b) => ev(a, p) * ev(b, p),
        Exp::BinOp(BinOp::Div, a, b) => ev(a, p) / ev(b, p),
    }
}
fn point_in(r: &mut Rng, t: &VariableType) -> f64 {
    let (lo, hi, int) = match t {
        VariableType::Boolean => (0.0, 1.0, true),
        VariableType::IntegerRange(a, b) => (*a as f64, *b as f64, true),
        VariableType::NonNegativeReal(a, b) => (a.max(0.0), *b, false),
        VariableType::Real(a, b) => (*a, *b, false),
    };
    let lo = if lo.is_finite() { lo } else if hi.is_finite() { hi - 8.0 } else { -4.0 };
    let hi = if hi.is_finite() { hi } else { lo + 8.0 };
    if !(lo <= hi) { return lo; }
    match r.below(5) {
        0 => lo,
        1 => hi,
        _ => {
            let steps = if int { (hi - lo).min(1000.0) as i64 } else { 8 };
            let x = lo + (hi - lo) * (r.range(0, steps.max(1)) as f64) / (steps.max(1) as f64);
            if int { x.round().clamp(lo, hi) } else { x }
        }
    }
}
/// shifts the right-hand sides so that a hidden in-domain point satisfies every row (up to rounding of the
/// shift itself); rows are tight at the point with probability 1/3.
fn steer(r: &mut Rng, inst: &mut Inst) {
    let p: Vec<(String, f64)> = inst.domain.iter().map(|(n, t)| (n.clone(), point_in(r, t))).collect();
    let old = std::mem::take(&mut inst.constraints);
    for (i, c) in old.into_iter().enumerate() {
        if c.is_logic_assertion() { inst.constraints.push(c); continue; }
        let d = ev(c.lhs(), &p) - ev(c.rhs(), &p);
        if !d.is_finite() { inst.constraints.push(c); continue; }
        let slack = if r.chance(1, 3) { 0.0 } else { *r.pick(&[0.5, 1.0, 2.0, 0.1, 3.5]) };
        let op = c.constraint_type();
        let shift = match op {
            Comparison::LessOrEqual | Comparison::Less => d + slack,
            Comparison::GreaterOrEqual | Comparison::Greater => d - slack,
            Comparison::Equal => d,
        };
        let (l, _, rr, _) = c.into_parts();
        let rr = match rr { Exp::Number(x) => k(x + shift), e => if shift == 0.0 { e } else { add(e, k(shift)) } };
        inst.constraints.push(row(l, op, rr, i));
    }
    inst.tags.push("steered".into());
}

// ---------------------------------------------------------------- streams
fn s_affine(r: &mut Rng) -> Inst {
    let n = 1 + r.below(4);
    let vars = var_names(n);
    let domain = vars.iter().map(|x| (x.clone(), var_type(r, false))).collect();
    let m = 1 + r.below(4);
    let mut cs = vec![];
    for i in 0..m {
        let lhs = affine(r, &vars, (1, 3), None);
        let rhs = if r.chance(2, 3) { k(nice(r)) } else { affine(r, &vars, (0, 2), Some(true)) };
        cs.push(row(lhs, cmp(r), rhs, i));
    }
    let exprs = std_exprs(r, &vars, 2);
    Inst { domain, constraints: cs, exprs, tags: vec!["affine".into()] }
}

fn s_chain(r: &mut Rng) -> Inst {
    let n = 3 + r.below(6);
    let vars = var_names(n.min(8));
    let n = vars.len();
    let wide = r.chance(1, 2);
    let domain: Vec<(String, VariableType)> = vars.iter().map(|x| (x.clone(),
        if wide { VariableType::Real(-INF, INF) } else { var_type(r, false) })).collect();
    let mut cs = vec![];
    // the anchor is listed LAST so that information has to travel back through re-queued rows
    for i in (0..n - 1).rev() {
        let c = *r.pick(&[1.0, 1.0, 2.0, 0.5, 1.9, -1.0, 0.1, 3.0]);
        let rhs = add(term(r, c, &vars[i]), k(nice(r)));
        let op = *r.pick(&[Comparison::LessOrEqual, Comparison::Equal, Comparison::Equal, Comparison::GreaterOrEqual]);
        cs.push(row(v(&vars[i + 1]), op, rhs, cs.len()));
    }
    let a = nice(r);
    if r.chance(1, 2) { cs.push(row(v(&vars[0]), Comparison::LessOrEqual, k(a + r.below(5) as f64), cs.len())); }
    cs.push(row(v(&vars[0]), Comparison::GreaterOrEqual, k(a), cs.len()));
    if r.chance(1, 3) { cs.reverse(); }
    let exprs = std_exprs(r, &vars, 2);
    Inst { domain, constraints: cs, exprs, tags: vec!["chain".into()] }
}

fn s_contradiction(r: &mut Rng) -> Inst {
    let mut inst = if r.chance(1, 2) { s_affine(r) } else { s_chain(r) };
    let x = inst.domain[r.below(inst.domain.len())].0.clone();
    let pos = r.below(inst.constraints.len() + 1);
    let bad = match r.below(5) {
        0 => vec![row(v(&x), Comparison::GreaterOrEqual, k(1e6), 90)],
        1 => vec![row(v(&x), Comparison::LessOrEqual, k(3.0), 90), row(v(&x), Comparison::GreaterOrEqual, k(3.0 + *r.pick(&[1e-9, 2e-9, 1.0, 1e-6])), 91)],
        2 => vec![row(k(1.0), Comparison::LessOrEqual, k(0.0), 90)],
        3 => vec![row(abs(v(&x)), Comparison::LessOrEqual, k(-1.0), 90)],
        _ => vec![row(add(v(&x), k(1.0)), Comparison::Equal, v(&x), 90)],
    };
    for (j, c) in bad.into_iter().enumerate() { inst.constraints.insert((pos + j).min(inst.constraints.len()), c); }
    inst.tags = vec!["contradiction".into()];
    inst
}

fn s_tolerance(r: &mut Rng) -> Inst {
    let kk = r.range(-3, 6) as f64;
    let kind = r.below(8);
    let ty = match r.below(4) {
        0 => VariableType::IntegerRange(kk as i32 - 4, kk as i32 + 4),
        1 => VariableType::Real(kk - 4.0, kk + 4.0),
        2 => VariableType::NonNegativeReal((kk - 4.0).max(0.0), kk + 4.0),
        _ => VariableType::Real(-INF, INF),
    };
    let mut domain = vec![("x".to_string(), ty), ("y".to_string(), VariableType::IntegerRange(-10, 10))];
    let mut cs = vec![];
    match kind {
        0 => { // bound at a declared endpoint ± delta: intersection's tolerance branch
            domain[0].1 = VariableType::Real(kk - 4.0, kk);
            cs.push(row(v("x"), Comparison::GreaterOrEqual, k(kk + delta(r)), 0));
        }
        1 => { // two updates that differ by about the tolerance: tolerance-gated tighten_variable
            cs.push(row(v("x"), Comparison::LessOrEqual, k(kk), 0));
            cs.push(row(v("x"), Comparison::LessOrEqual, k(kk + delta(r)), 1));
            cs.push(row(v("x"), Comparison::GreaterOrEqual, k(kk - 2.0 + delta(r)), 2));
            cs.push(row(v("x"), Comparison::GreaterOrEqual, k(kk - 2.0), 3));
        }
        2 => { // c * (1 / c) integer rounding
            let c = *r.pick(&[1.9, 0.1, 0.3, 0.7, 2.7, 1.1, 3.3, 49.0, 0.07, 1e-3]);
            let n = r.range(-5, 8) as f64;
            cs.push(row(mul(k(c), v("y")), *r.pick(&[Comparison::LessOrEqual, Comparison::GreaterOrEqual, Comparison::Equal]), k(c * n), 0));
            cs.push(row(mul(k(c), v("x")), Comparison::LessOrEqual, k(c * kk), 1));
        }
        3 => { // integer bound a hair away from an integer
            cs.push(row(v("y"), Comparison::GreaterOrEqual, k(kk + delta(r)), 0));
            cs.push(row(v("y"), Comparison::LessOrEqual, k(kk + 2.0 + delta(r)), 1));
        }
        4 => { // nearly empty integer interval (`enforceable` falls back to the declared box), with a non-convex
               // piecewise row so that the compiled model declares an auxiliary whose range is read from the box
            cs.push(row(v("y"), Comparison::GreaterOrEqual, k(kk + 0.3), 0));
            cs.push(row(v("y"), Comparison::LessOrEqual, k(kk + 0.6), 1));
            match r.below(4) {
                0 => cs.push(row(abs(sub(v("y"), k(0.5))), Comparison::GreaterOrEqual, k(0.25), 2)),
                1 => cs.push(row(Exp::Max(vec![v("y"), mul(k(0.5), v("x"))]), Comparison::GreaterOrEqual, k(kk - 1.0), 2)),
                2 => cs.push(row(Exp::Min(vec![v("y"), v("x")]), Comparison::LessOrEqual, abs(v("y")), 2)),
                _ => {}
            }
        }
        5 => { // equality against an interval that misses by delta
            domain[0].1 = VariableType::Real(kk, kk + 1.0);
            cs.push(row(add(v("x"), v("y")), Comparison::Equal, k(kk + 11.0 + delta(r)), 0));
        }
        6 => { // piecewise route with tolerance boundary
            domain[0].1 = VariableType::Real(kk - 4.0, kk);
            cs.push(row(Exp::Max(vec![v("x"), v("y")]), Comparison::LessOrEqual, k(kk - 4.0 + delta(r)), 0));
        }
        _ => {
            cs.push(row(sub(v("x"), v("y")), Comparison::LessOrEqual, k(delta(r)), 0));
            cs.push(row(sub(v("y"), v("x")), Comparison::LessOrEqual, k(delta(r)), 1));
            cs.push(row(v("y"), Comparison::Equal, k(kk), 2));
        }
    }
    let vars = var_names(2);
    let exprs = std_exprs(r, &vars, 1);
    Inst { domain, constraints: cs, exprs, tags: vec!["tolerance".into(), format!("tolerance-{}", kind)] }
}

fn piece(r: &mut Rng, vars: &[String], depth: u32) -> Exp {
    let leaf = |r: &mut Rng| if r.chance(3, 4) { affine(r, vars, (1, 2), None) } else { k(nice(r)) };
    if depth == 0 { return leaf(r); }
    match r.below(8) {
        0 | 1 => abs(piece(r, vars, depth - 1)),
        2 => Exp::Min((0..1 + r.below(3)).map(|_| piece(r, vars, depth - 1)).collect()),
        3 => Exp::Max((0..1 + r.below(3)).map(|_| piece(r, vars, depth - 1)).collect()),
        4 => add(piece(r, vars, depth - 1), leaf(r)),
        5 => sub(leaf(r), piece(r, vars, depth - 1)),
        6 => match r.below(4) {
            0 => mul(k(coef(r)), piece(r, vars, depth - 1)),
            1 => mul(piece(r, vars, depth - 1), k(coef(r))),
            2 => div(piece(r, vars, depth - 1), k(*r.pick(&[2.0, -2.0, 0.5, 0.0, 1.9]))),
            _ => neg(piece(r, vars, depth - 1)),
        },
        _ => leaf(r),
    }
}
fn s_piecewise(r: &mut Rng) -> Inst {
    let n = 1 + r.below(3);
    let vars = var_names(n);
    let domain = vars.iter().map(|x| (x.clone(), var_type(r, false))).collect();
    let m = 1 + r.below(3);
    let mut cs = vec![];
    for i in 0..m {
        let dp = 1 + r.below(2) as u32;
        let p = piece(r, &vars, dp);
        let o = if r.chance(1, 4) { piece(r, &vars, 1) } else if r.chance(1, 3) { affine(r, &vars, (1, 0), Some(true)) } else { k(nice(r)) };
        if r.chance(2, 3) { cs.push(row(p, cmp(r), o, i)); } else { cs.push(row(o, cmp(r), p, i)); }
    }
    if r.chance(1, 2) { cs.push(row(affine(r, &vars, (2, 0), Some(false)), cmp(r), k(nice(r)), m)); }
    let exprs = std_exprs(r, &vars, 2);
    Inst { domain, constraints: cs, exprs, tags: vec!["piecewise".into()] }
}

fn s_nonaffine(r: &mut Rng) -> Inst {
    let n = 2 + r.below(2);
    let vars = var_names(n);
    let domain = vars.iter().map(|x| (x.clone(), var_type(r, false))).collect();
    let cfg = ExpCfg { vars: vars.clone(), logic: true, minmax: true, special: false };
    let mut cs = vec![];
    let m = 1 + r.below(3);
    for i in 0..m {
        let l = match r.below(6) {
            0 => mul(pv(r, &vars), pv(r, &vars)),
            1 => div(k(nice(r)), pv(r, &vars)),
            2 => add(mul(pv(r, &vars), affine(r, &vars, (1, 0), Some(true))), pv(r, &vars)),
            3 => bin(*r.pick(&gen_exp::BINOPS[4..]), pv(r, &vars), pv(r, &vars)),
            _ => gen_exp::exp(r, &cfg, 3),
        };
        if r.chance(1, 6) { cs.push(Constraint::new_logic_assertion(l, cn(i))); }
        else if r.chance(1, 2) { cs.push(row(l, cmp(r), affine(r, &vars, (1, 0), Some(true)), i)); }
        else { cs.push(row(add(l, affine(r, &vars, (1, 0), Some(false))), cmp(r), k(nice(r)), i)); }
    }
    cs.push(row(affine(r, &vars, (2, 0), Some(false)), cmp(r), k(nice(r)), m));
    let exprs = std_exprs(r, &vars, 2);
    Inst { domain, constraints: cs, exprs, tags: vec!["nonaffine".into()] }
}

fn s_steplimit(r: &mut Rng) -> Inst {
    // contraction factor 1 - eps: the box shrinks by more than the tolerance per visit for far more than
    // DEFAULT_MAX_STEPS visits
    let q = *r.pick(&[0.9999, 0.99995, 0.99999]);
    let hi = *r.pick(&[100.0, 1000.0, 64.0]);
    let kind = r.below(6);
    let (domain, cs) = match kind {
        0 => (vec![("x".to_string(), VariableType::Real(0.0, hi)), ("y".to_string(), VariableType::Real(0.0, hi))],
              vec![row(v("x"), Comparison::LessOrEqual, mul(k(q), v("y")), 0), row(v("y"), Comparison::LessOrEqual, v("x"), 1)]),
        1 => (vec![("x".to_string(), VariableType::IntegerRange(0, hi as i32)), ("y".to_string(), VariableType::NonNegativeReal(0.0, hi))],
              vec![row(sub(v("x"), mul(k(q), v("y"))), Comparison::LessOrEqual, k(0.0), 0), row(v("y"), Comparison::Equal, v("x"), 1),
                   row(v("x"), Comparison::GreaterOrEqual, k(0.0), 2)]),
        2 => (vec![("x".to_string(), VariableType::Real(-hi, hi)), ("y".to_string(), VariableType::Real(-hi, hi)), ("z".to_string(), VariableType::Real(-hi, hi))],
              vec![row(abs(v("x")), Comparison::LessOrEqual, mul(k(q), v("y")), 0), row(v("y"), Comparison::LessOrEqual, Exp::Max(vec![v("z"), k(0.0)]), 1),
                   row(v("z"), Comparison::LessOrEqual, abs(v("x")), 2)]),
        // webs: several rows share the contracting variables, so that one change re-queues more than one row (the
        // `queued` flags and the order of the dependency lists decide which row is visited when the limit hits) and
        // a non-affine row depends on variables that only occur on its right-hand side
        3 => (vec![("x".to_string(), VariableType::Real(0.0, hi)), ("y".to_string(), VariableType::Real(0.0, hi)), ("z".to_string(), VariableType::Real(0.0, hi)), ("w".to_string(), VariableType::Real(0.0, hi))],
              vec![row(v("x"), Comparison::LessOrEqual, mul(k(q), v("y")), 0), row(v("y"), Comparison::LessOrEqual, v("x"), 1),
                   row(v("z"), Comparison::LessOrEqual, add(mul(k(0.5), v("x")), mul(k(0.5), v("y"))), 2),
                   row(v("w"), Comparison::LessOrEqual, Exp::Max(vec![v("z"), mul(k(q), v("x"))]), 3),
                   row(add(v("x"), v("w")), Comparison::LessOrEqual, mul(k(2.0), v("y")), 4)]),
        4 => (vec![("x".to_string(), VariableType::Real(0.0, hi)), ("y".to_string(), VariableType::Real(0.0, hi)), ("z".to_string(), VariableType::Real(0.0, hi))],
              vec![row(k(0.0), Comparison::GreaterOrEqual, sub(abs(v("x")), mul(k(q), v("y"))), 0),
                   row(Exp::Min(vec![v("y"), k(hi)]), Comparison::LessOrEqual, Exp::Max(vec![v("z"), v("x")]), 1),
                   row(v("z"), Comparison::LessOrEqual, v("x"), 2), row(v("z"), Comparison::LessOrEqual, mul(k(q), v("y")), 3)]),
        _ => (vec![("x".to_string(), VariableType::Real(0.0, hi)), ("y".to_string(), VariableType::Real(0.0, hi)), ("z".to_string(), VariableType::Real(0.0, hi))],
              vec![row(v("y"), Comparison::LessOrEqual, v("x"), 0), row(v("z"), Comparison::LessOrEqual, v("y"), 1),
                   row(v("x"), Comparison::LessOrEqual, mul(k(q), v("z")), 2), row(v("x"), Comparison::LessOrEqual, mul(k(q), v("y")), 3),
                   row(add(v("y"), v("z")), Comparison::LessOrEqual, mul(k(2.0 * q), v("x")), 4)]),
    };
    let vars = var_names(2);
    let exprs = std_exprs(r, &vars, 1);
    Inst { domain, constraints: cs, exprs, tags: vec!["step-limit".into()] }
}

/// rows whose two sides differ by many orders of magnitude (big-M style constants, tiny coefficients)
fn s_magnitude(r: &mut Rng) -> Inst {
    let vars = var_names(1 + r.below(2));
    let hi: f64 = *r.pick(&[1.0, 10.0, 1000.0, 0.5]);
    let domain: Vec<(String, VariableType)> = vars.iter().map(|x| (x.clone(),
        if r.chance(1, 4) { VariableType::IntegerRange(0, hi.max(1.0) as i32) } else { VariableType::Real(if r.chance(1, 2) { 0.0 } else { -hi }, hi) })).collect();
    let big = *r.pick(&[1e6, 1e9, 1e12, 1e15, 1e16, 3e17]);
    let small = *r.pick(&[1.0, 1e-3, 1e-6, 1e-9, 1e-12]);
    let x = vars[0].clone();
    let inner = if small == 1.0 { v(&x) } else { mul(k(small), v(&x)) };
    let lhs = match r.below(6) {
        0 => abs(inner),
        1 => Exp::Max(vec![inner, pv(r, &vars)]),
        2 => Exp::Min(vec![inner, k(big)]),
        3 => add(abs(inner), k(big)),
        4 => add(inner, mul(k(small), pv(r, &vars))),       // affine row: no absorption expected
        _ => sub(Exp::Max(vec![inner, k(0.0)]), k(big)),
    };
    let (op, rhs) = match r.below(3) { 0 => (Comparison::LessOrEqual, k(big)), 1 => (Comparison::GreaterOrEqual, k(-big)), _ => (Comparison::LessOrEqual, k(2.0 * big)) };
    let cs = vec![row(lhs.clone(), op, rhs, 0)];
    let exprs = vec![lhs, add(v(&x), sub(k(big), k(big))), sub(add(v(&x), k(big)), k(big))];
    Inst { domain, constraints: cs, exprs, tags: vec!["magnitude".into()] }
}

/// `c*x + c*j ⋈ c*(n+j)` with inexact decimal `c`: the propagated bound lands an ulp or two beside the integer `n`, so the
/// published integer range is right only because `apply_to_domain` rounds within the tolerance
fn s_intulp(r: &mut Rng) -> Inst {
    let c = *r.pick(&[0.1, 0.3, 0.7, 1.9, 2.7, 1.1, 3.3, 0.07, 0.9, 1.3, 4.1]);
    // half of the instances use powers of two for j and n + j: then c*j and c*(n+j) are exact, the row holds with
    // equality at x = n in exact arithmetic, and a published range that misses n has a concrete feasible witness
    let (j, n) = if r.chance(1, 2) {
        let j = *r.pick(&[1.0, 2.0, 4.0]);
        let s = *r.pick(&[2.0, 4.0, 8.0, 16.0]);
        if s > j && s - j <= 10.0 { (j, s - j) } else { (1.0, 3.0) }
    } else { (r.range(0, 6) as f64, r.range(1, 9) as f64) };
    let lo_side = r.chance(1, 2);
    let op = if lo_side { Comparison::GreaterOrEqual } else { Comparison::LessOrEqual };
    let lhs = match r.below(3) {
        0 => add(mul(k(c), v("x")), k(c * j)),
        1 => sub(mul(k(c), v("x")), k(-(c * j))),
        _ => add(k(c * j), mul(v("x"), k(c))),
    };
    let mut cs = vec![row(lhs, op, k(c * (n + j)), 0)];
    if r.chance(1, 2) { cs.push(row(mul(k(c), v("y")), Comparison::Equal, mul(k(c), v("x")), 1)); }
    let domain = vec![("x".to_string(), VariableType::IntegerRange(0, 10)), ("y".to_string(), VariableType::IntegerRange(-2, 12))];
    Inst { domain, constraints: cs, exprs: vec![], tags: vec!["int-ulp".into()] }
}

/// a tiny coefficient (<= the analyzer's tolerance) on a very wide variable, merged as a LATER term of its side: its
/// contribution (1e-10 * 1e12 = 100) is not negligible, so the coefficient must not be treated as zero
fn s_tinycoef(r: &mut Rng) -> Inst {
    let c = *r.pick(&[1e-10, 5e-10, 1e-9, 1e-11, 2e-10]);
    let wide = *r.pick(&[1e12, 1e13, 4e12, 1e11]);
    let b0 = r.range(0, 9) as f64;
    let ylo = if r.chance(1, 3) { -wide } else { 0.0 };
    let domain = vec![("x".to_string(), VariableType::Real(-100.0, 1000.0)), ("y".to_string(), VariableType::Real(ylo, wide)),
                      ("z".to_string(), VariableType::Real(0.0, 10.0))];
    let tiny = |r: &mut Rng| match r.below(3) { 0 => mul(k(c), v("y")), 1 => mul(v("y"), k(c)), _ => div(v("y"), k(1.0 / c)) };
    let t = tiny(r);
    let cs = match r.below(5) {
        0 => vec![row(sub(v("x"), t), Comparison::LessOrEqual, k(b0), 0)],                       // x <= b + c*y
        1 => vec![row(add(v("x"), t), Comparison::GreaterOrEqual, k(b0), 0)],                    // x >= b - c*y
        2 => vec![row(v("x"), Comparison::LessOrEqual, add(k(b0), t), 0)],                       // tiny term merged from the rhs
        3 => vec![row(add(add(v("x"), v("z")), t), Comparison::Equal, k(b0), 0)],
        _ => vec![row(sub(sub(mul(k(2.0), v("x")), v("z")), t), Comparison::LessOrEqual, k(b0), 0), row(v("z"), Comparison::GreaterOrEqual, k(1.0), 1)],
    };
    Inst { domain, constraints: cs, exprs: vec![], tags: vec!["tiny-coefficient".into()] }
}

/// non-convex min/max rows (`max{..} >= w`, `min{..} <= w`, `=`) with three or four operands of which one is dominated
/// and pruned — possibly the FIRST one — so that the compiled model declares `$max_k` / `$min_k` from the retained
/// operands; the retained operand carrying the extreme bound comes at a random position
fn s_extreme(r: &mut Rng) -> Inst {
    let is_max = r.chance(1, 2);
    let n = 3 + r.below(2);
    let names = ["z", "x", "y", "u"];
    let dom_pos = r.below(n.min(2));           // the dominated operand: first (half of the time) or second
    let mut domain: Vec<(String, VariableType)> = vec![];
    let mut ops = vec![];
    let lead = if dom_pos == 0 { 1 } else { 0 }; // first retained operand: give it the extreme bound half of the time
    let lead_extreme = r.chance(1, 2);
    for i in 0..n {
        let (lo, hi) = if i == dom_pos {
            if is_max { (-(r.range(2, 6) as f64), 0.0) } else { (20.0, 20.0 + r.range(1, 6) as f64) }
        } else if is_max {
            let hi = if (i == lead) == lead_extreme { 9.0 + r.range(0, 3) as f64 } else { 3.0 + r.range(0, 3) as f64 };
            (r.range(0, 2) as f64, hi)
        } else {
            let lo = if (i == lead) == lead_extreme { -(9.0 + r.range(0, 3) as f64) } else { -(3.0 + r.range(0, 3) as f64) };
            (lo, 10.0 + r.range(0, 5) as f64)
        };
        let ty = if r.chance(1, 4) { VariableType::IntegerRange(lo as i32, hi as i32) } else { VariableType::Real(lo, hi) };
        domain.push((names[i].to_string(), ty));
        ops.push(if r.chance(1, 5) { add(v(names[i]), k(0.0)) } else { v(names[i]) });
    }
    domain.push(("w".to_string(), VariableType::Real(-50.0, 50.0)));
    let e = if is_max { Exp::Max(ops) } else { Exp::Min(ops) };
    let cs = match r.below(3) {
        0 => vec![row(e, if is_max { Comparison::GreaterOrEqual } else { Comparison::LessOrEqual }, v("w"), 0)],
        1 => vec![row(e, Comparison::Equal, v("w"), 0)],
        _ => vec![row(v("w"), Comparison::Equal, add(e, k(1.0)), 0)],
    };
    Inst { domain, constraints: cs, exprs: vec![], tags: vec!["extreme-pruned".into()] }
}

fn s_zero(r: &mut Rng) -> Inst {
    let vars = var_names(2 + r.below(2));
    let domain = vars.iter().map(|x| (x.clone(), var_type(r, false))).collect();
    let z = *r.pick(&[0.0, -0.0]);
    let x = vars[0].clone();
    let y = vars[1].clone();
    let mut cs = vec![];
    for i in 0..1 + r.below(3) {
        let l = match r.below(9) {
            0 => add(mul(k(z), v(&x)), v(&y)),
            1 => add(div(v(&x), k(z)), v(&y)),
            2 => sub(add(v(&x), v(&y)), v(&x)),                      // cancels to zero: shift_remove
            3 => add(sub(mul(k(2.0), v(&x)), mul(v(&x), k(2.0))), v(&y)),
            4 => mul(add(v(&x), v(&y)), k(z)),
            5 => div(add(v(&x), k(1.0)), k(*r.pick(&[2.0, -2.0, 0.1, 1e-3, 4.0]))),
            6 => add(mul(k(1e-200), mul(k(1e-200), v(&x))), v(&y)),  // underflows to a zero coefficient
            7 => add(abs(mul(k(z), v(&x))), div(abs(v(&y)), k(z))),
            _ => sub(mul(k(0.1), v(&x)), add(mul(k(0.1), v(&x)), neg(v(&y)))),
        };
        cs.push(row(l, cmp(r), if r.chance(1, 2) { k(nice(r)) } else { affine(r, &vars, (1, 0), Some(true)) }, i));
    }
    let mut exprs = std_exprs(r, &vars, 1);
    exprs.push(div(v(&x), k(z)));
    exprs.push(mul(k(z), v(&y)));
    exprs.push(div(affine(r, &vars, (2, 0), Some(true)), k(coef(r))));
    Inst { domain, constraints: cs, exprs, tags: vec!["zero-div".into()] }
}

fn s_special(r: &mut Rng) -> Inst {
    let vars = var_names(1 + r.below(3));
    let domain = vars.iter().map(|x| (x.clone(), var_type(r, true))).collect();
    let cfg = ExpCfg { vars: vars.clone(), logic: true, minmax: true, special: true };
    let mut cs = vec![];
    for i in 0..1 + r.below(3) {
        let l = match r.below(9) {
            0 => mul(k(special(r)), pv(r, &vars)),
            1 => add(pv(r, &vars), k(special(r))),
            2 => div(pv(r, &vars), k(special(r))),
            3 => add(mul(k(special(r)), pv(r, &vars)), mul(k(special(r)), pv(r, &vars))),
            4 => abs(mul(k(special(r)), pv(r, &vars))),
            5 | 6 | 7 => match r.below(3) {
                // coefficients that overflow only after merging / scaling (non-finite affine form, fix 48f25ce)
                0 => mul(k(1e300), mul(k(*r.pick(&[1e300, -1e300, 1e10])), pv(r, &vars))),
                1 => div(pv(r, &vars), k(*r.pick(&[5e-324, 1e-310, -1e-320, 1e-300]))),
                _ => add(mul(k(1e308), pv(r, &vars)), mul(k(1e308), pv(r, &vars))),
            },
            _ => gen_exp::exp(r, &cfg, 3),
        };
        let rhs = if r.chance(1, 3) { k(special(r)) } else { k(nice(r)) };
        cs.push(row(l, cmp(r), rhs, i));
    }
    let mut exprs = vec![gen_exp::exp(r, &cfg, 3), mul(k(special(r)), v(&vars[0])), div(v(&vars[0]), k(special(r)))];
    exprs.push(abs(v(&vars[0])));
    // inf - inf inside interval sums: the NaN repair of lower_sum / upper_sum
    exprs.push(add(v(&vars[0]), k(*r.pick(&[INF, -INF]))));
    exprs.push(sub(k(*r.pick(&[INF, -INF])), pv(r, &vars)));
    exprs.push(add(mul(k(1e300), mul(k(1e300), v(&vars[0]))), mul(k(-1e300), mul(k(1e300), pv(r, &vars)))));
    Inst { domain, constraints: cs, exprs, tags: vec!["special".into()] }
}

fn s_random(r: &mut Rng) -> Inst {
    let vars = var_names(1 + r.below(3));
    let domain = vars.iter().map(|x| (x.clone(), var_type(r, false))).collect();
    let cfg = ExpCfg { vars: vars.clone(), logic: r.chance(1, 2), minmax: true, special: false };
    let mut cs = vec![];
    for i in 0..1 + r.below(3) {
        let dp = 2 + r.below(3) as u32;
        let l = gen_exp::exp(r, &cfg, dp);
        let rr = if r.chance(1, 2) { k(nice(r)) } else { gen_exp::exp(r, &cfg, 2) };
        if r.chance(1, 8) { cs.push(Constraint::new_logic_assertion(l, cn(i))); } else { cs.push(row(l, cmp(r), rr, i)); }
    }
    let exprs = vec![gen_exp::exp(r, &cfg, 3), gen_exp::exp(r, &cfg, 4)];
    Inst { domain, constraints: cs, exprs, tags: vec!["random-exp".into()] }
}

fn s_undeclared(r: &mut Rng) -> Inst {
    let mut inst = if r.chance(1, 2) { s_affine(r) } else { s_piecewise(r) };
    // drop one declaration, or mention a new name
    if inst.domain.len() > 1 && r.chance(1, 2) { inst.domain.remove(r.below(inst.domain.len())); }
    else {
        let i = inst.constraints.len();
        inst.constraints.push(row(add(v("q"), v(&inst.domain[0].0)), cmp(r), k(nice(r)), i));
        inst.exprs.push(add(v("q"), k(1.0)));
    }
    inst.tags = vec!["undeclared".into()];
    inst
}

/// hand-written instances: the unit tests of bounds.rs and the shapes named in DESIGN.md §6 C07.
fn fixed() -> Vec<Inst> {
    let real = |a: f64, b: f64| VariableType::Real(a, b);
    let d = |xs: Vec<(&str, VariableType)>| xs.into_iter().map(|(n, t)| (n.to_string(), t)).collect::<Vec<_>>();
    let le = Comparison::LessOrEqual;
    let ge = Comparison::GreaterOrEqual;
    let eq = Comparison::Equal;
    let t = |s: &str| vec!["fixed".to_string(), s.to_string()];
    vec![
        Inst { domain: d(vec![("x", real(-INF, INF)), ("y", real(1.0, 2.0))]),
               constraints: vec![row(add(mul(k(2.0), v("x")), v("y")), le, k(8.0), 0)], exprs: vec![sub(mul(k(-2.0), v("x")), v("y"))], tags: t("unit-affine") },
        Inst { domain: d(vec![("x", real(-INF, INF)), ("y", real(-INF, INF))]),
               constraints: vec![row(v("y"), eq, add(v("x"), k(2.0)), 0), row(v("y"), le, k(5.0), 1)], exprs: vec![], tags: t("unit-chain") },
        Inst { domain: d(vec![]), constraints: vec![row(k(1.0), le, k(0.0), 0)], exprs: vec![k(1.0)], tags: t("unit-const-contradiction") },
        Inst { domain: d(vec![("x", real(0.0, 1.0))]), constraints: vec![row(v("x"), ge, k(2.0), 0)], exprs: vec![], tags: t("unit-var-contradiction") },
        Inst { domain: d(vec![("x", real(-INF, INF)), ("y", real(-INF, INF))]),
               constraints: vec![row(abs(v("x")), le, k(4.0), 0), row(Exp::Max(vec![v("x"), v("y")]), le, k(5.0), 1),
                                 row(Exp::Min(vec![v("x"), v("y")]), ge, k(-2.0), 2)], exprs: vec![abs(v("x")), Exp::Min(vec![v("x"), v("y")])], tags: t("unit-piecewise-safe") },
        Inst { domain: d(vec![("x", real(-5.0, 5.0)), ("y", real(-5.0, 5.0))]),
               constraints: vec![row(abs(v("x")), ge, k(3.0), 0), row(Exp::Max(vec![v("x"), v("y")]), ge, k(4.0), 1),
                                 row(Exp::Min(vec![v("x"), v("y")]), le, k(-4.0), 2)], exprs: vec![], tags: t("unit-piecewise-disjunctive") },
        Inst { domain: d(vec![("x", VariableType::IntegerRange(-10, 10)), ("y", VariableType::NonNegativeReal(0.0, 10.0)), ("z", real(-10.0, 10.0))]),
               constraints: vec![row(v("x"), ge, k(-2.2), 0), row(v("x"), le, k(3.7), 1), row(v("y"), ge, k(2.0), 2), row(v("z"), le, k(4.0), 3)],
               exprs: vec![], tags: t("unit-rounding") },
        // DESIGN: 3x <= 1 publishes 1 * (1/3) rounded
        Inst { domain: d(vec![("x", real(-INF, INF))]), constraints: vec![row(mul(k(3.0), v("x")), le, k(1.0), 0)], exprs: vec![mul(k(3.0), v("x"))], tags: t("third") },
        // DESIGN / C01: derived bound on a Boolean that apply_to_domain never publishes
        Inst { domain: d(vec![("x", VariableType::Boolean)]), constraints: vec![row(Exp::Max(vec![v("x"), k(0.5)]), le, k(0.5), 0)],
               exprs: vec![Exp::Max(vec![v("x"), k(0.5)])], tags: t("boolean-half") },
        // C08: infinite literal coefficient -> 0 * inf = NaN
        Inst { domain: d(vec![("x", VariableType::NonNegativeReal(0.0, INF))]), constraints: vec![row(mul(k(INF), v("x")), ge, k(1.0), 0)],
               exprs: vec![mul(k(INF), v("x"))], tags: t("inf-coefficient") },
        // C10: -2 * x as (0-2) * x is not affine for from_exp
        Inst { domain: d(vec![("x", real(-INF, INF)), ("y", real(0.0, 3.0))]),
               constraints: vec![row(mul(sub(k(0.0), k(2.0)), v("x")), le, k(4.0), 0), row(abs(v("x")), eq, v("y"), 1)], exprs: vec![abs(v("x"))], tags: t("nonliteral-coefficient") },
        // 1.9 * (1/1.9)
        Inst { domain: d(vec![("n", VariableType::IntegerRange(0, 10))]), constraints: vec![row(mul(k(1.9), v("n")), ge, k(1.9 * 3.0), 0), row(mul(k(1.9), v("n")), le, k(1.9 * 5.0), 1)],
               exprs: vec![], tags: t("one-point-nine") },
        // known finding C07-divby-reciprocal-overflow, replayed on every run as a liveness test of the pipeline
        Inst { domain: d(vec![("x", VariableType::NonNegativeReal(0.0, INF))]), constraints: vec![row(v("x"), ge, k(0.0), 0)],
               exprs: vec![div(v("x"), k(1e-310))], tags: t("divby-subnormal") },
        // known finding C07-affine-coefficient-overflow (two liveness cases)
        Inst { domain: d(vec![("x", real(-INF, INF))]), constraints: vec![row(div(v("x"), k(5e-324)), Comparison::Less, k(0.0), 0)],
               exprs: vec![], tags: t("coefficient-overflow-reciprocal") },
        Inst { domain: d(vec![("x", real(-INF, INF))]), constraints: vec![row(mul(k(1e300), mul(k(1e300), v("x"))), ge, k(-5.0), 0)],
               exprs: vec![], tags: t("coefficient-overflow-product") },
        // repaired by edcfe64 (regression case): absorption in the reverse step through a nested sum
        Inst { domain: d(vec![("x", real(-0.5, 0.5))]), constraints: vec![row(add(abs(mul(k(1e-12), v("x"))), k(1e6)), le, k(1000001.0), 0)],
               exprs: vec![], tags: t("nested-sum-absorption") },
        // repaired by 4e5bd4b (regression cases): absorption in the top-level reverse step of a non-affine row
        Inst { domain: d(vec![("x", VariableType::NonNegativeReal(0.0, 1.0)), ("y", VariableType::NonNegativeReal(0.0, 1.0))]),
               constraints: vec![row(Exp::Max(vec![v("x"), v("y")]), le, k(1e16), 0)], exprs: vec![], tags: t("bigm-absorption") },
        Inst { domain: d(vec![("z", real(0.0, 1000.0))]), constraints: vec![row(abs(mul(k(1e-9), v("z"))), le, k(1e9), 0)], exprs: vec![], tags: t("bigm-absorption-partial") },
        // infeasible model on which propagation keeps doubling a lower bound up to the step limit (seen by C01 after edcfe64)
        Inst { domain: d(vec![("x", real(-INF, INF)), ("y", real(-INF, INF))]),
               constraints: vec![
                   row(sub(mul(Exp::Min(vec![v("y")]), k(0.5)), add(add(v("y"), k(3.0)), k(-1.0))), ge, Exp::Min(vec![div(v("y"), k(0.5)), abs(k(2.0)), k(2.0)]), 0),
                   row(sub(Exp::Min(vec![add(v("y"), k(0.0))]), sub(add(k(2.0), k(1.0)), neg(v("x")))), ge, k(2.0), 1),
                   row(abs(v("y")), eq, v("y"), 2)],
               exprs: vec![], tags: t("doubling-lower-bound") },
        // known finding C07-float-rounding-var (liveness): a literal product that underflows to a zero coefficient
        Inst { domain: d(vec![("x", real(-INF, INF)), ("y", real(-3.5, 2.0))]),
               constraints: vec![row(add(mul(k(1e-200), mul(k(1e-200), v("x"))), v("y")), eq, k(2.0), 0)], exprs: vec![], tags: t("underflow-coefficient") },
        // infeasible model whose integer variable is left without an integral point: `enforceable` restores the declared
        // box, and the auxiliary of the non-convex abs must be declared from THAT box (seeded change C07: `.enforceable`
        // dropped from `Linearizer::linearize`)
        Inst { domain: d(vec![("x", VariableType::IntegerRange(0, 10))]),
               constraints: vec![row(mul(k(2.0), v("x")), ge, k(10.6), 0), row(mul(k(2.0), v("x")), le, k(11.2), 1),
                                 row(abs(sub(v("x"), k(3.0))), ge, k(1.0), 2)],
               exprs: vec![abs(sub(v("x"), k(3.0)))], tags: t("empty-integer-range-aux") },
        // inexact decimal coefficients landing one ulp above an integer (integer rounding needs the tolerance)
        Inst { domain: d(vec![("x", VariableType::IntegerRange(0, 10))]),
               constraints: vec![row(add(mul(k(0.1), v("x")), k(0.1)), ge, k(0.4), 0)], exprs: vec![], tags: t("int-ulp-above") },
        // inf - inf in interval sums (NaN repair)
        Inst { domain: d(vec![("x", real(-INF, INF)), ("y", real(0.0, INF))]), constraints: vec![row(sub(v("x"), v("y")), le, k(INF), 0)],
               exprs: vec![add(v("x"), k(INF)), sub(v("y"), v("y")), sub(k(-INF), v("x")), add(v("x"), v("y"))], tags: t("inf-minus-inf") },
        // saturating cast
        Inst { domain: d(vec![("n", VariableType::IntegerRange(i32::MIN, i32::MAX))]), constraints: vec![row(mul(k(0.5), v("n")), le, k(1e12), 0)], exprs: vec![mul(k(4.0), v("n"))], tags: t("i32-limits") },
    ]
}

pub fn generate(seed: u64, n: usize, _thorough: bool, _corpus: Option<&str>) -> Vec<Case> {
    // `Rng::new(s)` and `Rng::new(s + 1)` are the same splitmix stream shifted by one draw: fork once so that
    // different seeds give unrelated case sets
    let mut r = Rng::new(seed).fork();
    let mut cases: Vec<Case> = vec![];
    for inst in fixed().iter() {
        cases.push(run(inst));
        if let Some(c) = run_lin(inst) { cases.push(c); }
        cases.extend(run_compiled(inst));
    }
    // the step-limit stream costs 10^4 visits per case on both sides: a fixed small share
    let slow = (n / 30).max(6);
    for j in 0..slow {
        let inst = s_steplimit(&mut r);
        cases.push(run(&inst));
        if j % 4 == 0 { if let Some(c) = run_lin(&inst) { cases.push(c); } }
    }
    for i in 0..n {
        let inst = match i % 16 {
            0 if i % 32 == 16 => s_tinycoef(&mut r),
            8 if i % 32 == 24 => s_extreme(&mut r),
            0 | 1 | 2 => s_affine(&mut r),
            3 | 4 => s_chain(&mut r),
            5 => s_contradiction(&mut r),
            6 if i % 32 == 22 => s_intulp(&mut r),
            6 | 7 => s_tolerance(&mut r),
            8 | 9 | 10 => s_piecewise(&mut r),
            11 => s_nonaffine(&mut r),
            12 => s_zero(&mut r),
            13 => s_special(&mut r),
            14 => if i % 32 == 14 { s_magnitude(&mut r) } else { s_random(&mut r) },
            _ => s_undeclared(&mut r),
        };
        let mut inst = inst;
        if matches!(i % 16, 0 | 1 | 3 | 8 | 9 | 11 | 12 | 14) && !matches!(i % 32, 16 | 24) && r.chance(5, 6) { steer(&mut r, &mut inst); }
        cases.push(run(&inst));
        if i % 3 != 0 { if let Some(c) = run_lin(&inst) { cases.push(c); } }
        if i % 2 == 0 || matches!(i % 16, 5 | 9) { cases.extend(run_compiled(&inst)); }
    }
    cases
}
