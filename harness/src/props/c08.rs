//! C08 — well-formedness of compiled linear models; shares the generator and correspondence of C01 and adds
//! (a) the missing-bounds error contract and (b) a metamorphic aux-collision check, both on the implementation.
use crate::case::Case;
use crate::gen_model::{self, ModelCfg, VarDecl};
use crate::rng::Rng;
use crate::sx;
use rooc::model_transformer::{Constraint, Exp, Model};
use rooc::{BinOp, Comparison, LinearizationError, Linearizer, OptimizationType, VariableType};

fn rename(e: &Exp, from: &str, to: &str) -> Exp {
    let b = |x: &Exp| Box::new(rename(x, from, to));
    match e {
        Exp::Number(_) => e.clone(),
        Exp::Variable(n) => Exp::Variable(if n == from { to.to_string() } else { n.clone() }),
        Exp::Abs(x) => Exp::Abs(b(x)),
        Exp::Not(x) => Exp::Not(b(x)),
        Exp::UnOp(op, x) => Exp::UnOp(*op, b(x)),
        Exp::Min(es) => Exp::Min(es.iter().map(|x| rename(x, from, to)).collect()),
        Exp::Max(es) => Exp::Max(es.iter().map(|x| rename(x, from, to)).collect()),
        Exp::And(es) => Exp::And(es.iter().map(|x| rename(x, from, to)).collect()),
        Exp::Or(es) => Exp::Or(es.iter().map(|x| rename(x, from, to)).collect()),
        Exp::Xor(x, y) => Exp::Xor(b(x), b(y)),
        Exp::Implies(x, y) => Exp::Implies(b(x), b(y)),
        Exp::Iff(x, y) => Exp::Iff(b(x), b(y)),
        Exp::BinOp(op, x, y) => Exp::BinOp(*op, b(x), b(y)),
    }
}

/// a model that certainly makes the compiler mint the auxiliary `aux`, plus a USER variable with exactly that
/// name and the auxiliary's type. Either compilation fails with VarAlreadyDeclared, or (if the user variable is
/// declared but the auxiliary is not needed after all) the output has as many variables as the same model with the
/// user variable renamed to a harmless name.
fn collision_case(r: &mut Rng) -> Case {
    let v = |n: &str| Exp::Variable(n.into());
    let k = |x: f64| Exp::Number(x);
    let (aux, aux_ty, trigger): (&str, VariableType, Exp) = match r.below(12) {
        8 => ("$min_0", VariableType::Real(-3.0, 3.0), Exp::BinOp(BinOp::Add, Box::new(Exp::Min(vec![v("z"), v("y")])), Box::new(k(0.0)))),
        9 => ("$max_0_select_0", VariableType::Boolean, Exp::BinOp(BinOp::Add, Box::new(Exp::Max(vec![v("z"), v("y")])), Box::new(k(0.0)))),
        10 => ("$min_0_select_1", VariableType::Boolean, Exp::BinOp(BinOp::Add, Box::new(Exp::Min(vec![v("z"), v("y")])), Box::new(k(0.0)))),
        11 => ("$and_1", VariableType::Boolean, Exp::BinOp(BinOp::Add, Box::new(Exp::And(vec![v("a"), Exp::And(vec![v("b"), v("a")])])), Box::new(Exp::BinOp(BinOp::Add, Box::new(Exp::And(vec![v("b"), v("a")])), Box::new(v("y")))))),
        0 => ("$or_0", VariableType::Boolean, Exp::BinOp(BinOp::Add, Box::new(Exp::Or(vec![v("a"), v("b")])), Box::new(v("y")))),
        1 => ("$and_0", VariableType::Boolean, Exp::BinOp(BinOp::Add, Box::new(Exp::And(vec![v("a"), v("b")])), Box::new(v("y")))),
        2 => ("$xor_0", VariableType::Boolean, Exp::BinOp(BinOp::Add, Box::new(Exp::Xor(Box::new(v("a")), Box::new(v("b")))), Box::new(v("y")))),
        3 => ("$iff_0", VariableType::Boolean, Exp::BinOp(BinOp::Add, Box::new(Exp::Iff(Box::new(v("a")), Box::new(v("b")))), Box::new(v("y")))),
        4 => ("$implies_0", VariableType::Boolean, Exp::BinOp(BinOp::Add, Box::new(Exp::Implies(Box::new(v("a")), Box::new(v("b")))), Box::new(v("y")))),
        5 => ("$abs_0", VariableType::NonNegativeReal(0.0, 3.0), Exp::BinOp(BinOp::Add, Box::new(Exp::Abs(Box::new(v("z")))), Box::new(v("y")))),
        6 => ("$max_0", VariableType::Real(-3.0, 3.0), Exp::BinOp(BinOp::Add, Box::new(Exp::Max(vec![v("z"), v("y")])), Box::new(k(0.0)))),
        _ => ("$abs_0_positive", VariableType::Boolean, Exp::BinOp(BinOp::Add, Box::new(Exp::Abs(Box::new(v("z")))), Box::new(v("y")))),
    };
    let user_ty = if r.chance(3, 4) { aux_ty } else { VariableType::IntegerRange(0, 1) };
    let ds = vec![
        VarDecl { name: "a".into(), ty: VariableType::Boolean }, VarDecl { name: "b".into(), ty: VariableType::Boolean },
        VarDecl { name: "y".into(), ty: VariableType::Real(-3.0, 3.0) }, VarDecl { name: "z".into(), ty: VariableType::Real(-3.0, 3.0) },
        VarDecl { name: aux.into(), ty: user_ty },
    ];
    // exact context so that the exact lowering (and its selector / sign auxiliaries) is needed
    let cons = vec![
        Constraint::new(trigger, Comparison::Equal, k(1.0), "t".into()),
        Constraint::new(Exp::BinOp(BinOp::Add, Box::new(v(aux)), Box::new(v("y"))), Comparison::LessOrEqual, k(2.0), "u".into()),
    ];
    let m = gen_model::build(OptimizationType::Max, v("y"), cons.clone(), &ds);
    let safe = "uservar";
    let ds2: Vec<VarDecl> = ds.iter().map(|d| VarDecl { name: if d.name == aux { safe.into() } else { d.name.clone() }, ty: d.ty }).collect();
    let cons2: Vec<Constraint> = cons.iter().map(|c| Constraint::new(rename(c.lhs(), aux, safe), c.constraint_type(), rename(c.rhs(), aux, safe), c.name().to_string())).collect();
    let m2 = gen_model::build(OptimizationType::Max, v("y"), cons2, &ds2);
    let mut c = crate::props::c01::one(&m, "aux-collision", "c08");
    let a = Linearizer::linearize(m);
    let b = Linearizer::linearize(m2);
    match (&a, &b) {
        (Ok(la), Ok(lb)) if la.variables().len() != lb.variables().len() => {
            c.impl_violation = Some(format!("a user variable named {} was merged with the compiler's auxiliary of the same name: {} variables instead of {}", aux, la.variables().len(), lb.variables().len()));
        }
        (Err(LinearizationError::VarAlreadyDeclared(_)), Ok(_)) => { c.tags.push("collision-rejected".into()); }
        _ => {}
    }
    c
}

fn check_missing_bounds(m: &Model, c: &mut Case) {
    // `MissingFiniteBounds` must name variables whose derived range really is not finite
    if let Err(LinearizationError::MissingFiniteBounds { variables, .. }) = Linearizer::linearize(m.clone()) {
        let rep = rooc::verif_hooks::linearizer_bounds(m.domain(), m.constraints());
        for v in &variables {
            if let Some((_, lo, hi)) = rep.variables.iter().find(|(n, _, _)| n == v) {
                if lo.is_finite() && hi.is_finite() {
                    c.impl_violation = Some(format!("MissingFiniteBounds names {} whose derived range [{}, {}] is finite", v, lo, hi));
                }
            }
        }
        if variables.is_empty() { c.tags.push("missing-bounds-none-identified".into()); }
    }
}

/// coverage boost for the reified logic auxiliaries (`$iff_k`, `$implies_k`, `$xor_k`, `$and_k`, `$or_k`) and the
/// `NonBinaryLogicOperand` error: a logic operator in VALUE position, operands Boolean variables, 0/1 literals,
/// negations, or (hostile) a real variable / the literal 2.
fn logic_aux_case(r: &mut Rng) -> Case {
    let v = |n: &str| Exp::Variable(n.into());
    let k = |x: f64| Exp::Number(x);
    let mut operand = |r: &mut Rng| -> Exp {
        match r.below(9) {
            0 | 1 => v("a"), 2 | 3 => v("b"), 4 => Exp::Not(Box::new(v("c"))), 5 => v("c"),
            6 => k(if r.chance(1, 2) { 1.0 } else { 0.0 }),
            7 => v("y"),          // not Boolean: NonBinaryLogicOperand
            _ => k(2.0),          // not 0/1: NonBinaryLogicOperand
        }
    };
    let x = operand(r); let y = operand(r);
    let logic = match r.below(6) {
        0 => Exp::Iff(Box::new(x), Box::new(y)),
        1 => Exp::Implies(Box::new(x), Box::new(y)),
        2 => Exp::Xor(Box::new(x), Box::new(y)),
        3 => Exp::And(vec![x, y, operand(r)]),
        4 => Exp::Or(vec![x, y]),
        _ => Exp::Iff(Box::new(Exp::Implies(Box::new(x), Box::new(y))), Box::new(operand(r))),
    };
    let ds = vec![
        VarDecl { name: "a".into(), ty: VariableType::Boolean }, VarDecl { name: "b".into(), ty: VariableType::Boolean },
        VarDecl { name: "c".into(), ty: VariableType::Boolean }, VarDecl { name: "y".into(), ty: VariableType::Real(-3.0, 3.0) },
    ];
    // value position: the logic expression is an addend
    let lhs = Exp::BinOp(BinOp::Add, Box::new(logic.clone()), Box::new(v("y")));
    let cmp = *r.pick(&[Comparison::LessOrEqual, Comparison::GreaterOrEqual, Comparison::Equal]);
    let cons = vec![Constraint::new(lhs, cmp, k(1.0), if r.chance(1, 2) { "t".into() } else { String::new() })];
    let obj = if r.chance(1, 3) { Exp::BinOp(BinOp::Add, Box::new(logic), Box::new(v("y"))) } else { v("y") };
    let m = gen_model::build(if r.chance(1, 2) { OptimizationType::Max } else { OptimizationType::Min }, obj, cons, &ds);
    crate::props::c01::one(&m, "logic-aux", "c08")
}

/// metamorphic check of determinism up to the order of the domain map: the same objective and constraints with the
/// declarations in a different order must compile to the same variables, objective, offset and rows, and to the same
/// domain as a SET (the order of `LinearModel::domain` follows the declaration order).
fn permutation_case(r: &mut Rng, tag: &str, cfg: &ModelCfg) -> Case {
    let (m, ds) = gen_model::model(r, cfg);
    let mut c = crate::props::c01::one(&m, tag, "c08");
    c.tags.push("domain-permutation".into());
    if ds.len() < 2 { return c; }
    let mut ds2: Vec<VarDecl> = ds.iter().map(|d| VarDecl { name: d.name.clone(), ty: d.ty }).collect();
    match r.below(3) { 0 => ds2.reverse(), 1 => { let k = 1 + r.below(ds2.len() - 1); ds2.rotate_left(k); } _ => { let i = r.below(ds2.len()); let j = r.below(ds2.len()); ds2.swap(i, j); } }
    let m2 = gen_model::build(m.objective().objective_type.clone(), m.objective().rhs.clone(), m.constraints().to_vec(), &ds2);
    let a = Linearizer::linearize(m);
    let b = Linearizer::linearize(m2);
    match (&a, &b) {
        (Ok(la), Ok(lb)) => {
            let rows = |l: &rooc::LinearModel| l.constraints().iter().map(|c| format!("{}|{:?}|{:?}|{:?}", c.name(), c.coefficients().iter().map(|x| x.to_bits()).collect::<Vec<_>>(), c.constraint_type(), c.rhs().to_bits())).collect::<Vec<_>>();
            let mut da: Vec<String> = la.domain().iter().map(|(n, d)| format!("{}:{:?}", n, d.get_type())).collect();
            let mut db: Vec<String> = lb.domain().iter().map(|(n, d)| format!("{}:{:?}", n, d.get_type())).collect();
            da.sort(); db.sort();
            let same = la.variables() == lb.variables() && rows(la) == rows(lb)
                && la.objective().iter().map(|x| x.to_bits()).collect::<Vec<_>>() == lb.objective().iter().map(|x| x.to_bits()).collect::<Vec<_>>()
                && la.objective_offset().to_bits() == lb.objective_offset().to_bits() && da == db;
            if !same { c.impl_violation = Some("the compiled model depends on the ORDER of the variable declarations".into()); }
            else { c.tags.push("permutation-invariant".into()); }
        }
        (Err(ea), Err(eb)) => {
            if crate::props::c01::lin_error(ea) != crate::props::c01::lin_error(eb) {
                c.impl_violation = Some(format!("the compilation error depends on the order of the declarations: {} vs {}", crate::props::c01::lin_error(ea), crate::props::c01::lin_error(eb)));
            } else { c.tags.push("permutation-invariant".into()); }
        }
        _ => { c.impl_violation = Some("compilation succeeds or fails depending on the order of the variable declarations".into()); }
    }
    c
}

fn has_huge_literal(e: &Exp) -> bool {
    match e {
        Exp::Number(v) => v.is_finite() && (v.abs() >= 1e100 || (*v != 0.0 && v.abs() <= 1e-100)),
        Exp::Variable(_) => false,
        Exp::Abs(x) | Exp::Not(x) | Exp::UnOp(_, x) => has_huge_literal(x),
        Exp::Min(es) | Exp::Max(es) | Exp::And(es) | Exp::Or(es) => es.iter().any(has_huge_literal),
        Exp::Xor(x, y) | Exp::Implies(x, y) | Exp::Iff(x, y) | Exp::BinOp(_, x, y) => has_huge_literal(x) || has_huge_literal(y),
    }
}

/// finite literals whose folded product / quotient leaves the range of f64: the exact-arithmetic theorem
/// `finite_out_partial` cannot see this region (root-cause flag `huge-literal`).
fn overflow_case(r: &mut Rng) -> Case {
    let v = |n: &str| Exp::Variable(n.into());
    let k = |x: f64| Exp::Number(x);
    let mul = |a: Exp, b: Exp| Exp::BinOp(BinOp::Mul, Box::new(a), Box::new(b));
    let div = |a: Exp, b: Exp| Exp::BinOp(BinOp::Div, Box::new(a), Box::new(b));
    let add = |a: Exp, b: Exp| Exp::BinOp(BinOp::Add, Box::new(a), Box::new(b));
    let big = |r: &mut Rng| *r.pick(&[1e200, 1e300, -1e250, 1e154, 1e155, 1.7e308, -1e308]);
    let tiny = |r: &mut Rng| *r.pick(&[1e-200, 1e-300, -1e-250, 5e-324]);
    let lhs = match r.below(6) {
        0 => mul(k(big(r)), mul(k(big(r)), v("x"))),
        1 => div(div(v("x"), k(tiny(r))), k(tiny(r))),
        2 => add(mul(k(big(r)), v("x")), mul(k(big(r)), v("x"))),
        3 => mul(mul(k(big(r)), k(big(r))), v("y")),
        4 => add(v("x"), mul(k(big(r)), k(big(r)))),
        _ => mul(k(big(r)), add(mul(k(big(r)), v("x")), v("y"))),
    };
    let rhs = if r.chance(1, 4) { mul(k(big(r)), k(big(r))) } else { k(1.0) };
    let ds = vec![
        VarDecl { name: "x".into(), ty: VariableType::NonNegativeReal(0.0, f64::INFINITY) },
        VarDecl { name: "y".into(), ty: VariableType::Real(-3.0, 3.0) },
    ];
    let cmp = *r.pick(&[Comparison::LessOrEqual, Comparison::GreaterOrEqual, Comparison::Equal]);
    let cons = vec![Constraint::new(lhs, cmp, rhs, if r.chance(1, 2) { "big".into() } else { String::new() })];
    let obj = if r.chance(1, 4) { mul(k(big(r)), mul(k(big(r)), v("x"))) } else { v("x") };
    let m = gen_model::build(OptimizationType::Min, obj, cons, &ds);
    let huge = std::iter::once(&m.objective().rhs).chain(m.constraints().iter().flat_map(|c| [c.lhs(), c.rhs()])).any(has_huge_literal);
    let mut c = crate::props::c01::one(&m, "overflow", "c08");
    if huge {
        c.sig = Some(match c.sig.take() { Some(s) => format!("{},huge-literal", s), None => "huge-literal".into() });
    }
    c
}

pub fn generate(seed: u64, n: usize, thorough: bool, corpus: Option<&str>) -> Vec<Case> {
    let mut out = crate::props::c01::generate_for("c08", seed.wrapping_add(2000), n, thorough, corpus);
    let mut r = Rng::new(seed ^ 0xC08).fork();
    for _ in 0..(n / 10).max(20) { out.push(collision_case(&mut r)); }
    // the missing-bounds contract on a dedicated unbounded stream
    let cfg = ModelCfg { max_vars: 3, depth: 2, logic: false, piecewise: true, unbounded: true, fractional: false, strict_cmp: false, hostile: false };
    for _ in 0..(n / 5).max(40) {
        let (m, _) = gen_model::model(&mut r, &cfg);
        let mut c = crate::props::c01::one(&m, "missing-bounds", "c08");
        check_missing_bounds(&m, &mut c);
        out.push(c);
    }
    for _ in 0..(n / 10).max(30) { out.push(logic_aux_case(&mut r)); }
    let cfgs = crate::props::c01::configs();
    for i in 0..(n / 5).max(40) {
        let (tag, cfg) = &cfgs[i % cfgs.len()];
        out.push(permutation_case(&mut r, tag, cfg));
    }
    for _ in 0..(n / 20).max(20) { out.push(overflow_case(&mut r)); }
    let _ = sx::num;
    out
}
