//! C08 — well-formedness of compiled linear models; shares the generator and correspondence of C01.
use crate::case::Case;
pub fn generate(seed: u64, n: usize, thorough: bool, corpus: Option<&str>) -> Vec<Case> {
    crate::props::c01::generate_for("c08", seed.wrapping_add(2000), n, thorough, corpus)
}
