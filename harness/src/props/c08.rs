//! C08 — well-formedness of compiled linear models; shares the generator and correspondence of C01 and adds
//! (a) the missing-bounds error contract and (b) a metamorphic aux-collision check, both on the implementation.
use crate::case::Case;
use crate::gen_model::{self, ModelCfg, VarDecl};
use crate::rng::Rng;
use crate::sx;
use rooc::model_transformer::{Constraint, Exp, Model};
use rooc::{BinOp, Comparison, LinearizationError, Linearizer, OptimizationType, VariableType};

fn rename(e: &Exp, from: &str, to: &str) -> Exp {
    let b = |x: &Exp| Box::new(rename(x, from, to));
    match e {
        Exp::Number(_) => e.clone(),
        Exp::Variable(n) => Exp::Variable(if n == from { to.to_string() } else { n.clone() }),
        Exp::Abs(x) => Exp::Abs(b(x)),
        Exp::Not(x) => Exp::Not(b(x)),
        Exp::UnOp(op, x) => Exp::UnOp(*op, b(x)),
        Exp::Min(es) => Exp::Min(es.iter().map(|x| rename(x, from, to)).collect()),
        Exp::Max(es) => Exp::Max(es.iter().map(|x| rename(x, from, to)).collect()),
        Exp::And(es) => Exp::And(es.iter().map(|x| rename(x, from, to)).collect()),
        Exp::Or(es) => Exp::Or(es.iter().map(|x| rename(x, from, to)).collect()),
        Exp::Xor(x, y) => Exp::Xor(b(x), b(y)),
        Exp::Implies(x, y) => Exp::Implies(b(x), b(y)),
        Exp::Iff(x, y) => Exp::Iff(b(x), b(y)),
        Exp::BinOp(op, x, y) => Exp::BinOp(*op, b(x), b(y)),
    }
}

/// a model that certainly makes the compiler mint the auxiliary `aux`, plus a USER variable with exactly that
/// name and the auxiliary's type. Either compilation fails with VarAlreadyDeclared, or (if the user variable is
/// declared but the auxiliary is not needed after all) the output has as many variables as the same model with the
/// user variable renamed to a harmless name.
fn collision_case(r: &mut Rng) -> Case {
    let v = |n: &str| Exp::Variable(n.into());
    let k = |x: f64| Exp::Number(x);
    let (aux, aux_ty, trigger): (&str, VariableType, Exp) = match r.below(12) {
        8 => ("$min_0", VariableType::Real(-3.0, 3.0), Exp::BinOp(BinOp::Add, Box::new(Exp::Min(vec![v("z"), v("y")])), Box::new(k(0.0)))),
        9 => ("$max_0_select_0", VariableType::Boolean, Exp::BinOp(BinOp::Add, Box::new(Exp::Max(vec![v("z"), v("y")])), Box::new(k(0.0)))),
        10 => ("$min_0_select_1", VariableType::Boolean, Exp::BinOp(BinOp::Add, Box::new(Exp::Min(vec![v("z"), v("y")])), Box::new(k(0.0)))),
        11 => ("$and_1", VariableType::Boolean, Exp::BinOp(BinOp::Add, Box::new(Exp::And(vec![v("a"), Exp::And(vec![v("b"), v("a")])])), Box::new(Exp::BinOp(BinOp::Add, Box::new(Exp::And(vec![v("b"), v("a")])), Box::new(v("y")))))),
        0 => ("$or_0", VariableType::Boolean, Exp::BinOp(BinOp::Add, Box::new(Exp::Or(vec![v("a"), v("b")])), Box::new(v("y")))),
        1 => ("$and_0", VariableType::Boolean, Exp::BinOp(BinOp::Add, Box::new(Exp::And(vec![v("a"), v("b")])), Box::new(v("y")))),
        2 => ("$xor_0", VariableType::Boolean, Exp::BinOp(BinOp::Add, Box::new(Exp::Xor(Box::new(v("a")), Box::new(v("b")))), Box::new(v("y")))),
        3 => ("$iff_0", VariableType::Boolean, Exp::BinOp(BinOp::Add, Box::new(Exp::Iff(Box::new(v("a")), Box::new(v("b")))), Box::new(v("y")))),
        4 => ("$implies_0", VariableType::Boolean, Exp::BinOp(BinOp::Add, Box::new(Exp::Implies(Box::new(v("a")), Box::new(v("b")))), Box::new(v("y")))),
        5 => ("$abs_0", VariableType::NonNegativeReal(0.0, 3.0), Exp::BinOp(BinOp::Add, Box::new(Exp::Abs(Box::new(v("z")))), Box::new(v("y")))),
        6 => ("$max_0", VariableType::Real(-3.0, 3.0), Exp::BinOp(BinOp::Add, Box::new(Exp::Max(vec![v("z"), v("y")])), Box::new(k(0.0)))),
        _ => ("$abs_0_positive", VariableType::Boolean, Exp::BinOp(BinOp::Add, Box::new(Exp::Abs(Box::new(v("z")))), Box::new(v("y")))),
    };
    let user_ty = if r.chance(3, 4) { aux_ty } else { VariableType::IntegerRange(0, 1) };
    let ds = vec![
        VarDecl { name: "a".into(), ty: VariableType::Boolean }, VarDecl { name: "b".into(), ty: VariableType::Boolean },
        VarDecl { name: "y".into(), ty: VariableType::Real(-3.0, 3.0) }, VarDecl { name: "z".into(), ty: VariableType::Real(-3.0, 3.0) },
        VarDecl { name: aux.into(), ty: user_ty },
    ];
    // exact context so that the exact lowering (and its selector / sign auxiliaries) is needed
    let cons = vec![
        Constraint::new(trigger, Comparison::Equal, k(1.0), "t".into()),
        Constraint::new(Exp::BinOp(BinOp::Add, Box::new(v(aux)), Box::new(v("y"))), Comparison::LessOrEqual, k(2.0), "u".into()),
    ];
    let m = gen_model::build(OptimizationType::Max, v("y"), cons.clone(), &ds);
    let safe = "uservar";
    let ds2: Vec<VarDecl> = ds.iter().map(|d| VarDecl { name: if d.name == aux { safe.into() } else { d.name.clone() }, ty: d.ty }).collect();
    let cons2: Vec<Constraint> = cons.iter().map(|c| Constraint::new(rename(c.lhs(), aux, safe), c.constraint_type(), rename(c.rhs(), aux, safe), c.name().to_string())).collect();
    let m2 = gen_model::build(OptimizationType::Max, v("y"), cons2, &ds2);
    let mut c = crate::props::c01::one(&m, "aux-collision", "c08");
    let a = Linearizer::linearize(m);
    let b = Linearizer::linearize(m2);
    match (&a, &b) {
        (Ok(la), Ok(lb)) if la.variables().len() != lb.variables().len() => {
            c.impl_violation = Some(format!("a user variable named {} was merged with the compiler's auxiliary of the same name: {} variables instead of {}", aux, la.variables().len(), lb.variables().len()));
        }
        (Err(LinearizationError::VarAlreadyDeclared(_)), Ok(_)) => { c.tags.push("collision-rejected".into()); }
        _ => {}
    }
    c
}

fn has_and_or(e: &Exp) -> bool {
    match e {
        Exp::Number(_) | Exp::Variable(_) => false,
        Exp::And(_) | Exp::Or(_) | Exp::BinOp(BinOp::And, _, _) | Exp::BinOp(BinOp::Or, _, _) => true,
        Exp::Abs(x) | Exp::Not(x) | Exp::UnOp(_, x) => has_and_or(x),
        Exp::Min(es) | Exp::Max(es) => es.iter().any(has_and_or),
        Exp::Xor(x, y) | Exp::Implies(x, y) | Exp::Iff(x, y) | Exp::BinOp(_, x, y) => has_and_or(x) || has_and_or(y),
    }
}

fn declared_finite(m: &Model, v: &str) -> bool {
    match m.domain().get(v).map(|d| *d.get_type()) {
        Some(VariableType::Real(lo, hi)) | Some(VariableType::NonNegativeReal(lo, hi)) => lo.is_finite() && hi.is_finite(),
        Some(_) => true,
        None => false,
    }
}

fn check_missing_bounds(m: &Model, c: &mut Case) {
    // `MissingFiniteBounds` must name variables whose range really is not finite in the box the raising stage reads
    // (`Props.C08.compile_missing_bounds_blames_unbounded_any_stage`): the box after bound inference for the lowering;
    // the DECLARED box for the up-front collapse check of rooc e35561f, which only lowers at and/or nodes.
    if let Err(LinearizationError::MissingFiniteBounds { variables, .. }) = Linearizer::linearize(m.clone()) {
        let rep = rooc::verif_hooks::linearizer_bounds(m.domain(), m.constraints());
        let inferred_finite = |v: &String| rep.variables.iter().find(|(n, _, _)| n == v).map(|(_, lo, hi)| lo.is_finite() && hi.is_finite()).unwrap_or(false);
        if variables.iter().any(|v| inferred_finite(v)) {
            let may_be_collapse_stage = std::iter::once(&m.objective().rhs).chain(m.constraints().iter().flat_map(|k| [k.lhs(), k.rhs()])).any(has_and_or);
            if may_be_collapse_stage && variables.iter().all(|v| !m.domain().contains_key(v) || !declared_finite(m, v)) {
                c.tags.push("missing-bounds-at-collapse-check".into());
            } else {
                let v = variables.iter().find(|v| inferred_finite(v)).unwrap();
                let (_, lo, hi) = rep.variables.iter().find(|(n, _, _)| n == v).unwrap();
                c.impl_violation = Some(format!("MissingFiniteBounds names {} whose derived range [{}, {}] is finite", v, lo, hi));
            }
        }
        if variables.is_empty() { c.tags.push("missing-bounds-none-identified".into()); }
    }
    // … and must name EVERY source variable of the offending expression whose derived range is not finite
    // (`Props.C08.missing_bounds_payload_spec` / `missing_bounds_error_global`: the payload is exactly that set, sorted)
    if let Err(LinearizationError::MissingFiniteBounds { expression, variables, .. }) = Linearizer::linearize(m.clone()) {
        let rep = rooc::verif_hooks::linearizer_bounds(m.domain(), m.constraints());
        let mut occ = vec![];
        exp_vars(&expression, &mut occ);
        for v in occ {
            if let Some((_, lo, hi)) = rep.variables.iter().find(|(n, _, _)| *n == v) {
                if (!lo.is_finite() || !hi.is_finite()) && !variables.contains(&v) && c.impl_violation.is_none() {
                    c.impl_violation = Some(format!("MissingFiniteBounds for {} does not name {} whose derived range is [{}, {}] (names: {:?})", expression, v, lo, hi, variables));
                }
            }
        }
    }
}

/// coverage boost for the reified logic auxiliaries (`$iff_k`, `$implies_k`, `$xor_k`, `$and_k`, `$or_k`) and the
/// `NonBinaryLogicOperand` error: a logic operator in VALUE position, operands Boolean variables, 0/1 literals,
/// negations, or (hostile) a real variable / the literal 2.
fn logic_aux_case(r: &mut Rng) -> Case {
    let v = |n: &str| Exp::Variable(n.into());
    let k = |x: f64| Exp::Number(x);
    let mut operand = |r: &mut Rng| -> Exp {
        match r.below(9) {
            0 | 1 => v("a"), 2 | 3 => v("b"), 4 => Exp::Not(Box::new(v("c"))), 5 => v("c"),
            6 => k(if r.chance(1, 2) { 1.0 } else { 0.0 }),
            7 => v("y"),          // not Boolean: NonBinaryLogicOperand
            _ => k(2.0),          // not 0/1: NonBinaryLogicOperand
        }
    };
    let x = operand(r); let y = operand(r);
    let logic = match r.below(6) {
        0 => Exp::Iff(Box::new(x), Box::new(y)),
        1 => Exp::Implies(Box::new(x), Box::new(y)),
        2 => Exp::Xor(Box::new(x), Box::new(y)),
        3 => Exp::And(vec![x, y, operand(r)]),
        4 => Exp::Or(vec![x, y]),
        _ => Exp::Iff(Box::new(Exp::Implies(Box::new(x), Box::new(y))), Box::new(operand(r))),
    };
    let ds = vec![
        VarDecl { name: "a".into(), ty: VariableType::Boolean }, VarDecl { name: "b".into(), ty: VariableType::Boolean },
        VarDecl { name: "c".into(), ty: VariableType::Boolean }, VarDecl { name: "y".into(), ty: VariableType::Real(-3.0, 3.0) },
    ];
    // value position: the logic expression is an addend
    let lhs = Exp::BinOp(BinOp::Add, Box::new(logic.clone()), Box::new(v("y")));
    let cmp = *r.pick(&[Comparison::LessOrEqual, Comparison::GreaterOrEqual, Comparison::Equal]);
    let cons = vec![Constraint::new(lhs, cmp, k(1.0), if r.chance(1, 2) { "t".into() } else { String::new() })];
    let obj = if r.chance(1, 3) { Exp::BinOp(BinOp::Add, Box::new(logic), Box::new(v("y"))) } else { v("y") };
    let m = gen_model::build(if r.chance(1, 2) { OptimizationType::Max } else { OptimizationType::Min }, obj, cons, &ds);
    crate::props::c01::one(&m, "logic-aux", "c08")
}

/// metamorphic check of determinism up to the order of the domain map: the same objective and constraints with the
/// declarations in a different order must compile to the same variables, objective, offset and rows, and to the same
/// domain as a SET (the order of `LinearModel::domain` follows the declaration order).
fn permutation_case(r: &mut Rng, tag: &str, cfg: &ModelCfg) -> Case {
    let (m, ds) = gen_model::model(r, cfg);
    let mut c = crate::props::c01::one(&m, tag, "c08");
    c.tags.push("domain-permutation".into());
    if ds.len() < 2 { return c; }
    let mut ds2: Vec<VarDecl> = ds.iter().map(|d| VarDecl { name: d.name.clone(), ty: d.ty }).collect();
    match r.below(3) { 0 => ds2.reverse(), 1 => { let k = 1 + r.below(ds2.len() - 1); ds2.rotate_left(k); } _ => { let i = r.below(ds2.len()); let j = r.below(ds2.len()); ds2.swap(i, j); } }
    let m2 = gen_model::build(m.objective().objective_type.clone(), m.objective().rhs.clone(), m.constraints().to_vec(), &ds2);
    let a = Linearizer::linearize(m);
    let b = Linearizer::linearize(m2);
    match (&a, &b) {
        (Ok(la), Ok(lb)) => {
            let rows = |l: &rooc::LinearModel| l.constraints().iter().map(|c| format!("{}|{:?}|{:?}|{:?}", c.name(), c.coefficients().iter().map(|x| x.to_bits()).collect::<Vec<_>>(), c.constraint_type(), c.rhs().to_bits())).collect::<Vec<_>>();
            let mut da: Vec<String> = la.domain().iter().map(|(n, d)| format!("{}:{:?}", n, d.get_type())).collect();
            let mut db: Vec<String> = lb.domain().iter().map(|(n, d)| format!("{}:{:?}", n, d.get_type())).collect();
            da.sort(); db.sort();
            let same = la.variables() == lb.variables() && rows(la) == rows(lb)
                && la.objective().iter().map(|x| x.to_bits()).collect::<Vec<_>>() == lb.objective().iter().map(|x| x.to_bits()).collect::<Vec<_>>()
                && la.objective_offset().to_bits() == lb.objective_offset().to_bits() && da == db;
            if !same { c.impl_violation = Some("the compiled model depends on the ORDER of the variable declarations".into()); }
            else { c.tags.push("permutation-invariant".into()); }
        }
        (Err(ea), Err(eb)) => {
            if crate::props::c01::lin_error(ea) != crate::props::c01::lin_error(eb) {
                c.impl_violation = Some(format!("the compilation error depends on the order of the declarations: {} vs {}", crate::props::c01::lin_error(ea), crate::props::c01::lin_error(eb)));
            } else { c.tags.push("permutation-invariant".into()); }
        }
        _ => { c.impl_violation = Some("compilation succeeds or fails depending on the order of the variable declarations".into()); }
    }
    c
}

fn has_huge_literal(e: &Exp) -> bool {
    match e {
        Exp::Number(v) => v.is_finite() && (v.abs() >= 1e100 || (*v != 0.0 && v.abs() <= 1e-100)),
        Exp::Variable(_) => false,
        Exp::Abs(x) | Exp::Not(x) | Exp::UnOp(_, x) => has_huge_literal(x),
        Exp::Min(es) | Exp::Max(es) | Exp::And(es) | Exp::Or(es) => es.iter().any(has_huge_literal),
        Exp::Xor(x, y) | Exp::Implies(x, y) | Exp::Iff(x, y) | Exp::BinOp(_, x, y) => has_huge_literal(x) || has_huge_literal(y),
    }
}

/// f64 value of a variable-free arithmetic subexpression (`None`: contains a variable or a non-arithmetic node).
fn const_value(e: &Exp) -> Option<f64> {
    match e {
        Exp::Number(v) => Some(*v),
        Exp::UnOp(rooc::UnOp::Neg, x) => const_value(x).map(|v| -v),
        Exp::BinOp(op, a, b) => {
            let (x, y) = (const_value(a)?, const_value(b)?);
            match op { BinOp::Add => Some(x + y), BinOp::Sub => Some(x - y), BinOp::Mul => Some(x * y), BinOp::Div => Some(x / y), _ => None }
        }
        _ => None,
    }
}

/// root-cause flag `constant-overflow`: the source contains a variable-free arithmetic subexpression over FINITE
/// literals whose f64 value is not finite (`1e200 * 1e200`): whatever the compiler does with it, constant folding in
/// f64 yields inf, and `inf - inf` yields NaN even where the exact value of the whole side is representable.
fn has_constant_overflow(e: &Exp) -> bool {
    if !has_nonfinite_number(e) { if let Some(v) = const_value(e) { if !v.is_finite() { return true; } } }
    match e {
        Exp::Number(_) | Exp::Variable(_) => false,
        Exp::Abs(x) | Exp::Not(x) | Exp::UnOp(_, x) => has_constant_overflow(x),
        Exp::Min(es) | Exp::Max(es) | Exp::And(es) | Exp::Or(es) => es.iter().any(has_constant_overflow),
        Exp::Xor(x, y) | Exp::Implies(x, y) | Exp::Iff(x, y) | Exp::BinOp(_, x, y) => has_constant_overflow(x) || has_constant_overflow(y),
    }
}
fn has_nonfinite_number(e: &Exp) -> bool {
    match e {
        Exp::Number(v) => !v.is_finite(),
        Exp::Variable(_) => false,
        Exp::Abs(x) | Exp::Not(x) | Exp::UnOp(_, x) => has_nonfinite_number(x),
        Exp::Min(es) | Exp::Max(es) | Exp::And(es) | Exp::Or(es) => es.iter().any(has_nonfinite_number),
        Exp::Xor(x, y) | Exp::Implies(x, y) | Exp::Iff(x, y) | Exp::BinOp(_, x, y) => has_nonfinite_number(x) || has_nonfinite_number(y),
    }
}

/// finite literals whose folded product / quotient leaves the range of f64: the exact-arithmetic theorem
/// `finite_out_partial` cannot see this region (root-cause flag `huge-literal`).
fn overflow_case(r: &mut Rng) -> Case {
    let v = |n: &str| Exp::Variable(n.into());
    let k = |x: f64| Exp::Number(x);
    let mul = |a: Exp, b: Exp| Exp::BinOp(BinOp::Mul, Box::new(a), Box::new(b));
    let div = |a: Exp, b: Exp| Exp::BinOp(BinOp::Div, Box::new(a), Box::new(b));
    let add = |a: Exp, b: Exp| Exp::BinOp(BinOp::Add, Box::new(a), Box::new(b));
    let big = |r: &mut Rng| *r.pick(&[1e200, 1e300, -1e250, 1e154, 1e155, 1.7e308, -1e308]);
    let tiny = |r: &mut Rng| *r.pick(&[1e-200, 1e-300, -1e-250, 5e-324]);
    let lhs = match r.below(6) {
        0 => mul(k(big(r)), mul(k(big(r)), v("x"))),
        1 => div(div(v("x"), k(tiny(r))), k(tiny(r))),
        2 => add(mul(k(big(r)), v("x")), mul(k(big(r)), v("x"))),
        3 => mul(mul(k(big(r)), k(big(r))), v("y")),
        4 => add(v("x"), mul(k(big(r)), k(big(r)))),
        _ => mul(k(big(r)), add(mul(k(big(r)), v("x")), v("y"))),
    };
    let rhs = if r.chance(1, 4) { mul(k(big(r)), k(big(r))) } else { k(1.0) };
    let ds = vec![
        VarDecl { name: "x".into(), ty: VariableType::NonNegativeReal(0.0, f64::INFINITY) },
        VarDecl { name: "y".into(), ty: VariableType::Real(-3.0, 3.0) },
    ];
    let cmp = *r.pick(&[Comparison::LessOrEqual, Comparison::GreaterOrEqual, Comparison::Equal]);
    let cons = vec![Constraint::new(lhs, cmp, rhs, if r.chance(1, 2) { "big".into() } else { String::new() })];
    let obj = if r.chance(1, 4) { mul(k(big(r)), mul(k(big(r)), v("x"))) } else { v("x") };
    let m = gen_model::build(OptimizationType::Min, obj, cons, &ds);
    let huge = std::iter::once(&m.objective().rhs).chain(m.constraints().iter().flat_map(|c| [c.lhs(), c.rhs()])).any(has_huge_literal);
    let mut c = crate::props::c01::one(&m, "overflow", "c08");
    if huge {
        c.sig = Some(match c.sig.take() { Some(s) => format!("{},huge-literal", s), None => "huge-literal".into() });
    }
    if std::iter::once(&m.objective().rhs).chain(m.constraints().iter().flat_map(|c| [c.lhs(), c.rhs()])).any(has_constant_overflow) {
        c.sig = Some(match c.sig.take() { Some(s) => format!("{},constant-overflow", s), None => "constant-overflow".into() });
        c.tags.push("constant-overflow".into());
    }
    c
}

/// small numerators over tiny / subnormal divisors (`0.001 * x / 1e-310`): the exact quotient is representable
/// (1e307) but the reciprocal of the divisor is not, so a lowering of `e / c` as `e * (1 / c)` turns finite
/// coefficients into `inf` and a zero constant into `0 * inf = NaN` (seeded C08-7). Half of the cases go through
/// the text door (the divisor written as a long plain-decimal literal). Root cause: the oracle separates a value
/// that really is outside f64 (`f64-overflow-output`, known) from a lost representable value (`non-finite-output`).
fn tiny_divisor_case(r: &mut Rng) -> Case {
    let v = |n: &str| Exp::Variable(n.into());
    let k = |x: f64| Exp::Number(x);
    let mul = |a: Exp, b: Exp| Exp::BinOp(BinOp::Mul, Box::new(a), Box::new(b));
    let div = |a: Exp, b: Exp| Exp::BinOp(BinOp::Div, Box::new(a), Box::new(b));
    let add = |a: Exp, b: Exp| Exp::BinOp(BinOp::Add, Box::new(a), Box::new(b));
    let p2 = |e: i32| 2f64.powi(e);
    let d = match r.below(10) {
        0 | 1 => 1e-310, 2 => 2.5e-309, 3 => 5e-324, 4 => p2(-1074 + r.below(40) as i32), 5 => p2(-1030), 6 => p2(-1022),
        7 => 1e-300, 8 => -1e-310, _ => 3e-309,
    };
    let num = |r: &mut Rng| *r.pick(&[1e-3, 1e-4, -5e-4, 1e-10, 2.5e-4, 1e-3]);
    let inner = match r.below(5) {
        0 => mul(k(num(r)), v("x")),
        1 => add(mul(k(num(r)), v("x")), mul(k(num(r)), v("y"))),
        2 => add(mul(k(num(r)), v("x")), k(num(r))),
        3 => mul(v("x"), k(num(r))),
        _ => add(add(mul(k(num(r)), v("x")), mul(k(num(r)), v("y"))), k(0.0)),
    };
    let lhs = div(inner, k(d));
    let ds = vec![
        VarDecl { name: "x".into(), ty: VariableType::NonNegativeReal(0.0, f64::INFINITY) },
        VarDecl { name: "y".into(), ty: VariableType::Real(-3.0, 3.0) },
    ];
    let cmp = *r.pick(&[Comparison::LessOrEqual, Comparison::GreaterOrEqual, Comparison::Equal]);
    let rhs = if r.chance(1, 3) { k(0.0) } else { k(1.0) };
    let obj = if r.chance(1, 4) { div(mul(k(num(r)), v("x")), k(d)) } else { v("x") };
    let mut m = gen_model::build(OptimizationType::Min, obj, vec![Constraint::new(lhs, cmp, rhs, String::new())], &ds);
    let mut door = "api";
    if r.chance(1, 2) {
        // text door: every literal in plain decimal notation (`{:.N}` prints the exact binary value, so it reads back)
        let lit = |x: f64| { let s = format!("{:.1100}", x); let s = s.trim_end_matches('0'); if s.ends_with('.') { format!("{}0", s) } else { s.to_string() } };
        fn show(e: &Exp, lit: &dyn Fn(f64) -> String) -> String {
            match e {
                Exp::Number(x) => if *x < 0.0 { format!("(0 - {})", lit(-*x)) } else { lit(*x) },
                Exp::Variable(n) => n.clone(),
                Exp::BinOp(op, a, b) => format!("({} {} {})", show(a, lit), match op { BinOp::Add => "+", BinOp::Sub => "-", BinOp::Mul => "*", _ => "/" }, show(b, lit)),
                _ => unreachable!(),
            }
        }
        let c0 = &m.constraints()[0];
        let cs = match c0.constraint_type() { Comparison::LessOrEqual => "<=", Comparison::GreaterOrEqual => ">=", _ => "=" };
        let src = format!("min {}\ns.t.\n    {} {} {}\ndefine\n    x as NonNegativeReal\n    y as Real(-3, 3)\n", show(&m.objective().rhs, &lit), show(c0.lhs(), &lit), cs, show(c0.rhs(), &lit));
        if let Ok(pm) = rooc::RoocParser::new(src).parse_and_transform(vec![], &indexmap::IndexMap::new()) { m = pm; door = "text"; }
    }
    let mut c = crate::props::c01::one(&m, "tiny-divisor", "c08");
    c.tags.push(format!("tiny-divisor:{}", door));
    c.tags.push(if d.abs() < f64::MIN_POSITIVE { "subnormal-divisor".into() } else { "tiny-normal-divisor".into() });
    c.sig = Some(match c.sig.take() { Some(s) => format!("{},huge-literal", s), None => "huge-literal".into() });
    c
}

fn exp_vars(e: &Exp, out: &mut Vec<String>) {
    match e {
        Exp::Number(_) => {}
        Exp::Variable(n) => out.push(n.clone()),
        Exp::Abs(x) | Exp::Not(x) | Exp::UnOp(_, x) => exp_vars(x, out),
        Exp::Min(es) | Exp::Max(es) | Exp::And(es) | Exp::Or(es) => es.iter().for_each(|x| exp_vars(x, out)),
        Exp::Xor(x, y) | Exp::Implies(x, y) | Exp::Iff(x, y) | Exp::BinOp(_, x, y) => { exp_vars(x, out); exp_vars(y, out); }
    }
}

/// the variable-list contract, checked directly on the implementation's output (the exact oracle checks the same
/// clauses through `WF.report`; this is the second, independent opinion): `variables()` strictly ascending in the
/// byte order of `String`, equal to `domain().keys()` as a set, and every variable that occurs in the source has a
/// column AND a domain entry.
fn check_variable_list(m: &Model, c: &mut Case) {
    let lm = match Linearizer::linearize(m.clone()) { Ok(lm) => lm, Err(_) => return };
    let vars = lm.variables();
    if !vars.windows(2).all(|w| w[0].as_bytes() < w[1].as_bytes()) {
        c.impl_violation = Some(format!("variables() is not strictly ascending: {:?}", vars));
        return;
    }
    let keys: std::collections::BTreeSet<&String> = lm.domain().keys().collect();
    let vset: std::collections::BTreeSet<&String> = vars.iter().collect();
    if keys != vset {
        c.impl_violation = Some(format!("variables() {:?} and domain().keys() {:?} differ as sets", vars, keys));
        return;
    }
    let mut occ = vec![];
    exp_vars(&m.objective().rhs, &mut occ);
    for k in m.constraints() { exp_vars(k.lhs(), &mut occ); if !k.is_logic_assertion() { exp_vars(k.rhs(), &mut occ); } }
    for v in occ {
        if vars.binary_search(&v).is_err() || !lm.domain().contains_key(&v) {
            c.impl_violation = Some(format!("the source variable {} has no column / domain entry in the compiled model ({:?})", v, vars));
            return;
        }
    }
}

/// names that differ only in letter case, names whose ASCII order differs from the case-insensitive / natural
/// order (`a B c D`, `x10 x2`), non-ASCII names: the column of a coefficient is found by a search in the SORTED
/// variable list, so a second notion of order anywhere in the compiler loses or misplaces coefficients.
fn name_order_case(r: &mut Rng, tag: &str, cfg: &ModelCfg) -> Case {
    let pool = ["a", "B", "c", "D", "A", "b", "C", "d", "Z", "z", "_x", "x1", "x10", "x2", "X2", "ab", "aB", "Ab", "AB", "a_", "é", "É", "e", "zz", "Zz", "ß", "ss", "ä", "ae"];
    let base = gen_model::decls(r, cfg);
    let n = (2 + r.below(4)).max(base.len());
    let mut ds: Vec<VarDecl> = vec![];
    for i in 0..n {
        let name = loop { let c = r.pick(&pool).to_string(); if !ds.iter().any(|d| d.name == c) { break c; } };
        let ty = if i < base.len() { base[i].ty } else { VariableType::Real(-2.0, 3.0) };
        ds.push(VarDecl { name, ty });
    }
    let (m, _) = gen_model::model_with(r, cfg, ds);
    let mut c = crate::props::c01::one(&m, "name-order", "c08");
    c.tags.push(format!("name-order:{}", tag));
    let names: Vec<&String> = m.domain().keys().collect();
    if names.iter().any(|a| names.iter().any(|b| a != b && a.to_lowercase() == b.to_lowercase())) { c.tags.push("names-differ-in-case-only".into()); }
    let mut byte = names.clone(); byte.sort();
    let mut ci = names.clone(); ci.sort_by_key(|s| s.to_lowercase());
    if byte != ci { c.tags.push("byte-order-ne-caseless-order".into()); }
    if names.iter().any(|s| !s.is_ascii()) { c.tags.push("non-ascii-name".into()); }
    check_variable_list(&m, &mut c);
    c
}

/// `impl Display for LinearizationError` against the ported templates (`Lin.LinErr.text`): the message of the error
/// the implementation returns for `m`, with the texts of the payloads the model does not carry (expression,
/// requirement, derived bounds) passed along. Also the contract of the `variables` payload on the implementation:
/// strictly ascending, every name occurs in the offending expression.
fn display_case(m: &Model) -> Option<Case> {
    let e = match std::panic::catch_unwind(std::panic::AssertUnwindSafe(|| Linearizer::linearize(m.clone()))) { Ok(Err(e)) => e, _ => return None };
    let (expr, req, lo, hi) = match &e {
        LinearizationError::NonLinearExpression(x) | LinearizationError::DivisionByZero(x)
        | LinearizationError::UnimplementedExpression(x) | LinearizationError::NonBinaryLogicOperand(x) => (x.to_string(), String::new(), String::new(), String::new()),
        LinearizationError::MissingFiniteBounds { expression, requirement, lower, upper, .. } => (expression.to_string(), requirement.to_string(), lower.to_string(), upper.to_string()),
        _ => (String::new(), String::new(), String::new(), String::new()),
    };
    let mut c = Case::default();
    let esx = crate::props::c01::lin_error(&e);
    c.req = format!("linerr-display {} {} {} {} {}", esx, sx::q(&expr), sx::q(&req), sx::q(&lo), sx::q(&hi));
    c.imp = sx::q(&e.to_string());
    c.show = format!("{}", m).replace('\n', " ; ");
    c.tags = vec!["error-display".into(), format!("display:{}", esx.split(|ch| ch == ' ' || ch == ')').nth(1).unwrap_or(""))];
    if let LinearizationError::MissingFiniteBounds { expression, variables, .. } = &e {
        c.tags.push(if variables.is_empty() { "display:none-identified".into() } else { format!("display:named-{}", variables.len().min(3)) });
        if !variables.windows(2).all(|w| w[0] < w[1]) {
            c.impl_violation = Some(format!("MissingFiniteBounds.variables is not strictly ascending: {:?}", variables));
        }
        let mut occ = vec![];
        exp_vars(expression, &mut occ);
        if let Some(v) = variables.iter().find(|v| !occ.contains(v)) {
            c.impl_violation = Some(format!("MissingFiniteBounds names {} which does not occur in the offending expression {}", v, expression));
        }
    }
    Some(c)
}

/// one model per message shape that the random streams reach rarely.
fn display_targeted(r: &mut Rng) -> Model {
    let v = |n: &str| Exp::Variable(n.into());
    let k = |x: f64| Exp::Number(x);
    let bin = |op: BinOp, a: Exp, b: Exp| Exp::BinOp(op, Box::new(a), Box::new(b));
    let free = VariableType::Real(f64::NEG_INFINITY, f64::INFINITY);
    let boxed = VariableType::Real(-2.0, 3.0);
    let names = ["x", "y", "z", "B", "a"];
    let (lhs, tys): (Exp, Vec<VariableType>) = match r.below(12) {
        // a product of two variables / a division by a variable
        11 => (if r.chance(1, 2) { bin(BinOp::Mul, v("x"), v("y")) } else { bin(BinOp::Div, v("x"), bin(BinOp::Add, v("y"), k(1.0))) }, vec![boxed, boxed, boxed, boxed, VariableType::Boolean]),
        // an empty numeric aggregation
        10 => (bin(BinOp::Add, if r.chance(1, 2) { Exp::Min(vec![]) } else { Exp::Max(vec![]) }, v("x")), vec![boxed, boxed, boxed, boxed, VariableType::Boolean]),
        // an and/or node that collapses to a non-logic operand whose lowering needs finite bounds: the up-front
        // collapse check (rooc e35561f) raises MissingFiniteBounds on the DECLARED boxes
        7 | 8 | 9 => (bin(BinOp::Add, if r.chance(1, 2) { Exp::And(vec![Exp::Abs(Box::new(v("x"))), k(1.0)]) } else { Exp::Or(vec![Exp::Abs(Box::new(bin(BinOp::Sub, v("x"), v("z")))), k(0.0)]) }, v("y")), vec![free, boxed, if r.chance(1, 2) { free } else { boxed }, boxed, VariableType::Boolean]),
        // a binary logic operator / a `not` written as an operator node: `simplify` rewrites them into the n-ary nodes,
        // so the UnimplementedExpression branches of Exp::linearize are not reachable from Linearizer::linearize
        5 => (bin(*r.pick(&[BinOp::And, BinOp::Or, BinOp::Xor, BinOp::Implies, BinOp::Iff]), v("a"), v("a")), vec![boxed, boxed, boxed, boxed, VariableType::Boolean]),
        6 => (bin(BinOp::Add, Exp::UnOp(rooc::UnOp::Not, Box::new(v("a"))), v("x")), vec![boxed, boxed, boxed, boxed, VariableType::Boolean]),
        // two or three unbounded variables under an absolute value that needs its exact value
        0 => (Exp::Abs(Box::new(bin(BinOp::Add, v("x"), v("y")))), vec![free, free, boxed, boxed, VariableType::Boolean]),
        1 => (Exp::Abs(Box::new(bin(BinOp::Sub, bin(BinOp::Add, v("z"), v("B")), v("x")))), vec![free, boxed, free, VariableType::NonNegativeReal(0.0, f64::INFINITY), VariableType::Boolean]),
        // an unbounded derived range that no single variable explains
        2 => (Exp::Abs(Box::new(bin(BinOp::Mul, v("x"), v("y")))), vec![boxed, boxed, boxed, boxed, VariableType::Boolean]),
        // a logic operator over a real variable, in value position
        3 => (bin(BinOp::Add, Exp::And(vec![v("a"), v("y")]), v("x")), vec![boxed, boxed, boxed, boxed, VariableType::Boolean]),
        // a user variable with the name of the first auxiliary
        _ => (bin(BinOp::Add, Exp::Abs(Box::new(v("x"))), v("$abs_0")), vec![boxed, boxed, boxed, boxed, VariableType::Boolean]),
    };
    let mut ds: Vec<VarDecl> = names.iter().zip(tys).map(|(n, ty)| VarDecl { name: n.to_string(), ty }).collect();
    ds.push(VarDecl { name: "$abs_0".into(), ty: VariableType::NonNegativeReal(0.0, 3.0) });
    let cmp = *r.pick(&[Comparison::GreaterOrEqual, Comparison::Equal]);
    gen_model::build(OptimizationType::Min, v("x"), vec![Constraint::new(lhs, cmp, k(1.0 + r.below(3) as f64), String::new())], &ds)
}

/// TEXT door (`parse_and_transform` → `Linearizer::linearize`): what the compiled model owes to the SOURCE TEXT, judged
/// against the generator's own knowledge of the program (the oracle's clauses read the transformed `Model`, so a defect
/// of the front end that loses an occurrence or changes a constant before the `Model` exists is invisible to them).
fn text_compile(src: &str) -> Option<Model> {
    std::panic::catch_unwind(std::panic::AssertUnwindSafe(|| rooc::RoocParser::new(src.to_string()).parse_and_transform(vec![], &indexmap::IndexMap::new()))).ok()?.ok()
}

/// every variable that OCCURS in the source text has a column and a domain entry, also when all its occurrences carry
/// a zero coefficient — a literal `0`, a named zero constant, a zero entry of a data table, on either side of the
/// product (seeded C08-13: the right factor of `0 * y` was never expanded, so `y` lost its usage mark).
fn zero_coefficient_text_case(r: &mut Rng) -> Case {
    let mut expected: Vec<String> = vec![];
    let src = if r.chance(1, 2) {
        // knapsack-shaped data program: coefficient tables with zeros at the same index
        let n = 2 + r.below(4);
        let z = r.below(n);
        let tab = |r: &mut Rng, zero_at: usize| (0..n).map(|i| if i == zero_at || r.chance(1, 4) { "0".to_string() } else { format!("{}", 1 + r.below(9)) }).collect::<Vec<_>>().join(", ");
        let (p, w) = (tab(r, z), tab(r, z));
        for i in 0..n { expected.push(format!("x_{}", i)); }
        let dir = if r.chance(1, 2) { "max" } else { "min" };
        let prod = |t: &str, r: &mut Rng| if r.chance(3, 4) { format!("{}[i] * x_i", t) } else { format!("x_i * {}[i]", t) };
        format!("{} sum(i in 0..{}) {{ {} }}\ns.t.\n    cap: sum(i in 0..{}) {{ {} }} <= {}\nwhere\n    let profit = [{}]\n    let weight = [{}]\ndefine\n    x_i as {} for i in 0..{}\n",
            dir, n, prod("profit", r), n, prod("weight", r), 5 + r.below(10), p, w, if r.chance(1, 2) { "Boolean" } else { "IntegerRange(0, 3)" }, n)
    } else {
        let names = ["x", "y", "z", "w", "u"];
        let nv = 2 + r.below(4);
        let mut term = |r: &mut Rng, v: &str| -> String {
            match r.below(8) {
                0 | 1 => format!("0 * {}", v),
                2 => format!("c0 * {}", v),
                3 => format!("t[1] * {}", v),
                4 => format!("{} * 0", v),
                5 => format!("0.0 * {}", v),
                _ => format!("{} * {}", 1 + r.below(5), v),
            }
        };
        let mut obj: Vec<String> = vec![];
        let mut con: Vec<String> = vec![];
        for v in names.iter().take(nv) {
            expected.push(v.to_string());
            let t = term(r, v);
            // one occurrence only, so that a lost occurrence is a lost variable
            if r.chance(1, 2) { obj.push(t); } else { con.push(t); }
        }
        if nv >= 3 && r.chance(1, 2) { obj.push(format!("0 * ({} + {})", names[0], names[1])); }
        if obj.is_empty() { obj.push("1".into()); }
        if con.is_empty() { con.push("0".into()); }
        format!("min {}\ns.t.\n    {} <= 7\nwhere\n    let c0 = 0\n    let t = [2, 0]\ndefine\n    {} as Real(-5, 5)\n", obj.join(" + "), con.join(" + "), expected.join(", "))
    };
    let m = match text_compile(&src) {
        Some(m) => m,
        None => { let mut c = Case::default(); c.req = "linerr-display (err fuel) \"\" \"\" \"\" \"\"".into(); c.imp = sx::q("fuel"); c.show = src.replace('\n', " ; "); c.tags = vec!["text-zero-coefficient".into(), "text-rejected".into()]; c.impl_violation = Some("the generated text program does not transform".into()); return c; }
    };
    let mut c = crate::props::c01::one(&m, "text-zero-coefficient", "c08");
    c.show = src.replace('\n', " ; ");
    match Linearizer::linearize(m) {
        Ok(lm) => {
            for v in &expected {
                if !lm.variables().contains(v) || !lm.domain().contains_key(v) {
                    c.impl_violation = Some(format!("the variable {} occurs in the source text but has no column / domain entry in the compiled model (variables {:?})", v, lm.variables()));
                    break;
                }
            }
        }
        Err(e) => { c.impl_violation = Some(format!("the generated text program does not compile: {}", e)); }
    }
    c
}

/// a declared bound written with the std constant `Infinity` / `MinusInfinity` is an INFINITE bound: an exact
/// lowering that needs it (`max abs{x}`, `z = max{x, y}`, `z = min{x, y}`) must fail with MissingFiniteBounds naming
/// the variable (seeded C08-14: the constants became ±f64::MAX, the lowering proceeded with big-M ≈ 1.8e308).
fn infinity_constant_text_case(r: &mut Rng) -> Case {
    let k = 1 + r.below(20);
    let (decl, body, culprit): (String, String, &str) = match r.below(4) {
        0 => (format!("x as Real(-{}, Infinity)", k), "max abs{ x }\ns.t.\n    x >= -3".into(), "x"),
        1 => (format!("x as Real(MinusInfinity, {})", k), "max abs{ x }\ns.t.\n    x <= 3".into(), "x"),
        2 => (format!("x as Real(-{}, Infinity)\n    y as Real(0, 4)\n    z as Real", k), "min z\ns.t.\n    z = max{ x, y }".into(), "x"),
        _ => (format!("x as Real(MinusInfinity, {})\n    y as Real(0, 4)\n    z as Real", k), "max z\ns.t.\n    z = min{ x, y }".into(), "x"),
    };
    let src = format!("{}\ndefine\n    {}\n", body, decl);
    let m = match text_compile(&src) {
        Some(m) => m,
        None => { let mut c = Case::default(); c.req = "linerr-display (err fuel) \"\" \"\" \"\" \"\"".into(); c.imp = sx::q("fuel"); c.show = src.replace('\n', " ; "); c.tags = vec!["text-infinity-constant".into(), "text-rejected".into()]; c.impl_violation = Some("the generated text program does not transform".into()); return c; }
    };
    let mut c = crate::props::c01::one(&m, "text-infinity-constant", "c08");
    c.show = src.replace('\n', " ; ");
    // the declared bound must arrive as an IEEE infinity
    let inf_ok = m.domain().get(culprit).map(|d| match *d.get_type() { VariableType::Real(lo, hi) => lo.is_infinite() || hi.is_infinite(), _ => false }).unwrap_or(false);
    if !inf_ok { c.impl_violation = Some(format!("the bound of {} written with Infinity / MinusInfinity is not infinite in the model: {:?}", culprit, m.domain().get(culprit).map(|d| *d.get_type()))); return c; }
    match Linearizer::linearize(m) {
        Err(LinearizationError::MissingFiniteBounds { variables, .. }) if variables.iter().any(|v| v == culprit) => {}
        Err(e) => { c.impl_violation = Some(format!("expected MissingFiniteBounds naming {}, got: {}", culprit, e)); }
        Ok(_) => { c.impl_violation = Some(format!("an exact lowering over the infinite declared bound of {} succeeded (expected MissingFiniteBounds)", culprit)); }
    }
    c
}

pub fn generate(seed: u64, n: usize, thorough: bool, corpus: Option<&str>) -> Vec<Case> {
    let mut out = crate::props::c01::generate_for("c08", seed.wrapping_add(2000), n, thorough, corpus);
    let mut r = Rng::new(seed ^ 0xC08).fork();
    for _ in 0..(n / 10).max(20) { out.push(collision_case(&mut r)); }
    // the missing-bounds contract on a dedicated unbounded stream
    let cfg = ModelCfg { max_vars: 3, depth: 2, logic: false, piecewise: true, unbounded: true, fractional: false, strict_cmp: false, hostile: false };
    for _ in 0..(n / 5).max(40) {
        let (m, _) = gen_model::model(&mut r, &cfg);
        let mut c = crate::props::c01::one(&m, "missing-bounds", "c08");
        check_missing_bounds(&m, &mut c);
        out.push(c);
        if let Some(d) = display_case(&m) { out.push(d); }
    }
    // the messages of the other error kinds: the hostile configuration produces all of them
    let hostile = ModelCfg { max_vars: 4, depth: 3, logic: true, piecewise: true, unbounded: true, fractional: false, strict_cmp: true, hostile: true };
    for _ in 0..(n / 5).max(100) {
        let (m, _) = gen_model::model(&mut r, &hostile);
        if let Some(d) = display_case(&m) { out.push(d); }
    }
    for _ in 0..(n / 10).max(200) {
        let m = display_targeted(&mut r);
        let mut c = crate::props::c01::one(&m, "targeted-error", "c08");
        check_missing_bounds(&m, &mut c);
        out.push(c);
        if let Some(d) = display_case(&m) { out.push(d); }
    }
    for _ in 0..(n / 10).max(30) { out.push(logic_aux_case(&mut r)); }
    let cfgs = crate::props::c01::configs();
    for i in 0..(n / 5).max(40) {
        let (tag, cfg) = &cfgs[i % cfgs.len()];
        out.push(permutation_case(&mut r, tag, cfg));
    }
    for _ in 0..(n / 20).max(20) { out.push(overflow_case(&mut r)); }
    for _ in 0..(n / 10).max(60) { out.push(tiny_divisor_case(&mut r)); }
    // text door, own fork of the generator and fixed block sizes (independent of the streams above)
    let mut rt = Rng::new(seed ^ 0xC08_7E87).fork();
    for _ in 0..80 { out.push(zero_coefficient_text_case(&mut rt)); }
    for _ in 0..40 { out.push(infinity_constant_text_case(&mut rt)); }
    for i in 0..(n / 5).max(60) {
        let (tag, cfg) = &cfgs[i % cfgs.len()];
        out.push(name_order_case(&mut r, tag, cfg));
    }
    let _ = sx::num;
    out
}
