//! C08 — well-formedness of compiled linear models; shares the generator and correspondence of C01 and adds
//! (a) the missing-bounds error contract and (b) a metamorphic aux-collision check, both on the implementation.
use crate::case::Case;
use crate::gen_model::{self, ModelCfg, VarDecl};
use crate::rng::Rng;
use crate::sx;
use rooc::model_transformer::{Constraint, Exp, Model};
use rooc::{BinOp, Comparison, LinearizationError, Linearizer, OptimizationType, VariableType};

fn rename(e: &Exp, from: &str, to: &str) -> Exp {
    let b = |x: &Exp| Box::new(rename(x, from, to));
    match e {
        Exp::Number(_) => e.clone(),
        Exp::Variable(n) => Exp::Variable(if n == from { to.to_string() } else { n.clone() }),
        Exp::Abs(x) => Exp::Abs(b(x)),
        Exp::Not(x) => Exp::Not(b(x)),
        Exp::UnOp(op, x) => Exp::UnOp(*op, b(x)),
        Exp::Min(es) => Exp::Min(es.iter().map(|x| rename(x, from, to)).collect()),
        Exp::Max(es) => Exp::Max(es.iter().map(|x| rename(x, from, to)).collect()),
        Exp::And(es) => Exp::And(es.iter().map(|x| rename(x, from, to)).collect()),
        Exp::Or(es) => Exp::Or(es.iter().map(|x| rename(x, from, to)).collect()),
        Exp::Xor(x, y) => Exp::Xor(b(x), b(y)),
        Exp::Implies(x, y) => Exp::Implies(b(x), b(y)),
        Exp::Iff(x, y) => Exp::Iff(b(x), b(y)),
        Exp::BinOp(op, x, y) => Exp::BinOp(*op, b(x), b(y)),
    }
}

/// a model that certainly makes the compiler mint the auxiliary `aux`, plus a USER variable with exactly that
/// name and the auxiliary's type. Either compilation fails with VarAlreadyDeclared, or (if the user variable is
/// declared but the auxiliary is not needed after all) the output has as many variables as the same model with the
/// user variable renamed to a harmless name.
fn collision_case(r: &mut Rng) -> Case {
    let v = |n: &str| Exp::Variable(n.into());
    let k = |x: f64| Exp::Number(x);
    let (aux, aux_ty, trigger): (&str, VariableType, Exp) = match r.below(8) {
        0 => ("$or_0", VariableType::Boolean, Exp::BinOp(BinOp::Add, Box::new(Exp::Or(vec![v("a"), v("b")])), Box::new(v("y")))),
        1 => ("$and_0", VariableType::Boolean, Exp::BinOp(BinOp::Add, Box::new(Exp::And(vec![v("a"), v("b")])), Box::new(v("y")))),
        2 => ("$xor_0", VariableType::Boolean, Exp::BinOp(BinOp::Add, Box::new(Exp::Xor(Box::new(v("a")), Box::new(v("b")))), Box::new(v("y")))),
        3 => ("$iff_0", VariableType::Boolean, Exp::BinOp(BinOp::Add, Box::new(Exp::Iff(Box::new(v("a")), Box::new(v("b")))), Box::new(v("y")))),
        4 => ("$implies_0", VariableType::Boolean, Exp::BinOp(BinOp::Add, Box::new(Exp::Implies(Box::new(v("a")), Box::new(v("b")))), Box::new(v("y")))),
        5 => ("$abs_0", VariableType::NonNegativeReal(0.0, 3.0), Exp::BinOp(BinOp::Add, Box::new(Exp::Abs(Box::new(v("z")))), Box::new(v("y")))),
        6 => ("$max_0", VariableType::Real(-3.0, 3.0), Exp::BinOp(BinOp::Add, Box::new(Exp::Max(vec![v("z"), v("y")])), Box::new(k(0.0)))),
        _ => ("$abs_0_positive", VariableType::Boolean, Exp::BinOp(BinOp::Add, Box::new(Exp::Abs(Box::new(v("z")))), Box::new(v("y")))),
    };
    let user_ty = if r.chance(3, 4) { aux_ty } else { VariableType::IntegerRange(0, 1) };
    let ds = vec![
        VarDecl { name: "a".into(), ty: VariableType::Boolean }, VarDecl { name: "b".into(), ty: VariableType::Boolean },
        VarDecl { name: "y".into(), ty: VariableType::Real(-3.0, 3.0) }, VarDecl { name: "z".into(), ty: VariableType::Real(-3.0, 3.0) },
        VarDecl { name: aux.into(), ty: user_ty },
    ];
    // exact context so that the exact lowering (and its selector / sign auxiliaries) is needed
    let cons = vec![
        Constraint::new(trigger, Comparison::Equal, k(1.0), "t".into()),
        Constraint::new(Exp::BinOp(BinOp::Add, Box::new(v(aux)), Box::new(v("y"))), Comparison::LessOrEqual, k(2.0), "u".into()),
    ];
    let m = gen_model::build(OptimizationType::Max, v("y"), cons.clone(), &ds);
    let safe = "uservar";
    let ds2: Vec<VarDecl> = ds.iter().map(|d| VarDecl { name: if d.name == aux { safe.into() } else { d.name.clone() }, ty: d.ty }).collect();
    let cons2: Vec<Constraint> = cons.iter().map(|c| Constraint::new(rename(c.lhs(), aux, safe), c.constraint_type(), rename(c.rhs(), aux, safe), c.name().to_string())).collect();
    let m2 = gen_model::build(OptimizationType::Max, v("y"), cons2, &ds2);
    let mut c = crate::props::c01::one(&m, "aux-collision", "c08");
    let a = Linearizer::linearize(m);
    let b = Linearizer::linearize(m2);
    match (&a, &b) {
        (Ok(la), Ok(lb)) if la.variables().len() != lb.variables().len() => {
            c.impl_violation = Some(format!("a user variable named {} was merged with the compiler's auxiliary of the same name: {} variables instead of {}", aux, la.variables().len(), lb.variables().len()));
        }
        (Err(LinearizationError::VarAlreadyDeclared(_)), Ok(_)) => { c.tags.push("collision-rejected".into()); }
        _ => {}
    }
    c
}

fn check_missing_bounds(m: &Model, c: &mut Case) {
    // `MissingFiniteBounds` must name variables whose derived range really is not finite
    if let Err(LinearizationError::MissingFiniteBounds { variables, .. }) = Linearizer::linearize(m.clone()) {
        let rep = rooc::verif_hooks::linearizer_bounds(m.domain(), m.constraints());
        for v in &variables {
            if let Some((_, lo, hi)) = rep.variables.iter().find(|(n, _, _)| n == v) {
                if lo.is_finite() && hi.is_finite() {
                    c.impl_violation = Some(format!("MissingFiniteBounds names {} whose derived range [{}, {}] is finite", v, lo, hi));
                }
            }
        }
        if variables.is_empty() { c.tags.push("missing-bounds-none-identified".into()); }
    }
}

pub fn generate(seed: u64, n: usize, thorough: bool, corpus: Option<&str>) -> Vec<Case> {
    let mut out = crate::props::c01::generate_for("c08", seed.wrapping_add(2000), n, thorough, corpus);
    let mut r = Rng::new(seed ^ 0xC08).fork();
    for _ in 0..(n / 10).max(20) { out.push(collision_case(&mut r)); }
    // the missing-bounds contract on a dedicated unbounded stream
    let cfg = ModelCfg { max_vars: 3, depth: 2, logic: false, piecewise: true, unbounded: true, fractional: false, strict_cmp: false, hostile: false };
    for _ in 0..(n / 5).max(40) {
        let (m, _) = gen_model::model(&mut r, &cfg);
        let mut c = crate::props::c01::one(&m, "missing-bounds", "c08");
        check_missing_bounds(&m, &mut c);
        out.push(c);
    }
    let _ = sx::num;
    out
}
