//! C12 — compiled output is itself a valid program with the same meaning.
//!
//! (i)   `Exp` / `Model` `to_string()` vs. the Lean port, byte for byte (generated trees);
//! (ii)  `LinearModel::to_string()` vs. the Lean port, byte for byte;
//! (iii) directly on the implementation: the rendered text is parsed, type checked and linearized
//!       again; the exact oracle compares the two linear models canonically, and the second rendering
//!       must equal the first (fixpoint).
use crate::case::Case;
use crate::gen_exp::{self, ExpCfg};
use crate::rng::Rng;
use crate::sx;
use indexmap::IndexMap;
use rooc::model_transformer::{Constraint, DomainVariable, Exp, Model, Objective};
use rooc::{BinOp, Comparison, InputSpan, LinearModel, Linearizer, OptimizationType, RoocParser, UnOp, VariableType};
use std::collections::BTreeMap;

// ------------------------------------------------------------------------------------------------ token tables
fn exp_nums(e: &Exp, out: &mut Vec<f64>) {
    match e {
        Exp::Number(v) => out.push(*v),
        Exp::Variable(_) => {}
        Exp::Abs(e) | Exp::Not(e) | Exp::UnOp(_, e) => exp_nums(e, out),
        Exp::Min(es) | Exp::Max(es) | Exp::And(es) | Exp::Or(es) => for e in es { exp_nums(e, out) },
        Exp::Xor(a, b) | Exp::Implies(a, b) | Exp::Iff(a, b) | Exp::BinOp(_, a, b) => { exp_nums(a, out); exp_nums(b, out) }
    }
}
fn toks(nums: &[f64]) -> String {
    let mut t: BTreeMap<u64, String> = BTreeMap::new();
    for v in nums {
        t.insert(v.to_bits(), format!("{}", v));
        t.insert(v.abs().to_bits(), format!("{}", v.abs()));
    }
    let mut s = String::from("(toks");
    for (b, st) in &t { s.push_str(&format!(" (#x{:016x} {})", b, sx::q(st))); }
    s.push(')');
    s
}
fn domain_nums(d: &IndexMap<String, DomainVariable>, out: &mut Vec<f64>) {
    for (_, v) in d {
        if let VariableType::NonNegativeReal(a, b) | VariableType::Real(a, b) = v.get_type() { out.push(*a); out.push(*b); }
    }
}
fn model_toks(m: &Model) -> String {
    let mut v = vec![];
    exp_nums(&m.objective().rhs, &mut v);
    for c in m.constraints() { exp_nums(c.lhs(), &mut v); exp_nums(c.rhs(), &mut v); }
    domain_nums(m.domain(), &mut v);
    toks(&v)
}

/// a logic node (And/Or/Xor/Implies/Iff) directly under + - * /
fn logic_under_arith(e: &Exp) -> bool {
    let is_logic = |x: &Exp| matches!(x, Exp::And(_) | Exp::Or(_) | Exp::Xor(..) | Exp::Implies(..) | Exp::Iff(..));
    match e {
        Exp::BinOp(op, l, r) =>
            (matches!(op, BinOp::Add | BinOp::Sub | BinOp::Mul | BinOp::Div) && (is_logic(l) || is_logic(r)))
                || logic_under_arith(l) || logic_under_arith(r),
        Exp::Number(_) | Exp::Variable(_) => false,
        Exp::Abs(x) | Exp::Not(x) | Exp::UnOp(_, x) => logic_under_arith(x),
        Exp::Min(es) | Exp::Max(es) | Exp::And(es) | Exp::Or(es) => es.iter().any(logic_under_arith),
        Exp::Xor(a, b) | Exp::Implies(a, b) | Exp::Iff(a, b) => logic_under_arith(a) || logic_under_arith(b),
    }
}

// ------------------------------------------------------------------------------------------------ re-compilation
fn first_line(s: &str) -> String { s.lines().filter(|l| !l.trim().is_empty()).take(2).collect::<Vec<_>>().join(" / ").chars().take(160).collect() }

enum Recompiled { Ok(Model, LinearModel), Rejected(&'static str, String) }

fn recompile(text: &str) -> Recompiled {
    let t = text.to_string();
    let r = std::panic::catch_unwind(move || {
        let p = RoocParser::new(t);
        let model = match p.parse_and_transform(vec![], &IndexMap::new()) {
            Ok(m) => m,
            Err(e) => return Recompiled::Rejected("parse", first_line(&e)),
        };
        if let Err(e) = p.type_check(&vec![], &IndexMap::new()) { return Recompiled::Rejected("typecheck", first_line(&e)); }
        match Linearizer::linearize(model.clone()) {
            Ok(l) => Recompiled::Ok(model, l),
            Err(e) => Recompiled::Rejected("linearize", first_line(&format!("{}", e))),
        }
    });
    match r { Ok(x) => x, Err(_) => Recompiled::Rejected("panic", "panic while re-compiling".into()) }
}

/// is every number of the linear model inside the property's stated range (|v| in [1e-9, 1e9] or 0, finite bounds or infinite)?
fn lin_in_range(m: &LinearModel) -> bool {
    let ok = |v: f64| v == 0.0 || (v.is_finite() && v.abs() >= 1e-9 && v.abs() <= 1e9);
    let okb = |v: f64| v.is_infinite() || ok(v);
    m.objective().iter().all(|c| ok(*c)) && ok(m.objective_offset())
        && m.constraints().iter().all(|r| r.coefficients().iter().all(|c| ok(*c)) && ok(r.rhs()))
        && m.domain().values().all(|d| match d.get_type() {
            VariableType::NonNegativeReal(a, b) | VariableType::Real(a, b) => okb(*a) && okb(*b),
            _ => true })
}

/// (ii) + (iii) for one linear model. `compiled_like` = the model could have come out of the compiler
/// (every variable used, well-formed domains), so the round trip is part of the property.
fn lin_case(m: &LinearModel, tags: Vec<String>, compiled_like: bool) -> Case {
    lin_case2(m, tags, if compiled_like { 2 } else { 0 }).0
}

/// `profile` 3 = came out of the compiler from a source on which the bounds analysis is known to reach its fixed
/// point in one compilation (`bounds_order_program`): differing derived domains are NOT excused there.
/// `profile`: 0 = byte-exactness only, 1 = built through the API in the compiler's output profile (the first
/// re-compilation may tighten domains), 2 = came out of the compiler. Returns the re-compiled model too.
fn lin_case2(m: &LinearModel, mut tags: Vec<String>, profile: u8) -> (Case, Option<LinearModel>) {
    let compiled_like = profile > 0;
    let mut second = None;
    let lin = sx::lin_model(m);
    let mut c = Case::default();
    c.req = format!("display-lin {} {}", lin, super::c17::tok_table(m));
    let text = std::panic::catch_unwind(std::panic::AssertUnwindSafe(|| m.to_string()));
    let text = match text {
        Ok(t) => t,
        Err(_) => {
            c.imp = "(err panic)".into();
            c.show = format!("LinearModel (Display panics) {}", lin.chars().take(200).collect::<String>());
            tags.push("display-panics".into());
            c.tags = tags;
            return (c, None);
        }
    };
    c.imp = format!("(ok {})", sx::q(&text));
    c.show = format!("LinearModel: {}", text.replace('\n', " | "));
    c.nontrivial = !m.constraints().is_empty();
    // which branches of the printer does the model reach?
    let coefs: Vec<f64> = m.objective().iter().cloned().chain(m.constraints().iter().flat_map(|r| r.coefficients().iter().cloned())).collect();
    if coefs.iter().any(|c| c.abs() == 1.0) { tags.push("lin-unit-coefficient".into()); }
    if coefs.iter().any(|c| *c < 0.0 && *c <= -1e-5) { tags.push("lin-negative-coefficient".into()); }
    if m.constraints().iter().any(|r| r.coefficients().iter().all(|c| *c == 0.0)) { tags.push("lin-zero-lhs".into()); }
    if m.objective().iter().all(|c| *c == 0.0) { tags.push("lin-zero-objective".into()); }
    if m.constraints().iter().any(|r| r.rhs() == 0.0) { tags.push("lin-zero-rhs".into()); }
    if m.constraints().iter().any(|r| r.rhs() < 0.0) { tags.push("lin-negative-rhs".into()); }
    if m.constraints().iter().any(|r| r.name().is_empty()) { tags.push("lin-unnamed-row".into()); }
    if m.constraints().iter().any(|r| !r.name().is_empty()) { tags.push("lin-named-row".into()); }
    let off = m.objective_offset();
    tags.push(if off == 0.0 { "lin-offset-zero".into() } else if off <= -1e-5 { "lin-offset-negative".into() } else if off < 0.0 { "lin-offset-tiny-negative".into() } else { "lin-offset-positive".to_string() });
    if m.variables().iter().any(|v| v.starts_with('$')) { tags.push("lin-aux-name".into()); }
    if m.variables().iter().any(|v| v.contains('_') && !v.starts_with('$')) { tags.push("lin-indexed-name".into()); }
    let mut tys: Vec<String> = vec![];
    for d in m.domain().values() {
        let t = d.get_type().to_string();
        tags.push(match d.get_type() {
            VariableType::Boolean => "lin-dom-boolean".into(),
            VariableType::IntegerRange(..) => "lin-dom-int".into(),
            VariableType::NonNegativeReal(a, b) => if *a == 0.0 && *b == f64::INFINITY { "lin-dom-nnreal-default".into() } else if b.is_infinite() { "lin-dom-nnreal-inf".into() } else { "lin-dom-nnreal-tight".to_string() },
            VariableType::Real(a, b) => if a.is_infinite() && b.is_infinite() { "lin-dom-real-free".into() } else if a.is_infinite() || b.is_infinite() { "lin-dom-real-halfinf".into() } else { "lin-dom-real-tight".to_string() },
        });
        if tys.contains(&t) { tags.push("lin-dom-grouped".into()); }
        tys.push(t);
    }
    tags.push(format!("lin-sense-{}", sx::opt_type(m.optimization_type())));
    let in_range = lin_in_range(m);
    tags.push(if in_range { "in-stated-range".into() } else { "outside-stated-range".to_string() });
    let tiny_neg = m.objective().iter().chain(m.constraints().iter().flat_map(|r| r.coefficients().iter())).any(|c| *c < 0.0 && *c > -1e-5);
    if tiny_neg { tags.push("negative-coefficient-below-1e-5".into()); }
    if compiled_like {
        match recompile(&text) {
            Recompiled::Ok(_, l2) => {
                tags.push("reparse-accepted".into());
                let t2 = l2.to_string();
                if in_range {
                    c.oracle = format!("{} {} {} {} {}", if profile == 1 { "same-lin-api" } else if profile == 3 { "same-lin-strict" } else { "same-lin" }, lin, sx::lin_model(&l2), sx::q(&text), sx::q(&t2));
                    second = Some(l2);
                } else {
                    tags.push("roundtrip-recorded-only".into());
                }
            }
            Recompiled::Rejected(stage, msg) => {
                tags.push(format!("reparse-rejected-{}", stage));
                if in_range {
                    let odd_inf = m.domain().values().any(|d| match d.get_type() {
                        VariableType::NonNegativeReal(a, b) => a.is_infinite() || *b == f64::NEG_INFINITY,
                        VariableType::Real(a, b) => *a == f64::INFINITY || *b == f64::NEG_INFINITY,
                        _ => false });
                    let solve_with_exp = matches!(m.optimization_type(), OptimizationType::Satisfy)
                        && text.lines().next().map(|l| l.trim() != "solve").unwrap_or(false);
                    if solve_with_exp && stage == "parse" {
                        c.sig = Some("solve-rendered-with-expression".into());
                    } else if m.constraints().is_empty() && stage == "parse" {
                        c.sig = Some("empty-constraint-section-rejected".into());
                    } else if odd_inf && stage == "parse" {
                        c.sig = Some("infinite-bound-spelled-inf".into());
                    }
                    c.impl_violation = Some(format!("rendering of a compiled linear model is rejected at {}: {}  <=  {}", stage, msg, text.replace('\n', " | ")));
                } else {
                    tags.push("roundtrip-recorded-only".into());
                }
            }
        }
    }
    tags.sort(); tags.dedup();
    c.tags = tags;
    (c, second)
}

/// an API-built model: first as it is (domains may be tightened by the first compilation), then the
/// model that compilation produced — a genuinely compiled one — under the full property
fn api_lin_cases(m: &LinearModel, tags: Vec<String>, cases: &mut Vec<Case>) {
    let mut t1 = tags.clone(); t1.push("api-built".into());
    let (c, second) = lin_case2(m, t1, 1);
    cases.push(c);
    if let Some(l1) = second {
        let mut t2 = tags; t2.push("compiled-linear-model".into()); t2.push("compiled-from-api-rendering".into());
        cases.push(lin_case2(&l1, t2, 2).0);
    }
}

/// (i) + (iii) for one compiled source model.
fn model_case(m: &Model, mut tags: Vec<String>, roundtrip: bool) -> Case {
    let mut c = Case::default();
    c.req = format!("display-model {} {}", sx::model(m), model_toks(m));
    let text = m.to_string();
    c.imp = format!("(ok {})", sx::q(&text));
    c.show = format!("Model: {}", text.replace('\n', " | "));
    c.nontrivial = true;
    if logic_under_arith(&m.objective().rhs) || m.constraints().iter().any(|c| logic_under_arith(c.lhs()) || logic_under_arith(c.rhs())) {
        tags.push("logic-operand-under-arithmetic".into());
    }
    if roundtrip {
        let first = std::panic::catch_unwind(std::panic::AssertUnwindSafe(|| Linearizer::linearize(m.clone())));
        if let Ok(Ok(l1)) = first {
            tags.push("model-compiles".into());
            match recompile(&text) {
                Recompiled::Ok(_, l2) => {
                    tags.push("reparse-accepted".into());
                    let (t1, t2) = (l1.to_string(), l2.to_string());
                    c.oracle = format!("same-lin-model {} {} {} {} {}", sx::model(m), sx::lin_model(&l1), sx::lin_model(&l2), sx::q(&t1), sx::q(&t2));
                }
                Recompiled::Rejected(stage, msg) => {
                    tags.push(format!("reparse-rejected-{}", stage));
                    let lua = logic_under_arith(&m.objective().rhs)
                        || m.constraints().iter().any(|c| logic_under_arith(c.lhs()) || logic_under_arith(c.rhs()));
                    if matches!(m.objective().objective_type, OptimizationType::Satisfy) && stage == "parse"
                        && text.lines().next().map(|l| l.trim() != "solve").unwrap_or(false) {
                        c.sig = Some("solve-rendered-with-expression".into());
                    } else if lua {
                        c.sig = Some("display-logic-operand-unparenthesised".into());
                    }
                    c.impl_violation = Some(format!("rendering of a compiled model is rejected at {}: {}  <=  {}", stage, msg, text.replace('\n', " | ")));
                }
            }
        } else {
            // the front end produced this Model but the linearizer declines it: its rendering must still be a
            // program of the grammar
            tags.push("model-does-not-compile".into());
            let t = text.clone();
            match std::panic::catch_unwind(move || RoocParser::new(t).parse().map(|_| ()).map_err(|e| format!("{:?}", e))) {
                Ok(Ok(())) => tags.push("reparse-accepted-grammar-only".into()),
                Ok(Err(e)) => {
                    tags.push("reparse-rejected-parse".into());
                    if m.constraints().is_empty() { c.sig = Some("empty-constraint-section-rejected".into()); }
                    c.impl_violation = Some(format!("rendering of a compiled model is rejected at parse: {}  <=  {}", first_line(&e), text.replace('\n', " | ")));
                }
                Err(_) => { c.impl_violation = Some(format!("parser panics on the rendering of a compiled model  <=  {}", text.replace('\n', " | "))); }
            }
        }
    }
    tags.sort(); tags.dedup();
    c.tags = tags;
    c
}

fn exp_case(e: &Exp, tag: &str) -> Case {
    let mut c = Case::default();
    let mut v = vec![];
    exp_nums(e, &mut v);
    c.req = format!("display-exp {} {}", sx::exp(e), toks(&v));
    let text = e.to_string();
    c.imp = format!("(ok {})", sx::q(&text));
    c.show = format!("Exp {:?} -> {}", sx::exp(e).chars().take(200).collect::<String>(), text);
    c.nontrivial = !e.is_leaf();
    let mut tags = vec![tag.to_string(), "exp-display".to_string()];
    // which branches of the printer does the tree reach?
    fn walk(e: &Exp, parent: Option<BinOp>, tags: &mut Vec<String>) {
        match e {
            Exp::BinOp(op, l, r) => {
                if let Some(p) = parent {
                    if op.precedence() < p.precedence() { tags.push("paren-lower-precedence".into()); }
                    else if p == BinOp::Sub { tags.push(if r.is_leaf() { "sub-case-leaf-rhs".into() } else { "sub-case-nonleaf-rhs".to_string() }); }
                    else if op.precedence() == p.precedence() { tags.push("equal-precedence-no-paren".into()); }
                }
                walk(l, Some(*op), tags); walk(r, Some(*op), tags);
            }
            Exp::UnOp(_, x) => { tags.push(if x.is_leaf() { "unop-leaf".into() } else { "unop-group".to_string() }); walk(x, None, tags) }
            Exp::Not(x) => { tags.push(if x.is_leaf() { "not-leaf".into() } else { "not-group".to_string() }); walk(x, None, tags) }
            Exp::Abs(x) => { tags.push("abs".into()); walk(x, None, tags) }
            Exp::Min(es) | Exp::Max(es) => { tags.push("minmax".into()); for x in es { walk(x, None, tags) } }
            Exp::And(es) | Exp::Or(es) => { tags.push(format!("nary-logic-{}", es.len().min(3))); for x in es { walk(x, None, tags) } }
            Exp::Xor(a, b) | Exp::Implies(a, b) | Exp::Iff(a, b) => { tags.push("binary-logic-node".into()); walk(a, None, tags); walk(b, None, tags) }
            Exp::Number(v) => { if *v < 0.0 { tags.push("negative-literal".into()) } }
            Exp::Variable(_) => {}
        }
    }
    walk(e, None, &mut tags);
    tags.sort(); tags.dedup();
    c.tags = tags;
    c
}

// ------------------------------------------------------------------------------------------------ source generator
#[derive(Clone)]
enum S { Num(f64), Var(String), Bin(&'static str, Box<S>, Box<S>), Neg(Box<S>), Abs(Box<S>), Min(Vec<S>), Max(Vec<S>), Not(Box<S>) }

fn src(s: &S) -> String {
    match s {
        S::Num(v) => format!("{}", v),
        S::Var(n) => n.clone(),
        S::Bin(op, a, b) => format!("({} {} {})", src(a), op, src(b)),
        S::Neg(a) => format!("(-{})", src(a)),
        S::Not(a) => format!("(not {})", src(a)),
        S::Abs(a) => format!("abs{{ {} }}", src(a)),
        S::Min(xs) => format!("min{{ {} }}", xs.iter().map(src).collect::<Vec<_>>().join(", ")),
        S::Max(xs) => format!("max{{ {} }}", xs.iter().map(src).collect::<Vec<_>>().join(", ")),
    }
}

const MAGS: [f64; 16] = [1.0, 2.0, 3.0, 0.5, 0.1, 0.25, 7.0, 10.0, 1e-9, 1e-7, 1e-6, 0.00001, 0.00002, 1000.0, 123456.5, 1e9];
// `e1` / `E2`: names that could continue a number token (`2.5e1` must stay 2.5 times `e1`)
const REALS: [&str; 7] = ["x", "y", "z", "x_1", "x_a", "e1", "E2"];
const BOOLS: [&str; 3] = ["b", "d", "e"];

fn num(r: &mut Rng, sweep: bool) -> S {
    let v = if sweep { *r.pick(&MAGS) } else { *r.pick(&MAGS[..8]) };
    if r.chance(1, 4) { S::Neg(Box::new(S::Num(v))) } else { S::Num(v) }
}
/// a constant sub-expression (never zero)
fn numexp(r: &mut Rng, depth: u32) -> S {
    if depth == 0 || r.chance(1, 2) { return S::Num(*r.pick(&[2.0, 3.0, 4.0, 0.5, 5.0])); }
    let op = *r.pick(&["*", "/", "+"]);
    S::Bin(op, Box::new(numexp(r, depth - 1)), Box::new(numexp(r, depth - 1)))
}
fn lin(r: &mut Rng, depth: u32, sweep: bool, rich: bool) -> S {
    if depth == 0 || r.chance(1, 6) {
        return match r.below(4) {
            0 => S::Var(r.pick(&REALS).to_string()),
            1 => num(r, sweep),
            _ => S::Bin("*", Box::new(num(r, sweep)), Box::new(S::Var(r.pick(&REALS).to_string()))),
        };
    }
    let d = depth - 1;
    if r.chance(1, 25) {
        // a logic value used as a number: `(b and d) + x`
        let op = *r.pick(&["+", "-"]);
        // `-(not b)`: a prefix operator directly under another one
        if r.chance(1, 4) {
            let nb = S::Neg(Box::new(S::Not(Box::new(S::Var(r.pick(&BOOLS).to_string())))));
            return S::Bin(op, Box::new(lin(r, d_dec(depth), sweep, rich)), Box::new(nb));
        }
        return if r.chance(1, 2) { S::Bin(op, Box::new(logic(r, 1)), Box::new(lin(r, d_dec(depth), sweep, rich))) }
               else { S::Bin(op, Box::new(lin(r, d_dec(depth), sweep, rich)), Box::new(logic(r, 1))) };
    }
    match r.below(if rich { 14 } else { 11 }) {
        0 | 1 | 2 => S::Bin("+", Box::new(lin(r, d, sweep, rich)), Box::new(lin(r, d, sweep, rich))),
        3 | 4 | 5 => S::Bin("-", Box::new(lin(r, d, sweep, rich)), Box::new(lin(r, d, sweep, rich))),
        6 => S::Neg(Box::new(lin(r, d, sweep, rich))),
        7 => S::Bin("*", Box::new(lin(r, d, sweep, rich)), Box::new(numexp(r, 1))),
        8 => S::Bin("*", Box::new(numexp(r, 1)), Box::new(lin(r, d, sweep, rich))),
        9 | 10 => S::Bin("/", Box::new(lin(r, d, sweep, rich)), Box::new(numexp(r, 2))),
        11 => S::Abs(Box::new(lin(r, d, sweep, false))),
        12 => S::Min((0..1 + r.below(3)).map(|_| lin(r, d, sweep, false)).collect()),
        _ => S::Max((0..1 + r.below(3)).map(|_| lin(r, d, sweep, false)).collect()),
    }
}
fn d_dec(depth: u32) -> u32 { depth.saturating_sub(1) }
fn logic(r: &mut Rng, depth: u32) -> S {
    if depth == 0 || r.chance(1, 4) {
        let v = S::Var(r.pick(&BOOLS).to_string());
        // nested prefix operators: `not (not b)`, `not (-b)` (the grammar takes ONE prefix operator per operand)
        return match r.below(16) {
            0 | 1 | 2 => S::Not(Box::new(v)),
            3 => S::Not(Box::new(S::Not(Box::new(v)))),
            4 => if r.chance(1, 3) { S::Not(Box::new(S::Neg(Box::new(v)))) } else { S::Not(Box::new(v)) },
            _ => v,
        };
    }
    let op = *r.pick(&["and", "or", "xor", "implies", "iff", "and", "or"]);
    S::Bin(op, Box::new(logic(r, depth - 1)), Box::new(logic(r, depth - 1)))
}

fn source_program(r: &mut Rng, sweep: bool) -> String {
    // a third of the programs use plain names only and no block functions (no `$`-helper variables): their
    // renderings lie inside the lexer/parser model, so the whole-model round trip is checked on them
    let plain = r.chance(1, 3);
    let rich = !plain && r.chance(1, 3);
    let s = source_program_named(r, sweep, rich);
    if plain { s.replace("x_1", "u").replace("x_a", "v").replace("r_1", "rr") } else { s }
}
fn source_program_named(r: &mut Rng, sweep: bool, rich: bool) -> String {
    let mut s = String::new();
    match r.below(7) {
        0 => s.push_str("solve\n"),
        1 | 2 | 3 => s.push_str(&format!("min {}\n", src(&lin(r, 2, sweep, rich)))),
        _ => s.push_str(&format!("max {}\n", src(&lin(r, 2, sweep, rich)))),
    }
    s.push_str("s.t.\n");
    let names = ["cap", "lower", "c1", "c2", "r_1", "k"];
    let mut used = vec![];
    for i in 0..1 + r.below(4) {
        let name = if r.chance(1, 2) { let n = names[(i + r.below(3)) % names.len()]; if used.contains(&n) { String::new() } else { used.push(n); format!("{}: ", n) } } else { String::new() };
        if r.chance(1, 6) {
            s.push_str(&format!("    {}{}\n", name, src(&logic(r, 2))));
        } else {
            let cmp = *r.pick(&["<=", ">=", "=", "<=", ">="]);
            s.push_str(&format!("    {}{} {} {}\n", name, src(&lin(r, 3, sweep, rich)), cmp, src(&lin(r, 1, sweep, false))));
        }
    }
    s.push_str("define\n");
    let dom = *r.pick(&["Real(-10, 10)", "NonNegativeReal(0, 8)", "Real(-1000000000, 1000000000)", "IntegerRange(-3, 7)", "Real(-2.5, 0.75)"]);
    s.push_str(&format!("    x, y, z as {}\n    x_1, x_a, e1, E2 as Real(-4, 6)\n    b, d, e as Boolean\n", dom));
    s
}

fn compile_source(text: &str) -> Option<Model> {
    let t = text.to_string();
    // the property is about well-typed sources: the source passes the type checker, as its rendering must
    std::panic::catch_unwind(move || {
        let p = RoocParser::new(t);
        let m = p.parse_and_transform(vec![], &IndexMap::new()).ok()?;
        p.type_check(&vec![], &IndexMap::new()).ok()?;
        Some(m)
    }).ok().flatten()
}

/// a non-affine row (abs / min / max) with a variable on its RIGHT-hand side, written BEFORE the rows that bound
/// that variable: the bounds analysis has to revisit the non-affine row when the later row tightens the variable.
/// Unbounded `Real` / `NonNegativeReal` declarations, so every finite bound of the result is a derived one.
fn bounds_order_program(r: &mut Rng) -> String {
    let k = 1 + r.below(4);
    let (row, third) = match r.below(5) {
        0 => (format!("abs{{ x }} <= y"), false),
        1 => (format!("abs{{ x }} <= y + {}", k), false),
        2 => (format!("max{{ x, w }} <= y + {}", k), true),
        3 => (format!("min{{ x, w }} >= -y"), true),
        _ => (format!("abs{{ x }} + abs{{ w }} <= y"), true),
    };
    let bound = match r.below(3) { 0 => format!("y <= {}", 2 + r.below(8)), 1 => format!("2y <= {}", 3 + r.below(8)), _ => format!("y + 1 <= {}", 3 + r.below(6)) };
    let n1 = *r.pick(&["", "lim: "]);
    let n2 = *r.pick(&["", "cap: "]);
    let mut s = String::new();
    s.push_str(match r.below(3) { 0 => "min y\n", 1 => "max x\n", _ => "min x + y\n" });
    s.push_str("s.t.\n");
    s.push_str(&format!("    {}{}\n", n1, row));
    if third && r.chance(1, 2) { s.push_str("    w >= -3\n    w <= 4\n"); }
    s.push_str(&format!("    {}{}\n", n2, bound));
    if r.chance(1, 2) { s.push_str("    y >= 0\n"); }
    s.push_str("define\n");
    s.push_str(if third { "    x, w as Real\n" } else { "    x as Real\n" });
    s.push_str(if r.chance(1, 2) { "    y as Real\n" } else { "    y as NonNegativeReal\n" });
    s
}

/// an affine row whose variable terms sit on the RIGHT-hand side with a negated or computed coefficient
/// (`y <= -2 * x + 10`, `10 - y >= (1 + 1) * x`), finite declared bounds for `x`: the bounds analysis has to
/// normalise BOTH sides to tighten `y` in the first compilation, as it does from the rendered literal row
fn rhs_coefficient_program(r: &mut Rng) -> String {
    let k = 2 + r.below(3);
    let c = 5 + r.below(8);
    let coef = match r.below(6) {
        0 => format!("-{} * x", k), 1 => format!("x * -{}", k), 2 => format!("(1 + {}) * x", k - 1),
        3 => format!("2 * {} * x", k), 4 => format!("x / -{}", k), _ => format!("-(1 + 1) * x"),
    };
    let row = match r.below(4) {
        0 => format!("y <= {} + {}", coef, c),
        1 => format!("y >= {} - {}", coef, c),
        2 => format!("{} - y >= {}", c, coef),
        _ => format!("y + 1 <= {} + {}", c, coef),
    };
    let name = *r.pick(&["", "lim: "]);
    let mut s = String::new();
    s.push_str(match r.below(3) { 0 => "min y\n", 1 => "max y\n", _ => "min x + y\n" });
    s.push_str("s.t.\n");
    s.push_str(&format!("    {}{}\n", name, row));
    if r.chance(1, 2) { s.push_str("    x + y >= -50\n"); }
    s.push_str("define\n");
    s.push_str(&format!("    x as {}\n", r.pick(&["Real(0, 4)", "NonNegativeReal(0, 3)", "Real(-2, 2)", "IntegerRange(0, 5)"])));
    s.push_str(&format!("    y as {}\n", r.pick(&["Real", "Real(-100, 100)", "Real"])));
    s
}

/// rows that are tight up to float noise: decimal coefficients and bounds whose exact sum is the right-hand side
/// (`0.1a + 0.2b <= 0.3` with `a >= 1`, `b >= 1`; 0.1 + 0.2 = 0.30000000000000004): the derived bound misses the
/// opposite one by an ulp, the published domain must still be a proper interval that the grammar accepts
fn float_tight_program(r: &mut Rng) -> String {
    // hundredths
    let cs: [i64; 8] = [10, 20, 30, 70, 60, 110, 5, 15];
    let ls: [i64; 7] = [100, 200, 300, 10, 70, 130, 20];
    let dec = |v: i64, scale: i64| -> String {
        let (q, rem) = (v / scale, v % scale);
        if rem == 0 { format!("{}", q) } else {
            let digits = (scale as f64).log10().round() as usize;
            let f = format!("{:0width$}", rem, width = digits);
            format!("{}.{}", q, f.trim_end_matches('0'))
        }
    };
    let (c1, c2, l1, l2) = (*r.pick(&cs), *r.pick(&cs), *r.pick(&ls), *r.pick(&ls));
    let upper = r.chance(1, 3);      // `>=` row against upper bounds
    let mut s = String::new();
    match r.below(3) {
        0 => {
            s.push_str("max 3a + 2b\ns.t.\n");
            s.push_str(&format!("    budget: {}a + {}b {} {}\n", dec(c1, 100), dec(c2, 100), if upper { ">=" } else { "<=" }, dec(c1 * l1 + c2 * l2, 10000)));
            s.push_str(&format!("    a {} {}\n    b {} {}\n", if upper { "<=" } else { ">=" }, dec(l1, 100), if upper { "<=" } else { ">=" }, dec(l2, 100)));
            s.push_str("define\n    a, b as Real(0, 100)\n");
        }
        1 => {
            s.push_str("min x + y\ns.t.\n");
            s.push_str(&format!("    x + y <= {}\n    x >= {}\n", dec(l1 + l2, 100), dec(l1, 100)));
            s.push_str(&format!("define\n    x as NonNegativeReal\n    y as NonNegativeReal({}, 10)\n", dec(l2, 100)));
        }
        _ => {
            s.push_str("min x - y\ns.t.\n");
            s.push_str(&format!("    cap: {}x + y <= {}\n    y >= {}\n", dec(c1, 100), dec(c1 * l1 + l2 * 100, 10000), dec(l2, 100)));
            s.push_str(&format!("define\n    x as Real({}, 50)\n    y as Real(-5, 50)\n", dec(l1, 100)));
        }
    }
    s
}

/// iterated families and (indexed or shared) row names: the compiled text spells every expanded member literally
/// (`x_on`, `cap_A`), a fragment may ALSO be the name of a declared variable, and rows that share one source name
/// are de-duplicated by the compiler (`cap`, `cap__2`, `cap__3`)
fn family_program(r: &mut Rng) -> String {
    let (set, frags, wh): (&str, Vec<&str>, &str) = match r.below(4) {
        0 => ("nodes(G)", vec!["A", "B"], "where\n    let G = Graph { A -> [ B ], B -> [ A ] }\n"),
        1 => ("nodes(G)", vec!["A", "B", "C"], "where\n    let G = Graph { A -> [ B, C ], B -> [ A ], C -> [ ] }\n"),
        2 => ("[\"on\", \"off\", \"up\"]", vec!["on", "off", "up"], ""),
        _ => ("0..3", vec![], ""),
    };
    // a declared variable whose name is one of the fragments (or not)
    let extra_name = if !frags.is_empty() && r.chance(2, 3) { frags[r.below(frags.len())] } else { "pick" };
    let extra_ty = *r.pick(&["Boolean", "Boolean", "IntegerRange(0, 3)", "Real(-1, 2)", "NonNegativeReal(0, 2)"]);
    let row_name = *r.pick(&["cap_s: ", "cap: ", "cap: ", "", "r_s: "]);
    let cmp = *r.pick(&["<=", ">="]);
    let mut s = String::new();
    let sense = *r.pick(&["min", "max"]);
    s.push_str(&format!("{} sum(s in {}) {{ {}x_s }} + {}{}\n", sense, set, r.pick(&["", "2", "0.5"]), r.pick(&["", "2", "1.5"]), extra_name));
    s.push_str("s.t.\n");
    s.push_str(&format!("    {}x_s {} {} {} {} for s in {}\n", row_name, cmp, 1 + r.below(4), r.pick(&["+", "-"]), extra_name, set));
    if r.chance(1, 2) { s.push_str(&format!("    total: sum(s in {}) {{ x_s }} <= {}\n", set, 4 + r.below(5))); }
    let logic_rows = r.below(4);
    let lname = *r.pick(&["r: ", "cap: ", "r: ", ""]);
    for k in 0..logic_rows {
        if k == 2 && r.chance(1, 2) { s.push_str("    other: p or q\n"); }
        s.push_str(&format!("    {}{}\n", lname, r.pick(&["p or q", "p implies q", "p xor q", "(not p) or q", "p iff q"])));
    }
    s.push_str(wh);
    s.push_str("define\n");
    s.push_str(&format!("    x_s as {} for s in {}\n", r.pick(&["NonNegativeReal(0, 10)", "Real(-5, 5)", "NonNegativeReal"]), set));
    s.push_str(&format!("    {} as {}\n", extra_name, extra_ty));
    if logic_rows > 0 { s.push_str("    p, q as Boolean\n"); }
    s
}

// ------------------------------------------------------------------------------------------------ linear-model generator
const PLAIN_NAMES: [&str; 9] = ["x", "y", "z", "w2", "u", "v3", "e1", "E10", "e"];
const LIN_NAMES: [&str; 14] = ["x", "y", "z", "x_1", "x_a_b", "$abs_0", "$logic_witness_0", "$max_1_select_0", "w2", "$min_3", "e1", "E10", "e_1", "e"];
const COEFFS: [f64; 30] = [1.0, -1.0, 2.0, -2.0, 0.5, -0.5, 3.0, 10.0, 0.1, -0.1, 1e-9, -1e-9, 1e-8, -1e-7, 1e-6, -1e-6, 9.9e-6, -9.9e-6,
    1e-5, -1e-5, 1.0001e-5, -1.0001e-5, 2e-5, -2e-5, 1e9, -1e9, 123456.789, -0.333, 1000.0, -999999999.9];

fn lin_var_type(r: &mut Rng) -> VariableType {
    match r.below(9) {
        0 | 1 => VariableType::Boolean,
        2 => VariableType::IntegerRange(r.range(-9, 0) as i32, r.range(1, 30) as i32),
        3 => VariableType::Real(f64::NEG_INFINITY, f64::INFINITY),
        4 => VariableType::Real(-(r.range(1, 50) as f64) / 4.0, r.range(1, 50) as f64 / 4.0),
        5 => if r.chance(1, 2) { VariableType::Real(f64::NEG_INFINITY, 7.5) } else { VariableType::Real(-2.0, f64::INFINITY) },
        6 => VariableType::NonNegativeReal(0.0, f64::INFINITY),
        7 => VariableType::NonNegativeReal(0.0, r.range(1, 40) as f64 / 2.0),
        _ => if r.chance(1, 2) { VariableType::NonNegativeReal(0.25, 1e9) } else { VariableType::NonNegativeReal(0.25, f64::INFINITY) },
    }
}

fn random_lin(r: &mut Rng, sweep: bool) -> LinearModel {
    let nv = 1 + r.below(4);
    let mut m = LinearModel::new();
    let plain = r.chance(1, 3);
    let mut pool: Vec<&str> = if plain { PLAIN_NAMES.to_vec() } else { LIN_NAMES.to_vec() };
    for _ in 0..nv { let i = r.below(pool.len()); m.add_variable(pool.remove(i), lin_var_type(r)); }
    let coef = |r: &mut Rng| if sweep { *r.pick(&COEFFS) } else { *r.pick(&COEFFS[..10]) };
    let nr = 1 + r.below(4);
    let names = if plain { ["cap", "a", "c2", "rr", "k"] } else { ["cap", "a", "c2", "row_1", "$r"] };
    for i in 0..nr {
        let mut cs: Vec<f64> = (0..nv).map(|_| if r.chance(1, 4) { 0.0 } else { coef(r) }).collect();
        if i == 0 { for c in cs.iter_mut() { if *c == 0.0 { *c = 1.0; } } }       // every variable is used somewhere
        let cmp = *r.pick(&[Comparison::LessOrEqual, Comparison::GreaterOrEqual, Comparison::Equal]);
        let rhs = if r.chance(1, 3) { 0.0 } else { coef(r) };
        if r.chance(1, 2) { m.add_constraint(cs, cmp, rhs) } else { m.add_named_constraint(cs, cmp, rhs, names[i % names.len()]) }
    }
    let obj: Vec<f64> = (0..nv).map(|_| if r.chance(1, 3) { 0.0 } else { coef(r) }).collect();
    let ot = match r.below(7) { 0 => OptimizationType::Satisfy, 1 | 2 | 3 => OptimizationType::Min, _ => OptimizationType::Max };
    let sat = matches!(ot, OptimizationType::Satisfy);
    m.set_objective(if sat { vec![] } else { obj }, ot);
    let (o, t, _, c, v, d) = m.into_parts();
    // compiled `solve` models carry the offset 1 (the objective `true`)
    let off = if sat { 1.0 } else if r.chance(1, 2) { 0.0 } else { coef(r) };
    LinearModel::new_from_parts(o, t, off, c, v, d)
}

fn seeded_sources() -> Vec<(&'static str, &'static str)> {
    vec![
        ("seed-div-right-nested", "min x / (2 * 3)\ns.t.\n    x >= 6\ndefine\n    x as Real(-10, 10)"),
        ("seed-sub-right-nested", "min x\ns.t.\n    x - (3 - 1) >= 0\ndefine\n    x as Real(-10, 10)"),
        ("seed-sub-right-add", "min x\ns.t.\n    x - (y + 1) >= 0\ndefine\n    x, y as Real(-10, 10)"),
        ("seed-tiny-negative-coefficient", "min x\ns.t.\n    y - 0.000001 * x <= 3\n    x >= 1\ndefine\n    x, y as Real(-10, 10)"),
        ("seed-solve", "solve\ns.t.\n    x + y >= 1\ndefine\n    x, y as Real(-5, 10)"),
        ("seed-repo-test-1", "max abs { x - y } + min { x, y }\ns.t.\n    cap: x + y <= 10\ndefine\n    x, y as NonNegativeReal(0, 8)"),
        ("seed-repo-test-2", "min max { x, y }\ns.t.\n    lower: x + y >= 4\ndefine\n    x, y as NonNegativeReal(0, 9)"),
        ("seed-logic", "max x\ns.t.\n    a: b or (d and not b)\n    x <= 3 * b + 1\ndefine\n    x as Real(-5, 10)\n    b, d as Boolean"),
        ("seed-logic-under-arith", "max x\ns.t.\n    (b and d) + x <= 1\n    x - (b or d) >= -3\ndefine\n    x as Real(-5, 10)\n    b, d as Boolean"),
        ("seed-not-not", "max x\ns.t.\n    not (not b)\n    (not (not d)) or b\n    x <= 3\ndefine\n    x as Real(-5, 10)\n    b, d as Boolean"),
        ("seed-neg-not", "max x\ns.t.\n    x + -(not d) <= 1\n    x - (-(not b)) >= -3\ndefine\n    x as Real(-5, 10)\n    b, d as Boolean"),
        ("seed-not-neg", "max x\ns.t.\n    (not (-b)) or d\n    x <= 3\ndefine\n    x as Real(-5, 10)\n    b, d as Boolean"),
        ("seed-exponent-like-names", "min 2.5 * e1 + 0.5 * E2\ns.t.\n    1.5 * e1 - 0.25 * E2 >= 1\n    e1 + E2 <= 6\ndefine\n    e1, E2 as Real(-5, 10)"),
        ("seed-family-fragment-names-boolean", "max sum(v in nodes(G)) { w_v } + 2A\ns.t.\n    w_v <= 3 + A for v in nodes(G)\n    total: sum(v in nodes(G)) { w_v } <= 5\nwhere\n    let G = Graph { A -> [ B ], B -> [ A ] }\ndefine\n    w_v as NonNegativeReal(0, 10) for v in nodes(G)\n    A as Boolean"),
        ("seed-row-name-fragment-names-boolean", "min sum(s in [\"on\", \"off\"]) { x_s } + on\ns.t.\n    cap_s: x_s >= 1 - on for s in [\"on\", \"off\"]\ndefine\n    x_s as NonNegativeReal(0, 4) for s in [\"on\", \"off\"]\n    on as Boolean"),
        ("seed-three-rows-one-name", "max x_0 + x_1 + x_2\ns.t.\n    cap: x_i <= i + 1 for i in 0..3\ndefine\n    x_i as NonNegativeReal for i in 0..3"),
        ("seed-three-logic-rows-one-name", "solve\ns.t.\n    r: a xor b\n    r: a implies b\n    other: a or c\n    r: b or c\ndefine\n    a, b, c as Boolean"),
        ("seed-bounds-order-abs", "min y\ns.t.\n    abs{ x } <= y\n    y <= 5\ndefine\n    x, y as Real"),
        ("seed-bounds-order-max", "max x\ns.t.\n    lim: max{ x, w } <= y + 1\n    cap: 2y <= 9\ndefine\n    x, w, y as Real"),
        ("seed-strict-rows", "max x + y\ns.t.\n    cap: x < 9\n    2x + y > 1\n    y <= 4\ndefine\n    x, y as Real(-5, 10)"),
        ("seed-bounds-order-rhs-negated", "min y\ns.t.\n    y <= -2 * x + 10\n    10 - y >= (1 + 1) * x\ndefine\n    x as Real(0, 4)\n    y as Real"),
        ("seed-float-tight-budget", "max 3a + 2b\ns.t.\n    budget: 0.1a + 0.2b <= 0.3\n    a >= 1\n    b >= 1\ndefine\n    a, b as Real(0, 100)"),
        ("seed-float-tight-declared", "min x + y\ns.t.\n    x + y <= 0.3\n    x >= 0.1\ndefine\n    x as NonNegativeReal\n    y as NonNegativeReal(0.2, 10)"),
        ("seed-neg-literal", "min -3 * x + (-2) * -y\ns.t.\n    x - -y >= -1\ndefine\n    x, y as Real(-5, 10)"),
    ]
}

fn from_source(text: &str, tag: &str, cases: &mut Vec<Case>) {
    match compile_source(text) {
        None => { let mut c = Case::default(); c.show = format!("source (rejected by the front end): {}", text.replace('\n', " | ")); c.tags = vec![tag.into(), "src-not-compilable".into()]; cases.push(c); }
        Some(m) => {
            cases.push(model_case(&m, vec![tag.into(), "compiled-model".into()], true));
            if let Ok(Ok(l)) = std::panic::catch_unwind(std::panic::AssertUnwindSafe(|| Linearizer::linearize(m.clone()))) {
                let strict = tag.contains("bounds-order");
                cases.push(lin_case2(&l, vec![tag.into(), "compiled-linear-model".into()], if strict { 3 } else { 2 }).0);
            }
        }
    }
}

pub fn generate(seed: u64, n: usize, thorough: bool, corpus: Option<&str>) -> Vec<Case> {
    let mut r = Rng::new(seed);
    let mut cases = vec![];
    // --- seeded known shapes, through the real front end
    for (tag, s) in seeded_sources() { from_source(s, tag, &mut cases); }
    if let Some(dir) = corpus {
        if let Ok(rd) = std::fs::read_dir(dir) {
            let mut files: Vec<_> = rd.filter_map(|e| e.ok()).map(|e| e.path()).filter(|p| p.extension().map(|x| x == "rooc").unwrap_or(false)).collect();
            files.sort();
            for f in files {
                // `*bounds-order*` files are sources on which one compilation reaches the bounds fixed point (strict oracle)
                let tag = if f.file_name().map(|n| n.to_string_lossy().contains("bounds-order")).unwrap_or(false) { "corpus-bounds-order" } else { "corpus" };
                if let Ok(s) = std::fs::read_to_string(&f) { from_source(&s, tag, &mut cases); }
            }
        }
    }
    // recorded only: 1e22 prints as an integer literal beyond i64 (outside the stated 1e9 range)
    {
        let mut m = LinearModel::new();
        m.add_variable("x", VariableType::Real(-5.0, 10.0));
        m.add_constraint(vec![1e22], Comparison::LessOrEqual, 1.0);
        m.set_objective(vec![1.0], OptimizationType::Min);
        cases.push(lin_case(&m, vec!["seed-1e22-record-only".into()], true));
    }
    // `Display` indexes `self.variables[i]`: a non-zero coefficient beyond the variable list panics (only
    // reachable through `new_from_parts`); zero coefficients beyond it do not
    for cs in [vec![1.0, 0.0, 3.0], vec![1.0, 0.0, 0.0]] {
        let mut d = IndexMap::new();
        d.insert("x".to_string(), DomainVariable::new(VariableType::Boolean, InputSpan::default()));
        let m = LinearModel::new_from_parts(vec![1.0], OptimizationType::Min, 0.0,
            vec![rooc::LinearConstraint::new(cs, Comparison::LessOrEqual, 1.0)], vec!["x".into()], d);
        cases.push(lin_case(&m, vec!["seed-coefficients-beyond-variables".into()], false));
    }
    // --- (i) Exp Display: exhaustive small trees + random trees
    let leaves = vec![Exp::Number(2.0), Exp::Number(-1.5), Exp::Variable("x".into()), Exp::Variable("$abs_0".into())];
    for e in gen_exp::enumerate(if thorough { 4 } else { 3 }, &leaves) { cases.push(exp_case(&e, "exhaustive")); }
    // every pair of nested binary operators, both sides (the parenthesisation table)
    for p in gen_exp::BINOPS { for c in gen_exp::BINOPS {
        let x = || Box::new(Exp::Variable("x".into()));
        let inner = |l: Box<Exp>, r: Box<Exp>| Box::new(Exp::BinOp(c, l, r));
        cases.push(exp_case(&Exp::BinOp(p, inner(x(), x()), x()), "op-pairs"));
        cases.push(exp_case(&Exp::BinOp(p, x(), inner(x(), x())), "op-pairs"));
        cases.push(exp_case(&Exp::BinOp(p, x(), inner(x(), inner(x(), x()))), "op-pairs"));
        cases.push(exp_case(&Exp::BinOp(p, x(), inner(x(), Box::new(Exp::UnOp(UnOp::Neg, x())))), "op-pairs"));
    } }
    let cfgs = [
        ExpCfg { vars: vec!["x".into(), "y_1".into(), "$max_0".into()], logic: true, minmax: true, special: false },
        ExpCfg { vars: vec!["x".into(), "y".into()], logic: false, minmax: false, special: false },
        ExpCfg { vars: vec!["x".into()], logic: true, minmax: true, special: true },
    ];
    for i in 0..n {
        let cfg = &cfgs[i % cfgs.len()];
        let depth = 2 + r.below(4) as u32;
        let e = gen_exp::exp(&mut r, cfg, depth);
        cases.push(exp_case(&e, ["random-mixed", "random-arith", "random-special"][i % 3]));
    }
    // --- (i) Model Display on generated trees (not necessarily compilable)
    for i in 0..n / 4 {
        let cfg = &cfgs[i % 2];
        let obj = gen_exp::exp(&mut r, cfg, 2);
        let mut cons = vec![];
        for k in 0..r.below(4) {
            let name = if r.chance(1, 2) { format!("c{}", k) } else { String::new() };
            if r.chance(1, 4) { cons.push(Constraint::new_logic_assertion(gen_exp::exp(&mut r, &cfgs[0], 2), name)); }
            else {
                let cmp = *r.pick(&[Comparison::LessOrEqual, Comparison::GreaterOrEqual, Comparison::Equal, Comparison::Less, Comparison::Greater]);
                cons.push(Constraint::new(gen_exp::exp(&mut r, cfg, 3), cmp, gen_exp::exp(&mut r, cfg, 1), name));
            }
        }
        let mut dom = IndexMap::new();
        for v in ["x", "y", "y_1", "$max_0", "q"].iter().take(r.below(6)) {
            dom.insert(v.to_string(), DomainVariable::new(lin_var_type(&mut r), InputSpan::default()));
        }
        let ot = r.pick(&[OptimizationType::Min, OptimizationType::Max, OptimizationType::Satisfy]).clone();
        let m = Model::new(Objective::new(ot, obj), cons, dom);
        cases.push(model_case(&m, vec!["random-model-display".into()], false));
    }
    // --- (ii)+(iii) LinearModel Display: API-built, compiled-like
    for i in 0..n / 2 {
        let m = random_lin(&mut r, i % 2 == 0);
        api_lin_cases(&m, vec![if i % 2 == 0 { "random-lin-sweep".into() } else { "random-lin-plain".to_string() }], &mut cases);
    }
    // coefficient sweep, one coefficient at a time, both signs, 1e-9 … 1e9 and the 1e-5 boundary
    let mut sweep: Vec<f64> = vec![];
    for e in -9..=9 { sweep.push(10f64.powi(e)); sweep.push(3.0 * 10f64.powi(e)); }
    for d in [1e-10, 1e-9, 2e-9, 1e-6, 1e-5, 2e-5] { sweep.push(1e-5 + d); sweep.push((1e-5f64 - d).abs()); }
    for v in sweep {
        for s in [1.0, -1.0] {
            let c = s * v;
            if c.abs() > 1e9 || c.abs() < 1e-9 { continue; }
            // second pass: variables whose names could continue a number token (`0.3e1`, `0.3E2`)
            for (n1, n2, tag) in [("x", "$abs_0", "coefficient-sweep"), ("e1", "E2", "coefficient-sweep-exponent-names")] {
                let mut m = LinearModel::new();
                m.add_variable(n1, VariableType::Real(-5.0, 10.0));
                m.add_variable(n2, VariableType::NonNegativeReal(0.0, 4.0));
                m.add_named_constraint(vec![c, 1.0], Comparison::LessOrEqual, 3.0, "r");
                m.add_constraint(vec![1.0, c], Comparison::GreaterOrEqual, c);
                m.set_objective(vec![1.0, c], OptimizationType::Min);
                let (o, t, _, cs, vs, d) = m.into_parts();
                api_lin_cases(&LinearModel::new_from_parts(o, t, c, cs, vs, d), vec![tag.into()], &mut cases);
            }
        }
    }
    // outside the compiled profile: byte-exactness only (non-finite numbers, -0, unused variables, panicking index)
    for _ in 0..n / 10 {
        let mut m = random_lin(&mut r, true);
        let (mut o, t, off, cs, vs, d) = { let x = std::mem::take(&mut m); x.into_parts() };
        if !o.is_empty() && r.chance(1, 2) { o[0] = *r.pick(&[f64::NAN, f64::INFINITY, -0.0, 1e22, 5e-324]); }
        let off = if r.chance(1, 2) { *r.pick(&[-0.0, -1e-6, -0.5, f64::NEG_INFINITY]) } else { off };
        cases.push(lin_case(&LinearModel::new_from_parts(o, t, off, cs, vs, d), vec!["random-lin-odd".into()], false));
    }
    // --- (ii)+(iii) strict rows `<` / `>` (own generator state, fixed-size blocks): API-built models and sources
    {
        let mut rs = r.fork();
        for i in 0..30 {
            let m = random_lin(&mut rs, i % 2 == 0);
            let (o, t, off, cs, vs, d) = m.into_parts();
            let cs: Vec<rooc::LinearConstraint> = cs.into_iter().enumerate().map(|(k, c)| {
                let cmp = match (c.constraint_type(), k == 0 || rs.chance(1, 2)) {
                    (Comparison::LessOrEqual, true) => Comparison::Less,
                    (Comparison::GreaterOrEqual, true) => Comparison::Greater,
                    (Comparison::Equal, true) => if rs.chance(1, 2) { Comparison::Less } else { Comparison::Greater },
                    (x, _) => x.clone(),
                };
                rooc::LinearConstraint::new_with_name(c.coefficients().clone(), cmp, c.rhs(), c.name())
            }).collect();
            api_lin_cases(&LinearModel::new_from_parts(o, t, off, cs, vs, d), vec!["random-lin-strict-rows".into()], &mut cases);
        }
        for i in 0..30 {
            let s = source_program(&mut rs, i % 2 == 0);
            // numeric rows only carry a comparison; the first of each kind becomes strict
            let s = s.replacen(" <= ", " < ", 1).replacen(" >= ", " > ", 1);
            from_source(&s, "generated-source-strict-rows", &mut cases);
        }
    }
    // --- (iii) rows the bounds analysis has to revisit (own generator state, fixed-size block)
    {
        let mut rb = r.fork();
        for _ in 0..40 { let s = bounds_order_program(&mut rb); from_source(&s, "generated-bounds-order", &mut cases); }
    }
    // --- (iii) right-hand-side coefficients the bounds analysis has to normalise (strict fixpoint oracle), and rows
    // tight up to float noise; own generator states, fixed-size blocks
    {
        let mut rb = r.fork();
        for _ in 0..40 { let s = rhs_coefficient_program(&mut rb); from_source(&s, "generated-bounds-order-rhs-coefficient", &mut cases); }
        let mut rt = r.fork();
        for _ in 0..40 { let s = float_tight_program(&mut rt); from_source(&s, "generated-float-tight", &mut cases); }
    }
    // --- (iii) iterated families, fragment / variable name clashes, shared row names
    for _ in 0..n / 6 {
        let s = family_program(&mut r);
        from_source(&s, "generated-family", &mut cases);
    }
    // --- (iii) compiled models from generated sources
    for i in 0..n / 2 {
        let s = source_program(&mut r, i % 2 == 0);
        from_source(&s, if i % 2 == 0 { "generated-source-sweep" } else { "generated-source" }, &mut cases);
    }
    cases
}
