//! C05 — solver verdicts and optimal values are correct.
//!
//! Small LP / MILPs (≤ 4 variables, ≤ 5 rows, integer data) from structured families through all five entry points
//! (killable worker); each answer is compared by the Lean oracle with the exact, CERTIFIED verdict (rational simplex
//! + certificate checker, MILP by certified enumeration).  The wrapper models (verdict / status mapping arms) are
//! diffed like in C04.
use crate::case::Case;
use crate::child::{self, Opts, Outcome, SolverKind};
use crate::gen_lp::{self, Doms, LpCfg};
use crate::props::c04::show_model;
use crate::rng::Rng;
use crate::sx;
use rooc::{Comparison, LinearModel, OptimizationType, VariableType};
use std::time::Duration;

pub const TIMEOUT: Duration = Duration::from_millis(1500);

fn free() -> VariableType { VariableType::Real(f64::NEG_INFINITY, f64::INFINITY) }
fn nonneg() -> VariableType { VariableType::NonNegativeReal(0.0, f64::INFINITY) }
fn small(r: &mut Rng) -> f64 { r.range(-3, 3) as f64 }
fn sense(r: &mut Rng) -> OptimizationType { if r.chance(1, 2) { OptimizationType::Min } else { OptimizationType::Max } }

/// free variables and an objective that is constant along some direction of the feasible set (unbounded optimal faces)
fn fam_free_face(r: &mut Rng) -> LinearModel {
    let nv = 2 + r.below(3);
    let nr = 1 + r.below(4);
    let mut m = LinearModel::new();
    for i in 0..nv { m.add_variable(&format!("v{}", i), if r.chance(3, 4) { free() } else { nonneg() }); }
    let mut rows = vec![];
    for _ in 0..nr {
        let cs: Vec<f64> = (0..nv).map(|_| small(r)).collect();
        rows.push(cs.clone());
        m.add_constraint(cs, gen_lp::cmp3(r, 40), r.range(-5, 5) as f64);
    }
    // objective = combination of rows (flat on their common null space), sometimes perturbed
    let mut obj = vec![0.0; nv];
    for row in &rows { let k = r.range(-1, 2) as f64; for j in 0..nv { obj[j] += k * row[j]; } }
    if r.chance(1, 4) { let j = r.below(nv); obj[j] += small(r); }
    m.set_objective(obj, sense(r));
    m
}

/// rows that contradict each other on some variables + an improving ray on others (primal AND dual infeasible)
fn fam_both_infeasible(r: &mut Rng) -> LinearModel {
    let nv = 2 + r.below(3);
    let mut m = LinearModel::new();
    for i in 0..nv { m.add_variable(&format!("v{}", i), if r.chance(1, 2) { free() } else { nonneg() }); }
    let k = 1 + r.below(nv - 1); // contradiction lives on v0..v{k-1}
    let cs: Vec<f64> = (0..nv).map(|j| if j < k { let c = small(r); if c == 0.0 { 1.0 } else { c } } else { 0.0 }).collect();
    let b = r.range(-3, 3) as f64;
    m.add_constraint(cs.clone(), Comparison::LessOrEqual, b);
    m.add_constraint(cs.clone(), Comparison::GreaterOrEqual, b + 1.0 + r.below(3) as f64);
    for _ in 0..r.below(3) {
        let cs: Vec<f64> = (0..nv).map(|_| small(r)).collect();
        m.add_constraint(cs, gen_lp::cmp3(r, 20), r.range(-4, 6) as f64);
    }
    let s = sense(r);
    let sign = if matches!(s, OptimizationType::Min) { -1.0 } else { 1.0 };
    let obj: Vec<f64> = (0..nv).map(|j| if j >= k { sign * (1 + r.below(3)) as f64 } else { small(r) }).collect();
    m.set_objective(obj, s);
    m
}

/// redundant (multiples, sums) and degenerate rows
fn fam_redundant(r: &mut Rng) -> LinearModel {
    let nv = 1 + r.below(4);
    let mut m = LinearModel::new();
    for i in 0..nv { let d = if r.chance(1, 4) { Doms::Mixed } else { Doms::Continuous }; m.add_variable(&format!("v{}", i), gen_lp::domain(r, d)); }
    let mut rows: Vec<(Vec<f64>, Comparison, f64)> = vec![];
    let base = 1 + r.below(2);
    for _ in 0..base {
        rows.push(((0..nv).map(|_| small(r)).collect(), gen_lp::cmp3(r, 50), r.range(-2, 6) as f64));
    }
    while rows.len() < 5 && r.chance(3, 4) {
        let (cs, c, b) = rows[r.below(rows.len())].clone();
        match r.below(3) {
            0 => { let k = *r.pick(&[2.0, -1.0, 3.0, -2.0]); let c2 = if k < 0.0 { match c { Comparison::LessOrEqual => Comparison::GreaterOrEqual, Comparison::GreaterOrEqual => Comparison::LessOrEqual, c => c } } else { c };
                   rows.push((cs.iter().map(|x| x * k).collect(), c2, b * k)); }
            1 => { let (cs2, _, b2) = rows[r.below(rows.len())].clone(); rows.push((cs.iter().zip(&cs2).map(|(a, b)| a + b).collect(), c, b + b2)); }
            _ => rows.push((cs, c, b)),
        }
    }
    for (cs, c, b) in rows { m.add_constraint(cs, c, b); }
    let obj = (0..nv).map(|_| small(r)).collect();
    m.set_objective(obj, sense(r));
    m
}

/// empty rows: `0 = 1`, `0 <= -1`, `0 >= 0`, …
fn fam_empty_rows(r: &mut Rng) -> LinearModel {
    let (mut m, _) = gen_lp::model(r, &LpCfg { max_rows: 3, naming: 0, allow_satisfy: false, ..LpCfg::default() });
    let nv = m.variables().len();
    for _ in 0..1 + r.below(2) {
        m.add_constraint(vec![0.0; nv], gen_lp::cmp3(r, 50), r.range(-1, 1) as f64);
    }
    m
}

pub fn family(r: &mut Rng, i: usize) -> (LinearModel, &'static str) {
    if i % 16 == 15 { return (crate::props::c04::variable_free(r), "variable-free"); }
    if i % 5 == 4 { return (gen_lp::near_tied(r), "near-tied-large-coefficients"); }
    if i % 10 == 3 { return (gen_lp::permuted_domain(r, i % 20 == 3), "permuted-domain-order"); }
    if i % 20 == 7 { if let Some((lm, _)) = gen_lp::from_text(r) { return (lm, "text-pipeline-define-order"); } }
    match i % 8 {
        0 => (fam_free_face(r), "free-face"),
        1 => (fam_both_infeasible(r), "primal-dual-infeasible"),
        2 => (fam_redundant(r), "redundant-degenerate"),
        3 => (fam_empty_rows(r), "empty-rows"),
        4 => (gen_lp::model(r, &LpCfg { doms: Doms::Continuous, eq_pct: 80, naming: 0, feasible_pct: 70, allow_satisfy: false, ..LpCfg::default() }).0, "equality-dense"),
        5 => (gen_lp::model(r, &LpCfg { doms: Doms::Integer, naming: 0, ..LpCfg::default() }).0, "integer"),
        6 => (gen_lp::model(r, &LpCfg { doms: Doms::Mixed, naming: 0, ..LpCfg::default() }).0, "mixed"),
        _ => (gen_lp::model(r, &LpCfg { doms: Doms::Continuous, naming: 0, feasible_pct: 30, ..LpCfg::default() }).0, "continuous-random"),
    }
}

pub fn cases_for(lm: &LinearModel, fam: &str, variants: &gen_lp::Variants, out: &mut Vec<Case>) {
    cases_for_kinds(lm, fam, variants, &SolverKind::ENTRY_POINTS, out)
}

pub fn cases_for_kinds(lm: &LinearModel, fam: &str, variants: &gen_lp::Variants, kinds: &[SolverKind], out: &mut Vec<Case>) {
    let lms = sx::lin_model(lm);
    let opts = Opts::default();
    let cont = gen_lp::is_continuous(lm);
    // once one call on this model has hung, the remaining calls get a short limit (these models solve in microseconds)
    let hung = std::cell::Cell::new(false);
    let call = |k: SolverKind| {
        let o = child::solve(k, lm, &opts, if hung.get() { Duration::from_millis(400) } else { TIMEOUT });
        if matches!(o, Outcome::Hang) { hung.set(true); }
        o
    };
    let raw_milp = if kinds.iter().any(|k| matches!(k, SolverKind::Milp | SolverKind::Auto)) { call(SolverKind::RawMilp) } else { Outcome::Hang };
    for &kind in kinds {
        let o = call(kind);
        let res = gen_lp::result(&o);
        let mut c = Case::default();
        c.imp = res.clone();
        c.req = match kind {
            SolverKind::Milp => gen_lp::mlp(&raw_milp).map(|r| format!("{} {} {}", if variants.milp_reads_status { "milp-wrap-fixed" } else { "milp-wrap" }, lms, r)),
            SolverKind::Auto => gen_lp::mlp(&raw_milp).map(|r| format!("auto-wrap {} {}", lms, r)),
            SolverKind::MicroLp => gen_lp::mlp(&call(SolverKind::RawMicroLp)).map(|r| format!("microlp-wrap {} {}", lms, r)),
            SolverKind::Clarabel => gen_lp::clarabel_req(lm, &lms, variants, if hung.get() { Duration::from_millis(400) } else { TIMEOUT }),
            // the whole entry point of the tableau simplex is a model function (`SlowSimplex.solveReal`)
            SolverKind::Simplex => Some(format!("simplex-wrap {} {} {}", sx::num(crate::gen_std::measured_tolerance()), if opts.simplex_limit == 0 { 10000 } else { opts.simplex_limit }, lms)),
            _ => None,
        }.unwrap_or_default();
        if matches!(o, Outcome::Hang) { c.req.clear(); }
        c.oracle = format!("verdict {} {} {} {} {}", lms, kind.name(), res, sx::q(&gen_lp::err_msg(&o)), gen_lp::raw_status_of_req(&c.req));
        c.tags = vec![
            format!("family-{}", fam),
            format!("solver-{}", kind.name()),
            if cont { "model-continuous".into() } else { "model-mixed-integer".into() },
            match &o {
                Outcome::Solution(_) => "answer-solution".to_string(),
                Outcome::Err { variant, .. } => format!("answer-err-{}", variant),
                Outcome::Panic(_) => "answer-panic".into(),
                Outcome::Hang => "answer-hang".into(),
            },
        ];
        c.nontrivial = !matches!(&o, Outcome::Err { variant, .. } if variant == "InvalidDomain" || variant == "UnimplementedOptimizationType");
        c.show = format!("{} on: {}", kind.name(), show_model(lm));
        out.push(c);
    }
}

/// the confirmed defects of the design phase, replayed first (liveness of the whole pipeline)
pub fn seeded() -> Vec<(LinearModel, &'static str)> {
    let mut v = vec![];
    // (a) microlp never returns
    let mut m = LinearModel::new();
    m.add_variable("v0", free()); m.add_variable("v1", free()); m.add_variable("v2", nonneg());
    m.add_constraint(vec![-1.0, -1.0, -3.0], Comparison::LessOrEqual, 5.0);
    m.add_constraint(vec![-3.0, -3.0, 0.0], Comparison::Equal, -4.0);
    m.add_constraint(vec![-3.0, -3.0, 1.0], Comparison::Equal, -1.0);
    m.set_objective(vec![1.0, 1.0, 3.0], OptimizationType::Min);
    v.push((m, "seeded-microlp-hang"));
    // (b) microlp: Unbounded for an optimum on an unbounded optimal face
    let mut m = LinearModel::new();
    m.add_variable("v0", free()); m.add_variable("v1", free());
    m.add_constraint(vec![2.0, 0.0], Comparison::LessOrEqual, -3.0);
    m.add_constraint(vec![-3.0, 3.0], Comparison::Equal, 5.0);
    m.set_objective(vec![-1.0, 1.0], OptimizationType::Min);
    v.push((m, "seeded-microlp-unbounded"));
    // (c)/(d) primal and dual infeasible
    let mut m = LinearModel::new();
    m.add_variable("v0", nonneg()); m.add_variable("v1", free());
    m.add_constraint(vec![1.0, 0.0], Comparison::LessOrEqual, 1.0);
    m.add_constraint(vec![1.0, 0.0], Comparison::GreaterOrEqual, 2.0);
    m.set_objective(vec![0.0, 1.0], OptimizationType::Min);
    v.push((m, "seeded-primal-dual-infeasible"));
    // microlp flat-free-direction, third symptom: bounded mixed models with an UNUSED free column answered with
    // InternalError("bounded B&B node reported unbounded") (thorough tier)
    let mut m = LinearModel::new();
    m.add_variable("v0", VariableType::Boolean); m.add_variable("v1", VariableType::Boolean);
    m.add_variable("v2", free()); m.add_variable("v3", VariableType::IntegerRange(-1, 0));
    m.add_constraint(vec![1.0, 2.0, 0.0, -1.0], Comparison::GreaterOrEqual, 2.0);
    m.add_constraint(vec![1.0, 2.0, 0.0, -1.0], Comparison::GreaterOrEqual, 2.0);
    m.add_constraint(vec![0.0; 4], Comparison::GreaterOrEqual, -1.0);
    m.add_constraint(vec![0.0; 4], Comparison::Equal, 0.0);
    m.set_objective(vec![-1.0, 0.0, 0.0, -2.0], OptimizationType::Max);
    let (o, t, _, c, vs, d) = m.into_parts();
    v.push((LinearModel::new_from_parts(o, t, -4.0, c, vs, d), "seeded-microlp-unused-free-column"));
    let mut m = LinearModel::new();
    m.add_variable("v0", VariableType::Boolean); m.add_variable("v1", nonneg());
    m.add_variable("v2", VariableType::NonNegativeReal(2.0, 4.0)); m.add_variable("v3", free());
    for (k, le) in [(1.0, false), (1.0, false), (3.0, false), (2.0, false), (-2.0, true)] {
        m.add_constraint(vec![2.0 * k, k, k, 0.0], if le { Comparison::LessOrEqual } else { Comparison::GreaterOrEqual }, 3.0 * k);
    }
    m.set_objective(vec![-1.0, -2.0, -3.0, 0.0], OptimizationType::Max);
    v.push((m, "seeded-microlp-unused-free-column"));
    // clarabel gives up with Other("Numerical error") on an infeasible model (C16-clarabel-numerical-error-infeasible):
    // NO verdict from the interior-point path, hence not a wrong one for C05 — kept here so that path stays exercised
    let mut m = LinearModel::new();
    m.add_variable("x", VariableType::NonNegativeReal(0.0, 6.0));
    m.add_constraint(vec![-2.0], Comparison::Equal, -6.0);
    m.add_constraint(vec![-1.0], Comparison::Equal, -4.0);
    m.set_objective(vec![0.0], OptimizationType::Max);
    v.push((m, "seeded-clarabel-numerical-error"));
    // clarabel: `Solved` with a ~1e25 point on a primal-and-dual infeasible model (thorough tier)
    let mut m = LinearModel::new();
    m.add_variable("v0", free()); m.add_variable("v1", free()); m.add_variable("v2", free());
    m.add_constraint(vec![-3.0, 1.0, 0.0], Comparison::LessOrEqual, 3.0);
    m.add_constraint(vec![-3.0, 1.0, 0.0], Comparison::GreaterOrEqual, 4.0);
    m.set_objective(vec![2.0, -3.0, -1.0], OptimizationType::Min);
    v.push((m, "seeded-clarabel-solved-infeasible"));
    // microlp: unbounded mixed model (free variable) answered with InternalError("bounded B&B node reported unbounded")
    let mut m = LinearModel::new();
    m.add_variable("v0", free()); m.add_variable("v1", VariableType::IntegerRange(0, 3));
    m.add_variable("v2", VariableType::IntegerRange(1, 3)); m.add_variable("v3", VariableType::IntegerRange(-1, 1));
    m.add_constraint(vec![0.0, 0.0, 3.0, -3.0], Comparison::GreaterOrEqual, 7.0);
    m.set_objective(vec![-1.0, -3.0, 1.0, 0.0], OptimizationType::Min);
    v.push((m, "seeded-microlp-node-unbounded"));
    // the same mechanism with the free variable inside a row
    let mut m = LinearModel::new();
    m.add_variable("v0", free()); m.add_variable("w", free()); m.add_variable("k", VariableType::IntegerRange(0, 3));
    m.add_constraint(vec![1.0, -1.0, 0.0], Comparison::Equal, 0.0);
    m.add_constraint(vec![0.0, 0.0, 2.0], Comparison::GreaterOrEqual, 3.0);
    m.set_objective(vec![-1.0, 0.0, 1.0], OptimizationType::Min);
    v.push((m, "seeded-microlp-node-unbounded"));
    // clarabel: `Solved` on an unbounded model with a moderate point and diverging duals (found on main, seed 1)
    let mut m = LinearModel::new();
    m.add_variable("v0", free()); m.add_variable("v1", VariableType::NonNegativeReal(1.0, 2.0));
    m.add_variable("v2", VariableType::NonNegativeReal(2.0, 4.0)); m.add_variable("v3", free());
    m.add_constraint(vec![1.0, 3.0, -1.0, 3.0], Comparison::Equal, -3.0);
    m.add_constraint(vec![1.0, -1.0, -1.0, 3.0], Comparison::Equal, -11.0);
    m.set_objective(vec![0.0, -3.0, -3.0, -3.0], OptimizationType::Min);
    v.push((m, "seeded-clarabel-solved-unbounded"));
    // clarabel: `Solved` with a diverging point on an unbounded model (found by the thorough tier)
    let mut m = LinearModel::new();
    m.add_variable("v0", free()); m.add_variable("v1", free()); m.add_variable("v2", free()); m.add_variable("v3", nonneg());
    m.add_constraint(vec![1.0, -3.0, 3.0, -2.0], Comparison::Equal, 6.0);
    m.set_objective(vec![0.0, 0.0, -3.0, 2.0], OptimizationType::Min);
    v.push((m, "seeded-clarabel-diverging"));
    // tableau simplex: pivot candidates that are pure round-off residue (seeded change C05-12: `float_gt(a[h], 0.0)` of
    // the ratio test's eligibility filter replaced by `a[h] > 0.0`) -- an unbounded model answered with ~-5e16, a
    // wrong finite optimum (-15 for -49/3), a feasible model answered Infeasible; kept as regression models
    let two = |a: f64, b: f64| if a == 0.0 && b > 0.0 { VariableType::NonNegativeReal(a, b) } else { VariableType::Real(a, b) };
    let mut m = LinearModel::new();
    m.add_variable("x", two(-2.0, 0.0)); m.add_variable("y", free());
    m.add_constraint(vec![-3.0, 3.0], Comparison::GreaterOrEqual, 1.0);
    m.add_constraint(vec![-3.0, 2.0], Comparison::GreaterOrEqual, 3.0);
    m.set_objective(vec![1.0, -3.0], OptimizationType::Min);
    v.push((m, "seeded-simplex-residue-pivot"));
    let mut m = LinearModel::new();
    m.add_variable("a", two(-2.0, 0.0)); m.add_variable("b", two(-2.0, 2.0)); m.add_variable("c", free()); m.add_variable("d", free());
    m.add_constraint(vec![3.0, -2.0, 3.0, 1.0], Comparison::LessOrEqual, -3.0);
    m.add_constraint(vec![2.0, 3.0, 0.0, -1.0], Comparison::Equal, 4.0);
    m.set_objective(vec![-3.0, 2.0, -1.0, 1.0], OptimizationType::Min);
    v.push((m, "seeded-simplex-residue-pivot"));
    let mut m = LinearModel::new();
    m.add_variable("a", free()); m.add_variable("b", two(0.0, 3.0)); m.add_variable("c", two(0.0, 4.0)); m.add_variable("d", two(0.0, 2.0));
    m.add_constraint(vec![-2.0, 0.0, -1.0, -1.0], Comparison::LessOrEqual, 2.0);
    m.add_constraint(vec![3.0, -1.0, -1.0, 0.0], Comparison::LessOrEqual, -3.0);
    m.add_constraint(vec![-1.0, 1.0, 1.0, 1.0], Comparison::Equal, 4.0);
    m.set_objective(vec![2.0, 0.0, -2.0, -2.0], OptimizationType::Max);
    v.push((m, "seeded-simplex-residue-pivot"));
    v
}

/// round-off-prone models for the tableau simplex alone: free and two-sided bounded reals (split into $p/$m plus bound
/// rows), dense rows with coefficients in -3..3 (divisions by 3 leave 1e-16 residues where the exact entry is 0)
fn fam_residue(r: &mut Rng) -> LinearModel {
    let nv = 2 + r.below(3);
    let nr = 2 + r.below(3);
    let mut m = LinearModel::new();
    for i in 0..nv {
        let d = match r.below(4) {
            0 | 1 => free(),
            2 => { let lo = -(r.below(3) as f64); VariableType::Real(lo, lo + (1 + r.below(4)) as f64) }
            _ => VariableType::NonNegativeReal(0.0, (1 + r.below(4)) as f64),
        };
        m.add_variable(&format!("v{}", i), d);
    }
    for _ in 0..nr {
        let cs: Vec<f64> = (0..nv).map(|_| if r.chance(1, 5) { 0.0 } else { *r.pick(&[-3.0, -2.0, -1.0, 1.0, 2.0, 3.0]) }).collect();
        m.add_constraint(cs, gen_lp::cmp3(r, 25), r.range(-4, 4) as f64);
    }
    let obj = (0..nv).map(|_| small(r)).collect();
    m.set_objective(obj, sense(r));
    m
}

pub fn generate(seed: u64, n: usize, _thorough: bool, _corpus: Option<&str>) -> Vec<Case> {
    let mut r = Rng::new(seed);
    let mut cases = vec![];
    let variants = gen_lp::detect_variants();
    for (lm, tag) in seeded() { cases_for(&lm, tag, &variants, &mut cases); }
    for i in 0..n {
        let (lm, fam) = family(&mut r, i);
        cases_for(&lm, fam, &variants, &mut cases);
    }
    // two-phase start with zero-level artificials in rows without a positive structural entry: an own stream, so that
    // the other families do not shift
    // variable-free models: fixed block (every comparison x rhs 0 / -0 / 1 / -1, every true/false order of constant rows)
    for lm in gen_lp::variable_free_block() { cases_for(&lm, "variable-free-block", &variants, &mut cases); }
    // textbook cycling instances: the tableau simplex (default iteration limit) must still reach a verdict
    let mut r3 = Rng::new(seed ^ 0xc7c1e);
    for (name, lm) in gen_lp::cycling_classics(&mut r3) { cases_for(&lm, name, &variants, &mut cases); }
    let mut r2 = Rng::new(seed ^ 0x2fa5e);
    for k in 0..48 {
        let lm = gen_lp::two_phase_zero_rows(&mut r2, k);
        cases_for(&lm, "two-phase-zero-level-artificial", &variants, &mut cases);
    }
    // round-off residue in the entering column: simplex entry point only (cheap), own stream
    let mut r4 = Rng::new(seed ^ 0x5e51d);
    for _ in 0..(if _thorough { 6000 } else { 1200 }) {
        let lm = fam_residue(&mut r4);
        cases_for_kinds(&lm, "simplex-round-off-residue", &variants, &[SolverKind::Simplex], &mut cases);
    }
    // large right-hand sides with a small ABSOLUTE margin of (in)feasibility: a phase-1 residual of a few units next to
    // rhs ~1e5..1e6 is still infeasible (seeded change C05-16 made the test relative to the scale) - deterministic
    for kk in [100000.0f64, 200000.0, 500000.0, 1000000.0] {
        for margin in [-3.0f64, -1.0, 1.0, 2.0, 5.0] {
            for nv in [2usize, 3] {
                for (mx, eq) in [(false, false), (true, false), (false, true)] {
                    let mut m = LinearModel::new();
                    for i in 0..nv { m.add_variable(&format!("v{}", i), VariableType::NonNegativeReal(0.0, f64::INFINITY)); }
                    for i in 0..nv { let mut cs = vec![0.0; nv]; cs[i] = 1.0; m.add_constraint(cs, Comparison::LessOrEqual, kk); }
                    m.add_constraint(vec![1.0; nv], if eq { Comparison::Equal } else { Comparison::GreaterOrEqual }, kk * nv as f64 + margin);
                    m.set_objective((0..nv).map(|i| (i + 1) as f64).collect(), if mx { OptimizationType::Max } else { OptimizationType::Min });
                    cases_for_kinds(&m, "large-rhs-small-margin", &variants, &[SolverKind::Simplex, SolverKind::MicroLp], &mut cases);
                }
            }
        }
    }
    child::shutdown();
    cases
}
