//! C14 — every simplex step preserves equivalence, feasibility and monotonicity:
//! `StandardLinearModel::into_tableau` (direct and two-phase start), `Tableau::step` after every step,
//! `Tableau::solve_step_by_step` (stall counter, Bland switch, iteration limit).
use crate::case::Case;
use crate::gen_std::{self, DataClass};
use crate::props::c13;
use crate::rng::Rng;
use rooc::{CanonicalTransformError, EqualityConstraint, SimplexError, StandardLinearModel, StepAction, Tableau};

const STEP_CAP: usize = 40;
const SOLVE_LIMIT: i64 = 1000;

pub fn tab_sx(t: &Tableau) -> String {
    let mut s = format!("(tab (c{}{}) (a", if t.c_vec().is_empty() { "" } else { " " }, gen_std::nums(t.c_vec()));
    for r in t.a_matrix() { s.push_str(&format!(" ({})", gen_std::nums(r))); }
    s.push_str(&format!(") (b{}{}) (basis", if t.b_vec().is_empty() { "" } else { " " }, gen_std::nums(t.b_vec())));
    for i in t.in_basis() { s.push_str(&format!(" {}", i)); }
    s.push_str(&format!(") {} {} {})", gen_std::num(t.current_value()), gen_std::num(t.value_offset()), if t.flip_result() { "flip" } else { "noflip" }));
    s
}

fn canon_err(e: &CanonicalTransformError) -> String {
    match e {
        CanonicalTransformError::Raw(_) => "(err Raw)".into(),
        CanonicalTransformError::InvalidBasis(_) => "(err InvalidBasis)".into(),
        CanonicalTransformError::Infesible(_) => "(err Infesible)".into(),
        CanonicalTransformError::SimplexError(msg) => {
            let inner = if msg.contains("Unbounded") { "Unbounded" } else if msg.contains("IterationLimitReached") { "IterationLimitReached" } else { "Other" };
            format!("(err SimplexError {})", inner)
        }
    }
}
fn simplex_err(e: &SimplexError) -> &'static str {
    match e { SimplexError::Unbounded => "Unbounded", SimplexError::IterationLimitReached => "IterationLimitReached", SimplexError::Other => "Other" }
}

/// `SimplexStep`'s only native read access is `Display` ("Value:v\nname = c\n…"); f64 `Display` round-trips.
fn parse_step_display(s: &str) -> Option<(Vec<f64>, f64)> {
    let mut lines = s.lines();
    let v: f64 = lines.next()?.strip_prefix("Value:")?.parse().ok()?;
    let mut c = vec![];
    for l in lines { c.push(l.rsplit_once(" = ")?.1.parse().ok()?); }
    Some((c, v))
}

fn std_show(v: &rooc::verif_hooks::StandardView) -> String {
    let rows = v.rows.iter().map(|(c, b)| format!("{:?} = {}", c, b)).collect::<Vec<_>>().join("; ");
    format!("min {:?} s.t. {} (x >= 0)", v.objective, rows)
}

/// all cases of one standard-form problem
thread_local! {
    /// the standard form a problem was MEANT to be (what was handed to `StandardLinearModel::new`), recorded by
    /// `std_from`: the reference of the model request and of the oracle must not be what the constructor made of it
    /// (a constructor that drops or changes rows would otherwise go unnoticed on the tableau side)
    static INTENDED: std::cell::RefCell<Option<rooc::verif_hooks::StandardView>> = std::cell::RefCell::new(None);
}

pub fn problem(sm: &StandardLinearModel, tol: f64, tags: &[String], prefer: &[usize], cases: &mut Vec<Case>) {
    let built = rooc::verif_hooks::standard_view(sm);
    let intended = INTENDED.with(|c| c.borrow_mut().take());
    // (only the record of THIS model: lists of pre-built models consume a stale record harmlessly)
    let view = match intended {
        Some(i) if i.variables == built.variables && i.objective_offset.to_bits() == built.objective_offset.to_bits()
            && i.flip_objective == built.flip_objective
            && i.objective.iter().map(|x| x.to_bits()).eq(built.objective.iter().map(|x| x.to_bits())) => i,
        _ => built,
    };
    let ssx = c13::std_sx(&view);
    let show = std_show(&view);
    let tnum = gen_std::num(tol);
    // ---- canonical start
    let mut c0 = Case::default();
    c0.req = format!("tableau {} {}", tnum, ssx);
    c0.show = format!("into_tableau: {}", show);
    let mut t0tags = tags.to_vec();
    let sm2 = sm.clone();
    let start = match std::panic::catch_unwind(move || sm2.into_tableau()) {
        Err(_) => { c0.imp = "(err panic)".into(); c0.impl_violation = Some("into_tableau panicked".into()); c0.sig = Some("panic-into-tableau".into()); None }
        Ok(Err(e)) => { c0.imp = canon_err(&e); t0tags.push(format!("start:{}", c0.imp)); None }
        Ok(Ok(t)) => { c0.imp = format!("(ok {})", tab_sx(&t)); Some(t) }
    };
    let start_sx = c0.imp.clone();
    let Some(t0) = start else {
        c0.oracle = format!("check-trace {} {} {} (steps) (final none (solve none))", tnum, ssx, start_sx);
        c0.tags = t0tags;
        c0.nontrivial = true;
        cases.push(c0);
        return;
    };
    let two_phase = {
        // the direct start keeps the row order and only rescales; anything else went through phase 1
        let cols = view.variables.len();
        let indep = (0..cols).filter(|j| view.rows.iter().filter(|(r, _)| (r[*j]).abs() >= tol).count() == 1).count();
        indep < view.rows.len() || t0.a_matrix().len() != view.rows.len()
    };
    t0tags.push(if two_phase { "start:two-phase-or-fallback".into() } else { "start:direct".into() });
    if t0.a_matrix().len() < view.rows.len() { t0tags.push("start:redundant-row-dropped".into()); }
    // ---- step by step (public `step`, Dantzig's rule), every intermediate state recorded
    let mut steps_sx = vec![];
    let mut t = t0.clone();
    let mut status = "open";
    let mut seen_bases: Vec<Vec<usize>> = vec![{ let mut b = t.in_basis().clone(); b.sort(); b }];
    let mut step_cases = vec![];
    let (mut ties, mut degenerate, mut repeats) = (0, 0, 0);
    for k in 0..STEP_CAP {
        let before = tab_sx(&t);
        let prev_val = t.current_value();
        // ratio-test ties, measured on the state before the step (for the distribution only)
        let mut sc = Case::default();
        sc.req = format!("step {} ({}) {}", tnum, prefer.iter().map(|i| i.to_string()).collect::<Vec<_>>().join(" "), before);
        sc.show = format!("step {} of: {}", k, show);
        sc.tags = vec!["kind:step".into()];
        let mut tt = t.clone();
        let pf = prefer.to_vec();
        let r = std::panic::catch_unwind(move || { let r = tt.step(&pf); (r, tt) });
        match r {
            Err(_) => { sc.imp = "(err panic)".into(); sc.impl_violation = Some("step panicked".into()); sc.sig = Some("panic-step".into()); status = "panic"; step_cases.push(sc); break; }
            Ok((Err(e), _)) => { sc.imp = format!("(err {})", simplex_err(&e)); sc.tags.push(format!("action:{}", simplex_err(&e))); status = if matches!(e, SimplexError::Unbounded) { "unbounded" } else { "error" }; step_cases.push(sc); break; }
            Ok((Ok(StepAction::Finished), _)) => { sc.imp = "(ok finished)".into(); sc.tags.push("action:finished".into()); status = "finished"; step_cases.push(sc); break; }
            Ok((Ok(StepAction::Pivot { entering, leaving, ratio }), tn)) => {
                let after = tab_sx(&tn);
                let act = format!("(pivot {} {} {})", entering, leaving, gen_std::num(ratio));
                sc.imp = format!("(ok {} {})", act, after);
                sc.nontrivial = true;
                sc.tags.push("action:pivot".into());
                // distribution: ties in the ratio test, degenerate pivots
                let col: Vec<(f64, f64)> = t.a_matrix().iter().zip(t.b_vec()).map(|(r, b)| (r[entering], *b)).collect();
                let tied = col.iter().filter(|(a, b)| *a >= tol && ((b / a) - ratio).abs() < tol).count();
                if tied > 1 { ties += 1; sc.tags.push("ratio-tie".into()); }
                if (tn.current_value() - prev_val).abs() < tol { degenerate += 1; sc.tags.push("degenerate-pivot".into()); }
                steps_sx.push(format!("({} {})", act, after));
                t = tn;
                let mut b = t.in_basis().clone(); b.sort();
                if seen_bases.contains(&b) { repeats += 1; } else { seen_bases.push(b); }
                step_cases.push(sc);
            }
        }
    }
    // ---- the solver loop itself (stall counter, Bland switch, limit)
    let mut ts = t0.clone();
    let mut sv = Case::default();
    sv.req = format!("solve {} {} {}", tnum, SOLVE_LIMIT, tab_sx(&t0));
    sv.show = format!("solve_step_by_step({}): {}", SOLVE_LIMIT, show);
    sv.tags = vec!["kind:solve".into()];
    let solve_part;
    let r = std::panic::catch_unwind(move || { let r = ts.solve_step_by_step(SOLVE_LIMIT); (r, ts) });
    match r {
        Err(_) => { sv.imp = "(err panic)".into(); sv.impl_violation = Some("solve_step_by_step panicked".into()); sv.sig = Some("panic-solve".into()); solve_part = "(solve panic)".to_string(); }
        Ok((Err(e), ts)) => {
            sv.imp = format!("(solved {} {})", simplex_err(&e), tab_sx(&ts));
            sv.tags.push(format!("solve:{}", simplex_err(&e)));
            solve_part = format!("(solve {})", simplex_err(&e));
        }
        Ok((Ok(res), _)) => {
            let ft = res.result().tableau();
            let mut trace = String::new();
            let mut ok = true;
            for s in res.steps() {
                match parse_step_display(&s.to_string()) {
                    Some((c, v)) => trace.push_str(&format!(" (({}) {})", gen_std::nums(&c), gen_std::num(v))),
                    None => ok = false,
                }
            }
            if !ok { sv.impl_violation = Some("SimplexStep Display not parseable".into()); sv.sig = Some("harness-display".into()); }
            sv.imp = format!("(solved ok {} {} (values{}{}) {} (trace{}))", res.steps().len(), tab_sx(ft),
                if res.result().variables_values().is_empty() { "" } else { " " }, gen_std::nums(res.result().variables_values()),
                gen_std::num(res.result().optimal_value()), trace);
            sv.nontrivial = !res.steps().is_empty();
            sv.tags.push("solve:ok".into());
            // did the stall counter reach the Bland switch?  (needs > c+a+1 consecutive stalled pivots)
            let stall_limit = ft.c_vec().len() + ft.a_matrix().len() + 1;
            if res.steps().len() > stall_limit { sv.tags.push("solve:long-enough-for-bland".into()); }
            solve_part = format!("(solve ok {})", gen_std::num(-ft.current_value()));
        }
    }
    c0.oracle = format!("check-trace {} {} {} (steps{}{}) (final {} {})", tnum, ssx, start_sx,
        if steps_sx.is_empty() { "" } else { " " }, steps_sx.join(" "), status, solve_part);
    t0tags.push(format!("trace:{}", status));
    t0tags.push(format!("trace-len:{}", if steps_sx.len() >= 6 { "6+".to_string() } else { steps_sx.len().to_string() }));
    if ties > 0 { t0tags.push("trace:has-ratio-tie".into()); }
    if degenerate > 0 { t0tags.push("trace:has-degenerate-pivot".into()); }
    if repeats > 0 { t0tags.push("trace:dantzig-revisits-basis".into()); }
    t0tags.push("kind:tableau".into());
    c0.tags = t0tags;
    c0.nontrivial = true;
    cases.push(c0);
    cases.extend(step_cases);
    cases.push(sv);
}

fn std_from(obj: Vec<f64>, rows: Vec<(Vec<f64>, f64)>, flip: bool, offset: f64) -> StandardLinearModel {
    let n = obj.len();
    let vars = (0..n).map(|i| format!("v{}", i)).collect();
    let cons: Vec<EqualityConstraint> = rows.into_iter().map(|(c, b)| EqualityConstraint::new(c, b)).collect();
    let vars: Vec<String> = vars;
    let mut o = obj.clone(); o.resize(n, 0.0);
    let intended = rooc::verif_hooks::StandardView {
        variables: vars.clone(), objective: o, objective_offset: offset, flip_objective: flip,
        rows: cons.iter().map(|c| { let mut v = c.coefficients().clone(); v.resize(n, 0.0); (v, c.rhs()) }).collect(),
    };
    INTENDED.with(|c| *c.borrow_mut() = Some(intended));
    StandardLinearModel::new(obj, cons, vars, offset, flip)
}

/// random small standard-form problems built directly (not through the standardizer)
fn direct(r: &mut Rng, class: DataClass) -> (StandardLinearModel, Vec<String>) {
    let m = 1 + r.below(3);
    let n = m + r.below(4);
    let mut tags = vec!["stream:direct-std".to_string(), class.tag().to_string(), format!("size:{}x{}", m, n)];
    let mut rows: Vec<(Vec<f64>, f64)> = (0..m).map(|_| {
        ((0..n).map(|_| if r.chance(2, 5) { 0.0 } else { gen_std::value(r, class, -3, 4) }).collect(), gen_std::value(r, class, 0, 6))
    }).collect();
    match r.below(8) {
        0 if m >= 2 => { let src = rows[0].clone(); rows[1] = src; tags.push("shape:duplicate-row".into()); }
        1 if m >= 2 => { let src = rows[0].clone(); rows[1] = (src.0.iter().map(|x| x * 2.0).collect(), src.1 * 2.0); tags.push("shape:scaled-duplicate-row".into()); }
        2 if m >= 2 => { let src = rows[0].clone(); rows[1] = (src.0, src.1 + 1.0); tags.push("shape:inconsistent-rows".into()); }
        3 if m >= 3 => { let s: Vec<f64> = (0..n).map(|j| rows[0].0[j] + rows[1].0[j]).collect(); rows[2] = (s, rows[0].1 + rows[1].1); tags.push("shape:sum-row".into()); }
        4 => { for row in rows.iter_mut() { if r.chance(1, 2) { row.1 = 0.0; } } tags.push("shape:zero-rhs".into()); }
        6 | 7 => {
            // a row in which no variable appears: `0 = b` (b != 0: the problem is infeasible; b = 0: redundant)
            let i = r.below(m);
            let b = if r.chance(3, 4) { [3.0, 1.0, 0.5, 2.0][r.below(4)] } else { 0.0 };
            rows[i] = (vec![0.0; n], b);
            tags.push(if b != 0.0 { "shape:empty-row-nonzero-rhs".into() } else { "shape:empty-row-zero-rhs".into() });
        }
        5 => { // slack-like identity block: direct start
            for (i, row) in rows.iter_mut().enumerate() { for k in 0..m { if n >= m { row.0[n - m + k] = if k == i { 1.0 } else { 0.0 }; } } }
            tags.push("shape:identity-block".into());
        }
        _ => {}
    }
    let obj = (0..n).map(|_| if r.chance(1, 4) { 0.0 } else { gen_std::value(r, class, -3, 3) }).collect();
    (std_from(obj, rows, r.chance(1, 2), [0.0, 1.5][r.below(2)]), tags)
}

/// bounded-looking polytopes `min -c·x, A x + s = b` (direct start, several pivots, ties, degenerate vertices)
fn polytope(r: &mut Rng, class: DataClass) -> (StandardLinearModel, Vec<String>) {
    let m = 2 + r.below(4);
    let k = 2 + r.below(4);
    let mut rows = vec![];
    for i in 0..m {
        let mut c: Vec<f64> = (0..k).map(|_| if r.chance(1, 5) { 0.0 } else if r.chance(1, 6) { -gen_std::value(r, class, 1, 2) } else { gen_std::value(r, class, 1, 3) }).collect();
        for j in 0..m { c.push(if i == j { 1.0 } else { 0.0 }); }
        let b = if r.chance(1, 4) { 0.0 } else { gen_std::value(r, class, 1, 6).abs() };
        rows.push((c, b));
    }
    let mut obj: Vec<f64> = (0..k).map(|_| if r.chance(1, 6) { gen_std::value(r, class, 0, 2) } else { -gen_std::value(r, class, 1, 4).abs() }).collect();
    obj.extend(vec![0.0; m]);
    (std_from(obj, rows, r.chance(1, 2), 0.0), vec!["stream:direct-polytope".into(), class.tag().to_string(), format!("size:{}x{}", m, k + m)])
}

/// equality systems with a planted sparse non-negative solution (two-phase start, artificial drive-out)
fn planted_equalities(r: &mut Rng, class: DataClass) -> (StandardLinearModel, Vec<String>) {
    let m = 2 + r.below(2);
    let n = m + 1 + r.below(3);
    let x0: Vec<f64> = (0..n).map(|_| if r.chance(1, 2) { 0.0 } else { [1.0, 2.0, 0.5, 3.0][r.below(4)] }).collect();
    let mut rows: Vec<(Vec<f64>, f64)> = (0..m).map(|_| {
        let c: Vec<f64> = (0..n).map(|_| if r.chance(1, 3) { 0.0 } else { gen_std::value(r, class, -2, 3) }).collect();
        let b: f64 = c.iter().zip(&x0).map(|(a, x)| a * x).sum();
        (c, b)
    }).collect();
    let mut tags = vec!["stream:direct-planted-equalities".to_string(), class.tag().to_string(), format!("size:{}x{}", m, n)];
    if r.chance(1, 4) { let s: Vec<f64> = (0..n).map(|j| rows[0].0[j] - rows[1].0[j]).collect(); let b = rows[0].1 - rows[1].1; rows.push((s, b)); tags.push("shape:difference-row".into()); }
    let obj = (0..n).map(|_| gen_std::value(r, class, -2, 4)).collect();
    (std_from(obj, rows, false, 0.0), tags)
}

/// large magnitudes with near-equal ratios in the entering column: rows `a_i x + … + s_i = a_i (K + d_i)` with `K` up to
/// 1e8 and offsets `d_i` from below the absolute tolerance up to 1e3 (far above it, but below a RELATIVE 1e-5 of
/// `K`); the EARLIER row (smaller basic index, the one a tie-break would keep) often has the LARGER ratio.  `clean`
/// instances use powers of two and dyadic offsets >= 2^-10, so every exact quantity of the instance is far above the
/// tolerance and nothing can be attributed to sub-tolerance data.
fn large_magnitude(r: &mut Rng, clean: bool) -> (StandardLinearModel, Vec<String>) {
    let m = 2 + r.below(3);
    let k = 1 + r.below(3);
    let big = [1e5, 1e6, 2e7, 1e8, 3e7][r.below(5)];
    let kk = if clean { big } else { big + [0.0, 0.5, 17.0][r.below(3)] };
    let deltas: &[f64] = if clean { &[0.0009765625, 0.125, 1.0, 150.0, 1000.0, 64.0] } else { &gen_std::LARGE_DELTAS };
    // offsets in DEcreasing order with probability 1/2: the first candidate then has the largest ratio
    let mut ds: Vec<f64> = (0..m).map(|_| deltas[r.below(deltas.len())] * (if !clean && r.chance(1, 4) { -1.0 } else { 1.0 })).collect();
    if r.chance(1, 2) { ds.sort_by(|a, b| b.partial_cmp(a).unwrap()); }
    if clean { ds.dedup(); while ds.len() < m { let d = ds[ds.len() - 1] * 0.5 + 0.25; ds.push(d); } }
    let mut rows = vec![];
    for i in 0..m {
        let a = if clean { [1.0, 2.0, 4.0][r.below(3)] } else { [1.0, 2.0, 3.0, 1e4, 0.5][r.below(5)] };
        let mut c = vec![a];
        for _ in 1..k { c.push(if r.chance(1, 2) { 0.0 } else { r.range(-2, 3) as f64 }); }
        for j in 0..m { c.push(if i == j { 1.0 } else { 0.0 }); }
        rows.push((c, a * (kk + ds[i])));
    }
    let mut obj = vec![-1.0 - r.below(3) as f64];
    for _ in 1..k { obj.push(r.range(-1, 2) as f64 * 0.5); }
    obj.extend(vec![0.0; m]);
    (std_from(obj, rows, r.chance(1, 2), 0.0), vec!["stream:large-magnitude".into(), if clean { "large:clean-dyadic".into() } else { "large:mixed".into() }, format!("size:{}x{}", m, k + m)])
}

/// the tolerance predicates themselves, probed at small and LARGE arguments through the only native hook
/// (`float_lt`); `float_lt(a,b)` and `float_lt(b,a)` together determine `float_eq(a,b)` for `a != b`
fn tolerance_probes(r: &mut Rng, tol: f64, cases: &mut Vec<Case>) {
    let mut pairs: Vec<(f64, f64)> = vec![];
    for base in [0.0, 1.0, 3.0, 1e2, 1e3, 1e4, 1e5, 1e6, 2e7, 1e8, 1e9, -1e5, -2e7] {
        for d in [0.0, tol * 0.5, tol * 0.999, tol, tol * 1.001, 2.0 * tol, 1e-4, 1e-3, 0.125, 1.0, 150.0, 1e3] {
            pairs.push((base, base + d)); pairs.push((base + d, base)); pairs.push((base - d, base));
        }
        let b: f64 = base;
        for rel in [0.5e-5, 0.99e-5, 1.01e-5, 2e-5] { let d = b.abs().max(1.0) * rel; pairs.push((base, base + d)); pairs.push((base + d, base)); }
    }
    for _ in 0..200 {
        let a = gen_std::value(r, DataClass::Large, -9, 9);
        let b = if r.chance(1, 2) { a + gen_std::LARGE_DELTAS[r.below(gen_std::LARGE_DELTAS.len())] } else { gen_std::value(r, DataClass::Large, -9, 9) };
        pairs.push((a, b)); pairs.push((b, a));
    }
    for (a, b) in pairs {
        let mut c = Case::default();
        c.req = format!("flt {} {} {}", gen_std::num(tol), gen_std::num(a), gen_std::num(b));
        c.imp = format!("(ok {})", rooc::verif_hooks::float_lt_hook(a, b));
        c.show = format!("float_lt({:?}, {:?})", a, b);
        c.tags = vec!["kind:tolerance-probe".into(), if a.abs().max(b.abs()) >= 1e4 { "probe:large".into() } else { "probe:small".into() },
            if (a - b).abs() < tol { "probe:within-tolerance".into() } else { "probe:apart".into() }];
        c.nontrivial = a != b;
        cases.push(c);
    }
}

/// textbook degenerate / cycling instances (`max` problems written as `min` of the negated objective,
/// one slack per row)
fn classics() -> Vec<(&'static str, StandardLinearModel)> {
    let with_slacks = |obj: Vec<f64>, rows: Vec<(Vec<f64>, f64)>| {
        let m = rows.len();
        let n = obj.len();
        let mut o = obj.clone(); o.extend(vec![0.0; m]);
        let rs = rows.into_iter().enumerate().map(|(i, (mut c, b))| { c.resize(n, 0.0); for k in 0..m { c.push(if k == i { 1.0 } else { 0.0 }); } (c, b) }).collect();
        std_from(o, rs, true, 0.0)
    };
    vec![
        // Chvátal p.31 (cycles with largest-coefficient + smallest-subscript ties)
        ("classic:chvatal-cycle", with_slacks(vec![-10.0, 57.0, 9.0, 24.0],
            vec![(vec![0.5, -5.5, -2.5, 9.0], 0.0), (vec![0.5, -1.5, -0.5, 1.0], 0.0), (vec![1.0, 0.0, 0.0, 0.0], 1.0)])),
        // Beale 1955
        ("classic:beale-cycle", with_slacks(vec![-0.75, 150.0, -0.02, 6.0],
            vec![(vec![0.25, -60.0, -0.04, 9.0], 0.0), (vec![0.5, -90.0, -0.02, 3.0], 0.0), (vec![0.0, 0.0, 1.0, 0.0], 1.0)])),
        // Marshall–Suurballe
        ("classic:marshall-suurballe", with_slacks(vec![-2.3, -2.15, 13.55, 0.4],
            vec![(vec![0.4, 0.2, -1.4, -0.2], 0.0), (vec![-7.8, -1.4, 7.8, 0.4], 0.0)])),
        // Kuhn's example
        ("classic:kuhn-cycle", with_slacks(vec![-2.0, -3.0, 1.0, 12.0],
            vec![(vec![-2.0, -9.0, 1.0, 9.0], 0.0), (vec![1.0 / 3.0, 1.0, -1.0 / 3.0, -2.0], 0.0)])),
        // Klee–Minty n = 3
        ("classic:klee-minty-3", with_slacks(vec![-100.0, -10.0, -1.0],
            vec![(vec![1.0, 0.0, 0.0], 1.0), (vec![20.0, 1.0, 0.0], 100.0), (vec![200.0, 20.0, 1.0], 10000.0)])),
        // degenerate vertex in 2d / redundant constraint through the optimum
        ("classic:degenerate-2d", with_slacks(vec![-1.0, -1.0],
            vec![(vec![1.0, 0.0], 1.0), (vec![0.0, 1.0], 1.0), (vec![1.0, 1.0], 2.0), (vec![1.0, 2.0], 3.0)])),
    ]
}

/// variants of the two instances that cycle under Dantzig's rule with this ratio-test tie-break (Chvátal,
/// Beale): extra non-binding rows and extra never-entering columns keep the cycle but change sizes (and
/// with them the stall limit); they are what exercises the Bland branch of `find_h`.
fn cycling_variant(r: &mut Rng) -> StandardLinearModel {
    let (obj, rows): (Vec<f64>, Vec<(Vec<f64>, f64)>) = if r.chance(1, 2) {
        (vec![-10.0, 57.0, 9.0, 24.0], vec![(vec![0.5, -5.5, -2.5, 9.0], 0.0), (vec![0.5, -1.5, -0.5, 1.0], 0.0), (vec![1.0, 0.0, 0.0, 0.0], 1.0)])
    } else {
        (vec![-0.75, 150.0, -0.02, 6.0], vec![(vec![0.25, -60.0, -0.04, 9.0], 0.0), (vec![0.5, -90.0, -0.02, 3.0], 0.0), (vec![0.0, 0.0, 1.0, 0.0], 1.0)])
    };
    let extra_cols = r.below(3);
    let extra_rows = r.below(3);
    let k = obj.len() + extra_cols;
    let mut obj = obj; for _ in 0..extra_cols { obj.push(1.0 + r.below(5) as f64); }
    let mut rows: Vec<(Vec<f64>, f64)> = rows.into_iter().map(|(mut c, b)| { for _ in 0..extra_cols { c.push(r.range(0, 3) as f64); } (c, b) }).collect();
    for _ in 0..extra_rows { let mut c = vec![0.0; k]; c[r.below(k)] = 1.0; c[r.below(k)] += 1.0; rows.push((c, 50.0 + r.below(50) as f64)); }
    let m = rows.len();
    obj.extend(vec![0.0; m]);
    let rs = rows.into_iter().enumerate().map(|(i, (mut c, b))| { for j in 0..m { c.push(if i == j { 1.0 } else { 0.0 }); } (c, b) }).collect();
    std_from(obj, rs, true, 0.0)
}

pub fn generate(seed: u64, n: usize, thorough: bool, _corpus: Option<&str>) -> Vec<Case> {
    let mut r = Rng::new(seed).fork(); // fork: `Rng::new(s+1)` is `Rng::new(s)` shifted by one draw, the fork decorrelates seeds
    let tol = gen_std::measured_tolerance();
    let mut cases = vec![];
    for (name, sm) in classics() {
        problem(&sm, tol, &["stream:classic".to_string(), name.to_string()], &[], &mut cases);
    }
    for _ in 0..(if thorough { 80 } else { 8 }) {
        let sm = cycling_variant(&mut r);
        problem(&sm, tol, &["stream:cycling-variants".to_string()], &[], &mut cases);
    }
    tolerance_probes(&mut r, tol, &mut cases);
    for i in 0..(if thorough { 1500 } else { 120 }) {
        let (sm, tags) = large_magnitude(&mut r, i % 2 == 0);
        problem(&sm, tol, &tags, &[], &mut cases);
    }
    // seeded known defect (liveness of the pipeline): a reduced cost below the absolute tolerance
    problem(&std_from(vec![-2.0, -0.00000999, 0.0, 0.0], vec![(vec![1.0, 0.0, -1.0, 0.0], 3.0), (vec![1.0, 0.0, 0.0, 1.0], 3.0)], false, 0.0),
        tol, &["stream:seeded-known-defect".to_string()], &[], &mut cases);
    // seeded known defect (liveness): two ratios 9e-6 apart count as a tie, the row with the larger one is kept
    problem(&std_from(vec![-2.0, 0.0, 0.0], vec![(vec![10000.0, 1.0, 0.0], 200000000000.09998), (vec![10000.0, 0.0, 1.0], 200000000000.00998)], false, 0.0),
        tol, &["stream:seeded-known-defect".to_string(), "seeded:ratio-tie-within-tolerance".to_string()], &[], &mut cases);
    // rows in which no variable appears: `0 = 3` makes the problem infeasible (`Infesible` expected), `0 = 0` is redundant
    for (rows, tag) in [
        (vec![(vec![1.0, 1.0], 2.0), (vec![0.0, 0.0], 3.0)], "empty-row:nonzero-rhs"),
        (vec![(vec![0.0, 0.0], 3.0)], "empty-row:nonzero-rhs"),
        (vec![(vec![1.0, 1.0], 2.0), (vec![0.0, 0.0], 0.0)], "empty-row:zero-rhs"),
        (vec![(vec![1.0, -1.0], 0.0), (vec![0.0, 0.0], 0.5), (vec![2.0, 1.0], 4.0)], "empty-row:nonzero-rhs"),
    ] {
        problem(&std_from(vec![1.0, -1.0], rows, false, 0.0), tol, &["stream:empty-row".to_string(), tag.to_string()], &[], &mut cases);
    }
    // ---- C13's engine: every kind pattern of small models, standardised by the real code
    let (maxv, maxr) = if thorough { (3, 3) } else { (2, 2) };
    for nv in 1..=maxv {
        for vp in gen_std::patterns(&gen_std::VKINDS4, nv) {
            for nr in 0..=maxr {
                for rp in gen_std::patterns(&gen_std::RKINDS, nr) {
                    let opt = if r.chance(1, 2) { rooc::OptimizationType::Min } else { rooc::OptimizationType::Max };
                    let s = gen_std::spec(&mut r, &vp, &rp, opt, DataClass::SmallInt);
                    if let Ok(sm) = gen_std::build(&s).into_standard_form() {
                        problem(&sm, tol, &["stream:standardised-exhaustive-kinds".to_string(), s.class.tag().to_string()], &[], &mut cases);
                    }
                }
            }
        }
    }
    let classes = [DataClass::SmallInt, DataClass::SmallInt, DataClass::Dyadic, DataClass::Decimal, DataClass::TolBoundary];
    for i in 0..n {
        let class = classes[i % classes.len()];
        if i % 2 == 0 {
            let s = gen_std::random_spec(&mut r, 3, 3, &gen_std::VKINDS7, class);
            if let Ok(sm) = gen_std::build(&s).into_standard_form() {
                problem(&sm, tol, &["stream:standardised-random".to_string(), class.tag().to_string()], &[], &mut cases);
            }
        } else {
            let (sm, tags) = match i % 8 { 1 => direct(&mut r, class), 3 | 7 => polytope(&mut r, class), _ => planted_equalities(&mut r, class) };
            // now and then with a preference list for the ratio-test tie-break (as phase 1 uses it)
            let prefer: Vec<usize> = if r.chance(1, 5) { (0..2).map(|_| r.below(6)).collect() } else { vec![] };
            let mut tags = tags;
            if !prefer.is_empty() { tags.push("step:with-preference-list".into()); }
            problem(&sm, tol, &tags, &prefer, &mut cases);
        }
    }
    cases
}
