//! C03 — end-to-end answers: source TEXT (independent printer) through `RoocSolver … auto_solver`,
//! judged by the Lean reference interpreter (exhaustive enumeration with `Sem.eval`).
use crate::case::Case;
use crate::gen_model::{self, ModelCfg, VarDecl};
use crate::rng::Rng;
use crate::sx;
use crate::text::{Printer, Spelling};
use rooc::model_transformer::Model;
use rooc::{auto_solver, MILPValue, RoocSolver, RoocSolverError, SolverError, VariableType};
use std::sync::mpsc;
use std::time::Duration;

pub fn solver_error(e: &SolverError) -> String {
    match e {
        SolverError::Infeasible => "(infeasible)".into(),
        SolverError::Unbounded => "(unbounded)".into(),
        other => format!("(solver-error {})", sx::q(&format!("{:?}", other).chars().take(60).collect::<String>())),
    }
}

/// runs the one-shot entry point in a helper thread so that a hang is observed instead of suffered
pub fn solve_text(src: &str) -> String { solve_full(src, None).0 }

/// the same run, also dumped IN FULL when the compiled model is handed in (for the by-name view of the solution): every
/// arm of `RoocSolverError` and the whole returned `LpSolution`, in the encoding of the Lean model `Pipeline.solveUsingAuto`
pub fn solve_full(src: &str, lm: Option<rooc::LinearModel>) -> (String, Option<String>) {
    let (tx, rx) = mpsc::channel();
    let s = src.to_string();
    std::thread::spawn(move || {
        let r = std::panic::catch_unwind(|| {
            let solver = match RoocSolver::try_new(s) { Ok(s) => s, Err(e) => return (format!("(compile-error parse {})", sx::q(&format!("{:?}", e).chars().take(40).collect::<String>())), Some("(parse-error)".into())) };
            match solver.solve_using(auto_solver) {
                Ok(sol) => {
                    let asg = sol.assignment().iter().map(|a| {
                        let v: f64 = match a.value { MILPValue::Bool(b) => if b { 1.0 } else { 0.0 }, MILPValue::Int(i) => i as f64, MILPValue::Real(r) => r };
                        format!("({} {})", sx::q(&a.name), sx::num(v))
                    }).collect::<Vec<_>>().join(" ");
                    let summary = format!("(solution {} (assign{}{}))", sx::num(sol.value()), if asg.is_empty() { "" } else { " " }, asg);
                    let full = lm.as_ref().map(|lm| format!("(solved {})", crate::gen_lp::result(&crate::child::pack_milp(lm, Ok(sol)))));
                    (summary, full)
                }
                Err(RoocSolverError::Transform(e)) => (format!("(compile-error transform {})", sx::q(&format!("{:?}", e).chars().take(40).collect::<String>())), Some("(transform-error)".into())),
                Err(RoocSolverError::Linearization(e)) => (format!("(compile-error linearize {})", crate::props::c01::lin_error(&e)), Some(format!("(linearization {})", crate::props::c01::lin_error(&e)))),
                Err(RoocSolverError::Solver(e)) => (solver_error(&e), Some(format!("(solver (err {}))", crate::child::err_variant(&e)))),
            }
        });
        let _ = tx.send(r.unwrap_or_else(|_| ("(panic)".to_string(), Some("(panic)".to_string()))));
    });
    rx.recv_timeout(Duration::from_secs(20)).unwrap_or_else(|_| ("(hang)".to_string(), None))
}

fn discrete_decls(r: &mut Rng, n: usize, with_real: bool) -> Vec<VarDecl> {
    let names = ["x", "y", "z", "w"];
    (0..n).map(|i| {
        let ty = match r.below(if with_real { 6 } else { 5 }) {
            0 | 1 | 2 => VariableType::Boolean,
            3 | 4 => { let lo = r.range(-2, 1) as i32; VariableType::IntegerRange(lo, lo + r.range(0, 3) as i32) }
            _ => { let lo = r.range(-2, 1) as f64; VariableType::Real(lo, lo + r.range(1, 4) as f64) }
        };
        VarDecl { name: names[i].to_string(), ty }
    }).collect()
}

pub fn program(r: &mut Rng, with_real: bool) -> (Model, String) {
    let cfg = ModelCfg { max_vars: 3, depth: if r.chance(1, 2) { 2 } else { 3 }, logic: true, piecewise: true, unbounded: false, fractional: false, strict_cmp: false, hostile: false };
    let nv = 1 + r.below(3);
    let ds = discrete_decls(r, nv, with_real);
    let (mut m, ds) = gen_model::model_with(r, &cfg, ds);
    // one program in four also asserts a CHAIN of one connective over the Boolean variables, nested to the right or to the
    // left (the printer leaves out the parentheses the documented associativity makes redundant)
    let bools: Vec<String> = ds.iter().filter(|d| matches!(d.ty, VariableType::Boolean)).map(|d| d.name.clone()).collect();
    if !bools.is_empty() && r.chance(1, 4) {
        use rooc::model_transformer::{Constraint, Exp};
        let v = |r: &mut Rng| Exp::Variable(r.pick(&bools).clone());
        let mk = |k: usize, a: Exp, b: Exp| match k { 0 => Exp::Implies(Box::new(a), Box::new(b)), 1 => Exp::Iff(Box::new(a), Box::new(b)), 2 => Exp::Xor(Box::new(a), Box::new(b)),
            3 => Exp::BinOp(rooc::BinOp::Or, Box::new(a), Box::new(b)), _ => Exp::BinOp(rooc::BinOp::And, Box::new(a), Box::new(b)) };
        let k = r.below(5);
        let n = 2 + r.below(2);
        let mut e = v(r);
        let right = r.chance(1, 2);
        for _ in 0..n { let x = if r.chance(1, 4) { Exp::Not(Box::new(v(r))) } else { v(r) }; e = if right { mk(k, x, e) } else { mk(k, e, x) }; }
        // a second connective around it now and then (precedence between the connectives)
        if r.chance(1, 3) { let k2 = r.below(5); let x = v(r); e = if r.chance(1, 2) { mk(k2, x, e) } else { mk(k2, e, x) }; }
        let mut cons = m.constraints().clone();
        cons.push(Constraint::new_logic_assertion(e, "chain".into()));
        m = gen_model::build(m.objective().objective_type.clone(), m.objective().rhs.clone(), cons, &ds);
    }
    let sp = Spelling { aliases: r.chance(1, 2), implicit_mul: r.chance(1, 2), redundant_parens: r.chance(1, 2), named_consts: r.chance(1, 3), minimal_parens: r.chance(1, 2) };
    let mut pr = r.fork();
    let mut p = Printer { r: &mut pr, sp, consts: vec![] };
    let text = p.program(&m);
    (m, text)
}

/// MIXED programs: 1-2 discrete declarations, 1-2 bounded Real / NonNegativeReal declarations; every side is
/// `D ± Σ cᵢ·realᵢ` with `D` an arbitrary (piecewise-linear, logic) expression over the DISCRETE variables, so that each
/// residual of the reference's discrete enumeration is a small LP over the reals.
pub fn mixed_program(r: &mut Rng) -> (Model, String) {
    use rooc::model_transformer::{Constraint, Exp};
    use rooc::{BinOp, OptimizationType};
    let nd = 1 + r.below(2);
    let nr = 1 + r.below(2);
    let mut ds = discrete_decls(r, nd, false);
    let disc = ds.clone();
    let rnames = ["u", "v"];
    let mut reals = vec![];
    for k in 0..nr {
        let ty = if r.chance(1, 2) { let lo = r.range(-3, 1) as f64; VariableType::Real(lo, lo + r.range(1, 5) as f64) }
                 else { let lo = r.range(0, 2) as f64; VariableType::NonNegativeReal(lo, lo + r.range(1, 5) as f64) };
        reals.push(VarDecl { name: rnames[k].to_string(), ty });
    }
    ds.extend(reals.clone());
    let fractional = r.chance(1, 3);
    let cfg = ModelCfg { max_vars: 2, depth: 2, logic: true, piecewise: true, unbounded: false, fractional, strict_cmp: false, hostile: false };
    let lin = |r: &mut Rng| -> Exp {
        let mut e: Option<Exp> = None;
        for d in &reals {
            if r.chance(1, 4) { continue; }
            let t = if r.chance(1, 3) { Exp::Variable(d.name.clone()) } else { Exp::BinOp(BinOp::Mul, Box::new(Exp::Number(gen_model::coef(r, fractional))), Box::new(Exp::Variable(d.name.clone()))) };
            e = Some(match e { None => t, Some(p) => Exp::BinOp(if r.chance(2, 3) { BinOp::Add } else { BinOp::Sub }, Box::new(p), Box::new(t)) });
        }
        e.unwrap_or(Exp::Variable(reals[0].name.clone()))
    };
    let side = |r: &mut Rng| -> Exp {
        let l = lin(r);
        match r.below(4) {
            0 => l,
            1 => Exp::BinOp(BinOp::Add, Box::new(gen_model::num_exp(r, &disc, &cfg, 2)), Box::new(l)),
            2 => Exp::BinOp(BinOp::Sub, Box::new(l), Box::new(gen_model::num_exp(r, &disc, &cfg, 1))),
            _ => Exp::BinOp(BinOp::Add, Box::new(l), Box::new(Exp::Number(gen_model::constant(r, fractional)))),
        }
    };
    let mut cons = vec![];
    for k in 0..1 + r.below(3) {
        let rhs = if r.chance(2, 3) { Exp::Number(gen_model::constant(r, fractional)) } else { gen_model::num_exp(r, &disc, &cfg, 1) };
        cons.push(Constraint::new(side(r), gen_model::comparison(r), rhs, if r.chance(1, 2) { String::new() } else { format!("m{}", k) }));
    }
    if r.chance(1, 2) {
        // a purely discrete constraint next to the mixed ones
        let has_bool = disc.iter().any(|d| matches!(d.ty, VariableType::Boolean));
        if has_bool && r.chance(1, 2) { cons.push(Constraint::new_logic_assertion(gen_model::bool_exp(r, &disc, &cfg, 2), "a".into())); }
        else { cons.push(Constraint::new(gen_model::num_exp(r, &disc, &cfg, 2), gen_model::comparison(r), Exp::Number(gen_model::constant(r, false)), "d".into())); }
    }
    let opt = match r.below(5) { 0 | 1 => OptimizationType::Min, 2 | 3 => OptimizationType::Max, _ => OptimizationType::Satisfy };
    let obj = if matches!(opt, OptimizationType::Satisfy) { Exp::Number(0.0) } else { side(r) };
    let m = gen_model::build(opt, obj, cons, &ds);
    let sp = Spelling { aliases: r.chance(1, 2), implicit_mul: r.chance(1, 2), redundant_parens: r.chance(1, 2), named_consts: r.chance(1, 3), minimal_parens: r.chance(1, 2) };
    let mut pr = r.fork();
    let text = Printer { r: &mut pr, sp, consts: vec![] }.program(&m);
    (m, text)
}

pub fn one(m: &Model, text: &str, tag: &str) -> Case {
    let mut c = Case::default();
    let out = solve_text(text);
    c.imp = out.clone();
    c.show = text.replace('\n', " ; ");
    // the compiler half of the pipeline is also diffed against the composed Lean model (bounds + linearizer ports)
    if let Ok(parsed) = rooc::RoocParser::new(text.to_string()).parse_and_transform(vec![], &indexmap::IndexMap::new()) {
        c.req = format!("linearize-full {} {}", sx::model(&parsed), sx::num(1e-9));
        c.imp = match rooc::Linearizer::linearize(parsed) { Ok(lm) => format!("(ok {})", sx::lin_model(&lm)), Err(e) => crate::props::c01::lin_error(&e) };
        c.tags.push("compiled-diff".into());
    }
    c.oracle = format!("ref {} {}", sx::model(m), out);
    c.tags.extend(vec![tag.into(), out.trim_start_matches('(').split(|ch| ch == ' ' || ch == ')').next().unwrap_or("").to_string()]);
    c.nontrivial = out.starts_with("(solution") || out.starts_with("(infeasible");
    let mut fl = crate::props::c01::flags(m);
    if m.domain().values().all(|d| !d.is_used()) { fl.push("no-used-variables".into()); }
    if !fl.is_empty() { c.sig = Some(fl.join(",")); }
    if out == "(panic)" || out == "(hang)" { c.impl_violation = Some(format!("one-shot solve {} on: {}", out, c.show)); }
    c
}

/// the glue of `RoocSolver::solve_using` (lib.rs: `map_err(Linearization)`, `func(&linearized)`, `map_err(Solver)`) diffed in
/// full against `Pipeline.solveUsingAuto`: the model runs the composed compiler port and rooc's wrapper port on microlp's RAW
/// answer for the compiled model (mirror in the child worker); compared: which arm, and the whole returned `LpSolution`.
pub fn glue(text: &str, tag: &str) -> Option<Case> {
    let parse = || rooc::RoocParser::new(text.to_string()).parse_and_transform(vec![], &indexmap::IndexMap::new()).ok();
    let parsed = parse()?;
    let ms = sx::model(&parsed);
    let lm = rooc::Linearizer::linearize(parsed).ok();
    let mlp = match &lm {
        Some(lm) => crate::gen_lp::mlp(&crate::child::solve(crate::child::SolverKind::RawMilp, lm, &crate::child::Opts::default(), Duration::from_secs(3)))?,
        None => "(merr pre)".to_string(),
    };
    let (summary, full) = solve_full(text, lm);
    let full = full?;
    if full == "(transform-error)" || full == "(parse-error)" { return None; }
    let mut c = Case::default();
    c.req = format!("solve-using {} {} {}", ms, sx::num(1e-9), mlp);
    c.imp = full.clone();
    c.show = text.replace('\n', " ; ");
    c.tags = vec![tag.into(), "glue-diff".into(), format!("glue-{}", full.trim_start_matches('(').split(|ch| ch == ' ' || ch == ')').next().unwrap_or(""))];
    c.nontrivial = summary.starts_with("(solution");
    Some(c)
}

/// the WHOLE default path from text, `RoocSolver::try_new(text)?.solve_using(auto_solver)`, against the single model function
/// `Pipeline.solveProg` on programs of the iteration fragment (generator and protocol form of `pre_expand::program_cases`:
/// `where` constants, `define` with iterations, indexed names, iterated constraints): which arm (parse error of `try_new`,
/// Transform, Linearization, Solver) and the whole returned `LpSolution`
pub fn text_cases(r: &mut Rng, n: usize) -> Vec<Case> {
    let mut out = vec![];
    let mut progs: Vec<(String, String, Vec<String>)> = vec![];
    for pc in crate::pre_expand::program_cases(r, n) {
        let Some(sxp) = pc.req.strip_prefix("transformprog ") else { continue };
        // `show` of these cases is "<program text>\n=> <model dump>"
        let text = match pc.show.rfind("\n=> ") { Some(i) => pc.show[..i].to_string(), None => pc.show.clone() };
        progs.push((sxp.to_string(), text, pc.tags.clone()));
    }
    // fixed programs for the arms the random stream rarely reaches: the parser's arity rule (`abs` with two operands: a
    // CompilationError of `try_new`), a clean iterated program that is solved, a redeclaration (Transform error of `transform`)
    progs.push(("(prog (consts) (min (blk abs (var \"z\") (var \"z\"))) (cons (con none (var \"z\") (ge (lit 0)) ())) (decls (decl ((plain \"z\")) (real (lit 0) (lit 9)) ())))".into(),
        "min abs{ z, z }\ns.t.\n    z >= 0\ndefine\n    z as Real(0, 9)\n".into(), vec!["fragment:fixed".into()]));
    progs.push(("(prog (consts (\"k\" (lit 2))) (max (agg sum ((it (\"i\") (range (lit 0) (var \"k\") true))) (cvar \"x\" (var \"i\")))) (cons (con (cv \"c\" (var \"i\")) (cvar \"x\" (var \"i\")) (le (var \"i\")) ((it (\"i\") (range (lit 0) (var \"k\") true))))) (decls (decl ((cv \"x\" (var \"i\"))) (real (lit 0) (lit 9)) ((it (\"i\") (range (lit 0) (var \"k\") true))))))".into(),
        "max sum(i in 0..=k) { x_i }\ns.t.\n    c_i: x_i <= i for i in 0..=k\nwhere\n    let k = 2\ndefine\n    x_i as Real(0, 9) for i in 0..=k\n".into(), vec!["fragment:fixed".into()]));
    progs.push(("(prog (consts) (min (var \"z\")) (cons (con none (var \"z\") (ge (lit 0)) ())) (decls (decl ((plain \"z\")) (real (lit 0) (lit 9)) ()) (decl ((plain \"z\")) bool ())))".into(),
        "min z\ns.t.\n    z >= 0\ndefine\n    z as Real(0, 9)\n    z as Boolean\n".into(), vec!["fragment:fixed".into()]));
    for (sxp, text, ptags) in progs {
        let sxp = sxp.as_str();
        let pc = Case { tags: ptags, ..Case::default() };
        // microlp's raw answer for the model the real front end + linearizer produce (none when an earlier stage fails)
        let lm = rooc::RoocParser::new(text.clone()).parse_and_transform(vec![], &indexmap::IndexMap::new()).ok()
            .and_then(|m| std::panic::catch_unwind(|| rooc::Linearizer::linearize(m)).ok().and_then(|r| r.ok()));
        let mlp = match &lm {
            Some(lm) => match crate::gen_lp::mlp(&crate::child::solve(crate::child::SolverKind::RawMilp, lm, &crate::child::Opts::default(), Duration::from_secs(3))) { Some(m) => m, None => continue },
            None => "(merr pre)".to_string(),
        };
        let (summary, full) = solve_full(&text, lm);
        let Some(mut full) = full else { continue };
        // the type checker is a parameter of the model: its verdict on this text
        let tc = std::panic::catch_unwind(|| rooc::RoocParser::new(text.clone()).type_check(&vec![], &indexmap::IndexMap::new()).is_ok()).unwrap_or(false);
        if full == "(transform-error)" { full = if tc { "(transform-error transform)".into() } else { "(transform-error type)".into() }; }
        let mut c = Case::default();
        c.req = format!("solve-prog {} {} {} {}", sxp, if tc { 1 } else { 0 }, sx::num(1e-9), mlp);
        c.imp = full.clone();
        c.tags.push(if tc { "type-checks".into() } else { "type-check-fails".into() });
        c.show = text.replace('\n', " ; ");
        c.tags.extend(vec!["text-diff".to_string(), format!("text-{}", full.trim_start_matches('(').split(|ch| ch == ' ' || ch == ')').next().unwrap_or(""))]);
        c.tags.extend(pc.tags.iter().filter(|t| t.starts_with("fragment:")).cloned());
        c.nontrivial = summary.starts_with("(solution");
        if full == "(panic)" { c.impl_violation = Some(format!("one-shot solve panicked on: {}", c.show)); c.sig = Some("panic".into()); }
        out.push(c);
    }
    out
}

pub fn generate(seed: u64, n: usize, _thorough: bool, _corpus: Option<&str>) -> Vec<Case> {
    let mut r = Rng::new(seed).fork();
    let mut out = vec![];
    for i in 0..n {
        let (m, text) = program(&mut r, false);
        out.push(one(&m, &text, if i % 2 == 0 { "discrete" } else { "discrete" }));
        // every second program also goes through the full diff of the `solve_using` glue
        if i % 2 == 0 { if let Some(c) = glue(&text, "discrete") { out.push(c); } }
        // every third round a MIXED program (discrete + bounded Real), judged by the mixed reference
        if i % 3 == 0 { let (m, text) = mixed_program(&mut r); out.push(one(&m, &text, "mixed")); }
    }
    // a dedicated sub-stream with its OWN generator (independent of how much randomness the streams above consume): chains of
    // one operator printed without parentheses, see `chain_programs`
    out.extend(chain_programs(seed, if n >= 2000 { n / 12 } else { 48 }));
    out.extend(nested_logic_programs(seed, if n >= 2000 { n / 24 } else { 32 }));
    out.extend(const_arith_programs(seed, if n >= 2000 { n / 16 } else { 40 }));
    out.extend(brace_block_programs(seed, if n >= 2000 { n / 16 } else { 40 }));
    out.extend(constant_row_programs(seed, if n >= 2000 { n / 24 } else { 32 }));
    // fixed programs for the arms the random stream rarely reaches: `Linearization(..)` errors, the variable-free branch of
    // `auto_solver` (solved / infeasible), an unbounded model
    for text in [
        "min x * y\ns.t.\n    c: x + y >= 1\ndefine\n    x as Boolean\n    y as Boolean",
        "max x / y\ns.t.\n    c: x + y <= 1\ndefine\n    x as Boolean\n    y as Boolean",
        "min x / 0\ns.t.\n    c: x >= 0\ndefine\n    x as Boolean",
        "min abs{x}\ns.t.\n    c: abs{x} >= 1\ndefine\n    x as Real",
        "min x\ns.t.\n    c: max{x, y} >= 1\ndefine\n    x as Real\n    y as Real",
        "min 3\ns.t.\n    c: 1 <= 2",
        "max 3 + 4\ns.t.\n    c: 2 <= 1",
        "min x\ns.t.\n    c: x <= 5\ndefine\n    x as Real",
        "max x + y\ns.t.\n    c: x + y <= 3\ndefine\n    x as IntegerRange(0, 2)\n    y as Boolean",
    ] {
        if let Some(mut c) = glue(text, "fixed") { c.tags.push("glue-fixed".into()); out.push(c); }
    }
    // the whole default path from TEXT on the iteration fragment
    out.extend(text_cases(&mut r, (n / 8).max(20).min(1500)));
    crate::child::shutdown();
    out
}

// ======================================================================================================
// CHAINS: `a implies b implies c`, `a - b - c`, `x / 2 / 5`, `a iff b iff c`, … written WITHOUT parentheses, so that the
// text means what the documented associativity says (implies groups to the right, everything else to the left).  Each program
// is kept only if the OTHER grouping would change the answer (brute force over the declared domain, below), so a flipped
// associativity of any of these operators changes the verdict or the optimum of at least the programs of its kind.
// (`iff`/`xor`/`and`/`or` are associative on 0/1 values: their chains are generated for the parse path, nothing can separate
// the groupings semantically.)

use rooc::model_transformer::{Constraint as SrcConstraint, Exp as SrcExp};

fn chain_eval(e: &SrcExp, env: &indexmap::IndexMap<String, f64>) -> Option<f64> {
    use rooc::{BinOp, UnOp};
    let t = |x: f64| x != 0.0;
    let b = |x: bool| if x { 1.0 } else { 0.0 };
    Some(match e {
        SrcExp::Number(v) => *v,
        SrcExp::Variable(n) => *env.get(n)?,
        SrcExp::Not(x) | SrcExp::UnOp(UnOp::Not, x) => b(!t(chain_eval(x, env)?)),
        SrcExp::UnOp(UnOp::Neg, x) => -chain_eval(x, env)?,
        SrcExp::Implies(x, y) => b(!t(chain_eval(x, env)?) || t(chain_eval(y, env)?)),
        SrcExp::Iff(x, y) => b(t(chain_eval(x, env)?) == t(chain_eval(y, env)?)),
        SrcExp::Xor(x, y) => b(t(chain_eval(x, env)?) != t(chain_eval(y, env)?)),
        SrcExp::BinOp(op, x, y) => { let (l, r) = (chain_eval(x, env)?, chain_eval(y, env)?); match op {
            BinOp::Add => l + r, BinOp::Sub => l - r, BinOp::Mul => l * r, BinOp::Div => if r == 0.0 { return None } else { l / r },
            BinOp::And => b(t(l) && t(r)), BinOp::Or => b(t(l) || t(r)), BinOp::Xor => b(t(l) != t(r)), BinOp::Implies => b(!t(l) || t(r)), BinOp::Iff => b(t(l) == t(r)) } }
        SrcExp::Abs(x) => chain_eval(x, env)?.abs(),
        SrcExp::Min(es) => { let mut m = f64::INFINITY; if es.is_empty() { return None; } for x in es { m = m.min(chain_eval(x, env)?); } m }
        SrcExp::Max(es) => { let mut m = f64::NEG_INFINITY; if es.is_empty() { return None; } for x in es { m = m.max(chain_eval(x, env)?); } m }
        SrcExp::And(es) => { let mut all = true; for x in es { all &= t(chain_eval(x, env)?); } b(all) }
        SrcExp::Or(es) => { let mut any = false; for x in es { any |= t(chain_eval(x, env)?); } b(any) }
    })
}

/// optimum of a tiny model by enumeration: `None` = infeasible, `Some(v)` = optimal value (0 for satisfy)
fn chain_brute(m: &Model, ds: &[VarDecl]) -> Option<f64> {
    use rooc::{Comparison, OptimizationType};
    let doms: Vec<Vec<f64>> = ds.iter().map(|d| match d.ty { VariableType::Boolean => vec![0.0, 1.0], VariableType::IntegerRange(lo, hi) => (lo..=hi).map(|v| v as f64).collect(), _ => vec![0.0] }).collect();
    let mut idx = vec![0usize; ds.len()];
    let mut best: Option<f64> = None;
    loop {
        let env: indexmap::IndexMap<String, f64> = ds.iter().enumerate().map(|(i, d)| (d.name.clone(), doms[i][idx[i]])).collect();
        let ok = m.constraints().iter().all(|c| if c.is_logic_assertion() { chain_eval(c.lhs(), &env) == Some(1.0) } else {
            match (chain_eval(c.lhs(), &env), chain_eval(c.rhs(), &env)) { (Some(l), Some(r)) => match c.constraint_type() {
                Comparison::LessOrEqual => l <= r + 1e-9, Comparison::GreaterOrEqual => l >= r - 1e-9, Comparison::Equal => (l - r).abs() <= 1e-9, Comparison::Less => l < r, Comparison::Greater => l > r }, _ => false } });
        if ok { if let Some(v) = chain_eval(&m.objective().rhs, &env) {
            best = Some(match (best, &m.objective().objective_type) { (None, _) => v, (Some(b), OptimizationType::Min) => b.min(v), (Some(b), OptimizationType::Max) => b.max(v), (Some(b), _) => b }); } }
        let mut k = 0;
        loop { if k == ds.len() { return best; } idx[k] += 1; if idx[k] < doms[k].len() { break; } idx[k] = 0; k += 1; }
    }
}

pub fn chain_programs(seed: u64, count: usize) -> Vec<Case> {
    use rooc::{BinOp, Comparison, OptimizationType};
    let mut r = Rng::new(seed ^ 0x5ca1ab1e_c4a1).fork();
    let bx = |e: SrcExp| Box::new(e);
    let mut out = vec![];
    let mut made = 0usize;
    let mut attempts = 0usize;
    while made < count && attempts < count * 60 {
        attempts += 1;
        // kind: 0..=5 implies chains (bare / negated / under or / under and / under iff / alias), 6 sub, 7 div, 8 sub+add, 9 iff, 10 xor
        let kind = match made % 12 { k @ 0..=5 => k, 6 | 7 => 6, 8 => 7, 9 => 8, 10 => 9, _ => 10 };
        let len = 3 + r.below(2);
        let logic = kind <= 5 || kind >= 9;
        let names = ["a", "b", "c", "d"];
        let (ds, operands, texts): (Vec<VarDecl>, Vec<SrcExp>, Vec<String>) = if logic {
            let ds: Vec<VarDecl> = names.iter().map(|n| VarDecl { name: n.to_string(), ty: VariableType::Boolean }).collect();
            let mut os = vec![]; let mut ts = vec![];
            for _ in 0..len { let hi = 3 + r.below(2); let n = r.pick(&names[..hi]).to_string(); if r.chance(1, 4) {
                    os.push(SrcExp::Not(bx(SrcExp::Variable(n.clone())))); ts.push(if r.chance(1, 2) { format!("(not {})", n) } else { format!("(!{})", n) });
                } else { os.push(SrcExp::Variable(n.clone())); ts.push(n); } }
            (ds, os, ts)
        } else {
            let ds: Vec<VarDecl> = names[..3].iter().map(|n| VarDecl { name: n.to_string(), ty: VariableType::IntegerRange(0, 3) }).collect();
            let mut os = vec![]; let mut ts = vec![];
            for i in 0..len {
                let constant = kind == 7 && i > 0 || r.chance(1, 4);
                if constant { let k = *r.pick(&[2.0, 3.0, 4.0, 5.0]); os.push(SrcExp::Number(k)); ts.push(format!("{}", k as i64)); }
                else { let n = r.pick(&names[..3]).to_string(); os.push(SrcExp::Variable(n.clone())); ts.push(n); }
            }
            (ds, os, ts)
        };
        // operator of each link
        let link = |i: usize, r: &mut Rng| -> (u8, &'static str) { match kind {
            0..=5 => (0, if kind == 5 || r.chance(1, 3) { "->" } else { "implies" }), 6 => (1, "-"), 7 => (2, "/"),
            8 => if i % 2 == 0 { (1, "-") } else { (3, "+") }, 9 => (4, if r.chance(1, 3) { "<->" } else { "iff" }), _ => (5, "xor") } };
        let links: Vec<(u8, &str)> = (0..len - 1).map(|i| link(i, &mut r)).collect();
        let mk = |op: u8, a: SrcExp, b: SrcExp| match op { 0 => SrcExp::Implies(bx(a), bx(b)), 1 => SrcExp::BinOp(BinOp::Sub, bx(a), bx(b)), 2 => SrcExp::BinOp(BinOp::Div, bx(a), bx(b)),
            3 => SrcExp::BinOp(BinOp::Add, bx(a), bx(b)), 4 => SrcExp::Iff(bx(a), bx(b)), _ => SrcExp::Xor(bx(a), bx(b)) };
        let left = |os: &[SrcExp]| { let mut e = os[0].clone(); for i in 1..os.len() { e = mk(links[i - 1].0, e, os[i].clone()); } e };
        let right = |os: &[SrcExp]| { let mut e = os[os.len() - 1].clone(); for i in (0..os.len() - 1).rev() { e = mk(links[i].0, os[i].clone(), e); } e };
        let right_assoc = kind <= 5;
        let (good, bad) = if right_assoc { (right(&operands), left(&operands)) } else { (left(&operands), right(&operands)) };
        let mut chain_text = texts[0].clone();
        for i in 1..len { chain_text = format!("{} {} {}", chain_text, links[i - 1].1, texts[i]); }
        // context
        let other = "d";
        let wrap = |e: SrcExp| -> SrcExp { match kind { 1 => SrcExp::Not(bx(e)), 2 => SrcExp::BinOp(BinOp::Or, bx(e), bx(SrcExp::Variable(other.into()))),
            3 => SrcExp::BinOp(BinOp::And, bx(SrcExp::Variable(other.into())), bx(e)), 4 => SrcExp::Iff(bx(e), bx(SrcExp::Variable(other.into()))), _ => e } };
        let line = match kind { 1 => format!("not ({})", chain_text), 2 => format!("({}) or {}", chain_text, other), 3 => format!("{} and ({})", other, chain_text),
            4 => format!("({}) iff {}", chain_text, other), _ => chain_text.clone() };
        let (cons_good, cons_bad, cons_text): (SrcConstraint, SrcConstraint, String) = if logic {
            (SrcConstraint::new_logic_assertion(wrap(good.clone()), "chain".into()), SrcConstraint::new_logic_assertion(wrap(bad.clone()), "chain".into()), format!("chain: {}", line))
        } else {
            let cmp = *r.pick(&[Comparison::LessOrEqual, Comparison::GreaterOrEqual, Comparison::Equal]);
            let k = if kind == 7 { *r.pick(&[0.0, 1.0, 2.0]) } else { r.range(-2, 3) as f64 };
            let ks = if k < 0.0 { format!("(0 - {})", -k as i64) } else { format!("{}", k as i64) };
            let cs = match cmp { Comparison::LessOrEqual => "<=", Comparison::GreaterOrEqual => ">=", _ => "=" };
            (SrcConstraint::new(good.clone(), cmp, SrcExp::Number(k), "chain".into()), SrcConstraint::new(bad.clone(), cmp, SrcExp::Number(k), "chain".into()), format!("chain: {} {} {}", line, cs, ks))
        };
        // an objective with distinct weights, so that the optimum names the assignment
        let opt = if r.chance(1, 2) { OptimizationType::Min } else { OptimizationType::Max };
        let mut obj: Option<SrcExp> = None; let mut obj_text = String::new();
        for (i, d) in ds.iter().enumerate() {
            let w = (1u32 << i) as f64;
            let term = if i == 0 { SrcExp::Variable(d.name.clone()) } else { SrcExp::BinOp(BinOp::Mul, bx(SrcExp::Number(w)), bx(SrcExp::Variable(d.name.clone()))) };
            obj_text = if i == 0 { d.name.clone() } else { format!("{} + {} * {}", obj_text, w as i64, d.name) };
            obj = Some(match obj { None => term, Some(o) => SrcExp::BinOp(BinOp::Add, bx(o), bx(term)) });
        }
        let obj = obj.unwrap();
        let m_good = gen_model::build(opt.clone(), obj.clone(), vec![cons_good], &ds);
        let m_bad = gen_model::build(opt.clone(), obj, vec![cons_bad], &ds);
        // keep the program only if the other grouping changes the answer (associative connectives cannot)
        let separable = !(kind >= 9);
        if separable && chain_brute(&m_good, &ds) == chain_brute(&m_bad, &ds) { continue; }
        if separable && chain_brute(&m_good, &ds).is_none() && r.chance(2, 3) { continue; }   // prefer feasible programs
        let decl = if logic { format!("    {} as Boolean", ds.iter().map(|d| d.name.clone()).collect::<Vec<_>>().join(", ")) }
                   else { format!("    {} as IntegerRange(0, 3)", ds.iter().map(|d| d.name.clone()).collect::<Vec<_>>().join(", ")) };
        let text = format!("{} {}\ns.t.\n    {}\ndefine\n{}", if matches!(opt, OptimizationType::Min) { "min" } else { "max" }, obj_text, cons_text, decl);
        let mut c = one(&m_good, &text, "chain");
        c.tags.push(format!("chain-{}", match kind { 0 => "implies", 1 => "implies-negated", 2 => "implies-under-or", 3 => "implies-under-and", 4 => "implies-under-iff", 5 => "implies-alias", 6 => "sub", 7 => "div", 8 => "sub-add", 9 => "iff", _ => "xor" }));
        if separable { c.tags.push("chain-separating".into()); }
        out.push(c);
        made += 1;
    }
    out
}

// ======================================================================================================
// NESTED exclusive-or / biconditional: an `xor` / `iff` BELOW an or / implies / negated and, asserted, with the other operands
// pinned so that the satisfying assignments need the xor to be true (resp. the iff to be false) - the one-directional witness
// lowering of the linearizer.  Own generator, fixed size.

pub fn nested_logic_programs(seed: u64, count: usize) -> Vec<Case> {
    use rooc::{BinOp, Comparison, OptimizationType};
    let mut r = Rng::new(seed ^ 0x0e57ed_10c1c).fork();
    let bx = |e: SrcExp| Box::new(e);
    let names = ["a", "b", "c", "d"];
    let ds: Vec<VarDecl> = names.iter().map(|n| VarDecl { name: n.to_string(), ty: VariableType::Boolean }).collect();
    let mut out = vec![];
    for i in 0..count {
        let v = |r: &mut Rng, n: &str| if r.chance(1, 5) { SrcExp::Not(Box::new(SrcExp::Variable(n.into()))) } else { SrcExp::Variable(n.into()) };
        let (a, b, c, d) = (v(&mut r, "a"), v(&mut r, "b"), v(&mut r, "c"), v(&mut r, "d"));
        let xor = SrcExp::Xor(bx(a.clone()), bx(b.clone()));
        let iff = SrcExp::Iff(bx(a.clone()), bx(b.clone()));
        let e = match i % 8 {
            0 => SrcExp::BinOp(BinOp::Or, bx(xor), bx(c.clone())),
            1 => SrcExp::Implies(bx(iff), bx(c.clone())),
            2 => SrcExp::Not(bx(SrcExp::BinOp(BinOp::And, bx(iff), bx(c.clone())))),
            3 => SrcExp::Implies(bx(c.clone()), bx(xor)),
            4 => SrcExp::BinOp(BinOp::Or, bx(xor), bx(SrcExp::Iff(bx(c.clone()), bx(d.clone())))),
            5 => SrcExp::Or(vec![c.clone(), xor, d.clone()]),
            6 => SrcExp::Implies(bx(SrcExp::BinOp(BinOp::And, bx(c.clone()), bx(iff))), bx(d.clone())),
            _ => SrcExp::BinOp(BinOp::Or, bx(SrcExp::Not(bx(iff))), bx(c.clone())),
        };
        let mut cons = vec![SrcConstraint::new_logic_assertion(e, "nested".into())];
        // pin the other operands so that the xor / iff side has to carry the assertion
        let pin = |n: &str, val: f64| SrcConstraint::new(SrcExp::Variable(n.into()), Comparison::Equal, SrcExp::Number(val), String::new());
        match r.below(4) {
            0 => { cons.push(pin("c", if matches!(c, SrcExp::Not(_)) { 1.0 } else { 0.0 })); }
            1 => { cons.push(pin("c", if matches!(c, SrcExp::Not(_)) { 1.0 } else { 0.0 })); cons.push(pin("d", if matches!(d, SrcExp::Not(_)) { 1.0 } else { 0.0 })); }
            2 => { cons.push(pin("a", 1.0)); cons.push(pin("b", 1.0)); }
            _ => {}
        }
        let opt = if r.chance(1, 2) { OptimizationType::Min } else { OptimizationType::Max };
        let mut obj = SrcExp::Variable("a".into());
        for (k, n) in names.iter().enumerate().skip(1) { obj = SrcExp::BinOp(BinOp::Add, bx(obj), bx(SrcExp::BinOp(BinOp::Mul, bx(SrcExp::Number((1u32 << k) as f64)), bx(SrcExp::Variable(n.to_string()))))); }
        let m = gen_model::build(opt, obj, cons, &ds);
        let mut pr = r.fork();
        let text = Printer { r: &mut pr, sp: Spelling { aliases: r.chance(1, 2), implicit_mul: false, redundant_parens: false, named_consts: false, minimal_parens: r.chance(1, 2) }, consts: vec![] }.program(&m);
        let mut c = one(&m, &text, "nested-logic");
        c.tags.push(format!("nested-logic-{}", i % 8));
        out.push(c);
    }
    out
}

// ======================================================================================================
// WHERE-CONSTANTS DEFINED BY ARITHMETIC on literals of mixed kinds (integer / integer with a non-integer quotient, integer -
// float, float / integer, integer / float, products, a constant built from another constant).  The TEXT carries the arithmetic,
// the abstract model handed to the reference carries the EXACT value (all operands dyadic, so f64 arithmetic is exact).  The
// constant decides the optimum (`min x s.t. x >= k` over integers, `max y s.t. y <= k` over a bounded Real).  Own generator.

pub fn const_arith_programs(seed: u64, count: usize) -> Vec<Case> {
    use rooc::{BinOp, Comparison, OptimizationType};
    let mut r = Rng::new(seed ^ 0xc0257_a217_u64).fork();
    let bx = |e: SrcExp| Box::new(e);
    let mut out = vec![];
    for i in 0..count {
        // (text of the definition(s), exact value of `k`)
        let ints = [1i64, 2, 3, 5, 6, 7, 9, 10, 11, 13];
        let evens = [2i64, 4, 8];
        let floats = [0.25f64, 0.5, 1.5, 2.5, 0.75, 1.25];
        let fl = |v: f64| format!("{}", v);
        let (defs, k): (String, f64) = match i % 10 {
            0 | 1 => { let a = *r.pick(&ints); let b = *r.pick(&evens); (format!("    let k = {} / {}\n", a, b), a as f64 / b as f64) }
            2 => { let a = *r.pick(&ints); let f = *r.pick(&floats); (format!("    let k = {} - {}\n", a, fl(f)), a as f64 - f) }
            3 => { let a = *r.pick(&ints); let f = *r.pick(&[0.5f64, 1.5, 2.5, 0.25]); (format!("    let k = {} / {}\n", a, fl(f)), a as f64 / f) }
            4 => { let f = *r.pick(&[7.5f64, 4.5, 10.5, 2.5]); let b = *r.pick(&evens); (format!("    let k = {} / {}\n", fl(f), b), f / b as f64) }
            5 => { let a = *r.pick(&ints); let f = *r.pick(&floats); (format!("    let k = {} * {}\n", a, fl(f)), a as f64 * f) }
            6 => { let a = *r.pick(&ints); let b = *r.pick(&evens); let c = *r.pick(&ints); (format!("    let h = {} / {}\n    let k = h + {}\n", a, b, c), a as f64 / b as f64 + c as f64) }
            7 => { let a = *r.pick(&ints); let b = *r.pick(&evens); let c = *r.pick(&ints); (format!("    let k = ({} + {}) / {}\n", a, c, b), (a + c) as f64 / b as f64) }
            8 => { let f = *r.pick(&floats); let a = *r.pick(&ints); (format!("    let k = {} - {}\n", fl(f), a), f - a as f64) }
            _ => { let a = *r.pick(&ints); let b = *r.pick(&evens); let f = *r.pick(&floats); (format!("    let k = {} / {} - {}\n", a, b, fl(f)), a as f64 / b as f64 - f) }
        };
        // how the constant is used
        let use_real = r.chance(1, 2);
        let (ds, body, cons, opt, obj): (Vec<VarDecl>, String, Vec<SrcConstraint>, OptimizationType, SrcExp) = if use_real {
            // max / min a bounded Real against k
            let lo = -8.0; let hi = 30.0;
            let ds = vec![VarDecl { name: "y".into(), ty: VariableType::Real(lo, hi) }];
            let up = r.chance(1, 2);
            let c = SrcConstraint::new(SrcExp::Variable("y".into()), if up { Comparison::LessOrEqual } else { Comparison::GreaterOrEqual }, SrcExp::Number(k), "c".into());
            (ds, format!("{} y\ns.t.\n    c: y {} k\n", if up { "max" } else { "min" }, if up { "<=" } else { ">=" }), vec![c], if up { OptimizationType::Max } else { OptimizationType::Min }, SrcExp::Variable("y".into()))
        } else {
            // an integer variable: `min x s.t. x >= k` (ceil) or `max x s.t. 2 * x <= 2 * k`-style through a coefficient
            let ds = vec![VarDecl { name: "x".into(), ty: VariableType::IntegerRange(-10, 40) }];
            match r.below(3) {
                0 => (ds, "min x\ns.t.\n    c: x >= k\n".into(), vec![SrcConstraint::new(SrcExp::Variable("x".into()), Comparison::GreaterOrEqual, SrcExp::Number(k), "c".into())], OptimizationType::Min, SrcExp::Variable("x".into())),
                1 => (ds, "max x\ns.t.\n    c: 4 * x <= 4 * k\n".into(), vec![SrcConstraint::new(SrcExp::BinOp(BinOp::Mul, bx(SrcExp::Number(4.0)), bx(SrcExp::Variable("x".into()))), Comparison::LessOrEqual, SrcExp::BinOp(BinOp::Mul, bx(SrcExp::Number(4.0)), bx(SrcExp::Number(k))), "c".into())], OptimizationType::Max, SrcExp::Variable("x".into())),
                _ => (ds, "min x + k\ns.t.\n    c: x + k >= 1\n".into(), vec![SrcConstraint::new(SrcExp::BinOp(BinOp::Add, bx(SrcExp::Variable("x".into())), bx(SrcExp::Number(k))), Comparison::GreaterOrEqual, SrcExp::Number(1.0), "c".into())], OptimizationType::Min, SrcExp::BinOp(BinOp::Add, bx(SrcExp::Variable("x".into())), bx(SrcExp::Number(k)))),
            }
        };
        let decl = ds.iter().map(|d| match d.ty { VariableType::Real(lo, hi) => format!("    {} as Real(0 - {}, {})", d.name, -lo, hi), VariableType::IntegerRange(lo, hi) => format!("    {} as IntegerRange(0 - {}, {})", d.name, -lo, hi), _ => String::new() }).collect::<Vec<_>>().join("\n");
        let text = format!("{}where\n{}define\n{}", body, defs, decl);
        let m = gen_model::build(opt, obj, cons, &ds);
        let mut c = one(&m, &text, "const-arith");
        c.tags.push(format!("const-arith-{}", i % 10));
        out.push(c);
    }
    out
}

// ======================================================================================================
// CONSTANT ROWS ONLY: programs in which NO decision variable is used (literals and where-constants only) with 2-4 constant
// rows and every truth pattern - in particular an EARLIER row false and the LAST row true.  (`auto_solver` decides such a
// model on the spot; every row has to hold.)  Left-hand sides avoid the literals 0 / 1 (folded as logic values).  Own generator.

pub fn constant_row_programs(seed: u64, count: usize) -> Vec<Case> {
    use rooc::{Comparison, OptimizationType};
    let mut r = Rng::new(seed ^ 0x0c0257_20a5_u64).fork();
    let mut out = vec![];
    for i in 0..count {
        let k = r.range(2, 9) as f64;
        let nrows = 2 + r.below(3);
        // the truth pattern of the rows: rotate through the interesting ones
        let pattern: Vec<bool> = match i % 6 {
            0 => { let mut p = vec![true; nrows]; p[0] = false; p }                       // first false, last true
            1 => { let mut p = vec![true; nrows]; p[nrows - 2] = false; p }               // the one before the last false
            2 => vec![true; nrows],
            3 => { let mut p = vec![true; nrows]; p[nrows - 1] = false; p }               // last false
            4 => { let mut p = vec![false; nrows]; p[nrows - 1] = true; p }               // only the last true
            _ => (0..nrows).map(|_| r.chance(1, 2)).collect(),
        };
        let mut cons = vec![]; let mut lines = String::new();
        for (j, holds) in pattern.iter().enumerate() {
            // `k cmp c` or `c cmp k` with the constant spelled `k` (where-constant) or as a literal
            let cmp = *r.pick(&[Comparison::LessOrEqual, Comparison::GreaterOrEqual, Comparison::Equal]);
            let other = match (cmp, *holds) {
                (Comparison::LessOrEqual, true) => k + r.range(0, 3) as f64, (Comparison::LessOrEqual, false) => k - r.range(1, 3) as f64,
                (Comparison::GreaterOrEqual, true) => k - r.range(0, 3) as f64, (Comparison::GreaterOrEqual, false) => k + r.range(1, 3) as f64,
                (_, true) => k, (_, false) => k + r.range(1, 3) as f64,
            };
            let cs = match cmp { Comparison::LessOrEqual => "<=", Comparison::GreaterOrEqual => ">=", _ => "=" };
            let lhs_text = if r.chance(2, 3) { "k".to_string() } else { format!("{}", k as i64) };
            let rhs_text = if other < 0.0 { format!("(0 - {})", -other as i64) } else { format!("{}", other as i64) };
            lines.push_str(&format!("    r{}: {} {} {}\n", j, lhs_text, cs, rhs_text));
            cons.push(SrcConstraint::new(SrcExp::Number(k), cmp, SrcExp::Number(other), format!("r{}", j)));
        }
        let (opt, head) = match r.below(3) { 0 => (OptimizationType::Min, "min k + 2"), 1 => (OptimizationType::Max, "max k + 2"), _ => (OptimizationType::Min, "min k") };
        let obj = if head.ends_with("+ 2") { SrcExp::BinOp(rooc::BinOp::Add, Box::new(SrcExp::Number(k)), Box::new(SrcExp::Number(2.0))) } else { SrcExp::Number(k) };
        // a declared but unused variable now and then (still no USED decision variable)
        let unused = r.chance(1, 3);
        let ds: Vec<VarDecl> = if unused { vec![VarDecl { name: "u".into(), ty: VariableType::Boolean }] } else { vec![] };
        let text = format!("{}\ns.t.\n{}where\n    let k = {}\n{}", head, lines, k as i64, if unused { "define\n    u as Boolean" } else { "" });
        let m = gen_model::build(opt, obj, cons, &ds);
        let mut c = one(&m, text.trim_end(), "constant-rows");
        c.tags.push(format!("constant-rows-{}", i % 6));
        out.push(c);
    }
    out
}

// ======================================================================================================
// BRACE BLOCKS WITH A REPEATED OPERAND: `avg { x, y, x }` is `(2x + y) / 3`, `xor { a, b, a }` is `b` - every operand counts,
// also one that is written twice.  (For min / max / all / any a repetition changes nothing; those are generated for the parse
// path.)  A program of the sensitive kinds is kept only if dropping the repeated operands would change the answer.  Own generator.

pub fn brace_block_programs(seed: u64, count: usize) -> Vec<Case> {
    use rooc::{BinOp, Comparison, OptimizationType};
    let mut r = Rng::new(seed ^ 0xb2ace_b10c_u64).fork();
    let bx = |e: SrcExp| Box::new(e);
    let mut out = vec![];
    let mut made = 0usize; let mut attempts = 0usize;
    while made < count && attempts < count * 60 {
        attempts += 1;
        let kind = made % 10;   // 0-4 avg, 5-7 xor, 8 all/any, 9 min/max
        let arith = kind <= 4 || kind == 9;
        let names: Vec<&str> = if arith { vec!["x", "y", "z"] } else { vec!["a", "b", "c"] };
        let ds: Vec<VarDecl> = names.iter().map(|n| VarDecl { name: n.to_string(), ty: if arith { VariableType::IntegerRange(0, 4) } else { VariableType::Boolean } }).collect();
        // operands with at least one verbatim repetition
        let nops = 3 + r.below(2);
        let mut ops: Vec<(SrcExp, String)> = vec![];
        for _ in 0..nops - 1 {
            let n = r.pick(&names).to_string();
            if arith && r.chance(1, 4) { let k = r.range(1, 3); ops.push((SrcExp::BinOp(BinOp::Add, bx(SrcExp::Variable(n.clone())), bx(SrcExp::Number(k as f64))), format!("{} + {}", n, k))); }
            else if !arith && r.chance(1, 5) { ops.push((SrcExp::Not(bx(SrcExp::Variable(n.clone()))), format!("not {}", n))); }
            else { ops.push((SrcExp::Variable(n.clone()), n)); }
        }
        let rep = ops[r.below(ops.len())].clone();
        let at = r.below(ops.len() + 1);
        ops.insert(at, rep);
        let dedup: Vec<(SrcExp, String)> = { let mut seen: Vec<String> = vec![]; ops.iter().filter(|(_, t)| if seen.contains(t) { false } else { seen.push(t.clone()); true }).cloned().collect() };
        let block = |head: &str, os: &[(SrcExp, String)]| format!("{} {{ {} }}", head, os.iter().map(|(_, t)| t.clone()).collect::<Vec<_>>().join(", "));
        let avg = |os: &[(SrcExp, String)]| { let mut sum = os[0].0.clone(); for (e, _) in &os[1..] { sum = SrcExp::BinOp(BinOp::Add, bx(sum), bx(e.clone())); } SrcExp::BinOp(BinOp::Div, bx(sum), bx(SrcExp::Number(os.len() as f64))) };
        let xorf = |os: &[(SrcExp, String)]| { let mut e = os[0].0.clone(); for (x, _) in &os[1..] { e = SrcExp::Xor(bx(e), bx(x.clone())); } e };
        // the expression, the one a de-duplicating front end would build, and the text
        let (good, bad, text_e): (SrcExp, SrcExp, String) = match kind {
            0..=4 => (avg(&ops), avg(&dedup), block("avg", &ops)),
            5..=7 => (xorf(&ops), xorf(&dedup), block("xor", &ops)),
            8 => if r.chance(1, 2) { (SrcExp::And(ops.iter().map(|o| o.0.clone()).collect()), SrcExp::And(dedup.iter().map(|o| o.0.clone()).collect()), block("all", &ops)) }
                 else { (SrcExp::Or(ops.iter().map(|o| o.0.clone()).collect()), SrcExp::Or(dedup.iter().map(|o| o.0.clone()).collect()), block("any", &ops)) },
            _ => if r.chance(1, 2) { (SrcExp::Min(ops.iter().map(|o| o.0.clone()).collect()), SrcExp::Min(dedup.iter().map(|o| o.0.clone()).collect()), block("min", &ops)) }
                 else { (SrcExp::Max(ops.iter().map(|o| o.0.clone()).collect()), SrcExp::Max(dedup.iter().map(|o| o.0.clone()).collect()), block("max", &ops)) },
        };
        // weights 1, 2, 4 in the objective
        let opt = if r.chance(1, 2) { OptimizationType::Min } else { OptimizationType::Max };
        let mut wobj = SrcExp::Variable(names[0].into()); let mut wtext = names[0].to_string();
        for (i, n) in names.iter().enumerate().skip(1) { let w = (1u32 << i) as f64; wobj = SrcExp::BinOp(BinOp::Add, bx(wobj), bx(SrcExp::BinOp(BinOp::Mul, bx(SrcExp::Number(w)), bx(SrcExp::Variable(n.to_string()))))); wtext = format!("{} + {} * {}", wtext, w as i64, n); }
        let mk = |e: &SrcExp, r: &mut Rng, form: usize, k: f64, cmp: Comparison| -> (Vec<SrcConstraint>, SrcExp) {
            let _ = r;
            if !arith { (vec![SrcConstraint::new_logic_assertion(e.clone(), "blk".into())], wobj.clone()) }
            else if form == 0 { (vec![SrcConstraint::new(e.clone(), cmp, SrcExp::Number(k), "blk".into())], wobj.clone()) }
            else { (vec![SrcConstraint::new(wobj.clone(), Comparison::LessOrEqual, SrcExp::Number(k + 6.0), "cap".into())], e.clone()) }
        };
        let form = if arith && r.chance(1, 3) { 1 } else { 0 };
        let k = r.range(1, 3) as f64 + if r.chance(1, 2) { 0.5 } else { 0.0 };
        let cmp = *r.pick(&[Comparison::LessOrEqual, Comparison::GreaterOrEqual]);
        let (cg, og) = mk(&good, &mut r, form, k, cmp);
        let (cb, ob) = mk(&bad, &mut r, form, k, cmp);
        let m_good = gen_model::build(opt.clone(), og, cg, &ds);
        let m_bad = gen_model::build(opt.clone(), ob, cb, &ds);
        let sensitive = kind <= 7;
        if sensitive && chain_brute(&m_good, &ds) == chain_brute(&m_bad, &ds) { continue; }
        let cs = match cmp { Comparison::LessOrEqual => "<=", _ => ">=" };
        let body = if !arith { format!("{} {}\ns.t.\n    blk: {}\n", if matches!(opt, OptimizationType::Min) { "min" } else { "max" }, wtext, text_e) }
            else if form == 0 { format!("{} {}\ns.t.\n    blk: {} {} {}\n", if matches!(opt, OptimizationType::Min) { "min" } else { "max" }, wtext, text_e, cs, k) }
            else { format!("{} {}\ns.t.\n    cap: {} <= {}\n", if matches!(opt, OptimizationType::Min) { "min" } else { "max" }, text_e, wtext, k + 6.0) };
        let decl = format!("    {} as {}", names.join(", "), if arith { "IntegerRange(0, 4)" } else { "Boolean" });
        let text = format!("{}define\n{}", body, decl);
        let mut c = one(&m_good, &text, "brace-block");
        c.tags.push(format!("brace-block-{}", match kind { 0..=4 => "avg", 5..=7 => "xor", 8 => "all-any", _ => "min-max" }));
        if sensitive { c.tags.push("brace-block-separating".into()); }
        out.push(c);
        made += 1;
    }
    out
}
