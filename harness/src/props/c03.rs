//! C03 — end-to-end answers: source TEXT (independent printer) through `RoocSolver … auto_solver`,
//! judged by the Lean reference interpreter (exhaustive enumeration with `Sem.eval`).
use crate::case::Case;
use crate::gen_model::{self, ModelCfg, VarDecl};
use crate::rng::Rng;
use crate::sx;
use crate::text::{Printer, Spelling};
use rooc::model_transformer::Model;
use rooc::{auto_solver, MILPValue, RoocSolver, RoocSolverError, SolverError, VariableType};
use std::sync::mpsc;
use std::time::Duration;

pub fn solver_error(e: &SolverError) -> String {
    match e {
        SolverError::Infeasible => "(infeasible)".into(),
        SolverError::Unbounded => "(unbounded)".into(),
        other => format!("(solver-error {})", sx::q(&format!("{:?}", other).chars().take(60).collect::<String>())),
    }
}

/// runs the one-shot entry point in a helper thread so that a hang is observed instead of suffered
pub fn solve_text(src: &str) -> String {
    let (tx, rx) = mpsc::channel();
    let s = src.to_string();
    std::thread::spawn(move || {
        let r = std::panic::catch_unwind(|| {
            let solver = match RoocSolver::try_new(s) { Ok(s) => s, Err(e) => return format!("(compile-error parse {})", sx::q(&format!("{:?}", e).chars().take(40).collect::<String>())) };
            match solver.solve_using(auto_solver) {
                Ok(sol) => {
                    let asg = sol.assignment().iter().map(|a| {
                        let v: f64 = match a.value { MILPValue::Bool(b) => if b { 1.0 } else { 0.0 }, MILPValue::Int(i) => i as f64, MILPValue::Real(r) => r };
                        format!("({} {})", sx::q(&a.name), sx::num(v))
                    }).collect::<Vec<_>>().join(" ");
                    format!("(solution {} (assign{}{}))", sx::num(sol.value()), if asg.is_empty() { "" } else { " " }, asg)
                }
                Err(RoocSolverError::Transform(e)) => format!("(compile-error transform {})", sx::q(&format!("{:?}", e).chars().take(40).collect::<String>())),
                Err(RoocSolverError::Linearization(e)) => format!("(compile-error linearize {})", crate::props::c01::lin_error(&e)),
                Err(RoocSolverError::Solver(e)) => solver_error(&e),
            }
        });
        let _ = tx.send(r.unwrap_or_else(|_| "(panic)".to_string()));
    });
    rx.recv_timeout(Duration::from_secs(20)).unwrap_or_else(|_| "(hang)".to_string())
}

fn discrete_decls(r: &mut Rng, n: usize, with_real: bool) -> Vec<VarDecl> {
    let names = ["x", "y", "z", "w"];
    (0..n).map(|i| {
        let ty = match r.below(if with_real { 6 } else { 5 }) {
            0 | 1 | 2 => VariableType::Boolean,
            3 | 4 => { let lo = r.range(-2, 1) as i32; VariableType::IntegerRange(lo, lo + r.range(0, 3) as i32) }
            _ => { let lo = r.range(-2, 1) as f64; VariableType::Real(lo, lo + r.range(1, 4) as f64) }
        };
        VarDecl { name: names[i].to_string(), ty }
    }).collect()
}

pub fn program(r: &mut Rng, with_real: bool) -> (Model, String) {
    let cfg = ModelCfg { max_vars: 3, depth: if r.chance(1, 2) { 2 } else { 3 }, logic: true, piecewise: true, unbounded: false, fractional: false, strict_cmp: false, hostile: false };
    let nv = 1 + r.below(3);
    let ds = discrete_decls(r, nv, with_real);
    let (m, _) = gen_model::model_with(r, &cfg, ds);
    let sp = Spelling { aliases: r.chance(1, 2), implicit_mul: r.chance(1, 2), redundant_parens: r.chance(1, 2), named_consts: r.chance(1, 3) };
    let mut pr = r.fork();
    let mut p = Printer { r: &mut pr, sp, consts: vec![] };
    let text = p.program(&m);
    (m, text)
}

pub fn one(m: &Model, text: &str, tag: &str) -> Case {
    let mut c = Case::default();
    let out = solve_text(text);
    c.imp = out.clone();
    c.show = text.replace('\n', " ; ");
    // the compiler half of the pipeline is also diffed against the composed Lean model (bounds + linearizer ports)
    if let Ok(parsed) = rooc::RoocParser::new(text.to_string()).parse_and_transform(vec![], &indexmap::IndexMap::new()) {
        c.req = format!("linearize-full {} {}", sx::model(&parsed), sx::num(1e-9));
        c.imp = match rooc::Linearizer::linearize(parsed) { Ok(lm) => format!("(ok {})", sx::lin_model(&lm)), Err(e) => crate::props::c01::lin_error(&e) };
        c.tags.push("compiled-diff".into());
    }
    c.oracle = format!("ref {} {}", sx::model(m), out);
    c.tags.extend(vec![tag.into(), out.trim_start_matches('(').split(|ch| ch == ' ' || ch == ')').next().unwrap_or("").to_string()]);
    c.nontrivial = out.starts_with("(solution") || out.starts_with("(infeasible");
    let mut fl = crate::props::c01::flags(m);
    if m.domain().values().all(|d| !d.is_used()) { fl.push("no-used-variables".into()); }
    if !fl.is_empty() { c.sig = Some(fl.join(",")); }
    if out == "(panic)" || out == "(hang)" { c.impl_violation = Some(format!("one-shot solve {} on: {}", out, c.show)); }
    c
}

pub fn generate(seed: u64, n: usize, _thorough: bool, _corpus: Option<&str>) -> Vec<Case> {
    let mut r = Rng::new(seed).fork();
    let mut out = vec![];
    for i in 0..n {
        let (m, text) = program(&mut r, false);
        out.push(one(&m, &text, if i % 2 == 0 { "discrete" } else { "discrete" }));
    }
    out
}
