//! C03 — end-to-end answers: source TEXT (independent printer) through `RoocSolver … auto_solver`,
//! judged by the Lean reference interpreter (exhaustive enumeration with `Sem.eval`).
use crate::case::Case;
use crate::gen_model::{self, ModelCfg, VarDecl};
use crate::rng::Rng;
use crate::sx;
use crate::text::{Printer, Spelling};
use rooc::model_transformer::Model;
use rooc::{auto_solver, MILPValue, RoocSolver, RoocSolverError, SolverError, VariableType};
use std::sync::mpsc;
use std::time::Duration;

pub fn solver_error(e: &SolverError) -> String {
    match e {
        SolverError::Infeasible => "(infeasible)".into(),
        SolverError::Unbounded => "(unbounded)".into(),
        other => format!("(solver-error {})", sx::q(&format!("{:?}", other).chars().take(60).collect::<String>())),
    }
}

/// runs the one-shot entry point in a helper thread so that a hang is observed instead of suffered
pub fn solve_text(src: &str) -> String { solve_full(src, None).0 }

/// the same run, also dumped IN FULL when the compiled model is handed in (for the by-name view of the solution): every
/// arm of `RoocSolverError` and the whole returned `LpSolution`, in the encoding of the Lean model `Pipeline.solveUsingAuto`
pub fn solve_full(src: &str, lm: Option<rooc::LinearModel>) -> (String, Option<String>) {
    let (tx, rx) = mpsc::channel();
    let s = src.to_string();
    std::thread::spawn(move || {
        let r = std::panic::catch_unwind(|| {
            let solver = match RoocSolver::try_new(s) { Ok(s) => s, Err(e) => return (format!("(compile-error parse {})", sx::q(&format!("{:?}", e).chars().take(40).collect::<String>())), Some("(parse-error)".into())) };
            match solver.solve_using(auto_solver) {
                Ok(sol) => {
                    let asg = sol.assignment().iter().map(|a| {
                        let v: f64 = match a.value { MILPValue::Bool(b) => if b { 1.0 } else { 0.0 }, MILPValue::Int(i) => i as f64, MILPValue::Real(r) => r };
                        format!("({} {})", sx::q(&a.name), sx::num(v))
                    }).collect::<Vec<_>>().join(" ");
                    let summary = format!("(solution {} (assign{}{}))", sx::num(sol.value()), if asg.is_empty() { "" } else { " " }, asg);
                    let full = lm.as_ref().map(|lm| format!("(solved {})", crate::gen_lp::result(&crate::child::pack_milp(lm, Ok(sol)))));
                    (summary, full)
                }
                Err(RoocSolverError::Transform(e)) => (format!("(compile-error transform {})", sx::q(&format!("{:?}", e).chars().take(40).collect::<String>())), Some("(transform-error)".into())),
                Err(RoocSolverError::Linearization(e)) => (format!("(compile-error linearize {})", crate::props::c01::lin_error(&e)), Some(format!("(linearization {})", crate::props::c01::lin_error(&e)))),
                Err(RoocSolverError::Solver(e)) => (solver_error(&e), Some(format!("(solver (err {}))", crate::child::err_variant(&e)))),
            }
        });
        let _ = tx.send(r.unwrap_or_else(|_| ("(panic)".to_string(), Some("(panic)".to_string()))));
    });
    rx.recv_timeout(Duration::from_secs(20)).unwrap_or_else(|_| ("(hang)".to_string(), None))
}

fn discrete_decls(r: &mut Rng, n: usize, with_real: bool) -> Vec<VarDecl> {
    let names = ["x", "y", "z", "w"];
    (0..n).map(|i| {
        let ty = match r.below(if with_real { 6 } else { 5 }) {
            0 | 1 | 2 => VariableType::Boolean,
            3 | 4 => { let lo = r.range(-2, 1) as i32; VariableType::IntegerRange(lo, lo + r.range(0, 3) as i32) }
            _ => { let lo = r.range(-2, 1) as f64; VariableType::Real(lo, lo + r.range(1, 4) as f64) }
        };
        VarDecl { name: names[i].to_string(), ty }
    }).collect()
}

pub fn program(r: &mut Rng, with_real: bool) -> (Model, String) {
    let cfg = ModelCfg { max_vars: 3, depth: if r.chance(1, 2) { 2 } else { 3 }, logic: true, piecewise: true, unbounded: false, fractional: false, strict_cmp: false, hostile: false };
    let nv = 1 + r.below(3);
    let ds = discrete_decls(r, nv, with_real);
    let (mut m, ds) = gen_model::model_with(r, &cfg, ds);
    // one program in four also asserts a CHAIN of one connective over the Boolean variables, nested to the right or to the
    // left (the printer leaves out the parentheses the documented associativity makes redundant)
    let bools: Vec<String> = ds.iter().filter(|d| matches!(d.ty, VariableType::Boolean)).map(|d| d.name.clone()).collect();
    if !bools.is_empty() && r.chance(1, 4) {
        use rooc::model_transformer::{Constraint, Exp};
        let v = |r: &mut Rng| Exp::Variable(r.pick(&bools).clone());
        let mk = |k: usize, a: Exp, b: Exp| match k { 0 => Exp::Implies(Box::new(a), Box::new(b)), 1 => Exp::Iff(Box::new(a), Box::new(b)), 2 => Exp::Xor(Box::new(a), Box::new(b)),
            3 => Exp::BinOp(rooc::BinOp::Or, Box::new(a), Box::new(b)), _ => Exp::BinOp(rooc::BinOp::And, Box::new(a), Box::new(b)) };
        let k = r.below(5);
        let n = 2 + r.below(2);
        let mut e = v(r);
        let right = r.chance(1, 2);
        for _ in 0..n { let x = if r.chance(1, 4) { Exp::Not(Box::new(v(r))) } else { v(r) }; e = if right { mk(k, x, e) } else { mk(k, e, x) }; }
        // a second connective around it now and then (precedence between the connectives)
        if r.chance(1, 3) { let k2 = r.below(5); let x = v(r); e = if r.chance(1, 2) { mk(k2, x, e) } else { mk(k2, e, x) }; }
        let mut cons = m.constraints().clone();
        cons.push(Constraint::new_logic_assertion(e, "chain".into()));
        m = gen_model::build(m.objective().objective_type.clone(), m.objective().rhs.clone(), cons, &ds);
    }
    let sp = Spelling { aliases: r.chance(1, 2), implicit_mul: r.chance(1, 2), redundant_parens: r.chance(1, 2), named_consts: r.chance(1, 3), minimal_parens: r.chance(1, 2) };
    let mut pr = r.fork();
    let mut p = Printer { r: &mut pr, sp, consts: vec![] };
    let text = p.program(&m);
    (m, text)
}

/// MIXED programs: 1-2 discrete declarations, 1-2 bounded Real / NonNegativeReal declarations; every side is
/// `D ± Σ cᵢ·realᵢ` with `D` an arbitrary (piecewise-linear, logic) expression over the DISCRETE variables, so that each
/// residual of the reference's discrete enumeration is a small LP over the reals.
pub fn mixed_program(r: &mut Rng) -> (Model, String) {
    use rooc::model_transformer::{Constraint, Exp};
    use rooc::{BinOp, OptimizationType};
    let nd = 1 + r.below(2);
    let nr = 1 + r.below(2);
    let mut ds = discrete_decls(r, nd, false);
    let disc = ds.clone();
    let rnames = ["u", "v"];
    let mut reals = vec![];
    for k in 0..nr {
        let ty = if r.chance(1, 2) { let lo = r.range(-3, 1) as f64; VariableType::Real(lo, lo + r.range(1, 5) as f64) }
                 else { let lo = r.range(0, 2) as f64; VariableType::NonNegativeReal(lo, lo + r.range(1, 5) as f64) };
        reals.push(VarDecl { name: rnames[k].to_string(), ty });
    }
    ds.extend(reals.clone());
    let fractional = r.chance(1, 3);
    let cfg = ModelCfg { max_vars: 2, depth: 2, logic: true, piecewise: true, unbounded: false, fractional, strict_cmp: false, hostile: false };
    let lin = |r: &mut Rng| -> Exp {
        let mut e: Option<Exp> = None;
        for d in &reals {
            if r.chance(1, 4) { continue; }
            let t = if r.chance(1, 3) { Exp::Variable(d.name.clone()) } else { Exp::BinOp(BinOp::Mul, Box::new(Exp::Number(gen_model::coef(r, fractional))), Box::new(Exp::Variable(d.name.clone()))) };
            e = Some(match e { None => t, Some(p) => Exp::BinOp(if r.chance(2, 3) { BinOp::Add } else { BinOp::Sub }, Box::new(p), Box::new(t)) });
        }
        e.unwrap_or(Exp::Variable(reals[0].name.clone()))
    };
    let side = |r: &mut Rng| -> Exp {
        let l = lin(r);
        match r.below(4) {
            0 => l,
            1 => Exp::BinOp(BinOp::Add, Box::new(gen_model::num_exp(r, &disc, &cfg, 2)), Box::new(l)),
            2 => Exp::BinOp(BinOp::Sub, Box::new(l), Box::new(gen_model::num_exp(r, &disc, &cfg, 1))),
            _ => Exp::BinOp(BinOp::Add, Box::new(l), Box::new(Exp::Number(gen_model::constant(r, fractional)))),
        }
    };
    let mut cons = vec![];
    for k in 0..1 + r.below(3) {
        let rhs = if r.chance(2, 3) { Exp::Number(gen_model::constant(r, fractional)) } else { gen_model::num_exp(r, &disc, &cfg, 1) };
        cons.push(Constraint::new(side(r), gen_model::comparison(r), rhs, if r.chance(1, 2) { String::new() } else { format!("m{}", k) }));
    }
    if r.chance(1, 2) {
        // a purely discrete constraint next to the mixed ones
        let has_bool = disc.iter().any(|d| matches!(d.ty, VariableType::Boolean));
        if has_bool && r.chance(1, 2) { cons.push(Constraint::new_logic_assertion(gen_model::bool_exp(r, &disc, &cfg, 2), "a".into())); }
        else { cons.push(Constraint::new(gen_model::num_exp(r, &disc, &cfg, 2), gen_model::comparison(r), Exp::Number(gen_model::constant(r, false)), "d".into())); }
    }
    let opt = match r.below(5) { 0 | 1 => OptimizationType::Min, 2 | 3 => OptimizationType::Max, _ => OptimizationType::Satisfy };
    let obj = if matches!(opt, OptimizationType::Satisfy) { Exp::Number(0.0) } else { side(r) };
    let m = gen_model::build(opt, obj, cons, &ds);
    let sp = Spelling { aliases: r.chance(1, 2), implicit_mul: r.chance(1, 2), redundant_parens: r.chance(1, 2), named_consts: r.chance(1, 3), minimal_parens: r.chance(1, 2) };
    let mut pr = r.fork();
    let text = Printer { r: &mut pr, sp, consts: vec![] }.program(&m);
    (m, text)
}

pub fn one(m: &Model, text: &str, tag: &str) -> Case {
    let mut c = Case::default();
    let out = solve_text(text);
    c.imp = out.clone();
    c.show = text.replace('\n', " ; ");
    // the compiler half of the pipeline is also diffed against the composed Lean model (bounds + linearizer ports)
    if let Ok(parsed) = rooc::RoocParser::new(text.to_string()).parse_and_transform(vec![], &indexmap::IndexMap::new()) {
        c.req = format!("linearize-full {} {}", sx::model(&parsed), sx::num(1e-9));
        c.imp = match rooc::Linearizer::linearize(parsed) { Ok(lm) => format!("(ok {})", sx::lin_model(&lm)), Err(e) => crate::props::c01::lin_error(&e) };
        c.tags.push("compiled-diff".into());
    }
    c.oracle = format!("ref {} {}", sx::model(m), out);
    c.tags.extend(vec![tag.into(), out.trim_start_matches('(').split(|ch| ch == ' ' || ch == ')').next().unwrap_or("").to_string()]);
    c.nontrivial = out.starts_with("(solution") || out.starts_with("(infeasible");
    let mut fl = crate::props::c01::flags(m);
    if m.domain().values().all(|d| !d.is_used()) { fl.push("no-used-variables".into()); }
    if !fl.is_empty() { c.sig = Some(fl.join(",")); }
    if out == "(panic)" || out == "(hang)" { c.impl_violation = Some(format!("one-shot solve {} on: {}", out, c.show)); }
    c
}

/// the glue of `RoocSolver::solve_using` (lib.rs: `map_err(Linearization)`, `func(&linearized)`, `map_err(Solver)`) diffed in
/// full against `Pipeline.solveUsingAuto`: the model runs the composed compiler port and rooc's wrapper port on microlp's RAW
/// answer for the compiled model (mirror in the child worker); compared: which arm, and the whole returned `LpSolution`.
pub fn glue(text: &str, tag: &str) -> Option<Case> {
    let parse = || rooc::RoocParser::new(text.to_string()).parse_and_transform(vec![], &indexmap::IndexMap::new()).ok();
    let parsed = parse()?;
    let ms = sx::model(&parsed);
    let lm = rooc::Linearizer::linearize(parsed).ok();
    let mlp = match &lm {
        Some(lm) => crate::gen_lp::mlp(&crate::child::solve(crate::child::SolverKind::RawMilp, lm, &crate::child::Opts::default(), Duration::from_secs(3)))?,
        None => "(merr pre)".to_string(),
    };
    let (summary, full) = solve_full(text, lm);
    let full = full?;
    if full == "(transform-error)" || full == "(parse-error)" { return None; }
    let mut c = Case::default();
    c.req = format!("solve-using {} {} {}", ms, sx::num(1e-9), mlp);
    c.imp = full.clone();
    c.show = text.replace('\n', " ; ");
    c.tags = vec![tag.into(), "glue-diff".into(), format!("glue-{}", full.trim_start_matches('(').split(|ch| ch == ' ' || ch == ')').next().unwrap_or(""))];
    c.nontrivial = summary.starts_with("(solution");
    Some(c)
}

/// the WHOLE default path from text, `RoocSolver::try_new(text)?.solve_using(auto_solver)`, against the single model function
/// `Pipeline.solveProg` on programs of the iteration fragment (generator and protocol form of `pre_expand::program_cases`:
/// `where` constants, `define` with iterations, indexed names, iterated constraints): which arm (parse error of `try_new`,
/// Transform, Linearization, Solver) and the whole returned `LpSolution`
pub fn text_cases(r: &mut Rng, n: usize) -> Vec<Case> {
    let mut out = vec![];
    let mut progs: Vec<(String, String, Vec<String>)> = vec![];
    for pc in crate::pre_expand::program_cases(r, n) {
        let Some(sxp) = pc.req.strip_prefix("transformprog ") else { continue };
        // `show` of these cases is "<program text>\n=> <model dump>"
        let text = match pc.show.rfind("\n=> ") { Some(i) => pc.show[..i].to_string(), None => pc.show.clone() };
        progs.push((sxp.to_string(), text, pc.tags.clone()));
    }
    // fixed programs for the arms the random stream rarely reaches: the parser's arity rule (`abs` with two operands: a
    // CompilationError of `try_new`), a clean iterated program that is solved, a redeclaration (Transform error of `transform`)
    progs.push(("(prog (consts) (min (blk abs (var \"z\") (var \"z\"))) (cons (con none (var \"z\") (ge (lit 0)) ())) (decls (decl ((plain \"z\")) (real (lit 0) (lit 9)) ())))".into(),
        "min abs{ z, z }\ns.t.\n    z >= 0\ndefine\n    z as Real(0, 9)\n".into(), vec!["fragment:fixed".into()]));
    progs.push(("(prog (consts (\"k\" (lit 2))) (max (agg sum ((it (\"i\") (range (lit 0) (var \"k\") true))) (cvar \"x\" (var \"i\")))) (cons (con (cv \"c\" (var \"i\")) (cvar \"x\" (var \"i\")) (le (var \"i\")) ((it (\"i\") (range (lit 0) (var \"k\") true))))) (decls (decl ((cv \"x\" (var \"i\"))) (real (lit 0) (lit 9)) ((it (\"i\") (range (lit 0) (var \"k\") true))))))".into(),
        "max sum(i in 0..=k) { x_i }\ns.t.\n    c_i: x_i <= i for i in 0..=k\nwhere\n    let k = 2\ndefine\n    x_i as Real(0, 9) for i in 0..=k\n".into(), vec!["fragment:fixed".into()]));
    progs.push(("(prog (consts) (min (var \"z\")) (cons (con none (var \"z\") (ge (lit 0)) ())) (decls (decl ((plain \"z\")) (real (lit 0) (lit 9)) ()) (decl ((plain \"z\")) bool ())))".into(),
        "min z\ns.t.\n    z >= 0\ndefine\n    z as Real(0, 9)\n    z as Boolean\n".into(), vec!["fragment:fixed".into()]));
    for (sxp, text, ptags) in progs {
        let sxp = sxp.as_str();
        let pc = Case { tags: ptags, ..Case::default() };
        // microlp's raw answer for the model the real front end + linearizer produce (none when an earlier stage fails)
        let lm = rooc::RoocParser::new(text.clone()).parse_and_transform(vec![], &indexmap::IndexMap::new()).ok()
            .and_then(|m| std::panic::catch_unwind(|| rooc::Linearizer::linearize(m)).ok().and_then(|r| r.ok()));
        let mlp = match &lm {
            Some(lm) => match crate::gen_lp::mlp(&crate::child::solve(crate::child::SolverKind::RawMilp, lm, &crate::child::Opts::default(), Duration::from_secs(3))) { Some(m) => m, None => continue },
            None => "(merr pre)".to_string(),
        };
        let (summary, full) = solve_full(&text, lm);
        let Some(mut full) = full else { continue };
        // the type checker is a parameter of the model: its verdict on this text
        let tc = std::panic::catch_unwind(|| rooc::RoocParser::new(text.clone()).type_check(&vec![], &indexmap::IndexMap::new()).is_ok()).unwrap_or(false);
        if full == "(transform-error)" { full = if tc { "(transform-error transform)".into() } else { "(transform-error type)".into() }; }
        let mut c = Case::default();
        c.req = format!("solve-prog {} {} {} {}", sxp, if tc { 1 } else { 0 }, sx::num(1e-9), mlp);
        c.imp = full.clone();
        c.tags.push(if tc { "type-checks".into() } else { "type-check-fails".into() });
        c.show = text.replace('\n', " ; ");
        c.tags.extend(vec!["text-diff".to_string(), format!("text-{}", full.trim_start_matches('(').split(|ch| ch == ' ' || ch == ')').next().unwrap_or(""))]);
        c.tags.extend(pc.tags.iter().filter(|t| t.starts_with("fragment:")).cloned());
        c.nontrivial = summary.starts_with("(solution");
        if full == "(panic)" { c.impl_violation = Some(format!("one-shot solve panicked on: {}", c.show)); c.sig = Some("panic".into()); }
        out.push(c);
    }
    out
}

pub fn generate(seed: u64, n: usize, _thorough: bool, _corpus: Option<&str>) -> Vec<Case> {
    let mut r = Rng::new(seed).fork();
    let mut out = vec![];
    for i in 0..n {
        let (m, text) = program(&mut r, false);
        out.push(one(&m, &text, if i % 2 == 0 { "discrete" } else { "discrete" }));
        // every second program also goes through the full diff of the `solve_using` glue
        if i % 2 == 0 { if let Some(c) = glue(&text, "discrete") { out.push(c); } }
        // every third round a MIXED program (discrete + bounded Real), judged by the mixed reference
        if i % 3 == 0 { let (m, text) = mixed_program(&mut r); out.push(one(&m, &text, "mixed")); }
    }
    // fixed programs for the arms the random stream rarely reaches: `Linearization(..)` errors, the variable-free branch of
    // `auto_solver` (solved / infeasible), an unbounded model
    for text in [
        "min x * y\ns.t.\n    c: x + y >= 1\ndefine\n    x as Boolean\n    y as Boolean",
        "max x / y\ns.t.\n    c: x + y <= 1\ndefine\n    x as Boolean\n    y as Boolean",
        "min x / 0\ns.t.\n    c: x >= 0\ndefine\n    x as Boolean",
        "min abs{x}\ns.t.\n    c: abs{x} >= 1\ndefine\n    x as Real",
        "min x\ns.t.\n    c: max{x, y} >= 1\ndefine\n    x as Real\n    y as Real",
        "min 3\ns.t.\n    c: 1 <= 2",
        "max 3 + 4\ns.t.\n    c: 2 <= 1",
        "min x\ns.t.\n    c: x <= 5\ndefine\n    x as Real",
        "max x + y\ns.t.\n    c: x + y <= 3\ndefine\n    x as IntegerRange(0, 2)\n    y as Boolean",
    ] {
        if let Some(mut c) = glue(text, "fixed") { c.tags.push("glue-fixed".into()); out.push(c); }
    }
    // the whole default path from TEXT on the iteration fragment
    out.extend(text_cases(&mut r, (n / 8).max(20).min(1500)));
    crate::child::shutdown();
    out
}
