//! C01 / C02 / C08 — `Linearizer::linearize` on generated source models.
//! Model request: the source model plus the bounds the real analyzer derived (through the hook), so that the
//! linearizer port is validated independently of the bounds port; `linearize-full` re-derives them in the model.
use crate::case::Case;
use crate::gen_model::{self, ModelCfg};
use crate::rng::Rng;
use crate::sx;
use rooc::model_transformer::{Exp, Model};
use rooc::{LinearizationError, Linearizer};

pub fn lin_error(e: &LinearizationError) -> String {
    match e {
        LinearizationError::NonLinearExpression(_) => "(err NonLinearExpression)".into(),
        LinearizationError::DivisionByZero(_) => "(err DivisionByZero)".into(),
        LinearizationError::EmptyAggregation(k) => format!("(err EmptyAggregation {})", sx::q(k)),
        LinearizationError::VarAlreadyDeclared(n) => format!("(err VarAlreadyDeclared {})", sx::q(n)),
        LinearizationError::UnimplementedExpression(_) => "(err UnimplementedExpression)".into(),
        LinearizationError::NonBinaryLogicOperand(_) => "(err NonBinaryLogicOperand)".into(),
        LinearizationError::MissingFiniteBounds { variables, .. } => {
            format!("(err MissingFiniteBounds ({}))", variables.iter().map(|v| sx::q(v)).collect::<Vec<_>>().join(" "))
        }
    }
}

pub fn bounds_sx(m: &Model) -> (String, String) {
    let rep = rooc::verif_hooks::linearizer_bounds(m.domain(), m.constraints());
    let b = rep.variables.iter().map(|(n, lo, hi)| format!("({} (b {} {}))", sx::q(n), sx::num(*lo), sx::num(*hi))).collect::<Vec<_>>().join(" ");
    (format!("(bounds{}{})", if b.is_empty() { "" } else { " " }, b), sx::domain(&rep.domain))
}

fn is_bool_var(m: &Model, n: &str) -> bool {
    matches!(m.domain().get(n).map(|d| *d.get_type()), Some(rooc::VariableType::Boolean))
}

/// does some and/or node collapse (by `simplify`) to a single operand that is not a 0/1 expression?
fn collapses_nonbinary(e: &Exp, m: &Model) -> bool {
    collapses_nonbinary_with(e, &|n| is_bool_var(m, n))
}

/// the same with the Boolean marking as a parameter (ported as `Exp.collapsesNonbinary` in lean/Rooc/ExpShape.lean;
/// C10 diffs the two on every generated tree with `is_bool = |_| false`).
pub fn collapses_nonbinary_with(e: &Exp, is_bool: &dyn Fn(&str) -> bool) -> bool {
    use rooc::BinOp;
    let here = match e {
        Exp::And(_) | Exp::Or(_) | Exp::BinOp(BinOp::And, _, _) | Exp::BinOp(BinOp::Or, _, _) => {
            match e.simplify() {
                Exp::And(_) | Exp::Or(_) | Exp::Number(_) | Exp::Not(_) | Exp::Xor(_, _) | Exp::Implies(_, _) | Exp::Iff(_, _) => false,
                Exp::Variable(n) => !is_bool(&n),
                _ => true,
            }
        }
        _ => false,
    };
    here || match e {
        Exp::Number(_) | Exp::Variable(_) => false,
        Exp::Abs(e) | Exp::Not(e) | Exp::UnOp(_, e) => collapses_nonbinary_with(e, is_bool),
        Exp::Min(es) | Exp::Max(es) | Exp::And(es) | Exp::Or(es) => es.iter().any(|e| collapses_nonbinary_with(e, is_bool)),
        Exp::Xor(a, b) | Exp::Implies(a, b) | Exp::Iff(a, b) | Exp::BinOp(_, a, b) => collapses_nonbinary_with(a, is_bool) || collapses_nonbinary_with(b, is_bool),
    }
}

/// EXACT impl-side oracle for the repaired singleton collapse (rooc 81a4b76 + e35561f): some and/or node of a
/// checked source expression (objective, left sides, right sides of comparisons — as written) collapses under
/// `simplify` to a bare variable that is not declared Boolean. `check_collapsing_logic_operands` lowers that
/// variable to the context `1 * v` and `is_binary_context` demands the type Boolean on the declared domain, so
/// `Linearizer::linearize` cannot succeed on such a model (it fails there or earlier): certain ∧ compiled is a
/// violation. (The flag `nary-singleton-nonbinary` is wider: `(1 - b) and 1` is flagged and legitimately compiles.)
pub fn certain_collapse(m: &Model) -> bool {
    fn node(e: &Exp, m: &Model) -> bool {
        use rooc::BinOp;
        let here = match e {
            Exp::And(_) | Exp::Or(_) | Exp::BinOp(BinOp::And, _, _) | Exp::BinOp(BinOp::Or, _, _) =>
                matches!(e.simplify(), Exp::Variable(n) if !is_bool_var(m, &n)),
            _ => false,
        };
        here || match e {
            Exp::Number(_) | Exp::Variable(_) => false,
            Exp::Abs(e) | Exp::Not(e) | Exp::UnOp(_, e) => node(e, m),
            Exp::Min(es) | Exp::Max(es) | Exp::And(es) | Exp::Or(es) => es.iter().any(|e| node(e, m)),
            Exp::Xor(a, b) | Exp::Implies(a, b) | Exp::Iff(a, b) | Exp::BinOp(_, a, b) => node(a, m) || node(b, m),
        }
    }
    node(&m.objective().rhs, m)
        || m.constraints().iter().any(|c| node(c.lhs(), m) || (!c.is_logic_assertion() && node(c.rhs(), m)))
}

fn has_nonfinite_literal(e: &Exp) -> bool {
    match e {
        Exp::Number(v) => !v.is_finite(),
        Exp::Variable(_) => false,
        Exp::Abs(e) | Exp::Not(e) | Exp::UnOp(_, e) => has_nonfinite_literal(e),
        Exp::Min(es) | Exp::Max(es) | Exp::And(es) | Exp::Or(es) => es.iter().any(has_nonfinite_literal),
        Exp::Xor(a, b) | Exp::Implies(a, b) | Exp::Iff(a, b) | Exp::BinOp(_, a, b) => has_nonfinite_literal(a) || has_nonfinite_literal(b),
    }
}

/// root-cause flags used to match known findings narrowly
pub fn flags(m: &Model) -> Vec<String> {
    let mut f = vec![];
    let rep = rooc::verif_hooks::linearizer_bounds(m.domain(), m.constraints());
    for (n, lo, hi) in &rep.variables {
        if is_bool_var(m, n) && m.domain()[n].is_used() && (*lo != 0.0 || *hi != 1.0) { f.push("boolean-derived-range".to_string()); break; }
    }
    let exps: Vec<&Exp> = std::iter::once(&m.objective().rhs).chain(m.constraints().iter().flat_map(|c| [c.lhs(), c.rhs()])).collect();
    if exps.iter().any(|e| collapses_nonbinary(&e.clone().clone().flatten(), m)) { f.push("nary-singleton-nonbinary".into()); }
    if exps.iter().any(|e| has_nonfinite_literal(e)) { f.push("nonfinite-literal".into()); }
    f
}

pub fn one(m: &Model, tag: &str, prop: &str) -> Case {
    let mut c = Case::default();
    let fl = flags(m);
    if !fl.is_empty() { c.sig = Some(fl.join(",")); }
    let msx = sx::model(m);
    let (bsx, dsx) = bounds_sx(m);
    c.req = format!("linearize {} {} {}", msx, bsx, dsx);
    c.show = format!("{}", m).replace('\n', " ; ");
    let res = std::panic::catch_unwind(std::panic::AssertUnwindSafe(|| Linearizer::linearize(m.clone())));
    match res {
        Ok(Ok(lm)) => {
            c.imp = format!("(ok {})", sx::lin_model(&lm));
            c.nontrivial = lm.variables().iter().any(|v| v.starts_with('$'));
            c.tags = vec![tag.into(), "compiled".into(), if c.nontrivial { "aux".into() } else { "no-aux".into() }];
            for v in lm.variables() {
                if let Some(k) = v.strip_prefix('$') { c.tags.push(format!("aux:{}", k.split('_').next().unwrap_or(""))); }
            }
            c.tags.sort(); c.tags.dedup();
            c.oracle = format!("{} {} {}", prop, msx, sx::lin_model(&lm));
            if certain_collapse(m) {
                c.impl_violation = Some("an and/or node collapses to a variable that is not declared Boolean, and Linearizer::linearize accepted the model (expected NonBinaryLogicOperand: rooc 81a4b76 + e35561f)".into());
                c.tags.push("certain-collapse-compiled".into());
            }
        }
        Ok(Err(e)) => {
            c.imp = lin_error(&e);
            c.tags = vec![tag.into(), format!("err:{}", c.imp.split(|ch| ch == ' ' || ch == ')').nth(1).unwrap_or(""))];
            if certain_collapse(m) { c.tags.push("certain-collapse-rejected".into()); }
        }
        Err(p) => {
            let msg = p.downcast_ref::<String>().cloned().or_else(|| p.downcast_ref::<&str>().map(|s| s.to_string())).unwrap_or_default();
            c.imp = "(panic)".into();
            c.impl_violation = Some(format!("Linearizer::linearize panicked: {}", msg));
            c.tags = vec![tag.into(), "panic".into()];
        }
    }
    c
}

pub fn configs() -> Vec<(&'static str, ModelCfg)> {
    vec![
        ("affine", ModelCfg { max_vars: 3, depth: 2, logic: false, piecewise: false, unbounded: true, fractional: true, strict_cmp: true, hostile: false }),
        ("piecewise", ModelCfg { max_vars: 3, depth: 2, logic: false, piecewise: true, unbounded: false, fractional: false, strict_cmp: true, hostile: false }),
        ("piecewise-frac", ModelCfg { max_vars: 3, depth: 3, logic: false, piecewise: true, unbounded: true, fractional: true, strict_cmp: true, hostile: false }),
        ("logic", ModelCfg { max_vars: 4, depth: 2, logic: true, piecewise: false, unbounded: false, fractional: false, strict_cmp: true, hostile: false }),
        ("mixed", ModelCfg { max_vars: 4, depth: 3, logic: true, piecewise: true, unbounded: false, fractional: false, strict_cmp: true, hostile: false }),
        ("hostile", ModelCfg { max_vars: 4, depth: 3, logic: true, piecewise: true, unbounded: true, fractional: false, strict_cmp: true, hostile: true }),
        ("piecewise-unbounded", ModelCfg { max_vars: 3, depth: 2, logic: false, piecewise: true, unbounded: true, fractional: false, strict_cmp: false, hostile: false }),
        ("deep-piecewise", ModelCfg { max_vars: 2, depth: 4, logic: false, piecewise: true, unbounded: false, fractional: false, strict_cmp: false, hostile: false }),
    ]
}

pub fn generate_for(prop: &str, seed: u64, n: usize, _thorough: bool, _corpus: Option<&str>) -> Vec<Case> {
    let mut r = Rng::new(seed);
    let cfgs = configs();
    let mut out = vec![];
    for m in crate::corpus_models::models() { out.push(one(&m, "corpus", prop)); }
    for i in 0..n {
        let (tag, cfg) = &cfgs[i % cfgs.len()];
        // every ninth case: the exact min/max family (dominated operand in front of retained ones)
        let (m, tag) = if i % 27 == 13 { (gen_model::integer_noise_model(&mut r).0, &"integer-noise") }
            else if i % 9 == 8 { (gen_model::extreme_model(&mut r).0, &"extreme") } else { (gen_model::model(&mut r, cfg).0, tag) };
        let c = one(&m, tag, prop);
        // the same model through the COMPOSED model (bounds port + linearizer port), every third case
        if i % 3 == 0 {
            let mut f = c.clone();
            f.req = format!("linearize-full {} {}", sx::model(&m), sx::num(1e-9));
            f.oracle = String::new();
            f.tags.push("full-pipeline".into());
            out.push(f);
        }
        out.push(c);
    }
    out
}

pub fn generate(seed: u64, n: usize, thorough: bool, corpus: Option<&str>) -> Vec<Case> {
    generate_for("c01", seed, n, thorough, corpus)
}
