//! C04 — not built yet.
use crate::case::Case;
pub fn generate(_seed: u64, _n: usize, _thorough: bool, _corpus: Option<&str>) -> Vec<Case> { vec![] }
