//! C04 — returned solutions are feasible and self-consistent.
//!
//! Per generated `LinearModel`: all five entry points are called in the killable worker (`child.rs`); each answer
//! is (a) diffed against the Lean model of rooc's wrapper code applied to the external solver's RAW answer (obtained
//! by the mirror kinds of the worker) and (b) sent to the exact oracle (`checkPoint` at 1e-6, objective incl. offset,
//! one value per variable, named-row activities).  Pure helper functions that are public (`calc_objective`,
//! `calc_constraints`, `make_constraints_map_from_assignment`, `LpSolution::new`/`value_of`, `as_lp_solution` through
//! `Tableau::new`) are diffed in-process.
use crate::case::Case;
use crate::child::{self, Opts, Outcome, SolverKind};
use crate::gen_lp::{self, Doms, LpCfg};
use crate::rng::Rng;
use crate::sx;
use rooc::{Assignment, Comparison, LinearModel, LpSolution, OptimizationType, Tableau, VariableType};
use std::time::Duration;

pub const TIMEOUT: Duration = Duration::from_secs(3);

pub fn special(r: &mut Rng) -> f64 {
    match r.below(12) {
        0 => 0.0, 1 => -0.0, 2 => 1.0, 3 => -1.0, 4 => 0.5, 5 => 1e-12, 6 => 2147483648.0, 7 => -2147483649.0,
        8 => f64::NAN, 9 => f64::INFINITY, 10 => 0.1, _ => r.range(-40, 40) as f64 / 8.0,
    }
}

/// cases of one model: one per entry point
pub fn solver_cases(lm: &LinearModel, tags: &[String], stream: &str, variants: &gen_lp::Variants, out: &mut Vec<Case>) {
    let lms = sx::lin_model(lm);
    let opts = Opts::default();
    // once one call on this model has hung, the remaining calls get a short limit (these models solve in microseconds)
    let hung = std::cell::Cell::new(false);
    let call = |k: SolverKind| {
        let o = child::solve(k, lm, &opts, if hung.get() { Duration::from_millis(400) } else { TIMEOUT });
        if matches!(o, Outcome::Hang) { hung.set(true); }
        o
    };
    let raw_milp = call(SolverKind::RawMilp);
    let cont = gen_lp::is_continuous(lm);
    for kind in SolverKind::ENTRY_POINTS {
        let o = call(kind);
        let mut c = Case::default();
        let res = gen_lp::result(&o);
        c.imp = res.clone();
        c.req = match kind {
            SolverKind::Milp => gen_lp::mlp(&raw_milp).map(|r| format!("{} {} {}", if variants.milp_reads_status { "milp-wrap-fixed" } else { "milp-wrap" }, lms, r)),
            SolverKind::Auto => gen_lp::mlp(&raw_milp).map(|r| format!("auto-wrap {} {}", lms, r)),
            SolverKind::MicroLp => gen_lp::mlp(&call(SolverKind::RawMicroLp)).map(|r| format!("microlp-wrap {} {}", lms, r)),
            SolverKind::Clarabel => gen_lp::clarabel_req(lm, &lms, variants, if hung.get() { Duration::from_millis(400) } else { TIMEOUT }),
            // the tableau simplex involves no external solver: the WHOLE entry point is a model function
            // (`SlowSimplex.solveReal`: standardize -> into_tableau -> solve(limit) -> as_lp_solution + error arms)
            SolverKind::Simplex => Some(format!("simplex-wrap {} {} {}", sx::num(crate::gen_std::measured_tolerance()), if opts.simplex_limit == 0 { 10000 } else { opts.simplex_limit }, lms)),
            _ => None,
        }.unwrap_or_default();
        if matches!(o, Outcome::Hang) { c.req.clear(); }
        c.oracle = format!("check-solution {} {} {}", lms, kind.name(), res);
        c.tags = tags.to_vec();
        c.tags.push(format!("stream-{}", stream));
        c.tags.push(format!("solver-{}", kind.name()));
        c.tags.push(match &o {
            Outcome::Solution(_) => "answer-solution".to_string(),
            Outcome::Err { variant, .. } => format!("answer-err-{}", variant),
            Outcome::Panic(_) => "answer-panic".into(),
            Outcome::Hang => "answer-hang".into(),
        });
        c.tags.push(if cont { "model-continuous".into() } else { "model-mixed-integer".into() });
        c.nontrivial = matches!(o, Outcome::Solution(_));
        if let Outcome::Panic(m) = &o {
            c.impl_violation = Some(format!("{} panicked instead of returning a solution or an error: {}", kind.name(), m));
            c.sig = Some(if kind == SolverKind::Clarabel && lm.variables().is_empty() { "clarabel-panic-no-variables".into() } else { "panic".into() });
        }
        c.show = format!("{} on: {}", kind.name(), show_model(lm));
        out.push(c);
    }
    // the iteration-limit arm of the tableau simplex (`SimplexError::IterationLimitReached -> LimitReached`): the same
    // model with a limit of one pivot and with a non-positive limit (the loop body never runs)
    if cont && !hung.get() {
        for limit in [1i64, -1] {
            let o2 = Opts { simplex_limit: limit, ..Opts::default() };
            let o = child::solve(SolverKind::Simplex, lm, &o2, TIMEOUT);
            if matches!(o, Outcome::Hang) { continue; }
            let mut c = Case::default();
            c.imp = gen_lp::result(&o);
            c.req = format!("simplex-wrap {} {} {}", sx::num(crate::gen_std::measured_tolerance()), limit, lms);
            c.oracle = format!("check-solution {} {} {}", lms, SolverKind::Simplex.name(), c.imp);
            c.tags = tags.to_vec();
            c.tags.push(format!("stream-{}", stream));
            c.tags.push(format!("simplex-limit-{}", limit));
            c.tags.push(match &o { Outcome::Solution(_) => "answer-solution".to_string(), Outcome::Err { variant, .. } => format!("answer-err-{}", variant), Outcome::Panic(_) => "answer-panic".into(), Outcome::Hang => "answer-hang".into() });
            c.nontrivial = matches!(o, Outcome::Solution(_));
            c.show = format!("simplex(limit {}) on: {}", limit, show_model(lm));
            out.push(c);
        }
    }
}

pub fn show_model(lm: &LinearModel) -> String {
    let dom = lm.domain().iter().map(|(n, d)| format!("{}: {}", n, d.get_type())).collect::<Vec<_>>().join(", ");
    // Display of an ill-formed model (lengths that do not match) may panic: fall back to the wire form
    let text = std::panic::catch_unwind(|| lm.to_string()).unwrap_or_else(|_| sx::lin_model(lm));
    format!("{} || {} || offset {}", text.replace('\n', "; "), dom, lm.objective_offset())
}

fn pairs(l: &[(String, f64)]) -> String { l.iter().map(|(n, v)| format!("({} {})", sx::q(n), gen_lp::num(*v))).collect::<Vec<_>>().join(" ") }

/// in-process diffs of the public pure helpers
fn helper_cases(r: &mut Rng, lm: &LinearModel, out: &mut Vec<Case>) {
    // calc_objective / calc_constraints / make_constraints_map_from_assignment (panic on a length mismatch)
    let n = lm.variables().len();
    let len = if r.chance(1, 8) { r.below(n + 2) } else { n };
    let values: Vec<f64> = (0..len).map(|_| if r.chance(1, 3) { special(r) } else { r.range(-6, 6) as f64 }).collect();
    helper_with(lm, values, out)
}

/// sub-tolerance coefficients (|c| < 1e-5, e.g. a unit conversion) next to large values: the activity still counts them
/// (seeded change C04-16 filtered coefficients with the crate's 1e-5 `float_ne`) - deterministic
fn tiny_coefficient_cases(out: &mut Vec<Case>) {
    for c in [4e-6f64, -5e-6, 1e-6, 9.9e-6, 1e-7, 1e-5, 2e-5] {
        for v in [2e6f64, -1e6, 1e7, 3.0] {
            let mut lm = LinearModel::new();
            lm.add_variable("g", VariableType::Real(f64::NEG_INFINITY, f64::INFINITY));
            lm.add_variable("y", VariableType::Real(f64::NEG_INFINITY, f64::INFINITY));
            lm.add_constraint(vec![c, 1.0], Comparison::GreaterOrEqual, 10.0);
            lm.add_constraint(vec![1.0, c], Comparison::LessOrEqual, 5.0);
            lm.add_constraint(vec![c, -c], Comparison::Equal, 0.0);
            lm.set_objective(vec![c, 1.0], OptimizationType::Min);
            let before = out.len();
            helper_with(&lm, vec![v, 2.0], out);
            for x in out[before..].iter_mut() { x.tags.push("helper-calc-tiny-coefficient".into()); }
        }
    }
}

fn helper_with(lm: &LinearModel, values: Vec<f64>, out: &mut Vec<Case>) {
    let n = lm.variables().len();
    let len = values.len();
    let obj = std::panic::catch_unwind(|| lm.calc_objective(&values)).ok();
    let cons = std::panic::catch_unwind(|| lm.calc_constraints(&values)).ok();
    let map = std::panic::catch_unwind(|| rooc::make_constraints_map_from_assignment(lm, &values)).ok();
    let mut c = Case::default();
    c.req = format!("calc {} ({})", sx::lin_model(lm), sx::nums(&values));
    c.imp = format!("(ok {} {} {})",
        obj.map(gen_lp::num).unwrap_or_else(|| "panic".into()),
        cons.map(|l| format!("({})", pairs(&l))).unwrap_or_else(|| "panic".into()),
        map.map(|m| format!("({})", pairs(&m.into_iter().collect::<Vec<_>>()))).unwrap_or_else(|| "panic".into()));
    c.tags = vec!["helper-calc".into(), if len == n { "calc-lengths-match".into() } else { "calc-length-mismatch".into() }];
    c.nontrivial = len == n;
    c.show = format!("calc_objective/calc_constraints({:?}) on {}", values, show_model(lm));
    // the property itself, judged on the implementation's answer: every reported row activity is that row's left-hand
    // side at the given values (recomputed here term by term; relative 1e-9 of the sum of the terms' magnitudes)
    if len == n && values.iter().all(|v| v.is_finite()) {
        if let Ok(l) = std::panic::catch_unwind(|| lm.calc_constraints(&values)) {
            for (k, row) in lm.constraints().iter().enumerate() {
                if !row.coefficients().iter().all(|c| c.is_finite()) || row.coefficients().len() != n { continue; }
                let (mut lhs, mut mag) = (0.0f64, 0.0f64);
                for (c, v) in row.coefficients().iter().zip(values.iter()) { lhs += c * v; mag += (c * v).abs(); }
                if let Some((_, act)) = l.get(k) {
                    if lhs.is_finite() && (act - lhs).abs() > 1e-9 * (1.0 + mag) {
                        c.sig = Some("row-activity-differs-from-lhs".into());
                        c.impl_violation = Some(format!("calc_constraints reports activity {} for row {} whose left-hand side at the given values is {}", act, k, lhs));
                        break;
                    }
                }
            }
        }
    }
    out.push(c);
}

fn assign_map_case(r: &mut Rng, out: &mut Vec<Case>) {
    let names = ["x", "y", "x", "z", "", "y", "$px"];
    let k = 1 + r.below(6);
    let ps: Vec<(String, f64)> = (0..k).map(|_| (r.pick(&names).to_string(), r.range(-5, 5) as f64)).collect();
    let sol = LpSolution::new(ps.iter().map(|(n, v)| Assignment { name: n.clone(), value: *v }).collect(), 0.0, Default::default());
    // observe the by-name map through value_of on the distinct names, in first-occurrence order
    let mut seen: Vec<String> = vec![];
    for (n, _) in &ps { if !seen.contains(n) { seen.push(n.clone()); } }
    let got: Vec<(String, f64)> = seen.iter().map(|n| (n.clone(), sol.value_of(n).unwrap())).collect();
    let mut c = Case::default();
    c.req = format!("assign-map ({})", pairs(&ps));
    c.imp = format!("(ok{}{})", if got.is_empty() { "" } else { " " }, pairs(&got));
    c.tags = vec!["helper-assign-map".into(), if seen.len() < ps.len() { "duplicate-names".into() } else { "distinct-names".into() }];
    c.nontrivial = seen.len() < ps.len();
    c.show = format!("LpSolution::new({:?}).value_of", ps);
    out.push(c);
}

fn as_lp_solution_case(r: &mut Rng, out: &mut Vec<Case>) {
    // standard-form variable names: user names, split halves, slack / surplus / artificial, and user names that collide
    // with the internal prefixes
    let pool = ["x", "y", "$px", "$mx", "$py", "$my", "$pz", "$mw", "$sl_0", "$su_1", "$a_2", "$p", "$m", "$sl_", "$pp", "$mp", "$p$mx", "$m$px", "x"];
    let k = 1 + r.below(7);
    let names: Vec<String> = (0..k).map(|_| r.pick(&pool).to_string()).collect();
    let values: Vec<f64> = (0..k).map(|_| if r.chance(1, 5) { special(r) } else { r.range(0, 9) as f64 }).collect();
    let cur = r.range(-5, 5) as f64;
    let off = r.range(-3, 3) as f64;
    let flip = r.chance(1, 2);
    // an already optimal tableau whose basic solution is `values`: every variable basic in its own row
    let a: Vec<Vec<f64>> = (0..k).map(|i| (0..k).map(|j| if i == j { 1.0 } else { 0.0 }).collect()).collect();
    let mut t = Tableau::new(vec![0.0; k], a, values.clone(), (0..k).collect(), cur, off, names.clone(), flip);
    let res = std::panic::catch_unwind(std::panic::AssertUnwindSafe(|| t.solve(5).map(|o| o.as_lp_solution())));
    let mut c = Case::default();
    // optimal_value(): -current_value * flip + offset
    let value = -cur * (if flip { -1.0 } else { 1.0 }) + off;
    c.req = format!("as-lp-solution ({}) ({}) {}", names.iter().map(|n| sx::q(n)).collect::<Vec<_>>().join(" "), sx::nums(&values), sx::num(value));
    c.imp = match res {
        Ok(Ok(s)) => {
            let sol = crate::child::Sol {
                status: match s.status() { rooc::SolutionStatus::Optimal => "optimal", rooc::SolutionStatus::Feasible => "feasible", rooc::SolutionStatus::Infeasible => "infeasible", rooc::SolutionStatus::Unbounded => "unbounded" }.into(),
                value: s.value(),
                assignment: s.assignment().iter().map(|a| (a.name.clone(), crate::child::Val::Real(a.value))).collect(),
                by_name: names.iter().map(|n| (n.clone(), s.value_of(n).map(crate::child::Val::Real))).collect(),
                constraints: s.constraints().iter().map(|(k, v)| (k.clone(), crate::child::F(*v))).collect(),
                duals: s.shadow_prices().iter().map(|(k, v)| (k.clone(), crate::child::F(*v))).collect(),
                accessors: vec![],
            };
            gen_lp::solution(&sol)
        }
        Ok(Err(e)) => format!("(err {})", e),
        Err(_) => "(panic)".into(),
    };
    c.tags = vec!["helper-as-lp-solution".into()];
    if names.iter().any(|n| n.starts_with("$p") && names.contains(&format!("$m{}", &n[2..]))) { c.tags.push("split-recombined".into()); }
    if names.iter().any(|n| n.starts_with("$sl_") || n.starts_with("$su_") || n.starts_with("$a_")) { c.tags.push("slack-dropped".into()); }
    c.nontrivial = c.tags.len() > 1;
    c.show = format!("as_lp_solution(names {:?}, values {:?})", names, values);
    out.push(c);
}

/// a model without variables: every row is a constant comparison `0 ⋈ rhs` (auto_solver decides these itself)
pub fn variable_free(r: &mut Rng) -> LinearModel {
    use rooc::{Comparison, LinearConstraint, OptimizationType};
    let rows = (0..r.below(4)).map(|k| {
        let c = *r.pick(&[Comparison::LessOrEqual, Comparison::GreaterOrEqual, Comparison::Equal, Comparison::LessOrEqual, Comparison::GreaterOrEqual, Comparison::Equal, Comparison::Less, Comparison::Greater]);
        let rhs = *r.pick(&[0.0, 0.0, 1.0, -1.0, -0.0, 2.5, f64::NAN]);
        LinearConstraint::new_with_name(vec![], c, rhs, if k == 0 { "r".into() } else { String::new() })
    }).collect();
    let opt = r.pick(&[OptimizationType::Min, OptimizationType::Max, OptimizationType::Satisfy]).clone();
    LinearModel::new_from_parts(vec![], opt, r.range(-3, 3) as f64, rows, vec![], Default::default())
}

/// user variables whose names collide with the prefixes `as_lp_solution` / the standardizer use internally
pub fn prefixed_names(r: &mut Rng) -> LinearModel {
    use rooc::{Comparison, OptimizationType, VariableType};
    let pool = ["$sl_x", "$px", "$mx", "$a_1", "$su_0", "x", "$p", "y"];
    let mut names: Vec<&str> = vec![];
    for _ in 0..1 + r.below(3) { let n = *r.pick(&pool); if !names.contains(&n) { names.push(n); } }
    let mut m = LinearModel::new();
    for n in &names { m.add_variable(n, VariableType::NonNegativeReal(0.0, f64::INFINITY)); }
    let k = names.len();
    m.add_constraint((0..k).map(|_| 1.0 + r.below(2) as f64).collect(), Comparison::GreaterOrEqual, 1.0 + r.below(3) as f64);
    m.set_objective((0..k).map(|_| 1.0 + r.below(3) as f64).collect(), OptimizationType::Min);
    m
}

/// ill-formed models that only `LinearModel::new_from_parts` can build: every pre-check arm of the wrappers
pub fn malformed(r: &mut Rng) -> (LinearModel, &'static str) {
    use rooc::model_transformer::DomainVariable;
    use rooc::{Comparison, LinearConstraint, OptimizationType, VariableType};
    let (lm, _) = gen_lp::model(r, &LpCfg { doms: Doms::Continuous, max_rows: 3, ..LpCfg::default() });
    let (mut obj, opt, off, mut rows, mut vars, mut dom) = lm.into_parts();
    let kind = match r.below(6) {
        0 => { obj.pop(); "objective-too-short" }
        1 => { obj.push(1.0); "objective-too-long" }
        2 => { rows.push(LinearConstraint::new(vec![1.0; vars.len() + 1], Comparison::LessOrEqual, 1.0)); "row-too-long" }
        3 => { let c = if r.chance(1, 2) { Comparison::Less } else { Comparison::Greater }; rows.push(LinearConstraint::new(vec![1.0; vars.len()], c, 1.0)); "strict-row" }
        4 => { vars.push("ghost".into()); obj.push(0.0); for row in rows.iter_mut() { row.ensure_size(vars.len()); } "variable-without-domain" }
        _ => { dom.insert("extra".into(), DomainVariable::new(VariableType::Boolean, Default::default())); "domain-entry-without-variable" }
    };
    let _ = OptimizationType::Min;
    (LinearModel::new_from_parts(obj, opt, off, rows, vars, dom), kind)
}

pub fn generate(seed: u64, n: usize, thorough: bool, _corpus: Option<&str>) -> Vec<Case> {
    let mut r = Rng::new(seed);
    let mut cases = vec![];
    let streams: [(&str, LpCfg); 5] = [
        ("mixed", LpCfg::default()),
        ("continuous", LpCfg { doms: Doms::Continuous, ..LpCfg::default() }),
        ("fractional", LpCfg { fractional: true, ..LpCfg::default() }),
        ("integer", LpCfg { doms: Doms::Integer, ..LpCfg::default() }),
        ("nonneg", LpCfg { doms: Doms::NonNeg, feasible_pct: 80, ..LpCfg::default() }),
    ];
    let _ = thorough;
    let variants = gen_lp::detect_variants();
    for i in 0..n {
        let (name, cfg) = &streams[i % streams.len()];
        let (lm, tags) = gen_lp::model(&mut r, cfg);
        let mut tags = tags; tags.extend(variants.tags());
        solver_cases(&lm, &tags, name, &variants, &mut cases);
        helper_cases(&mut r, &lm, &mut cases);
        assign_map_case(&mut r, &mut cases);
        as_lp_solution_case(&mut r, &mut cases);
        if i % 10 == 5 {
            let lm = prefixed_names(&mut r);
            solver_cases(&lm, &["prefixed-names".to_string()], "prefixed-names", &variants, &mut cases);
        }
        if i % 10 == 3 {
            let (lm, kind) = malformed(&mut r);
            let before = cases.len();
            solver_cases(&lm, &["malformed".to_string(), format!("malformed-{}", kind)], "malformed", &variants, &mut cases);
            // a panic on an ill-formed model (C08's territory) is recorded in the distribution, not as a C04 violation
            for c in cases[before..].iter_mut() { c.impl_violation = None; c.sig = None; }
        }
        if i % 10 == 7 {
            let lm = gen_lp::permuted_domain(&mut r, i % 20 == 7);
            solver_cases(&lm, &["permuted-domain-order".to_string()], "permuted-domain-order", &variants, &mut cases);
        }
        if i % 10 == 9 {
            if let Some((lm, _)) = gen_lp::from_text(&mut r) {
                solver_cases(&lm, &["text-pipeline-define-order".to_string()], "text-pipeline-define-order", &variants, &mut cases);
            }
        }
        if i % 10 == 0 {
            let lm = variable_free(&mut r);
            solver_cases(&lm, &["variable-free".to_string()], "variable-free", &variants, &mut cases);
        }
    }
    tiny_coefficient_cases(&mut cases);
    for lm in gen_lp::variable_free_block() { solver_cases(&lm, &["variable-free-block".to_string()], "variable-free", &variants, &mut cases); }
    let mut r3 = Rng::new(seed ^ 0xc7c1e);
    for (name, lm) in gen_lp::cycling_classics(&mut r3) { solver_cases(&lm, &[name.to_string()], "cycling-classics", &variants, &mut cases); }
    let mut r2 = Rng::new(seed ^ 0x2fa5e);
    for k in 0..40 {
        let lm = gen_lp::two_phase_zero_rows(&mut r2, k);
        solver_cases(&lm, &["two-phase-zero-level-artificial".to_string()], "two-phase-zero-level-artificial", &variants, &mut cases);
    }
    child::shutdown();
    cases
}
