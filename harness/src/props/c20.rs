//! C20 — shadow prices are the sensitivities of the optimum.
//!
//! Small continuous models with named rows whose optimum is unique and non-degenerate (constructed that way, and
//! decided again by the exact oracle) through `solve_real_lp_problem_clarabel` (the built-in solver that reports duals),
//! directly and through the compile path (`Model` → `Linearizer::linearize`, which bakes derived bounds into the
//! domains).  The oracle compares every reported price with the exact two-sided finite difference of the certified
//! optimum under a perturbed right-hand side; inactive rows ≈ 0, unnamed rows absent.
use crate::case::Case;
use crate::child::{self, Opts, Outcome, SolverKind};
use crate::gen_lp::{self, Doms, LpCfg};
use crate::props::c04::show_model;
use crate::rng::Rng;
use crate::sx;
use indexmap::IndexMap;
use rooc::model_transformer::{Constraint, DomainVariable, Exp, Model, Objective};
use rooc::{BinOp, Comparison, LinearModel, Linearizer, OptimizationType, VariableType};
use std::time::Duration;

const TIMEOUT: Duration = Duration::from_secs(3);

fn det(a: &[Vec<f64>]) -> f64 {
    match a.len() {
        1 => a[0][0],
        2 => a[0][0] * a[1][1] - a[0][1] * a[1][0],
        _ => a[0][0] * (a[1][1] * a[2][2] - a[1][2] * a[2][1]) - a[0][1] * (a[1][0] * a[2][2] - a[1][2] * a[2][0])
            + a[0][2] * (a[1][0] * a[2][1] - a[1][1] * a[2][0]),
    }
}

/// a model whose optimum is a prescribed vertex `x0` with `n` active, linearly independent rows, non-zero multipliers
/// (unique + non-degenerate by construction), plus strictly inactive rows.  Bounds are never active.
pub fn constructed(r: &mut Rng, tight_domains: bool) -> LinearModel {
    let n = 1 + r.below(3);
    let x0: Vec<f64> = (0..n).map(|_| 1.0 + r.below(4) as f64).collect();
    let rows: Vec<Vec<f64>> = loop {
        let a: Vec<Vec<f64>> = (0..n).map(|_| (0..n).map(|_| r.range(-3, 3) as f64).collect()).collect();
        if det(&a) != 0.0 { break a; }
    };
    let mut m = LinearModel::new();
    for i in 0..n {
        let t = if tight_domains { VariableType::NonNegativeReal(0.0, f64::INFINITY) } else {
            match r.below(4) {
                0 => VariableType::Real(f64::NEG_INFINITY, f64::INFINITY),
                1 => VariableType::NonNegativeReal(0.0, f64::INFINITY),
                2 => VariableType::Real(-10.0, 10.0),
                _ => VariableType::Real(-2.0, f64::INFINITY),
            }
        };
        m.add_variable(&format!("x{}", i), t);
    }
    let is_min = r.chance(1, 2);
    // row names: plain (`a0`), or the names the linearizer gives to constraints that SHARE a source name
    // (`need`, `need__2`, `need__3`: a `for`-quantified or repeated named constraint) — user rows whose names contain `__`
    let family_names = r.chance(1, 3);
    let mut fam_k = 0;
    let mut row_name = |r: &mut Rng, plain: String| -> String {
        if r.chance(1, 6) { return String::new(); }
        if family_names { fam_k += 1; if fam_k == 1 { "need".to_string() } else { format!("need__{}", fam_k) } } else { plain }
    };
    let mut obj = vec![0.0; n];
    let mut named = 0;
    for (k, a) in rows.iter().enumerate() {
        let rel = gen_lp::cmp3(r, 30);
        // multiplier of the row in the MIN form: >= rows need y > 0, <= rows y < 0, = rows any non-zero sign
        // mostly multipliers of magnitude 1..3; every third row a TINY but non-zero one (2e-5 .. 9e-5): a price that a
        // "noise threshold" would wrongly flatten to zero
        let mag = if r.chance(1, 3) { (2 + r.below(8)) as f64 * 1e-5 } else { 1.0 + r.below(3) as f64 };
        let y = match rel { Comparison::GreaterOrEqual => mag, Comparison::LessOrEqual => -mag, _ => if r.chance(1, 2) { mag } else { -mag } };
        for j in 0..n { obj[j] += y * a[j]; }
        let rhs: f64 = a.iter().zip(&x0).map(|(p, q)| p * q).sum();
        let name = row_name(r, format!("a{}", k));
        if !name.is_empty() { named += 1; }
        m.add_named_constraint(a.clone(), rel, rhs, &name);
    }
    for k in 0..r.below(3) {
        // never a constant row: the compiler drops tautologies, which would shift the `need__k` numbering of the family
        let a: Vec<f64> = loop { let a: Vec<f64> = (0..n).map(|_| r.range(-3, 3) as f64).collect(); if a.iter().any(|c| *c != 0.0) { break a; } };
        let act: f64 = a.iter().zip(&x0).map(|(p, q)| p * q).sum();
        let (rel, rhs) = if r.chance(1, 2) { (Comparison::LessOrEqual, act + 1.0 + r.below(3) as f64) } else { (Comparison::GreaterOrEqual, act - 1.0 - r.below(3) as f64) };
        let name = row_name(r, format!("i{}", k));
        m.add_named_constraint(a, rel, rhs, &name);
    }
    let _ = named;
    if is_min { m.set_objective(obj, OptimizationType::Min); } else { m.set_objective(obj.iter().map(|c| -c).collect(), OptimizationType::Max); }
    m
}

fn lin_exp(coeffs: &[f64], vars: &[String]) -> Exp {
    let mut e: Option<Exp> = None;
    for (c, v) in coeffs.iter().zip(vars) {
        if *c == 0.0 { continue; }
        let t = Exp::BinOp(BinOp::Mul, Box::new(Exp::Number(*c)), Box::new(Exp::Variable(v.clone())));
        e = Some(match e { None => t, Some(p) => Exp::BinOp(BinOp::Add, Box::new(p), Box::new(t)) });
    }
    e.unwrap_or(Exp::Number(0.0))
}

/// the same LP as a source `Model`, compiled by the real linearizer (derived bounds are baked into the domains)
pub fn compile(lm: &LinearModel) -> Option<LinearModel> {
    let vars = lm.variables();
    let mut domain: IndexMap<String, DomainVariable> = IndexMap::new();
    for (n, d) in lm.domain() {
        let mut dv = DomainVariable::new(d.get_type().clone(), Default::default());
        dv.increment_usage();
        domain.insert(n.clone(), dv);
    }
    // rows called `need__k` go in under the SHARED source name `need`: the linearizer itself renames them
    let source_name = |n: String| match n.rfind("__") { Some(i) if i > 0 && n[i + 2..].chars().all(|c| c.is_ascii_digit()) && i + 2 < n.len() => n[..i].to_string(), _ => n };
    let cons = lm.constraints().iter().map(|r| Constraint::new(lin_exp(r.coefficients(), vars), *r.constraint_type(), Exp::Number(r.rhs()), source_name(r.name()))).collect();
    let obj = Objective::new(lm.optimization_type().clone(), lin_exp(lm.objective(), vars));
    let model = Model::new(obj, cons, domain);
    std::panic::catch_unwind(|| Linearizer::linearize(model).ok()).ok().flatten()
}

fn push_case(lm: &LinearModel, solved: &LinearModel, stream: &str, compiled: bool, variants: &gen_lp::Variants, out: &mut Vec<Case>) {
    push_case_kind(SolverKind::Clarabel, lm, solved, stream, compiled, variants, out);
}

/// `kind`: the free function `solve_real_lp_problem_clarabel`, the solver OBJECT `rooc::Clarabel` (`Solver::solve`), or the
/// whole builder door `ModelBuilder … solve_with(Clarabel)`
fn push_case_kind(kind: SolverKind, lm: &LinearModel, solved: &LinearModel, stream: &str, compiled: bool, variants: &gen_lp::Variants, out: &mut Vec<Case>) {
    let opts = Opts::default();
    let o = child::solve(kind, solved, &opts, TIMEOUT);
    let res = gen_lp::result(&o);
    let mut c = Case::default();
    c.imp = res.clone();
    let door = kind == SolverKind::BuilderDoorClarabel;
    if !matches!(o, Outcome::Hang) && !door {
        c.req = gen_lp::clarabel_req(solved, &sx::lin_model(solved), variants, TIMEOUT).unwrap_or_default();
    }
    // every accessor (capability traits, BuilderSolution) must agree with `shadow_prices()`: unnamed / unknown rows -> None
    if let Outcome::Solution(sol) = &o {
        if let Some(d) = gen_lp::accessor_disagreement(sol) {
            c.impl_violation = Some(format!("{}: the accessors of the returned solution disagree: {}", kind.name(), d));
            c.sig = Some("accessor-disagreement".into());
        }
    }
    // through the builder door the compiled model differs from `lm` (derived bounds): only accessor agreement is judged
    c.oracle = if door { String::new() } else if compiled { format!("shadow-compiled {} {} {}", sx::lin_model(lm), sx::lin_model(solved), res) }
               else { format!("shadow {} {}", sx::lin_model(lm), res) };
    c.tags = vec![format!("stream-{}", stream), format!("entry-{}", kind.name()), format!("sense-{}", sx::opt_type(lm.optimization_type())),
        match &o { Outcome::Solution(_) => "answer-solution".to_string(), Outcome::Err { variant, .. } => format!("answer-err-{}", variant), Outcome::Panic(_) => "answer-panic".into(), Outcome::Hang => "answer-hang".into() }];
    for r in lm.constraints() {
        c.tags.push(format!("row-{}{}", sx::cmp(*r.constraint_type()), if r.name().is_empty() { "-unnamed" } else { "" }));
    }
    if compiled && sx::domain(lm.domain()) != sx::domain(solved.domain()) { c.tags.push("derived-bounds-tighten-domain".into()); }
    if lm.constraints().iter().any(|r| r.name().contains("__")) { c.tags.push("row-names-with-double-underscore".into()); }
    if compiled {
        let a: Vec<String> = lm.constraints().iter().map(|r| r.name()).filter(|n| !n.is_empty()).collect();
        let b: Vec<String> = solved.constraints().iter().map(|r| r.name()).filter(|n| !n.is_empty()).collect();
        c.tags.push(if a.iter().all(|n| b.contains(n)) { "compiled-row-names-preserved".into() } else { "compiled-row-names-differ".into() });
    }
    c.tags.sort();
    c.tags.dedup();
    c.nontrivial = matches!(&o, Outcome::Solution(s) if !s.duals.is_empty());
    c.show = format!("clarabel shadow prices{} on: {}", if compiled { " (compile path)" } else { "" }, show_model(lm));
    out.push(c);
}

/// design-phase probe: `min x + y; a: x + 2y = 4; b: x <= 1; x, y NonNegativeReal`
pub fn seeded() -> LinearModel {
    let mut m = LinearModel::new();
    m.add_variable("x", VariableType::NonNegativeReal(0.0, f64::INFINITY));
    m.add_variable("y", VariableType::NonNegativeReal(0.0, f64::INFINITY));
    m.add_named_constraint(vec![1.0, 2.0], Comparison::Equal, 4.0, "a");
    m.add_named_constraint(vec![1.0, 0.0], Comparison::LessOrEqual, 1.0, "b");
    m.set_objective(vec![1.0, 1.0], OptimizationType::Min);
    m
}

pub fn generate(seed: u64, n: usize, _thorough: bool, _corpus: Option<&str>) -> Vec<Case> {
    let mut r = Rng::new(seed);
    let mut cases = vec![];
    let variants = &gen_lp::detect_variants();
    let s = seeded();
    push_case(&s, &s, "seeded-direct", false, variants, &mut cases);
    if let Some(c) = compile(&s) { push_case(&s, &c, "seeded-compiled", true, variants, &mut cases); }
    for i in 0..n {
        match i % 4 {
            0 => { let lm = constructed(&mut r, false); push_case(&lm, &lm, "constructed-direct", false, variants, &mut cases); }
            1 => {
                // the solver OBJECT of the builder layer, half of the time on an objective with coefficients above 1e4
                let mut lm = constructed(&mut r, false);
                let mut stream = "constructed-direct";
                if i % 8 == 1 {
                    let k = *r.pick(&[2.0e4, 1.0e5, 3.0e6]);
                    let (obj, opt, off, rows, vars, dom) = lm.into_parts();
                    lm = LinearModel::new_from_parts(obj.iter().map(|c| c * k).collect(), opt, off, rows, vars, dom);
                    stream = "large-objective-coefficients";
                }
                push_case_kind(SolverKind::BuilderClarabel, &lm, &lm, stream, false, variants, &mut cases);
                if i % 8 == 1 { push_case(&lm, &lm, stream, false, variants, &mut cases); }
                if i % 16 == 5 { push_case_kind(SolverKind::BuilderDoorClarabel, &lm, &lm, "builder-door", false, variants, &mut cases); }
            }
            2 => {
                let tight = r.chance(1, 2);
                let lm = constructed(&mut r, tight);
                if let Some(c) = compile(&lm) { push_case(&lm, &c, "constructed-compiled", true, variants, &mut cases); }
            }
            _ => {
                let (lm, _) = gen_lp::model(&mut r, &LpCfg { doms: Doms::Continuous, naming: 1, allow_satisfy: false, feasible_pct: 90, max_vars: 3, max_rows: 4, ..LpCfg::default() });
                push_case(&lm, &lm, "random-direct", false, variants, &mut cases);
            }
        }
    }
    // named SINGLETON rows that bind, built through add_named_constraint (own stream, fixed block)
    let mut r6 = Rng::new(seed ^ 0x51e6);
    for k in 0..40 {
        let (intended, built) = gen_lp::singleton_bound_rows(&mut r6);
        push_case_kind(if k % 2 == 0 { SolverKind::Clarabel } else { SolverKind::BuilderClarabel }, &intended, &built, "singleton-named-rows", false, variants, &mut cases);
    }
    child::shutdown();
    cases
}
