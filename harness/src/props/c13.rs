//! C13 — standard-form conversion preserves the problem: `LinearModel::into_standard_form`
//! (`to_standard_form`, `normalize_constraint`, `EqualityConstraint::new`, `StandardLinearModel::new`).
use crate::case::Case;
use crate::gen_std::{self, DataClass, LpSpec, VKind};
use crate::rng::Rng;
use crate::sx;
use indexmap::IndexMap;
use rooc::model_transformer::DomainVariable;
use rooc::{Comparison, InputSpan, LinearConstraint, LinearModel, OptimizationType, SolverError, VariableType};

pub fn std_sx(v: &rooc::verif_hooks::StandardView) -> String {
    let mut s = String::from("(std (vars");
    for n in &v.variables { s.push(' '); s.push_str(&sx::q(n)); }
    s.push_str(") (obj");
    for c in &v.objective { s.push(' '); s.push_str(&gen_std::num(*c)); }
    s.push_str(&format!(") {} {} (rows", gen_std::num(v.objective_offset), if v.flip_objective { "flip" } else { "noflip" }));
    for (cs, rhs) in &v.rows {
        s.push_str(&format!(" (({}) {})", gen_std::nums(cs), gen_std::num(*rhs)));
    }
    s.push_str("))");
    s
}

pub fn err_name(e: &SolverError) -> &'static str {
    match e {
        SolverError::InvalidDomain { .. } => "InvalidDomain",
        SolverError::TooLarge { .. } => "TooLarge",
        SolverError::DidNotSolve => "DidNotSolve",
        SolverError::Unbounded => "Unbounded",
        SolverError::Infeasible => "Infeasible",
        SolverError::Other(_) => "Other",
        SolverError::LimitReached => "LimitReached",
        SolverError::UnimplementedOptimizationType { .. } => "UnimplementedOptimizationType",
        SolverError::UnavailableComparison { .. } => "UnavailableComparison",
    }
}

fn show(m: &LinearModel) -> String {
    let dom = m.variables().iter().map(|v| match m.domain().get(v) { Some(d) => format!("{} as {}", v, d.get_type()), None => format!("{} (undeclared)", v) }).collect::<Vec<_>>().join(", ");
    let rows = m.constraints().iter().map(|c| format!("{:?} {} {}", c.coefficients(), c.constraint_type(), c.rhs())).collect::<Vec<_>>().join("; ");
    format!("{} {:?} + {} s.t. {} ; {}", m.optimization_type(), m.objective(), m.objective_offset(), rows, dom)
}

/// oracle sampling effort (points per direction); raised in the thorough tier
pub static EFFORT: std::sync::atomic::AtomicUsize = std::sync::atomic::AtomicUsize::new(100);
pub fn one(m: &LinearModel, tol: f64, mut tags: Vec<String>) -> Case {
    // the oracle's cost grows with (points) x (rows x columns of the standard form): spend the budget on the small
    // models, where the grid is dense, and sample the large ones thinly (they are what the bit-exact diff is for)
    let base = EFFORT.load(std::sync::atomic::Ordering::Relaxed);
    let size = m.variables().len().max(m.constraints().len());
    let effort = if size >= 5 { base / 8 } else if size >= 4 { base / 5 } else { base };
    one_effort(m, tol, effort.max(30), &mut tags)
}
pub fn one_effort(m: &LinearModel, tol: f64, effort: usize, tags: &mut Vec<String>) -> Case {
    let mut tags = std::mem::take(tags);
    let lin = sx::lin_model(m);
    let mut c = Case::default();
    c.req = format!("standardize {} {}", gen_std::num(tol), lin);
    c.show = show(m);
    let mm = m.clone();
    let res = std::panic::catch_unwind(move || mm.into_standard_form());
    match res {
        Err(_) => { c.imp = "(err panic)".into(); tags.push("result:panic".into()); }
        Ok(Err(e)) => { c.imp = format!("(err {})", err_name(&e)); tags.push(format!("result:err-{}", err_name(&e))); }
        Ok(Ok(s)) => {
            let v = rooc::verif_hooks::standard_view(&s);
            let ssx = std_sx(&v);
            c.imp = format!("(ok {})", ssx);
            // the property quantifies over linear MODELS: rows and objective as long as the variable list,
            // every variable declared.  Ragged inputs (only constructible through `new_from_parts`) are
            // compared with the model but have no meaning the oracle could check.
            let nv = m.variables().len();
            let well_formed = m.objective().len() == nv && m.constraints().iter().all(|r| r.coefficients().len() == nv);
            if well_formed { c.oracle = format!("check-std {} {} {} {}", gen_std::num(tol), effort, lin, ssx); } else { tags.push("input:ragged".into()); }
            tags.push("result:ok".into());
            // which rules fired
            let nfree = m.variables().iter().filter(|n| matches!(m.domain().get(*n).map(|d| *d.get_type()), Some(VariableType::Real(_, _)))).count();
            let nslack = v.variables.iter().filter(|n| n.starts_with("$sl_")).count();
            let nsurplus = v.variables.iter().filter(|n| n.starts_with("$su_")).count();
            let nbound = v.rows.len().saturating_sub(m.constraints().len());
            let nflip = m.constraints().iter().filter(|r| r.rhs() < 0.0).count(); // exact sign test since /repo 947e0f0
            if m.constraints().iter().any(|r| r.rhs() < 0.0 && !rooc::verif_hooks::float_lt_hook(r.rhs(), 0.0)) { tags.push("regression:rhs-negative-inside-old-tolerance-band".into()); }
            if nfree > 0 { tags.push("rule:free-split".into()); }
            if nslack > 0 { tags.push("rule:slack".into()); }
            if nsurplus > 0 { tags.push("rule:surplus".into()); }
            if nbound > 0 { tags.push("rule:bound-row".into()); }
            if nflip > 0 { tags.push("rule:rhs-sign-flip".into()); }
            if v.flip_objective { tags.push("rule:objective-flip".into()); }
            if m.objective_offset() != 0.0 { tags.push("rule:offset".into()); }
            // a free variable with a zero coefficient in some row (the positional bookkeeping case)
            let free_idx: Vec<usize> = m.variables().iter().enumerate().filter(|(_, n)| matches!(m.domain().get(*n).map(|d| *d.get_type()), Some(VariableType::Real(_, _)))).map(|(i, _)| i).collect();
            if m.constraints().iter().any(|r| free_idx.iter().any(|i| r.coefficients().get(*i) == Some(&0.0))) { tags.push("rule:zero-coef-on-free".into()); }
            // interleaving: a free variable placed before a non-free one
            if free_idx.iter().any(|i| (*i + 1..m.variables().len()).any(|j| !free_idx.contains(&j))) { tags.push("rule:free-before-kept".into()); }
            c.nontrivial = nfree + nslack + nsurplus + nbound + nflip > 0 || v.flip_objective;
            // shape facts that need no exact arithmetic, checked on the implementation directly
            if v.rows.iter().any(|(cs, _)| cs.len() != v.variables.len()) || v.objective.len() != v.variables.len() {
                c.impl_violation = Some("standard form with ragged rows".into());
                c.sig = Some("ragged".into());
            }
        }
    }
    c.tags = tags;
    c
}

fn spec_tags(s: &LpSpec, stream: &str) -> Vec<String> {
    let mut t = vec![format!("stream:{}", stream), s.class.tag().to_string(), format!("opt:{}", sx::opt_type(&s.opt))];
    for k in &s.kinds { let g = k.tag().to_string(); if !t.contains(&g) { t.push(g); } }
    for (_, c, rhs) in &s.rows {
        let g = format!("row:{}", sx::cmp(*c)); if !t.contains(&g) { t.push(g); }
        let g = if *rhs < 0.0 { "rhs:negative" } else if *rhs == 0.0 { "rhs:zero" } else { "rhs:positive" }.to_string();
        if !t.contains(&g) { t.push(g); }
    }
    t.push(format!("size:{}x{}", s.kinds.len(), s.rows.len()));
    t
}

/// models that the public constructors allow but the text front-end never produces
fn malformed(r: &mut Rng, tol: f64, cases: &mut Vec<Case>) {
    let mk_dom = |names: &[&str], tys: &[VariableType]| {
        let mut d = IndexMap::new();
        for (n, t) in names.iter().zip(tys) { d.insert(n.to_string(), DomainVariable::new(*t, InputSpan::default())); }
        d
    };
    let free = VariableType::Real(f64::NEG_INFINITY, f64::INFINITY);
    let nn = VariableType::NonNegativeReal(0.0, f64::INFINITY);
    let vars = |ns: &[&str]| ns.iter().map(|s| s.to_string()).collect::<Vec<_>>();
    let row = |c: Vec<f64>, k: Comparison, rhs: f64| LinearConstraint::new(c, k, rhs);
    let k = |r: &mut Rng| r.range(-3, 3) as f64;
    for _ in 0..6 {
        // short rows under free variables: the index read lands on an appended column or panics
        let m = LinearModel::new_from_parts(vec![k(r), k(r)], OptimizationType::Min, 0.0,
            vec![row(vec![k(r)], Comparison::LessOrEqual, k(r)), row(vec![k(r), k(r)], Comparison::Equal, k(r))],
            vars(&["x", "y"]), mk_dom(&["x", "y"], &[free, free]));
        cases.push(one(&m, tol, vec!["stream:malformed".into(), "malformed:short-row".into()]));
        // empty row with a free variable: index out of range
        let m = LinearModel::new_from_parts(vec![k(r), k(r)], OptimizationType::Max, 1.0,
            vec![row(vec![], Comparison::GreaterOrEqual, k(r))], vars(&["x", "y"]), mk_dom(&["x", "y"], &[nn, free]));
        cases.push(one(&m, tol, vec!["stream:malformed".into(), "malformed:empty-row".into()]));
        // long rows and long objective: truncated by resize
        let m = LinearModel::new_from_parts(vec![k(r), k(r), k(r), k(r)], OptimizationType::Min, 0.0,
            vec![row(vec![k(r), k(r), k(r), k(r)], Comparison::LessOrEqual, k(r)), row(vec![k(r), k(r), k(r)], Comparison::Equal, k(r))],
            vars(&["x", "y"]), mk_dom(&["x", "y"], &[nn, free]));
        cases.push(one(&m, tol, vec!["stream:malformed".into(), "malformed:long-row".into()]));
        // short objective
        let m = LinearModel::new_from_parts(vec![k(r)], OptimizationType::Min, 0.0,
            vec![row(vec![k(r), k(r)], Comparison::LessOrEqual, k(r))], vars(&["x", "y"]), mk_dom(&["x", "y"], &[nn, free]));
        cases.push(one(&m, tol, vec!["stream:malformed".into(), "malformed:short-objective".into()]));
        // variable without a domain entry
        let m = LinearModel::new_from_parts(vec![k(r), k(r)], OptimizationType::Min, 0.0,
            vec![row(vec![k(r), k(r)], Comparison::LessOrEqual, k(r))], vars(&["x", "y"]), mk_dom(&["x"], &[nn]));
        cases.push(one(&m, tol, vec!["stream:malformed".into(), "malformed:undeclared-variable".into()]));
        // discrete variable in the domain (even if unused)
        let m = LinearModel::new_from_parts(vec![k(r)], OptimizationType::Min, 0.0,
            vec![row(vec![k(r)], Comparison::LessOrEqual, k(r))], vars(&["x"]),
            mk_dom(&["x", "b"], &[nn, if r.chance(1, 2) { VariableType::Boolean } else { VariableType::IntegerRange(0, 5) }]));
        cases.push(one(&m, tol, vec!["stream:malformed".into(), "malformed:discrete-domain".into()]));
        // strict comparisons
        let m = LinearModel::new_from_parts(vec![k(r)], OptimizationType::Min, 0.0,
            vec![row(vec![k(r)], Comparison::LessOrEqual, k(r)), row(vec![k(r)], if r.chance(1, 2) { Comparison::Less } else { Comparison::Greater }, k(r))],
            vars(&["x"]), mk_dom(&["x"], &[free]));
        cases.push(one(&m, tol, vec!["stream:malformed".into(), "malformed:strict-comparison".into()]));
        // satisfy
        let m = LinearModel::new_from_parts(vec![0.0], OptimizationType::Satisfy, 0.0,
            vec![row(vec![k(r)], Comparison::LessOrEqual, k(r))], vars(&["x"]), mk_dom(&["x"], &[nn]));
        cases.push(one(&m, tol, vec!["stream:malformed".into(), "opt:solve".into()]));
        // non-finite bounds / data
        let odd = [f64::NAN, f64::INFINITY, f64::NEG_INFINITY, -0.0][r.below(4)];
        let m = LinearModel::new_from_parts(vec![k(r), k(r)], OptimizationType::Min, 0.0,
            vec![row(vec![k(r), k(r)], Comparison::LessOrEqual, if r.chance(1, 2) { odd } else { k(r) })], vars(&["x", "y"]),
            mk_dom(&["x", "y"], &[VariableType::Real(odd, 3.0), VariableType::NonNegativeReal(odd, f64::INFINITY)]));
        cases.push(one(&m, tol, vec!["stream:malformed".into(), "malformed:non-finite".into()]));
        // NonNegativeReal with a negative lower bound (outside the front-end's well-formedness)
        let m = LinearModel::new_from_parts(vec![k(r), k(r)], OptimizationType::Min, 0.0,
            vec![row(vec![k(r), k(r)], Comparison::GreaterOrEqual, k(r))], vars(&["x", "y"]),
            mk_dom(&["x", "y"], &[VariableType::NonNegativeReal(-2.0, 3.0), free]));
        cases.push(one(&m, tol, vec!["stream:malformed".into(), "malformed:nn-negative-lower".into()]));
    }
}

pub fn generate(seed: u64, n: usize, thorough: bool, _corpus: Option<&str>) -> Vec<Case> {
    let mut r = Rng::new(seed).fork(); // fork: `Rng::new(s+1)` is `Rng::new(s)` shifted by one draw, the fork decorrelates seeds
    let tol = gen_std::measured_tolerance();
    let mut cases = vec![];
    EFFORT.store(if thorough { 300 } else { 100 }, std::sync::atomic::Ordering::Relaxed);
    // --- the documented example and the classic shapes first
    {
        let mut m = LinearModel::new();
        m.add_variable("x", VariableType::NonNegativeReal(0.0, f64::INFINITY));
        m.add_variable("y", VariableType::non_negative_real());
        m.set_objective(vec![1.0, 2.0], OptimizationType::Min);
        m.add_constraint(vec![1.0, 1.0], Comparison::LessOrEqual, 10.0);
        cases.push(one(&m, tol, vec!["stream:seed".into()]));
    }
    // --- exhaustive over kind patterns (every interleaving), one data draw per pattern
    let (maxv, maxr, vk): (usize, usize, &[VKind]) = if thorough { (3, 3, &gen_std::VKINDS7[..]) } else { (3, 3, &gen_std::VKINDS4[..]) };
    for nv in 1..=maxv {
        for vp in gen_std::patterns(vk, nv) {
            for nr in 0..=maxr {
                if thorough && nv == 3 && nr == 3 && !vp.iter().all(|k| gen_std::VKINDS4.contains(k)) { continue; } // 7^3*27 is too many: 4-kind subset at the top size
                for rp in gen_std::patterns(&gen_std::RKINDS, nr) {
                    let opt = if r.chance(1, 2) { OptimizationType::Min } else { OptimizationType::Max };
                    let s = gen_std::spec(&mut r, &vp, &rp, opt, DataClass::SmallInt);
                    cases.push(one(&gen_std::build(&s), tol, spec_tags(&s, "exhaustive-kinds")));
                }
            }
        }
    }
    // --- random beyond, all data classes
    let classes = [DataClass::SmallInt, DataClass::Dyadic, DataClass::Decimal, DataClass::TolBoundary, DataClass::Extreme, DataClass::Large];
    for i in 0..n {
        let class = classes[i % classes.len()];
        let s = gen_std::random_spec(&mut r, 5, 5, &gen_std::VKINDS7, class);
        cases.push(one(&gen_std::build(&s), tol, spec_tags(&s, "random")));
    }
    // --- tolerance boundary on the right-hand side specifically: REGRESSION stream of the repaired defect
    // C13-rhs-sign-within-tolerance (sign normalisation used float_lt; exact since /repo 947e0f0); contains the
    // finding's input `max x - y s.t. 2x + y <= -0.000005`
    for p in gen_std::PERTURB.iter().chain([tol, tol * 0.5, tol * 0.999999, tol * 1.000001].iter()) {
        for sgn in [-1.0, 1.0] {
            for cmp in gen_std::RKINDS {
                let mut m = LinearModel::new();
                m.add_variable("x", VariableType::non_negative_real());
                m.add_variable("y", VariableType::real());
                m.set_objective(vec![1.0, -1.0], OptimizationType::Max);
                m.add_constraint(vec![2.0, 1.0], cmp, sgn * p);
                cases.push(one(&m, tol, vec!["stream:rhs-tolerance-boundary".into(), "regression:C13-rhs-sign-within-tolerance".into(), DataClass::TolBoundary.tag().into()]));
            }
        }
    }
    // --- contradiction rows: a feasible (planted) model plus a row in which no variable appears and whose
    // comparison is false (`0 = 5`, `0 <= -1`, `0 >= 2`, also under free variables): the original is infeasible, so
    // the standard form must be infeasible too — if the conversion loses the row, the oracle's backward check maps a
    // feasible standard-form point to a point violating it
    for i in 0..(if thorough { 400 } else { 60 }) {
        let kinds: Vec<VKind> = (0..1 + r.below(3)).map(|_| *r.pick(&gen_std::VKINDS4)).collect();
        let rk: Vec<Comparison> = (0..r.below(3)).map(|_| *r.pick(&gen_std::RKINDS)).collect();
        let opt = if r.chance(1, 2) { OptimizationType::Min } else { OptimizationType::Max };
        let mut s = gen_std::spec(&mut r, &kinds, &rk, opt, DataClass::SmallInt);
        let zero_row = vec![0.0; kinds.len()];
        let (cmp, rhs) = match i % 4 { 0 | 1 => (Comparison::Equal, [5.0, -3.0, 0.5, -1.0][r.below(4)]), 2 => (Comparison::LessOrEqual, -1.0 - r.below(3) as f64), _ => (Comparison::GreaterOrEqual, 1.0 + r.below(3) as f64) };
        let at = r.below(s.rows.len() + 1);
        s.rows.insert(at, (zero_row, cmp, rhs));
        let mut tags = spec_tags(&s, "contradiction-row");
        tags.push(format!("contradiction:{}", sx::cmp(cmp)));
        cases.push(one(&gen_std::build(&s), tol, tags));
    }
    // --- domain order != variable order.  `to_standard_form` must look every variable up BY NAME: models built with
    // `new_from_parts` may list the domain in any order, and every COMPILED model does (the linearizer sorts the variable
    // names, the domain stays in declaration order).  Positions and kinds are chosen so that a positional reading of the
    // domain would split the wrong variable.
    for i in 0..(if thorough { 800 } else { 120 }) {
        let nv = 2 + r.below(3);
        let mut kinds: Vec<VKind> = (0..nv).map(|_| *r.pick(&gen_std::VKINDS7)).collect();
        kinds[0] = if i % 2 == 0 { VKind::Free } else { VKind::NonNeg };          // a free and a kept variable,
        kinds[nv - 1] = if i % 2 == 0 { VKind::NonNeg } else { VKind::RealBoth };   // at the two ends
        let rk: Vec<Comparison> = (0..r.below(3)).map(|_| *r.pick(&gen_std::RKINDS)).collect();
        let opt = if r.chance(1, 2) { OptimizationType::Min } else { OptimizationType::Max };
        let s = gen_std::spec(&mut r, &kinds, &rk, opt, DataClass::SmallInt);
        let (o, t, off, c, v, d) = gen_std::build(&s).into_parts();
        let mut entries: Vec<(String, DomainVariable)> = d.into_iter().collect();
        if r.chance(1, 2) { entries.reverse(); } else { let k = 1 + r.below(nv - 1); entries.rotate_left(k); }
        let d2: IndexMap<String, DomainVariable> = entries.into_iter().collect();
        let m = LinearModel::new_from_parts(o, t, off, c, v, d2);
        let mut tags = spec_tags(&s, "permuted-domain");
        tags.push("domain:order-differs-from-variables".into());
        cases.push(one(&m, tol, tags));
    }
    // compiled models (text -> parser -> linearizer): variables sorted by name, domain in declaration order
    for _ in 0..(if thorough { 300 } else { 60 }) {
        if let Some((m, src)) = crate::gen_lp::from_text(&mut r) {
            if !crate::gen_lp::is_continuous(&m) { continue; }
            let differs = m.variables().iter().zip(m.domain().keys()).any(|(a, b)| a != b);
            let mut c = one(&m, tol, vec!["stream:compiled-from-text".into(),
                if differs { "domain:order-differs-from-variables".into() } else { "domain:order-same".into() }]);
            c.show = format!("{} <= compiled from: {}", c.show, src.replace('\n', " / "));
            cases.push(c);
        }
    }
    // --- models that already look like a standard form: only equality rows over plain non-negative variables, in
    // BOTH directions (a `max` must still be recorded as a flipped minimisation) and as `solve` (must be rejected)
    for i in 0..(if thorough { 300 } else { 60 }) {
        let nv = 1 + r.below(3);
        let kinds = vec![VKind::NonNeg; nv];
        let rk = vec![Comparison::Equal; r.below(3)];
        let opt = match i % 5 { 0 | 1 | 2 => OptimizationType::Max, 3 => OptimizationType::Min, _ => OptimizationType::Satisfy };
        let mut s = gen_std::spec(&mut r, &kinds, &rk, opt, DataClass::SmallInt);
        s.types = vec![VariableType::non_negative_real(); nv];   // exactly NonNegativeReal(0, inf)
        if s.obj.iter().all(|c| *c == 0.0) { s.obj[0] = 1.0 + r.below(3) as f64; }
        let mut tags = spec_tags(&s, "already-standard-form");
        cases.push(one(&gen_std::build(&s), tol, std::mem::take(&mut tags)));
    }
    malformed(&mut r, tol, &mut cases);
    cases
}
