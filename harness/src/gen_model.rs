//! Generators for source `Model`s over the expression language of C01/C02 (typed: numeric vs 0/1 expressions).
use crate::rng::Rng;
use indexmap::IndexMap;
use rooc::model_transformer::{Constraint, DomainVariable, Exp, Model, Objective};
use rooc::{BinOp, Comparison, InputSpan, OptimizationType, UnOp, VariableType};

#[derive(Clone)]
pub struct VarDecl { pub name: String, pub ty: VariableType }

pub struct ModelCfg {
    pub max_vars: usize,
    pub depth: u32,
    pub logic: bool,
    pub piecewise: bool,
    pub unbounded: bool, // allow infinite declarations
    pub fractional: bool,
    pub strict_cmp: bool,
    /// inject constructs the compiler must reject or treat specially (non-linear terms, division by zero / by a
    /// variable, empty aggregations, non-binary logic operands, user variables named like auxiliaries)
    pub hostile: bool,
}

pub fn coef(r: &mut Rng, fractional: bool) -> f64 {
    match r.below(if fractional { 10 } else { 7 }) {
        0 => 1.0, 1 => -1.0, 2 => 2.0, 3 => -2.0, 4 => 3.0, 5 => r.range(-4, 4) as f64, 6 => 0.0,
        7 => r.range(-6, 6) as f64 / 4.0,
        8 => r.range(-30, 30) as f64 / 10.0,
        _ => 0.5,
    }
}
pub fn constant(r: &mut Rng, fractional: bool) -> f64 {
    match r.below(if fractional { 8 } else { 6 }) {
        0 => 0.0, 1 => 1.0, 2 => r.range(-6, 6) as f64, 3 => r.range(0, 4) as f64, 4 => 2.0, 5 => -1.0,
        6 => r.range(-12, 12) as f64 / 4.0,
        _ => r.range(-30, 30) as f64 / 10.0,
    }
}

pub fn decls(r: &mut Rng, c: &ModelCfg) -> Vec<VarDecl> {
    let n = 1 + r.below(c.max_vars);
    let names = ["x", "y", "z", "w", "u", "v"];
    (0..n).map(|i| {
        let ty = match r.below(if c.unbounded { 11 } else { 7 }) {
            0 | 1 => VariableType::Boolean,
            2 | 3 => { let lo = r.range(-3, 2) as i32; VariableType::IntegerRange(lo, lo + r.range(0, 4) as i32) }
            4 => { let lo = r.range(-3, 2) as f64; VariableType::Real(lo, lo + r.range(0, 8) as f64 / 2.0) }
            5 => { let lo = r.range(0, 2) as f64; VariableType::NonNegativeReal(lo, lo + r.range(0, 8) as f64 / 2.0) }
            6 => VariableType::Real(-(r.range(0, 3) as f64) - 0.5, r.range(0, 3) as f64 + 0.5),
            7 => VariableType::Real(f64::NEG_INFINITY, f64::INFINITY),
            8 => VariableType::Real(r.range(-3, 0) as f64, f64::INFINITY),
            9 => VariableType::Real(f64::NEG_INFINITY, r.range(0, 3) as f64),
            _ => VariableType::NonNegativeReal(0.0, f64::INFINITY),
        };
        let name = if c.hostile && r.chance(1, 6) {
            r.pick(&["$abs_0", "$max_0", "$min_0", "$and_0", "$or_0", "$max_0_select_0", "$abs_0_positive", "$logic_witness_0", "x_1", "a__2"]).to_string()
        } else { names[i].to_string() };
        VarDecl { name, ty }
    }).collect::<Vec<_>>().into_iter().fold(vec![], |mut acc: Vec<VarDecl>, d| { if !acc.iter().any(|x| x.name == d.name) { acc.push(d); } acc })
}

fn bool_vars(ds: &[VarDecl]) -> Vec<&VarDecl> { ds.iter().filter(|d| matches!(d.ty, VariableType::Boolean)).collect() }

/// numeric-valued expression
pub fn num_exp(r: &mut Rng, ds: &[VarDecl], c: &ModelCfg, depth: u32) -> Exp {
    if depth == 0 || r.chance(1, 4) {
        return if r.chance(2, 3) { Exp::Variable(r.pick(ds).name.clone()) } else { Exp::Number(constant(r, c.fractional)) };
    }
    let d = depth - 1;
    if c.hostile && r.chance(1, 12) {
        return match r.below(7) {
            0 => Exp::BinOp(BinOp::Mul, Box::new(num_exp(r, ds, c, d)), Box::new(num_exp(r, ds, c, d))),
            1 => Exp::BinOp(BinOp::Div, Box::new(num_exp(r, ds, c, d)), Box::new(Exp::Number(0.0))),
            2 => Exp::BinOp(BinOp::Div, Box::new(Exp::Number(1.0)), Box::new(Exp::Variable(r.pick(ds).name.clone()))),
            3 => if r.chance(1, 2) { Exp::Min(vec![]) } else { Exp::Max(vec![]) },
            4 => {
                // identity constant of the and/or written as a literal or as a constant EXPRESSION
                let k = match r.below(6) {
                    0 => Exp::BinOp(BinOp::Sub, Box::new(Exp::Number(2.0)), Box::new(Exp::Number(1.0))),
                    1 => Exp::BinOp(BinOp::Mul, Box::new(Exp::Number(1.0)), Box::new(Exp::Number(1.0))),
                    2 => Exp::Not(Box::new(Exp::Number(0.0))),
                    _ => Exp::Number(*r.pick(&[1.0, 1.0, 2.0, 0.0])),
                };
                let v = Exp::Variable(r.pick(ds).name.clone());
                if r.chance(1, 4) { Exp::Or(vec![v, Exp::BinOp(BinOp::Sub, Box::new(Exp::Number(1.0)), Box::new(Exp::Number(1.0)))]) } else { Exp::And(vec![v, k]) }
            }
            5 => Exp::Not(Box::new(num_exp(r, ds, c, d))),
            _ => Exp::BinOp(BinOp::Mul, Box::new(Exp::Number(0.0)), Box::new(Exp::BinOp(BinOp::Div, Box::new(num_exp(r, ds, c, d)), Box::new(Exp::Number(0.0))))),
        };
    }
    match r.below(16) {
        0 | 1 | 2 => Exp::BinOp(BinOp::Add, Box::new(num_exp(r, ds, c, d)), Box::new(num_exp(r, ds, c, d))),
        3 | 4 => Exp::BinOp(BinOp::Sub, Box::new(num_exp(r, ds, c, d)), Box::new(num_exp(r, ds, c, d))),
        5 | 6 => {
            let k = Exp::Number(coef(r, c.fractional));
            let e = num_exp(r, ds, c, d);
            if r.chance(1, 2) { Exp::BinOp(BinOp::Mul, Box::new(k), Box::new(e)) } else { Exp::BinOp(BinOp::Mul, Box::new(e), Box::new(k)) }
        }
        7 => {
            let num = num_exp(r, ds, c, d);
            // a third of the divisors are constant EXPRESSIONS (folded by simplify only after flatten has run)
            let den = if r.chance(1, 3) {
                let (a, b) = *r.pick(&[(2.0, 3.0), (1.0, 1.0), (4.0, -2.0), (-1.0, -1.0), (0.5, 1.5), (3.0, 1.0)]);
                match r.below(3) {
                    0 => Exp::BinOp(BinOp::Add, Box::new(Exp::Number(a)), Box::new(Exp::Number(b))),
                    1 => Exp::BinOp(BinOp::Sub, Box::new(Exp::Number(a + b + b)), Box::new(Exp::Number(b))),
                    _ => Exp::BinOp(BinOp::Mul, Box::new(Exp::Number(a)), Box::new(Exp::Number(b))),
                }
            } else { Exp::Number(*r.pick(&[2.0, -2.0, 4.0, 1.0, -1.0, 0.5, 3.0])) };
            Exp::BinOp(BinOp::Div, Box::new(num), Box::new(den))
        }
        8 => Exp::UnOp(UnOp::Neg, Box::new(num_exp(r, ds, c, d))),
        9 | 10 if c.piecewise => Exp::Abs(Box::new(num_exp(r, ds, c, d))),
        11 | 12 if c.piecewise => {
            let n = 1 + r.below(3);
            let es = (0..n).map(|_| num_exp(r, ds, c, d)).collect();
            if r.chance(1, 2) { Exp::Min(es) } else { Exp::Max(es) }
        }
        13 if c.logic && !bool_vars(ds).is_empty() => bool_exp(r, ds, c, d),
        _ => Exp::BinOp(BinOp::Add, Box::new(num_exp(r, ds, c, d)), Box::new(Exp::Number(constant(r, c.fractional)))),
    }
}

/// 0/1-valued expression over Boolean variables
pub fn bool_exp(r: &mut Rng, ds: &[VarDecl], c: &ModelCfg, depth: u32) -> Exp {
    let bs = bool_vars(ds);
    if bs.is_empty() { return Exp::Number(if r.chance(1, 2) { 1.0 } else { 0.0 }); }
    if depth == 0 || r.chance(1, 4) {
        return if r.chance(5, 6) { Exp::Variable(r.pick(&bs).name.clone()) } else { Exp::Number(if r.chance(1, 2) { 1.0 } else { 0.0 }) };
    }
    let d = depth - 1;
    let structural = r.chance(1, 2);
    match r.below(8) {
        0 | 1 => {
            let n = 1 + r.below(3);
            if structural { Exp::And((0..n).map(|_| bool_exp(r, ds, c, d)).collect()) }
            else { Exp::BinOp(BinOp::And, Box::new(bool_exp(r, ds, c, d)), Box::new(bool_exp(r, ds, c, d))) }
        }
        2 | 3 => {
            let n = 1 + r.below(3);
            if structural { Exp::Or((0..n).map(|_| bool_exp(r, ds, c, d)).collect()) }
            else { Exp::BinOp(BinOp::Or, Box::new(bool_exp(r, ds, c, d)), Box::new(bool_exp(r, ds, c, d))) }
        }
        4 => if structural { Exp::Not(Box::new(bool_exp(r, ds, c, d))) } else { Exp::UnOp(UnOp::Not, Box::new(bool_exp(r, ds, c, d))) },
        5 => if structural { Exp::Xor(Box::new(bool_exp(r, ds, c, d)), Box::new(bool_exp(r, ds, c, d))) } else { Exp::BinOp(BinOp::Xor, Box::new(bool_exp(r, ds, c, d)), Box::new(bool_exp(r, ds, c, d))) },
        6 => if structural { Exp::Implies(Box::new(bool_exp(r, ds, c, d)), Box::new(bool_exp(r, ds, c, d))) } else { Exp::BinOp(BinOp::Implies, Box::new(bool_exp(r, ds, c, d)), Box::new(bool_exp(r, ds, c, d))) },
        _ => if structural { Exp::Iff(Box::new(bool_exp(r, ds, c, d)), Box::new(bool_exp(r, ds, c, d))) } else { Exp::BinOp(BinOp::Iff, Box::new(bool_exp(r, ds, c, d)), Box::new(bool_exp(r, ds, c, d))) },
    }
}

pub fn comparison(r: &mut Rng) -> Comparison {
    *r.pick(&[Comparison::LessOrEqual, Comparison::LessOrEqual, Comparison::GreaterOrEqual, Comparison::GreaterOrEqual, Comparison::Equal])
}

pub fn count_vars(e: &Exp, out: &mut IndexMap<String, usize>) {
    match e {
        Exp::Number(_) => {}
        Exp::Variable(n) => *out.entry(n.clone()).or_insert(0) += 1,
        Exp::Abs(e) | Exp::Not(e) | Exp::UnOp(_, e) => count_vars(e, out),
        Exp::Min(es) | Exp::Max(es) | Exp::And(es) | Exp::Or(es) => es.iter().for_each(|e| count_vars(e, out)),
        Exp::Xor(a, b) | Exp::Implies(a, b) | Exp::Iff(a, b) | Exp::BinOp(_, a, b) => { count_vars(a, out); count_vars(b, out); }
    }
}

pub fn build(opt: OptimizationType, objective: Exp, constraints: Vec<Constraint>, ds: &[VarDecl]) -> Model {
    let mut used = IndexMap::new();
    count_vars(&objective, &mut used);
    for c in &constraints { count_vars(c.lhs(), &mut used); if !c.is_logic_assertion() { count_vars(c.rhs(), &mut used); } }
    let mut domain = IndexMap::new();
    for d in ds {
        let mut v = DomainVariable::new(d.ty, InputSpan::default());
        for _ in 0..*used.get(&d.name).unwrap_or(&0) { v.increment_usage(); }
        domain.insert(d.name.clone(), v);
    }
    Model::new(Objective::new(opt, objective), constraints, domain)
}

pub fn model(r: &mut Rng, c: &ModelCfg) -> (Model, Vec<VarDecl>) {
    let ds = decls(r, c);
    model_with(r, c, ds)
}

pub fn model_with(r: &mut Rng, c: &ModelCfg, ds: Vec<VarDecl>) -> (Model, Vec<VarDecl>) {
    let ncons = 1 + r.below(4);
    let mut cons = vec![];
    let names = ["", "", "", "a", "b", "a", "cap", "a__2", "a__3"];
    for _ in 0..ncons {
        let name = r.pick(&names).to_string();
        let k = r.below(10);
        if c.logic && k < 2 && !bool_vars(&ds).is_empty() {
            cons.push(Constraint::new_logic_assertion(bool_exp(r, &ds, c, c.depth), name));
        } else if c.logic && k == 2 && !bool_vars(&ds).is_empty() {
            // comparison of a logic value against a constant (normalised by the linearizer)
            let k = *r.pick(&[0.0, 1.0, 1.0, 0.5, 2.0, -1.0]);
            let e = bool_exp(r, &ds, c, c.depth);
            let cmp = if c.strict_cmp { *r.pick(&[Comparison::LessOrEqual, Comparison::GreaterOrEqual, Comparison::Equal, Comparison::Less, Comparison::Greater]) } else { comparison(r) };
            if r.chance(1, 2) { cons.push(Constraint::new(e, cmp, Exp::Number(k), name)); } else { cons.push(Constraint::new(Exp::Number(k), cmp, e, name)); }
        } else {
            let lhs = num_exp(r, &ds, c, c.depth);
            let rhs = if r.chance(1, 2) { Exp::Number(constant(r, c.fractional)) } else { num_exp(r, &ds, c, c.depth.saturating_sub(1)) };
            cons.push(Constraint::new(lhs, comparison(r), rhs, name));
        }
    }
    let opt = match r.below(5) { 0 | 1 => OptimizationType::Min, 2 | 3 => OptimizationType::Max, _ => OptimizationType::Satisfy };
    let obj = if matches!(opt, OptimizationType::Satisfy) { Exp::Number(0.0) } else { num_exp(r, &ds, c, c.depth) };
    (build(opt, obj, cons, &ds), ds)
}

/// Models built around ONE exact (two-sided) `min`/`max` with three or four operands among which a dominated one
/// (a constant or a variable whose range lies entirely on the losing side) stands BEFORE retained ones, operand
/// ranges that differ from each other, and contexts that need the exact value (equality, the "wrong" inequality
/// direction, the objective in the unfavourable direction, nesting under `abs`): index bookkeeping between the
/// operand list and the list retained after pruning, and requirement handling under non-monotone parents.
pub fn extreme_model(r: &mut Rng) -> (Model, Vec<VarDecl>) {
    let is_max = r.chance(1, 2);
    let nv = 2 + r.below(2);
    let names = ["x", "y", "w"];
    let mut ds: Vec<VarDecl> = vec![];
    for i in 0..nv {
        let lo = r.range(-5, 3) as f64;
        let width = r.range(1, 9) as f64;
        let ty = match r.below(4) {
            0 => VariableType::IntegerRange(lo as i32, (lo + width) as i32),
            1 if lo >= 0.0 => VariableType::NonNegativeReal(lo, lo + width),
            _ => VariableType::Real(lo, lo + width),
        };
        ds.push(VarDecl { name: names[i].to_string(), ty });
    }
    // the dominated operand: a constant below every lower bound (max) / above every upper bound (min), or a variable
    // declared on the losing side
    let (all_lo, all_hi) = ds.iter().fold((f64::INFINITY, f64::NEG_INFINITY), |(a, b), d| match d.ty {
        VariableType::IntegerRange(l, h) => (a.min(l as f64), b.max(h as f64)),
        VariableType::Real(l, h) | VariableType::NonNegativeReal(l, h) => (a.min(l), b.max(h)),
        VariableType::Boolean => (a.min(0.0), b.max(1.0)),
    });
    let dominated: Exp = if r.chance(2, 3) {
        Exp::Number(if is_max { all_lo - r.below(3) as f64 } else { all_hi + r.below(3) as f64 })
    } else {
        let (l, h) = if is_max { (all_lo - 6.0, all_lo - r.below(2) as f64) } else { (all_hi + r.below(2) as f64, all_hi + 6.0) };
        ds.push(VarDecl { name: "z".into(), ty: VariableType::Real(l, h) });
        Exp::Variable("z".into())
    };
    let mut ops: Vec<Exp> = (0..nv).map(|i| {
        let v = Exp::Variable(names[i].to_string());
        match r.below(5) { 0 => Exp::BinOp(BinOp::Add, Box::new(v), Box::new(Exp::Number(r.range(-2, 2) as f64))), 1 => Exp::BinOp(BinOp::Mul, Box::new(Exp::Number(*r.pick(&[2.0, 0.5, -1.0]))), Box::new(v)), _ => v }
    }).collect();
    let pos = r.below(ops.len()); // before at least one retained operand
    ops.insert(pos, dominated);
    let ext = if is_max { Exp::Max(ops) } else { Exp::Min(ops) };
    // a context that needs the exact value
    let subject = match r.below(4) {
        0 => Exp::Abs(Box::new(ext.clone())),
        1 => Exp::Abs(Box::new(Exp::BinOp(BinOp::Sub, Box::new(Exp::Abs(Box::new(Exp::Variable("x".into())))), Box::new(Exp::Number(2.0))))),
        _ => ext.clone(),
    };
    let k = r.range(all_lo as i64 - 1, all_hi as i64 + 1) as f64;
    let mut cons = vec![];
    let mut obj = Exp::Variable("x".into());
    let mut opt = if r.chance(1, 2) { OptimizationType::Min } else { OptimizationType::Max };
    match r.below(7) {
        6 => {
            // the SAME min/max twice: first where a one-sided lowering suffices (objective), then where its exact
            // value is needed (constraint in the other direction / under abs)
            opt = if is_max { OptimizationType::Min } else { OptimizationType::Max };
            obj = Exp::BinOp(BinOp::Add, Box::new(ext.clone()), Box::new(Exp::BinOp(BinOp::Add, Box::new(Exp::Variable("x".into())), Box::new(Exp::Variable("y".into())))));
            if r.chance(1, 2) {
                cons.push(Constraint::new(ext.clone(), if is_max { Comparison::GreaterOrEqual } else { Comparison::LessOrEqual }, Exp::Number(k), "again".into()));
            } else {
                cons.push(Constraint::new(Exp::Abs(Box::new(Exp::BinOp(BinOp::Sub, Box::new(ext.clone()), Box::new(Exp::Number(k))))), Comparison::GreaterOrEqual, Exp::Number(1.0), "again".into()));
            }
        }
        5 => {
            // a TINY negative scale (2^-20, below the 1e-5 float tolerance) on the non-affine term, in the direction
            // that needs the exact encoding after the sign flip
            opt = if is_max { OptimizationType::Min } else { OptimizationType::Max };
            let tiny = -(0.5f64.powi(20));
            let scaled = if r.chance(1, 2) { Exp::BinOp(BinOp::Mul, Box::new(Exp::Number(tiny)), Box::new(subject)) }
                         else { Exp::BinOp(BinOp::Div, Box::new(subject), Box::new(Exp::Number(1.0 / tiny))) };
            obj = Exp::BinOp(BinOp::Add, Box::new(scaled), Box::new(Exp::BinOp(BinOp::Mul, Box::new(Exp::Number(tiny)), Box::new(Exp::Variable("y".into())))));
        }
        0 => cons.push(Constraint::new(subject, Comparison::Equal, Exp::Number(k), "t".into())),
        1 => cons.push(Constraint::new(subject, if is_max { Comparison::GreaterOrEqual } else { Comparison::LessOrEqual }, Exp::Number(k), "".into())),
        2 => cons.push(Constraint::new(subject, if is_max { Comparison::LessOrEqual } else { Comparison::GreaterOrEqual }, Exp::Number(k), "".into())),
        3 => {
            // objective in the direction that needs the exact encoding, minus a pull on one operand
            opt = if is_max { OptimizationType::Max } else { OptimizationType::Min };
            obj = Exp::BinOp(BinOp::Sub, Box::new(subject), Box::new(Exp::BinOp(BinOp::Mul, Box::new(Exp::Number(2.0)), Box::new(Exp::Variable("y".into())))));
        }
        _ => {
            opt = if is_max { OptimizationType::Min } else { OptimizationType::Max };
            obj = Exp::BinOp(BinOp::Add, Box::new(subject), Box::new(Exp::Variable("y".into())));
        }
    }
    if r.chance(1, 2) { cons.push(Constraint::new(Exp::BinOp(BinOp::Add, Box::new(Exp::Variable("x".into())), Box::new(Exp::Variable("y".into()))), comparison(r), Exp::Number(r.range(-3, 6) as f64), "cap".into())); }
    (build(opt, obj, cons, &ds), ds)
}

/// An integer variable bounded by a row whose coefficient is not representable (`1.3 * i <= 9.1`: the quotient is one
/// ulp below an integer), with the optimum on that bound: rounding of inferred integer ranges within the tolerance.
pub fn integer_noise_model(r: &mut Rng) -> (Model, Vec<VarDecl>) {
    let a = *r.pick(&[1.3, 0.7, 1.1, 2.3, 0.3, 1.9]);
    let k = r.range(3, 9) as f64;
    let ds = vec![VarDecl { name: "i".into(), ty: VariableType::IntegerRange(0, 12) }, VarDecl { name: "y".into(), ty: VariableType::Real(0.0, 20.0) }];
    let i = || Exp::Variable("i".into());
    let mut cons = vec![Constraint::new(Exp::BinOp(BinOp::Mul, Box::new(Exp::Number(a)), Box::new(i())), Comparison::LessOrEqual, Exp::Number(a * k), "cap".into())];
    let obj = match r.below(3) {
        0 => Exp::Max(vec![i(), Exp::Number(k - 0.5)]),
        1 => Exp::BinOp(BinOp::Add, Box::new(i()), Box::new(Exp::Min(vec![Exp::Variable("y".into()), i()]))),
        _ => i(),
    };
    if r.chance(1, 2) { cons.push(Constraint::new(Exp::Variable("y".into()), Comparison::LessOrEqual, Exp::BinOp(BinOp::Add, Box::new(i()), Box::new(Exp::Number(0.5))), "".into())); }
    (build(OptimizationType::Max, obj, cons, &ds), ds)
}
