//! `roocverif explore <file>`: run every stage of the real pipeline on a source text and print what happens.
use indexmap::IndexMap;
use rooc::{Linearizer, RoocParser};

pub fn explore(src: &str) {
    let p = RoocParser::new(src.to_string());
    match p.format() { Ok(f) => println!("--- format\n{}", f), Err(e) => println!("--- format error: {:?}", e) }
    match p.type_check(&vec![], &IndexMap::new()) { Ok(()) => println!("--- type_check ok"), Err(e) => println!("--- type_check error: {}", e) }
    let model = match p.parse_and_transform(vec![], &IndexMap::new()) {
        Ok(m) => m,
        Err(e) => { println!("--- transform error: {}", e); return; }
    };
    println!("--- model\n{}", model);
    let lin = match Linearizer::linearize(model) {
        Ok(l) => l,
        Err(e) => { println!("--- linearize error: {:?}", e); return; }
    };
    println!("--- linear\n{}", lin);
    println!("--- lp\n{}", lin.to_lp_format());
    match rooc::auto_solver(&lin) { Ok(s) => println!("--- auto_solver\n{}", s), Err(e) => println!("--- auto_solver error: {:?}", e) }
    let g = |name: &str, f: &dyn Fn() -> String| {
        let r = std::panic::catch_unwind(std::panic::AssertUnwindSafe(|| f())).unwrap_or("PANIC".to_string());
        println!("--- {}: {}", name, r);
    };
    g("milp", &|| format!("{:?}", rooc::solve_milp_lp_problem(&lin).map(|s| s.value())));
    g("clarabel", &|| format!("{:?}", rooc::solve_real_lp_problem_clarabel(&lin).map(|s| s.value())));
    g("micro_lp", &|| format!("{:?}", rooc::solve_real_lp_problem_micro_lp(&lin).map(|s| s.value())));
    g("slow_simplex", &|| format!("{:?}", rooc::solve_real_lp_problem_slow_simplex(&lin, 1000).map(|s| s.value())));
}
