//! `roocverif explore <file>`: run every stage of the real pipeline on a source text and print what happens.
use indexmap::IndexMap;
use rooc::{Linearizer, RoocParser};

pub fn explore(src: &str) {
    let p = RoocParser::new(src.to_string());
    match p.format() { Ok(f) => println!("--- format\n{}", f), Err(e) => println!("--- format error: {:?}", e) }
    match p.type_check(&vec![], &IndexMap::new()) { Ok(()) => println!("--- type_check ok"), Err(e) => println!("--- type_check error: {}", e) }
    let model = match p.parse_and_transform(vec![], &IndexMap::new()) {
        Ok(m) => m,
        Err(e) => { println!("--- transform error: {}", e); return; }
    };
    println!("--- model\n{}", model);
    let lin = match Linearizer::linearize(model) {
        Ok(l) => l,
        Err(e) => { println!("--- linearize error: {:?}", e); return; }
    };
    println!("--- linear\n{}", lin);
    println!("--- lp\n{}", lin.to_lp_format());
    match rooc::auto_solver(&lin) { Ok(s) => println!("--- auto_solver\n{}", s), Err(e) => println!("--- auto_solver error: {:?}", e) }
}
