//! Tiny S-expression tree for check-side normalisations of `sx::model` output (C06).
#[derive(Clone, Debug, PartialEq)]
pub enum Sx { A(String), L(Vec<Sx>) }

pub fn parse(s: &str) -> Option<Sx> {
    let b: Vec<char> = s.chars().collect();
    let mut stack: Vec<Vec<Sx>> = vec![vec![]];
    let mut i = 0;
    while i < b.len() {
        let c = b[i];
        if c.is_whitespace() { i += 1; }
        else if c == '(' { stack.push(vec![]); i += 1; }
        else if c == ')' { let top = stack.pop()?; stack.last_mut()?.push(Sx::L(top)); i += 1; }
        else if c == '"' {
            let mut j = i + 1; let mut t = String::from("\"");
            while j < b.len() && b[j] != '"' { if b[j] == '\\' && j + 1 < b.len() { t.push(b[j]); j += 1; } t.push(b[j]); j += 1; }
            t.push('"');
            stack.last_mut()?.push(Sx::A(t)); i = j + 1;
        } else {
            let mut j = i; let mut t = String::new();
            while j < b.len() && !b[j].is_whitespace() && b[j] != '(' && b[j] != ')' { t.push(b[j]); j += 1; }
            stack.last_mut()?.push(Sx::A(t)); i = j;
        }
    }
    if stack.len() != 1 { return None; }
    let mut top = stack.pop()?;
    if top.len() == 1 { top.pop() } else { None }
}
pub fn print(x: &Sx) -> String {
    match x { Sx::A(s) => s.clone(), Sx::L(xs) => format!("({})", xs.iter().map(print).collect::<Vec<_>>().join(" ")) }
}
fn head(x: &Sx) -> Option<&str> { match x { Sx::L(xs) => match xs.first() { Some(Sx::A(h)) => Some(h), _ => None }, _ => None } }
fn is_bin(x: &Sx, op: &str) -> bool { matches!(x, Sx::L(xs) if xs.len() == 4 && head(x) == Some("bin") && xs[1] == Sx::A(op.into())) }
fn collect(x: Sx, op: &str, out: &mut Vec<Sx>) {
    if is_bin(&x, op) { if let Sx::L(mut xs) = x { let r = xs.pop().unwrap(); let l = xs.pop().unwrap(); collect(l, op, out); collect(r, op, out); } }
    else { out.push(x); }
}
/// * `(un neg (num X))` → `(num -X)`: a text cannot spell a negative literal other than with unary minus;
/// * chains of `add` (and of `mul`) are flattened to `(chain add t1 … tn)` keeping the order of the terms:
///   the nesting of a sum is not observable in a hand-written text either (`a + b + c`).
pub fn normalise(x: Sx) -> Sx {
    match x {
        Sx::A(_) => x,
        Sx::L(xs) => {
            let xs: Vec<Sx> = xs.into_iter().map(normalise).collect();
            let x = Sx::L(xs);
            if let Sx::L(v) = &x {
                if v.len() == 3 && v[0] == Sx::A("un".into()) && v[1] == Sx::A("neg".into()) {
                    if let Sx::L(n) = &v[2] { if n.len() == 2 && n[0] == Sx::A("num".into()) {
                        if let Sx::A(h) = &n[1] { if let Some(hex) = h.strip_prefix("#x") { if let Ok(bits) = u64::from_str_radix(hex, 16) {
                            return Sx::L(vec![Sx::A("num".into()), Sx::A(crate::sx::num(-f64::from_bits(bits)))]);
                        } } }
                    } }
                }
            }
            for op in ["add", "mul"] {
                if is_bin(&x, op) {
                    let mut out = vec![Sx::A("chain".into()), Sx::A(op.into())];
                    collect(x, op, &mut out);
                    // nested chains produced by the recursive normalisation are spliced in
                    let mut flat = vec![out[0].clone(), out[1].clone()];
                    for t in out.into_iter().skip(2) {
                        match &t { Sx::L(v) if v.len() >= 2 && v[0] == Sx::A("chain".into()) && v[1] == Sx::A(op.into()) => flat.extend(v[2..].iter().cloned()), _ => flat.push(t) }
                    }
                    return Sx::L(flat);
                }
            }
            x
        }
    }
}
pub fn normalise_str(s: &str) -> String { match parse(s) { Some(x) => print(&normalise(x)), None => format!("<unparsable {}>", s) } }
