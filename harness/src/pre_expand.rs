//! C06 — correspondence cases for the Lean model `Rooc/Pre/Expand.lean`.
use crate::case::Case;
use crate::rng::Rng;
pub fn model_cases(_r: &mut Rng, _n: usize) -> Vec<Case> { vec![] }
