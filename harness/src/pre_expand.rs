//! C06 — correspondence cases for the Lean model `Rooc/Pre/Expand.lean`: the aggregation folds of
//! `into_exp` (through small programs whose data is literal), `range`, `enumerate`, `zip`, the set
//! functions (through the names of quantified constraints), `flatten_compound_variable` and
//! `IterableKind::read` (direct calls).
use crate::case::Case;
use crate::rng::Rng;
use crate::sx;
use indexmap::IndexMap;
use rooc::model_transformer::TransformerContext;
use rooc::{GraphNode, IterableKind, Primitive, RoocParser};
use std::panic::{catch_unwind, AssertUnwindSafe};

fn compile(src: &str) -> Result<rooc::model_transformer::Model, String> {
    match catch_unwind(AssertUnwindSafe(|| RoocParser::new(src.to_string()).parse_and_transform(vec![], &IndexMap::new()))) {
        Ok(r) => r,
        Err(_) => Err("panic".into()),
    }
}
fn mk(req: String, imp: String, tags: &[&str], show: String) -> Case {
    let mut c = Case::default();
    c.nontrivial = imp.starts_with("(ok");
    c.tags = tags.iter().map(|s| s.to_string()).collect();
    c.tags.push("stream:expand-model".into());
    c.show = format!("{}\n=> {}", show, imp);
    c.req = req;
    c.imp = imp;
    c
}
fn err_class(e: &str) -> String {
    // parse_and_transform renders the error: `[Variant] …`
    match (e.find('['), e.find(']')) { (Some(a), Some(b)) if a < b => format!("(err {})", &e[a + 1..b]), _ => "(err ?)".into() }
}

fn fold_case(kind: &str, n: usize, scoped: bool) -> Case {
    let logic = matches!(kind, "all" | "any" | "xor");
    let v = if logic { "b" } else { "x" };
    let agg = if scoped { format!("{}(i in 0..{}) {{ {}_i }}", kind, n, v) } else { format!("{}{{ {} }}", kind, (0..n).map(|i| format!("{}_{}", v, i)).collect::<Vec<_>>().join(", ")) };
    let src = format!("min 1\ns.t.\n    {}{}\ndefine\n    x_i as Real(0, 9) for i in 0..8\n    b_i as Boolean for i in 0..8\n", agg, if logic { "" } else { " <= 1" });
    let leaves = (0..n).map(|i| format!("(var \"{}_{}\")", v, i)).collect::<Vec<_>>().join(" ");
    let req = format!("fold {} ({})", kind, leaves).replace("( ", "(");
    let imp = match compile(&src) {
        Ok(m) => format!("(ok {})", sx::exp(m.constraints()[0].lhs())),
        Err(e) => err_class(&e),
    };
    let oracle = if imp.starts_with("(ok") { format!("fold-value {} ({}) {}", kind, leaves, imp) } else { String::new() };
    let mut c = mk(req, imp, &[&format!("fold:{}", kind), &format!("fold-size:{}", n.min(4)), if scoped { "fold-form:scoped" } else { "fold-form:block" }], src);
    c.oracle = oracle;
    c
}

fn names_of(m: &rooc::model_transformer::Model) -> Vec<String> { m.constraints().iter().map(|c| c.name().to_string()).collect() }
fn lit(i: i64) -> String { if i < 0 { format!("(0 - {})", -i) } else { i.to_string() } }
fn arr(xs: &[i64]) -> String { format!("[{}]", xs.iter().map(|x| x.to_string()).collect::<Vec<_>>().join(", ")) }
fn farr(xs: &[f64]) -> String { format!("[{}]", xs.iter().map(|x| crate::pre_gen::fmt_f64(*x)).collect::<Vec<_>>().join(", ")) }
fn list_sx(xs: &[i64]) -> String { format!("({})", xs.iter().map(|x| x.to_string()).collect::<Vec<_>>().join(" ")) }

/// the values a quantified constraint iterates over are read back from the constraint names `c_<v>…`
fn iter_case(tag: &str, req: String, iter_src: &str, vars: &str, name_ix: &str, consts: &str) -> Case {
    let src = format!("min 1\ns.t.\n    z >= 0\n    c{}: z >= 0 for {} in {}\n{}define\n    z as Real\n", name_ix, vars, iter_src, if consts.is_empty() { String::new() } else { format!("where\n{}", consts) });
    let imp = match compile(&src) {
        Ok(m) => { let rows: Vec<String> = names_of(&m).into_iter().skip(1).map(|n| format!("({})", n.split('_').skip(1).collect::<Vec<_>>().join(" "))).collect(); format!("(ok {})", rows.join(" ")).replace("(ok )", "(ok)") }
        Err(e) => err_class(&e),
    };
    mk(req, imp, &[tag], src)
}

fn prim_ix(p: &Primitive) -> String {
    match p {
        Primitive::Number(x) => format!("(numtext {})", sx::q(&x.to_string())),
        Primitive::Integer(i) => format!("(int {})", i),
        Primitive::PositiveInteger(u) => format!("(pint {})", u),
        Primitive::Boolean(b) => format!("(bool {})", b),
        Primitive::String(s) => format!("(str {})", sx::q(s)),
        Primitive::GraphNode(n) => format!("(node {})", sx::q(n.name())),
        other => format!("(other {})", crate::pre_reflect::kind_sx(&other.get_type())),
    }
}

#[derive(Clone)]
enum T { Leaf(i64), Node(Vec<T>) }
fn gen_tree(r: &mut Rng, depth: u32) -> T {
    // homogeneous levels only: `IterableKind` cannot mix scalars and iterables
    let n = r.below(4);
    if depth == 0 { T::Node((0..n).map(|_| T::Leaf(r.range(0, 9))).collect()) } else { T::Node((0..n).map(|_| gen_tree(r, depth - 1)).collect()) }
}
fn tree_sx(t: &T) -> String { match t { T::Leaf(v) => format!("(leaf {})", v), T::Node(cs) => format!("(node{})", cs.iter().map(|c| format!(" {}", tree_sx(c))).collect::<String>()) } }
fn tree_iter(t: &T) -> IterableKind {
    match t {
        T::Node(cs) => {
            if cs.iter().all(|c| matches!(c, T::Leaf(_))) { IterableKind::Integers(cs.iter().map(|c| if let T::Leaf(v) = c { *v } else { 0 }).collect()) }
            else { IterableKind::Iterables(cs.iter().map(tree_iter).collect()) }
        }
        T::Leaf(v) => IterableKind::Integers(vec![*v]),
    }
}
fn prim_tree(p: &Primitive) -> String {
    fn it(i: &IterableKind) -> String {
        match i {
            IterableKind::Integers(v) => format!("(node{})", v.iter().map(|x| format!(" (leaf {})", x)).collect::<String>()),
            IterableKind::Iterables(v) => format!("(node{})", v.iter().map(|x| format!(" {}", it(x))).collect::<String>()),
            _ => "(unsupported)".into(),
        }
    }
    match p { Primitive::Undefined => "undefined".into(), Primitive::Integer(v) => format!("(leaf {})", v), Primitive::Iterable(i) => it(i), _ => "(unsupported)".into() }
}

pub fn model_cases(r: &mut Rng, n: usize) -> Vec<Case> {
    let mut out = vec![];
    // ---- folds: every kind × sizes 0..6, scoped and block forms
    for kind in ["sum", "prod", "avg", "min", "max", "all", "any", "xor"] {
        for k in 0..7 { out.push(fold_case(kind, k, true)); if k > 0 && kind != "sum" && kind != "prod" { out.push(fold_case(kind, k, false)); } }
    }
    for kind in ["min", "max", "avg", "abs", "all", "any", "xor"] { out.push(fold_case(kind, 1, false)); }
    out.push(fold_case("abs", 2, false));
    // ---- ranges (boundary pairs exhaustively, then random)
    let mut pairs: Vec<(i64, i64)> = vec![];
    for lo in -3..=3 { for hi in -3..=4 { pairs.push((lo, hi)); } }
    for _ in 0..n / 8 { pairs.push((r.range(-20, 20), r.range(-20, 25))); }
    for (lo, hi) in pairs {
        for inc in [false, true] {
            out.push(iter_case(if inc { "range:inclusive" } else { "range:exclusive" }, format!("range {} {} {}", lo, hi, inc),
                &format!("{}{}{}", lit(lo), if inc { "..=" } else { ".." }, lit(hi)), "i", "_i", ""));
        }
    }
    // ---- enumerate / zip / set functions over literal arrays
    for _ in 0..n / 8 {
        let a: Vec<i64> = (0..r.below(5)).map(|_| r.range(0, 9)).collect();
        let b: Vec<i64> = (0..r.below(5)).map(|_| r.range(0, 9)).collect();
        let c: Vec<i64> = (0..r.below(4)).map(|_| r.range(0, 9)).collect();
        if !a.is_empty() { out.push(iter_case("enumerate", format!("enumerate {}", list_sx(&a)), "enumerate(A)", "(v, i)", "_v_i", &format!("    let A = {}\n", arr(&a)))); }
        if !a.is_empty() && !b.is_empty() {
            out.push(iter_case("zip:2", format!("zip {} {}", list_sx(&a), list_sx(&b)), "zip(A, B)", "(v, w)", "_v_w", &format!("    let A = {}\n    let B = {}\n", arr(&a), arr(&b))));
            if !c.is_empty() { out.push(iter_case("zip:3", format!("zip {} {} {}", list_sx(&a), list_sx(&b), list_sx(&c)), "zip(A, B, C)", "(v, w, u)", "_v_w_u", &format!("    let A = {}\n    let B = {}\n    let C = {}\n", arr(&a), arr(&b), arr(&c)))); }
            for f in ["union", "intersection", "difference"] {
                out.push(iter_case(&format!("setfn:{}", f), format!("setfn {} {} {}", f, list_sx(&a), list_sx(&b)), &format!("{}(A, B)", f), "v", "_v", &format!("    let A = {}\n    let B = {}\n", arr(&a), arr(&b))));
            }
            // numbers compared by value across kinds: an integer array against a float array
            let fb: Vec<f64> = b.iter().map(|x| *x as f64 + if r.chance(1, 4) { 0.5 } else { 0.0 }).collect();
            let req = format!("setfn-mixed intersection {} ({})", list_sx(&a), fb.iter().map(|x| sx::num(*x)).collect::<Vec<_>>().join(" "));
            out.push(iter_case("setfn:mixed-kinds", req, "intersection(A, B)", "v", "_v", &format!("    let A = {}\n    let B = {}\n", arr(&a), farr(&fb))));
        }
    }
    // ---- flatten_compound_variable (direct)
    let ctx = TransformerContext::default();
    let frag_pool: Vec<Primitive> = vec![Primitive::Integer(0), Primitive::Integer(-7), Primitive::Integer(12), Primitive::Integer(3), Primitive::PositiveInteger(23), Primitive::PositiveInteger(1),
        Primitive::Number(1.0), Primitive::Number(2.5), Primitive::Number(-0.0), Primitive::Number(1e21), Primitive::Number(1e-7), Primitive::Number(f64::NAN), Primitive::Number(f64::INFINITY),
        Primitive::Boolean(true), Primitive::Boolean(false), Primitive::String("a".into()), Primitive::String("a_b".into()), Primitive::String("".into()), Primitive::String("1".into()), Primitive::String("T".into()),
        Primitive::GraphNode(GraphNode::new("A".into(), vec![])), Primitive::Undefined, Primitive::Iterable(IterableKind::Integers(vec![1])), Primitive::Tuple(rooc::Tuple::new(vec![]))];
    for i in 0..n / 2 {
        let k = if i < 30 { i % 4 } else { 1 + r.below(3) };
        let frags: Vec<Primitive> = (0..k).map(|_| r.pick(&frag_pool).clone()).collect();
        let name = r.pick(&["x", "y_1", "", "$abs"]).to_string();
        let imp = match ctx.flatten_compound_variable(&name, &frags) {
            Ok(s) => format!("(ok {})", sx::q(&s)),
            Err(e) => { let d = format!("{:?}", e.base_error()); format!("(err {})", d.split(|c: char| !c.is_alphanumeric()).next().unwrap_or("")) }
        };
        let req = format!("flatten {} ({})", sx::q(&name), frags.iter().map(prim_ix).collect::<Vec<_>>().join(" "));
        out.push(mk(req.clone(), imp, &["flatten"], req));
    }
    // ---- IterableKind::read (direct)
    for _ in 0..n / 2 {
        let dd = r.below(3) as u32; let t = gen_tree(r, dd);
        let k = r.below(4);
        let idx: Vec<usize> = (0..k).map(|_| r.below(4)).collect();
        let imp = match catch_unwind(AssertUnwindSafe(|| tree_iter(&t).read(idx.clone()))) {
            Ok(Ok(p)) => format!("(ok {})", prim_tree(&p)),
            Ok(Err(e)) => { let d = format!("{:?}", e.base_error()); format!("(err {})", d.split(|c: char| !c.is_alphanumeric()).next().unwrap_or("")) }
            Err(_) => "(panic)".into(),
        };
        let req = format!("read {} ({})", tree_sx(&t), idx.iter().map(|x| x.to_string()).collect::<Vec<_>>().join(" "));
        out.push(mk(req.clone(), imp, &["read", &format!("read-depth:{}", k)], req));
    }
    out
}
